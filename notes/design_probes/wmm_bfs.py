import numpy as np, warnings, datetime, hashlib, collections, time, types
warnings.simplefilter('ignore')
import ahrs.utils.wmm as W
from ahrs.utils.wmm import WMM
# clock shim
class _M(type):
    def __instancecheck__(cls,inst): return isinstance(inst,_real_date)
_real_date=datetime.date
class _D(datetime.date,metaclass=_M):
    @classmethod
    def today(cls): return cls(2026,3,1)
shim=types.SimpleNamespace(date=_D, **{k:getattr(datetime,k) for k in ('datetime','timedelta')})
W.datetime=shim
def canon(o):
    h=hashlib.sha1()
    for k in sorted(o.__dict__):
        v=o.__dict__[k]
        h.update(k.encode())
        if isinstance(v,np.ndarray): h.update(v.tobytes())
        else: h.update(repr(v).encode())
    return h.hexdigest()
ctors=[dict(date=d,latitude=la,longitude=lo,height=0.0,frame=f) for d in (None,2015.0,2019.999,2020.0,2022.5,2025.0) for (la,lo) in ((10.0,20.0),(0.0,20.0),(10.0,0.0),(90.0,0.0)) for f in ('NED','ENU')]
places=[(10.0,20.0),(0.0,20.0),(10.0,0.0),(90.0,0.0),(-90.0,50.0),(45.0,180.0),(45.0,-180.0)]
dates=[2015.0,2019.999,2022.5,2025.0,_D(2021,7,1),None,'omit']
ops=[('field',p,d) for p in places for d in dates]
def apply(o,op):
    _,(la,lo),d=op
    if d=='omit': o.magnetic_field(la,lo,0.0)
    else: o.magnetic_field(la,lo,0.0,date=d)
def build(hist):
    o=WMM(**hist[0])
    for op in hist[1:]: apply(o,op)
    return o
def expected(o,la,lo,frame):
    f=WMM(frame=frame) if False else WMM(latitude=1.0,longitude=1.0,frame=frame)
    f.magnetic_field(la,lo,0.0,date=float(o.date_dec))
    return f
t0=time.time()
seen={};frontier=collections.deque();viol=collections.Counter();trans=0
for c in ctors:
    o=build([c]); k=canon(o)
    if k not in seen: seen[k]=[c]; frontier.append([c])
maxd=3
while frontier:
    hist=frontier.popleft()
    if len(hist)-1>=maxd: continue
    for op in ops:
        o=build(hist+[op]); trans+=1
        # oracle
        la,lo=op[1]
        exp=expected(o,la,lo,o.frame)
        ok=all(abs(o.magnetic_elements[k]-exp.magnetic_elements[k])<1e-6 for k in 'XYZ')
        if not ok: viol[(op[2] if not isinstance(op[2],datetime.date) else 'dateobj')]+=1; continue   # do not expand violating states
        k=canon(o)
        if k not in seen: seen[k]=hist+[op]; frontier.append(hist+[op])
print('states',len(seen),'transitions',trans,'viol',dict(viol),'time',time.time()-t0)
