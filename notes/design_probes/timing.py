import numpy as np, time, warnings
warnings.simplefilter('ignore')
import ahrs
from ahrs import Quaternion, DCM
from ahrs.filters import *
from ahrs.utils.wmm import WMM
def t(f,n=2000):
    t0=time.perf_counter()
    for _ in range(n): f()
    return (time.perf_counter()-t0)/n*1e6
q=np.array([.5,.5,.5,.5]); v=np.array([.1,.2,.3]); a=np.array([.1,.2,.9]); m=np.array([.5,.1,.8])
print('Quaternion()',t(lambda:Quaternion(q)))
Q=Quaternion(q); print('to_DCM',t(lambda:Q.to_DCM()),'product',t(lambda:Q.product(q)))
print('DCM(R)',t(lambda:DCM(np.eye(3))))
f=Madgwick(); print('Madgwick MARG',t(lambda:f.updateMARG(q,v,a,m)))
f=Mahony(); print('Mahony MARG',t(lambda:f.updateMARG(q,v,a,m)))
f=EKF(); print('EKF IMU',t(lambda:f.update(q,v,a)))
f=AQUA(); print('AQUA MARG',t(lambda:f.updateMARG(q,v,a,m)))
f=ROLEQ(); print('ROLEQ',t(lambda:f.update(q,v,a,m)))
f=Fourati(); print('Fourati',t(lambda:f.update(q,v,a,m)))
print('FKF 100',t(lambda:FKF(np.tile(v,(100,1)),np.tile(a,(100,1)),np.tile(m,(100,1))),20)/100)
print('OLEQ',t(lambda:OLEQ().estimate(a,m),200))
print('QUEST',t(lambda:QUEST(magnetic_dip=60.).estimate(a,m),500))
w=WMM(); print('WMM field',t(lambda:w.magnetic_field(10.,20.,1.,date=2021.5),200))
print('WMM ctor',t(lambda:WMM(date=2021.5,latitude=10.,longitude=20.),100))
print('import filters construct EKF()',t(lambda:EKF(magnetic_ref=60.0),200), 'EKF() default (WMM inside)',t(lambda:EKF(),50))
