import numpy as np, itertools, warnings
warnings.simplefilter('ignore')
import ahrs
from ahrs import Quaternion, QuaternionArray, DCM
from ahrs.common import orientation as O
from grp import *
def Rref(q):
    w,x,y,z=q
    return np.array([[1-2*(y*y+z*z),2*(x*y-w*z),2*(x*z+w*y)],[2*(x*y+w*z),1-2*(x*x+z*z),2*(y*z-w*x)],[2*(x*z-w*y),2*(w*x+y*z),1-2*(x*x+y*y)]])
def axang(ax,ang):
    ax=np.array(ax,float); ax/=np.linalg.norm(ax)
    return np.r_[np.cos(ang/2), np.sin(ang/2)*ax]
methods=[('shepperd',{}),('hughes',{}),('chiaverini',{}),('itzhack',{'version':1}),('itzhack',{'version':2}),('itzhack',{'version':3}),('sarabandi',{})]
axes=[v for v in itertools.product((-1,0,1),repeat=3) if any(v)]+[(1,2,3),(-3,1,2),(0.2,-0.7,0.1)]
angles=[0.0]+[10.0**-k for k in range(1,13)]+[np.pi-10.0**-k for k in range(1,13)]+[np.pi,1.0,2.0,3.0,-1.0,-2.5, np.pi/2, 2*np.pi/3]
res={}
for (m,kw) in methods:
    worst={}
    for ax in axes:
        for ang in angles:
            q=axang(ax,ang); R=Rref(q)
            try:
                qq=DCM(R).to_quaternion(method=m,**kw)
                qq=np.array(qq)
                if not np.all(np.isfinite(qq)) or np.iscomplexobj(qq):
                    err=np.inf
                else:
                    err=max(abs(Rref(qq)-R).max(), abs(np.linalg.norm(qq)-1))
            except Exception as e:
                err=f'EXC {type(e).__name__}'
            key=ang
            if isinstance(err,str): worst[key]=err
            else:
                if not isinstance(worst.get(key,0),str): worst[key]=max(worst.get(key,0),err)
    print(m,kw)
    for k,v in worst.items():
        if isinstance(v,str) or v>1e-9: print('   ang',k,'err',v)
