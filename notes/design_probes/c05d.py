import sys; sys.path.insert(0,'/tmp/scratch/r2')
import numpy as np, warnings, itertools, multiprocessing as mp
warnings.simplefilter('ignore')
import ahrs
from ahrs.filters import *
from ahrs import Quaternion
def Rref(q):
    w,x,y,z=q
    return np.array([[1-2*(y*y+z*z),2*(x*y-w*z),2*(x*z+w*y)],[2*(x*y+w*z),1-2*(x*x+z*z),2*(y*z-w*x)],[2*(x*z-w*y),2*(w*x+y*z),1-2*(x*x+y*y)]])
def qmul(p,q):
    pw,px,py,pz=p; qw,qx,qy,qz=q
    return np.array([pw*qw-px*qx-py*qy-pz*qz, pw*qx+px*qw+py*qz-pz*qy, pw*qy-px*qz+py*qw+pz*qx, pw*qz+px*qy-py*qx+pz*qw])
cj=lambda q:q*np.array([1,-1,-1,-1])
def ang(q1,q2): return np.degrees(2*np.arccos(min(1,abs(q1@q2))))
def tilt(q1,q2,g):
    return np.degrees(np.arccos(np.clip((Rref(q1).T@g)@(Rref(q2).T@g),-1,1)))
def axq(ax,a): ax=np.array(ax,float)/np.linalg.norm(ax); return np.r_[np.cos(a/2),np.sin(a/2)*ax]
dip=60.; c,s=np.cos(np.radians(dip)),np.sin(np.radians(dip))
Z=np.array([0,0,1.])
# name: (g_ref, m_ref or None, state_is_conj, runner(gyr,acc,mag,q0)->Q)
def stream(upd,N,q0,*series):
    Q=np.zeros((N,4)); Q[0]=q0
    for t in range(1,N): Q[t]=upd(Q[t-1],*[x[t] for x in series])
    return Q
CFG={
 'Madgwick IMU':(Z,None,False,lambda g,a,m,q0:Madgwick(g,a,q0=q0).Q),
 'Madgwick MARG':(Z,np.array([c,0,s]),False,lambda g,a,m,q0:stream(Madgwick(gain=0.041).updateMARG,len(g),q0,g,a,m)),
 'Mahony IMU':(Z,None,False,lambda g,a,m,q0:Mahony(g,a,q0=q0).Q),
 'Mahony MARG':(Z,np.array([0,c,s]),False,lambda g,a,m,q0:Mahony(g,a,m,q0=q0).Q),
 'EKF IMU':(Z,None,False,lambda g,a,m,q0:EKF(g,a,q0=q0).Q),
 'EKF MARG NED':(Z,np.array([c,0,s]),False,lambda g,a,m,q0:EKF(g,a,m,q0=q0,magnetic_ref=dip).Q),
 'EKF MARG ENU':(-Z,np.array([0,c,-s]),False,lambda g,a,m,q0:EKF(g,a,m,q0=q0,magnetic_ref=dip,frame='ENU').Q),
 'AQUA IMU':(Z,None,True,lambda g,a,m,q0:AQUA(a,gyr=g,q0=q0).Q),
 'AQUA MARG':(Z,np.array([c,0,s]),True,lambda g,a,m,q0:AQUA(a,m,g,q0=q0).Q),
 'ROLEQ NED':(-Z,np.array([s,0,c]),False,lambda g,a,m,q0:ROLEQ(g,a,m,magnetic_ref=dip,q0=q0).Q),
 'ROLEQ ENU':(Z,np.array([0,c,-s]),False,lambda g,a,m,q0:ROLEQ(g,a,m,magnetic_ref=dip,frame='ENU',q0=q0).Q),
 'UKF':(Z,None,False,lambda g,a,m,q0:UKF(g,a,q0=q0).Q),
 'FKF':(Z,np.array([c,0,s]),False,'first'),
 'Compl MARG':(Z,np.array([c,0,s]),False,lambda g,a,m,q0:np.array(Complementary(g,a,m,w0=Quaternion(q0).to_angles()).Q)),
 'Compl IMU':(Z,None,False,lambda g,a,m,q0:np.array(Complementary(g,a,w0=Quaternion(q0).to_angles()).Q)),
}
TRUTHS=[np.array([0.8,0.3,-0.4,0.33]),np.array([0.1,0.9,0.2,-0.3])]
TRUTHS=[q/np.linalg.norm(q) for q in TRUTHS]
def job(args):
    name,ti,ax,errdeg,N=args
    gref,mref,isconj,run=CFG[name]
    qt=TRUTHS[ti]; Rt=Rref(qt)
    q0=qmul(qt,axq(ax,np.radians(errdeg)))
    pat=[np.array([1e-3,0,0]),np.array([0,-1e-3,1e-3])]
    gyr=np.array([pat[t%2] for t in range(N)])
    acc=np.tile(Rt.T@gref*9.8,(N,1)); mag=np.tile(Rt.T@(mref if mref is not None else np.array([c,0,s]))*45,(N,1))
    try:
        if run=='first':
            R0=Rref(q0); acc[0]=R0.T@gref*9.8; mag[0]=R0.T@mref*45
            Q=FKF(gyr,acc,mag).Q
        else:
            Q=np.array(run(gyr,acc,mag,cj(q0) if isconj else q0))
    except Exception as e:
        return (name,ti,ax,errdeg,'EXC '+type(e).__name__,None,None,None)
    if isconj: Q=Q*np.array([1,-1,-1,-1])
    Qn=Q/np.linalg.norm(Q,axis=1)[:,None]
    f=(lambda q:tilt(q,qt,gref)) if mref is None else (lambda q:ang(q,qt))
    errs=np.array([f(Qn[t]) for t in range(0,N,max(1,N//400))])
    idx=np.arange(0,N,max(1,N//400))
    below=np.where(errs<0.5)[0]
    t05=int(idx[below[0]]) if len(below) else None
    return (name,ti,ax,errdeg,round(float(errs[0]),2),t05,round(float(errs[-40:].max()),4),round(float(errs.max()),1))
if __name__=='__main__':
    jobs=[(n,ti,ax,e,20000 if n.startswith('Madgwick') else 6000) for n in CFG for ti in (0,1) for ax in ((1,0,0),(0,0,1),(1,2,-1.5)) for e in (30,150,175)]
    with mp.Pool(16) as p: res=p.map(job,jobs)
    import collections
    by=collections.defaultdict(list)
    for r in res: by[r[0]].append(r)
    for n,rs in by.items():
        exc=[r for r in rs if isinstance(r[4],str)]
        ok=[r for r in rs if not isinstance(r[4],str)]
        t05=[r[5] for r in ok]
        print(f'{n:14s} runs={len(rs)} exc={len(exc)} ({set(r[4] for r in exc)}) never<0.5deg={sum(t is None for t in t05)} max_t05={max([t for t in t05 if t is not None],default=None)} worst_final={max([r[6] for r in ok],default=None)} max_transient={max([r[7] for r in ok],default=None)}')
        for r in ok:
            if r[5] is None or r[6]>0.5: print('     ',r)
