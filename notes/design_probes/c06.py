import numpy as np, warnings
warnings.simplefilter('ignore')
import ahrs
from ahrs.filters import *
rng=np.random.default_rng(5)
N=8
gyr=rng.normal(size=(N,3))*0.5; acc=rng.normal(size=(N,3))*9.8; mag=rng.normal(size=(N,3))*45
def stream(upd,q0,*series,**kw):
    Q=np.zeros((N,4)); Q[0]=q0
    for t in range(1,N): Q[t]=upd(Q[t-1],*[s[t] for s in series],**kw)
    return Q
def cmp(name,batch,mk,updname,*series,**kw):
    try:
        np.random.seed(1); B=np.array(batch())
        np.random.seed(1); f=mk(); 
        # consume same RNG draws? (ROLEQ's initial OLEQ estimate uses RNG if q0 None)
        S=stream(getattr(f,updname),B[0],*series,**kw)
        print(f'{name:22s} maxdiff {np.abs(B-S).max():.3e}  bit-identical={np.array_equal(B,S)}')
    except Exception as e:
        print(f'{name:22s} EXC {type(e).__name__}: {e}')
cmp('Madgwick IMU',lambda:Madgwick(gyr,acc).Q,lambda:Madgwick(),'updateIMU',gyr,acc)
cmp('Madgwick MARG',lambda:Madgwick(gyr,acc,mag).Q,lambda:Madgwick(),'updateMARG',gyr,acc,mag)
cmp('Mahony IMU',lambda:Mahony(gyr,acc).Q,lambda:Mahony(),'updateIMU',gyr,acc)
cmp('Mahony MARG',lambda:Mahony(gyr,acc,mag).Q,lambda:Mahony(),'updateMARG',gyr,acc,mag)
cmp('EKF IMU',lambda:EKF(gyr,acc).Q,lambda:EKF(),'update',gyr,acc)
cmp('EKF MARG',lambda:EKF(gyr,acc,mag).Q,lambda:EKF(),'update',gyr,acc,mag)
cmp('AQUA IMU',lambda:AQUA(acc,gyr=gyr).Q,lambda:AQUA(),'updateIMU',gyr,acc)
cmp('AQUA MARG',lambda:AQUA(acc,mag,gyr).Q,lambda:AQUA(),'updateMARG',gyr,acc,mag)
cmp('AQUA MARG adaptive',lambda:AQUA(acc,mag,gyr,adaptive=True).Q,lambda:AQUA(adaptive=True),'updateMARG',gyr,acc,mag)
cmp('Fourati',lambda:Fourati(gyr,acc,mag).Q,lambda:Fourati(),'update',gyr,acc,mag)
cmp('ROLEQ',lambda:ROLEQ(gyr,acc,mag).Q,lambda:ROLEQ(),'update',gyr,acc,mag)
cmp('AngularRate closed',lambda:AngularRate(gyr).Q,lambda:AngularRate(),'update',gyr)
cmp('AngularRate series',lambda:AngularRate(gyr,method='series',order=3).Q,lambda:AngularRate(),'update',gyr,method='series',order=3)
try:
    import copy
    # UKF
    cmp('UKF',lambda:UKF(gyr,acc).Q,lambda:UKF(),'update',gyr,acc)
except Exception as e: print(e)
# Madgwick gain selection: Madgwick() without mag uses gain_imu for updateMARG!
print(Madgwick().gain, Madgwick(gyr,acc,mag).gain)
