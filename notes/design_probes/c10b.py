import numpy as np, warnings, itertools
warnings.simplefilter('ignore')
from ahrs import DCM
for t in [10.0**-k for k in range(1,13)]+[np.pi-1e-3,np.pi-1e-6,np.pi-1e-9]:
    R=DCM(axang=(np.array([1.,2,3]),t))
    a2,t2=R.to_axisangle()
    print(t, a2, t2, np.linalg.norm(a2))
