import sys; sys.path.insert(0,'/tmp/scratch/r2')
import numpy as np, warnings, itertools
warnings.simplefilter('ignore')
import ahrs
from ahrs.filters import *
def Rref(q):
    w,x,y,z=q
    return np.array([[1-2*(y*y+z*z),2*(x*y-w*z),2*(x*z+w*y)],[2*(x*y+w*z),1-2*(x*x+z*z),2*(y*z-w*x)],[2*(x*z-w*y),2*(w*x+y*z),1-2*(x*x+y*y)]])
def qmul(p,q):
    pw,px,py,pz=p; qw,qx,qy,qz=q
    return np.array([pw*qw-px*qx-py*qy-pz*qz, pw*qx+px*qw+py*qz-pz*qy, pw*qy-px*qz+py*qw+pz*qx, pw*qz+px*qy-py*qx+pz*qw])
def ang(q1,q2): return np.degrees(2*np.arccos(min(1,abs(q1@q2))))
dip=60.; cd,sd=np.cos(np.radians(dip)),np.sin(np.radians(dip))
qt=np.array([0.8,0.3,-0.4,0.33]); qt/=np.linalg.norm(qt)
conj=lambda q:q*np.array([1,-1,-1,-1])
N=400
gyr=np.tile([1e-4,-1e-4,5e-5],(N,1))
# candidate conventions: body meas = R(qt)^T ref  (dir 'T') or R(qt) ref (dir 'N'); filter state q expected = qt ('T') 
gcands={'+z':np.array([0,0,1.]),'-z':np.array([0,0,-1.])}
mcands={'[c,0,s]':np.array([cd,0,sd]),'[c,0,-s]':np.array([cd,0,-sd]),'[s,0,c]':np.array([sd,0,cd]),'[0,c,-s]':np.array([0,cd,-sd]),'[0,c,s]':np.array([0,cd,sd])}
def runs():
    yield 'Madgwick MARG', lambda a,m,q0:(lambda f:[f.updateMARG(q0,gyr[0],a,m)])(Madgwick(gain=0.041)), None
fl={
 'Madgwick MARG':lambda a,m,q0: stream(Madgwick(gain=0.041).updateMARG,q0,a,m),
 'Mahony MARG':lambda a,m,q0: stream(Mahony().updateMARG,q0,a,m),
 'EKF MARG NED':lambda a,m,q0: stream2(EKF(np.zeros((2,3)),np.ones((2,3)),np.ones((2,3))*[1,0,1],magnetic_ref=dip,frame='NED'),q0,a,m),
 'EKF MARG ENU':lambda a,m,q0: stream2(EKF(np.zeros((2,3)),np.ones((2,3)),np.ones((2,3))*[1,0,1],magnetic_ref=dip,frame='ENU'),q0,a,m),
 'AQUA MARG':lambda a,m,q0: stream(AQUA().updateMARG,q0,a,m),
 'ROLEQ NED':lambda a,m,q0: stream(ROLEQ(magnetic_ref=dip,frame='NED').update,q0,a,m),
 'ROLEQ ENU':lambda a,m,q0: stream(ROLEQ(magnetic_ref=dip,frame='ENU').update,q0,a,m),
 'Fourati':lambda a,m,q0: stream(Fourati(magnetic_dip=dip).update,q0,a,m),
}
def stream(upd,q0,a,m):
    q=q0
    for t in range(N): q=np.array(upd(q,gyr[t],a,m))
    return q
def stream2(f,q0,a,m):
    q=q0
    for t in range(N): q=np.array(f.update(q,gyr[t],a,m))
    return q
for name,f in fl.items():
    hits=[]
    for gk,g in gcands.items():
        for mk,m in mcands.items():
            for dirn in ('state=qt','state=conj(qt)'):
                R=Rref(qt)
                a=R.T@g*9.8; mg=R.T@m*40
                q0=qt if dirn=='state=qt' else conj(qt)
                try:
                    q=f(a,mg,q0.copy()); e=ang(q/np.linalg.norm(q),q0)
                except Exception as ex: e=999
                if e<0.05: hits.append((gk,mk,dirn,round(e,5)))
    print(name,hits)
