import numpy as np, warnings, math
warnings.simplefilter('ignore')
import ahrs
from ahrs.utils.wmm import WMM
def load(path):
    g={};h={};gd={};hd={}
    lines=open(path).read().split('\n')
    epoch=float(lines[0].split()[0])
    for ln in lines[1:]:
        p=ln.split()
        if len(p)!=6: continue
        n,m=int(p[0]),int(p[1])
        g[n,m],h[n,m],gd[n,m],hd[n,m]=map(float,p[2:])
    return epoch,g,h,gd,hd
def schmidt_P(nmax,theta):
    # Schmidt semi-normalized associated Legendre P_n^m(cos theta) and dP/dtheta, direct recursion
    c,s=math.cos(theta),math.sin(theta)
    P=np.zeros((nmax+2,nmax+2)); dP=np.zeros((nmax+2,nmax+2))
    P[0,0]=1.0
    for n in range(1,nmax+1):
        for m in range(n+1):
            if n==m:
                f=math.sqrt(1-1/(2*n)) if n>1 else 1.0
                P[n,n]=f*s*P[n-1,n-1]; dP[n,n]=f*(s*dP[n-1,n-1]+c*P[n-1,n-1])
            else:
                a=(2*n-1)/math.sqrt(n*n-m*m)
                b=math.sqrt(((n-1)**2-m*m)/(n*n-m*m)) if n>1 else 0.0
                P[n,m]=a*c*P[n-1,m]-b*(P[n-2,m] if n>1 else 0)
                dP[n,m]=a*(c*dP[n-1,m]-s*P[n-1,m])-b*(dP[n-2,m] if n>1 else 0)
    return P,dP
def ref_field(lat,lon,hkm,date):
    if date<2020.0: f='WMM2015'
    elif date<2025.0: f='WMM2020'
    else: f='WMM2025'
    epoch,g,h,gd,hd=load(f'/repo/ahrs/utils/{f}/WMM.COF')
    A=6378.137; finv=298.257223563; fl=1/finv; e2=fl*(2-fl)
    phi=math.radians(lat); lam=math.radians(lon)
    Rc=A/math.sqrt(1-e2*math.sin(phi)**2)
    p=(Rc+hkm)*math.cos(phi); z=(Rc*(1-e2)+hkm)*math.sin(phi)
    r=math.hypot(p,z); phip=math.asin(z/r)
    theta=math.pi/2-phip
    P,dP=schmidt_P(12,theta)
    a=6371.2; t=round(date,1)-epoch
    Br=Bt=Bp=0.0
    for n in range(1,13):
        f=(a/r)**(n+2)
        for m in range(n+1):
            gg=g[n,m]+t*gd[n,m]; hh=h[n,m]+t*hd[n,m]
            cm,sm=math.cos(m*lam),math.sin(m*lam)
            Br+=(n+1)*f*(gg*cm+hh*sm)*P[n,m]
            Bt+=-f*(gg*cm+hh*sm)*dP[n,m]
            if m>0:
                if abs(math.sin(theta))>1e-10:
                    Bp+=f*m*(gg*sm-hh*cm)*P[n,m]/math.sin(theta)
                else:
                    Bp+=f*m*(gg*sm-hh*cm)*dP[n,m]/math.cos(theta) if m==1 else 0   # limit
    Xp=-Bt; Yp=Bp; Zp=-Br
    d=phip-phi
    X=Xp*math.cos(d)-Zp*math.sin(d); Z=Xp*math.sin(d)+Zp*math.cos(d)
    return np.array([X,Yp,Z])
w=WMM()
worst=0
for date in (2015.0,2017.5,2019.9,2020.0,2022.3,2024.9,2025.0,2027.5,2030.0):
    for lat in (-90,-89.9,-60,-10,0,0.001,33,80,89.999,90):
        for lon in (-180,-120,-1,0,45,120,180):
            for hh in (-1,0,10,100,850):
                w.magnetic_field(float(lat),float(lon),float(hh),date=date)
                v=np.array([w.X,w.Y,w.Z]); r=ref_field(lat,lon,hh,date)
                e=np.abs(v-r).max()
                if e>worst: worst=e; print(date,lat,lon,hh,e,v,r)
print('worst',worst)
