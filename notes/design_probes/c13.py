import numpy as np, warnings
warnings.simplefilter('ignore')
import ahrs
from ahrs.filters import *
rng=np.random.default_rng(5)
N=12
def Rref(q):
    w,x,y,z=q
    return np.array([[1-2*(y*y+z*z),2*(x*y-w*z),2*(x*z+w*y)],[2*(x*y+w*z),1-2*(x*x+z*z),2*(y*z-w*x)],[2*(x*z-w*y),2*(w*x+y*z),1-2*(x*x+y*y)]])
qt=np.array([0.8,0.3,-0.4,0.33]); qt/=np.linalg.norm(qt); Rt=Rref(qt)
gyr=rng.normal(size=(N,3))*1e-2
acc0=np.tile(Rt.T@[0,0,1.],(N,1))*9.8; mag0=np.tile(Rt.T@[0.5,0,0.866],(N,1))*45
filters={
 'Madgwick IMU':lambda g,a,m:Madgwick(g,a).Q,'Madgwick MARG':lambda g,a,m:Madgwick(g,a,m).Q,
 'Mahony IMU':lambda g,a,m:Mahony(g,a).Q,'Mahony MARG':lambda g,a,m:Mahony(g,a,m).Q,
 'EKF IMU':lambda g,a,m:EKF(g,a).Q,'EKF MARG':lambda g,a,m:EKF(g,a,m).Q,
 'AQUA IMU':lambda g,a,m:AQUA(a,gyr=g).Q,'AQUA MARG':lambda g,a,m:AQUA(a,m,g).Q,
 'Fourati':lambda g,a,m:Fourati(g,a,m).Q,'ROLEQ':lambda g,a,m:ROLEQ(g,a,m).Q,
 'FKF':lambda g,a,m:FKF(g,a,m).Q,'Complementary IMU':lambda g,a,m:Complementary(g,a).Q,'Complementary MARG':lambda g,a,m:Complementary(g,a,m).Q,
}
for name,f in filters.items():
    res=[]
    for what in ('acc','mag','gyr','acc+mag'):
        for pos in (0,5,N-1):
            g,a,m=gyr.copy(),acc0.copy(),mag0.copy()
            if 'acc' in what: a[pos]=0
            if 'mag' in what: m[pos]=0
            if what=='gyr': g[pos]=0
            np.random.seed(0)
            try:
                Q=np.asarray(f(g,a,m))
                ok=np.all(np.isfinite(Q)) and np.abs(np.linalg.norm(Q,axis=1)-1).max()<1e-6
                res.append(f'{what}@{pos}:'+('ok' if ok else 'BAD'))
            except ValueError as e: res.append(f'{what}@{pos}:VE')
            except Exception as e: res.append(f'{what}@{pos}:{type(e).__name__}')
    print(f'{name:20s}',' '.join(res))
