import numpy as np, itertools, warnings, collections
warnings.simplefilter('ignore')
import ahrs
from ahrs.common import orientation as O
from ahrs.filters import *
from grp import *
def Rref(q):
    w,x,y,z=q
    return np.array([[1-2*(y*y+z*z),2*(x*y-w*z),2*(x*z+w*y)],[2*(x*y+w*z),1-2*(x*x+z*z),2*(y*z-w*x)],[2*(x*z-w*y),2*(w*x+y*z),1-2*(x*x+y*y)]])
def toR(out):
    out=np.array(out)
    if out.shape==(3,3): return out.real
    return Rref(out.real/np.linalg.norm(out.real))
g0=np.array([0.3,-0.5,0.4,0.7]); g0/=np.linalg.norm(g0)
G=group_2I()
A=[qmul(qmul(g0,q),g0*[1,-1,-1,-1]) for q in G]   # conjugated group: generic components
def genpos(q):
    R=Rref(q)
    ang=2*np.arccos(min(1,abs(q[0])))
    zt=np.degrees(np.arccos(min(1,abs(R[2,2]))))   # sensor z-axis vs vertical
    xv=abs(R[2,0])   # x-axis vertical?
    return np.abs(q).min()>=0.05 and ang<=np.pi-0.1 and zt>=3 and xv<0.999
AG=[q for q in A if genpos(q)]
print(len(A),len(AG))
def run(name,mk,gref,mref_fn,dirn,atts,dips=(-80,-45,-10,10,45,80)):
    worst=0;wcase=None;bad=0;n=0
    for dip in dips:
        cd,sd=np.cos(np.radians(dip)),np.sin(np.radians(dip))
        mref=mref_fn(cd,sd)
        for q in atts:
            R=Rref(q)
            for sa,sm in ((1,1),(9.8,45.),(1e-3,1e3)):
                a=R.T@gref*sa; m=R.T@mref*sm
                np.random.seed(0)
                try:
                    Ro=toR(mk(a,m,float(dip)))
                    if dirn=='T': Ro=Ro.T
                    e=max(abs(Ro@gref-a/sa).max(),abs(Ro@mref-m/sm).max())
                    if not np.isfinite(e): e=np.inf
                except Exception as ex: e=np.inf
                n+=1
                if e>worst: worst=e;wcase=(dip,np.round(q,3),sa,sm)
                if e>1e-6: bad+=1
    print(f'{name:16s} n={n} worst={worst:.2e} n(e>1e-6)={bad} at {wcase}')
z=np.array([0,0,1.])
for atts,lab in ((AG,'GENERAL'),(A,'ALL conj 2I'),(list(group_2O()),'EXACT 2O')):
    print('=====',lab)
    run('TRIAD',lambda a,m,d:TRIAD(a,m,v1=z,v2=np.array([np.cos(np.radians(d)),0,np.sin(np.radians(d))])).A,z,lambda c,s:np.array([c,0,s]),'N',atts)
    run('TRIAD q',lambda a,m,d:TRIAD(a,m,v1=z,v2=np.array([np.cos(np.radians(d)),0,np.sin(np.radians(d))]),representation='quaternion').A,z,lambda c,s:np.array([c,0,s]),'N',atts)
    run('Davenport',lambda a,m,d:Davenport(a,m,magnetic_dip=d).Q,z,lambda c,s:np.array([c,0,s]),'T',atts)
    run('QUEST',lambda a,m,d:QUEST(a,m,magnetic_dip=d).Q,z,lambda c,s:np.array([c,0,s]),'T',atts)
    for meth in ('symbolic','eig','newton'):
        run('FLAE '+meth,lambda a,m,d:FLAE(magnetic_dip=d).estimate(a,m,method=meth),z,lambda c,s:np.array([c,0,-s]),'T',atts)
    run('OLEQ NED',lambda a,m,d:OLEQ(a,m,magnetic_ref=d,frame='NED').Q,-z,lambda c,s:np.array([s,0,c]),'T',atts)
    run('OLEQ ENU',lambda a,m,d:OLEQ(a,m,magnetic_ref=d,frame='ENU').Q,z,lambda c,s:np.array([0,c,-s]),'T',atts)
    run('SAAM',lambda a,m,d:SAAM(a,m).Q,z,lambda c,s:np.array([c,0,s]),'N',atts)
    run('FAMC',lambda a,m,d:FAMC(a,m).Q,z,lambda c,s:np.array([c,0,s]),'T',atts)
    run('FQA',lambda a,m,d:FQA(a,m,mag_ref=np.array([np.cos(np.radians(d)),0,np.sin(np.radians(d))])).Q,-z,lambda c,s:np.array([c,0,s]),'T',atts)
    run('Tilt',lambda a,m,d:Tilt(a,m).Q,z,lambda c,s:np.array([c,0,s]),'T',atts)
    run('AQUA',lambda a,m,d:AQUA().estimate(a,m),z,lambda c,s:np.array([c,0,s]),'N',atts)
    run('ecompass NED',lambda a,m,d:O.ecompass(a,m,frame='NED'),z,lambda c,s:np.array([c,0,s]),'T',atts)
    run('ecompass ENU',lambda a,m,d:O.ecompass(a,m,frame='ENU'),z,lambda c,s:np.array([0,c,-s]),'T',atts)
    run('ecompass NED q',lambda a,m,d:O.ecompass(a,m,frame='NED',representation='quaternion'),z,lambda c,s:np.array([c,0,s]),'T',atts)
    run('am2DCM NED',lambda a,m,d:O.am2DCM(a,m,frame='NED'),-z,lambda c,s:np.array([c,0,s]),'N',atts)
    run('am2DCM ENU',lambda a,m,d:O.am2DCM(a,m,frame='ENU'),z,lambda c,s:np.array([0,c,-s]),'N',atts)
    run('am2q NED',lambda a,m,d:O.am2q(a,m,frame='NED'),-z,lambda c,s:np.array([c,0,s]),'T',atts)
    run('acc2q',lambda a,m,d:O.acc2q(a),z,lambda c,s:z,'T',atts,dips=(10,))
