import numpy as np, warnings
warnings.simplefilter('ignore')
import ahrs
from ahrs.utils import ReferenceEllipsoid, WGS
GM=3.986004418e14; w=7.292115e-5; a=6378137.0
for f in (0.0,1e-6,1e-5,1e-4,1/298.257223563,0.01,0.1,0.2):
    E=ReferenceEllipsoid(a,f,GM,w)
    ge,gp=E.equatorial_normal_gravity,E.polar_normal_gravity
    b=E.b
    piz=2*ge/a+gp/b-(3*GM/(a*a*b)-2*w*w)
    m=E.normal_gravity_constant
    print(f'f={f:<10.3g} ge={ge:.9f} gp={gp:.9f} pizzetti_res={piz/(3*GM/(a*a*b)):.2e} sphere ge~{GM/a**2-w*w*a:.9f} gp~{GM/a**2:.9f} g(45)={E.normal_gravity(45.0):.6f} g(0)={E.normal_gravity(0.0)-ge:.2e} g(90)-gp={E.normal_gravity(90.0)-gp:.2e} g(45,h=1000)-g(45)={E.normal_gravity(45.0,1000.0)-E.normal_gravity(45.0):.4f}')
import ahrs.common.constants as C
for body in ('MOON','MERCURY','VENUS','MARS','JUPITER','PLUTO'):
    A=getattr(C,body+'_EQUATOR_RADIUS'); B=getattr(C,body+'_POLAR_RADIUS'); M=getattr(C,body+'_MASS'); W=getattr(C,body+'_ROTATION')
    E=ReferenceEllipsoid(A,(A-B)/A,M*6.67430e-11,W)
    print(body,(A-B)/A,E.equatorial_normal_gravity,E.polar_normal_gravity, M*6.67430e-11/A**2, 'm=',E.normal_gravity_constant)
