import numpy as np, warnings
warnings.simplefilter('ignore')
import ahrs
from ahrs import Quaternion, QuaternionArray, DCM
from ahrs.common.quaternion import slerp, random_attitudes
for s in (1e-100,1e-200,1e-300,1e100,1e150,1e200):
    try:
        q=Quaternion(np.array([1.,-2,3,0.5])*s); print(s, np.linalg.norm(q), q.A)
    except Exception as e: print(s,'EXC',e)
    try:
        q=QuaternionArray(np.array([[1.,-2,3,0.5]])*s); print(s, np.linalg.norm(q,axis=1))
    except Exception as e: print(s,'EXC',e)
for bad in (np.zeros(4),[np.nan,0,0,1],[np.inf,0,0,1]):
    try: print(Quaternion(bad).A)
    except Exception as e: print('Q',bad,type(e).__name__,e)
    try: print(QuaternionArray([bad]).array)
    except Exception as e: print('QA',bad,type(e).__name__,e)
# DCM acceptance
I=np.eye(3)
for name,Mx in [('refl',np.diag([1,1,-1.])),('scaled',1.001*I),('scaled1e-5',(1+1e-5)*I),('scaled 1e-4',(1+1e-4)*I),('shear',I+1e-3*np.eye(3,k=1)),('shear1e-4',I+1e-4*np.eye(3,k=1)),('nan',I*np.nan),('pert1e-12',I+1e-12*np.ones((3,3))),('-I',-I)]:
    try: DCM(Mx); print(name,'ACCEPTED')
    except Exception as e: print(name,type(e).__name__)
    try: Quaternion(dcm=Mx); print(name,'Q ACCEPTED')
    except Exception as e: print(name,'Q',type(e).__name__)
# sums
q=Quaternion([1,2,3,4.]); p=Quaternion([4,-3,2,1.])
print(type(q+p), np.linalg.norm(q+p), np.linalg.norm(q-p))
try: print(q-q)
except Exception as e: print('q-q',type(e).__name__,e)
# average
QA=QuaternionArray(np.array([[1,0.1,0,0],[1,-0.1,0.05,0],[1,0,0.1,0.1]]))
a=QA.average(); print(a, a.dtype, np.linalg.norm(a))
print(QA.rotate_by(np.array([1.,1,0,0])))
print(random_attitudes(3), random_attitudes(1,'rotmat').shape)
