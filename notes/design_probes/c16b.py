import numpy as np, warnings
from ahrs.utils import ReferenceEllipsoid
def q0_series(es):
    # q0 = 1/2[(1+3/e'^2) atan e' - 3/e'] = sum_{k>=1} (-1)^{k+1} 2k/((2k+1)(2k+3)) e'^{2k+1}... derive numerically via series of atan
    s=0.0
    for k in range(1,60):
        s+=(-1)**(k+1)*2*k/((2*k+1)*(2*k+3))*es**(2*k+1)
    return s
def q0p_series(es):
    # q0' = 3(1+1/e'^2)(1 - atan(e')/e') - 1 ; 1-atan(e)/e = e^2/3 - e^4/5 + e^6/7 ...
    t=sum((-1)**(k+1)*es**(2*k)/(2*k+1) for k in range(1,60))
    return 3*(1+1/es**2)*t-1 if es>0 else 0.0
def q0p_series2(es):
    # expand: 3(1+1/e^2)(e^2/3 - e^4/5 + e^6/7 - ...) - 1 = (1 - 3e^2/5 + 3e^4/7 ...) + (e^2 - 3 e^4/5 + ...) - 1
    s=0.0
    for k in range(1,60):
        # coefficient of e^{2k}: 3*(-1)^{k}/(2k+3) [from 1/e^2 * term k+1] + 3*(-1)^{k+1}/(2k+1)
        s+= (3*(-1)**(k)/(2*k+3) + 3*(-1)**(k+1)/(2*k+1))*es**(2*k)
    return s
GM=3.986004418e14; w=7.292115e-5; a=6378137.0
for f in (1e-8,1e-7,1e-6,1e-5,1e-4,1e-3,1/298.257223563,0.01,0.1,0.2):
    E=ReferenceEllipsoid(a,f,GM,w); b=a*(1-f); es=np.sqrt((a*a-b*b)/(b*b)); m=w*w*a*a*b/GM
    if es<0.3:
        q0=q0_series(es); q0p=q0p_series2(es)
    else:
        q0=0.5*((1+3/es**2)*np.arctan(es)-3/es); q0p=3*((1+1/es**2)*(1-np.arctan(es)/es))-1
    ge=GM*(1-m-m*es*q0p/(6*q0))/(a*b); gp=GM*(1+m*es*q0p/(3*q0))/a**2
    print(f'{f:.3g} rel err ge {abs(E.equatorial_normal_gravity-ge)/ge:.2e} gp {abs(E.polar_normal_gravity-gp)/gp:.2e}  limit ge {GM/(a*b)*(1-1.5*m):.6f} ge {ge:.6f}')
