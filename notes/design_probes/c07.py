import numpy as np, warnings, itertools
warnings.simplefilter('ignore')
import ahrs
from ahrs import Quaternion, QuaternionArray, DCM
from ahrs.common import orientation as O
from ahrs.filters import *
from ahrs.utils import metrics as M
from grp import *
G=group_2I()
def Rref(q):
    w,x,y,z=q
    return np.array([[1-2*(y*y+z*z),2*(x*y-w*z),2*(x*z+w*y)],[2*(x*y+w*z),1-2*(x*x+z*z),2*(y*z-w*x)],[2*(x*z-w*y),2*(w*x+y*z),1-2*(x*x+y*y)]])
Rs=np.array([Rref(q) for q in G])
def same_rot(q1,q2): 
    return min(np.abs(q1-q2).max(),np.abs(q1+q2).max())
for meth,kw in [('shepperd',{}),('hughes',{}),('chiaverini',{}),('itzhack',{'version':3}),('sarabandi',{})]:
    try:
        QA=np.array(QuaternionArray(DCM=Rs,method=meth,**kw))
    except Exception as e:
        print(meth,'batch EXC',type(e).__name__,str(e)[:80]); continue
    worst=0; nbad=0
    for i,R in enumerate(Rs):
        try:
            qs=np.array(Quaternion(dcm=R,method=meth,**kw))
            d=np.abs(QA[i]-qs).max()
            if not np.isfinite(d): d=np.inf
        except Exception as e:
            d=np.inf
        if d>1e-12: nbad+=1
        worst=max(worst,d)
    print(meth,'rows differing',nbad,'worst',worst)
# hughes function directly
Qb=O.hughes(Rs); 
bad=[i for i in range(len(Rs)) if not np.allclose(Qb[i],O.hughes(Rs[i]),atol=1e-12)]
print('hughes fn rows differing',len(bad), 'example', G[bad[0]], Qb[bad[0]], O.hughes(Rs[bad[0]]))
Qb=O.chiaverini(Rs)
bad=[i for i in range(len(Rs)) if not np.allclose(Qb[i],O.chiaverini(Rs[i]),atol=1e-12)]
print('chiaverini fn rows differing',len(bad))
# Quaternion vs QuaternionArray
QA=QuaternionArray(G)
print('to_DCM',max(np.abs(QA.to_DCM()[i]-Quaternion(G[i]).to_DCM()).max() for i in range(len(G))))
print('to_angles',max(np.abs(QA.to_angles()[i]-Quaternion(G[i]).to_angles()).max() for i in range(len(G))))
print('conj',max(np.abs(QA.conjugate()[i]-Quaternion(G[i]).conjugate).max() for i in range(len(G))))
angs=np.array(list(itertools.product((-3,-1,0,0.5,2),repeat=3)),float)
print('from_rpy',max(np.abs(np.array(QuaternionArray(rpy=angs))[i]-np.array(Quaternion(rpy=angs[i]))).max() for i in range(len(angs))))
# estimators
rng=np.random.default_rng(0); acc=rng.normal(size=(7,3)); mag=rng.normal(size=(7,3))
for name,mk,est in [('Tilt',lambda a,m:Tilt(a,m).Q,lambda a,m:Tilt().estimate(a,m)),
                    ('Tilt angles',lambda a,m:Tilt(a,m,representation='angles').Q,lambda a,m:Tilt().estimate(a,m,'angles')),
                    ('Tilt rotmat',lambda a,m:Tilt(a,m,representation='rotmat').Q,lambda a,m:Tilt().estimate(a,m,'rotmat')),
                    ('SAAM',lambda a,m:SAAM(a,m).Q,lambda a,m:SAAM().estimate(a,m)),
                    ('FAMC',lambda a,m:FAMC(a,m).Q,lambda a,m:FAMC().estimate(a,m)),
                    ('FQA',lambda a,m:FQA(a,m).Q,lambda a,m:FQA().estimate(a.copy(),m.copy())),
                    ('QUEST',lambda a,m:QUEST(a,m).Q,lambda a,m:QUEST().estimate(a,m)),
                    ('FLAE newton',lambda a,m:FLAE(a,m,method='newton').Q,lambda a,m:FLAE().estimate(a,m,method='newton')),
                    ('FLAE eig',lambda a,m:FLAE(a,m,method='eig').Q,lambda a,m:FLAE().estimate(a,m,method='eig')),
                    ('AQUA',lambda a,m:AQUA(a,m).Q,lambda a,m:AQUA().estimate(a,m)),
                    ('TRIAD',lambda a,m:TRIAD(a,m).A,lambda a,m:TRIAD().estimate(a,m)),
                    ('Davenport',lambda a,m:Davenport(a,m).Q,lambda a,m:Davenport().estimate(a,m)),
                    ]:
    B=np.array(mk(acc,mag))
    d=max(np.abs(B[i]-np.array(est(acc[i],mag[i]))).max() for i in range(7))
    one=np.array(mk(acc[0],mag[0])); d1=np.abs(one-B[0]).max()
    oneb=np.array(mk(acc[:1],mag[:1])); 
    print(f'{name:12s} batch-vs-est {d:.2e}  single-call-vs-row0 {d1:.2e} one-row-batch shape {oneb.shape}')
R1=Rs[:5]; R2=Rs[5:10]
for f in (M.chordal,):
    print(f.__name__, np.abs(f(R1,R2)-np.array([f(a,b) for a,b in zip(R1,R2)])).max())
for f in (M.identity_deviation,M.angular_distance):
    try: print(f.__name__, f(R1,R2))
    except Exception as e: print(f.__name__,'batch EXC',type(e).__name__,e)
q1=G[:10]; q2=G[10:20]
for f in (M.qdist,M.qeip,M.qcip,M.qad):
    print(f.__name__, np.abs(f(q1,q2)-np.array([f(a,b) for a,b in zip(q1,q2)])).max())
print(M.euclidean(q1,q2)-np.array([M.euclidean(a,b) for a,b in zip(q1,q2)]))
