import ast, sys
# print source w/ original line numbers, omitting docstrings and blank lines
fn = sys.argv[1]
src = open(fn).read()
tree = ast.parse(src)
skip = set()
for node in ast.walk(tree):
    if isinstance(node, (ast.FunctionDef, ast.ClassDef, ast.Module, ast.AsyncFunctionDef)):
        b = node.body
        if b and isinstance(b[0], ast.Expr) and isinstance(getattr(b[0], 'value', None), ast.Constant) and isinstance(b[0].value.value, str):
            for l in range(b[0].lineno, b[0].end_lineno+1): skip.add(l)
lo = int(sys.argv[2]) if len(sys.argv)>2 else 1
hi = int(sys.argv[3]) if len(sys.argv)>3 else 10**9
for i, line in enumerate(src.splitlines(), 1):
    if i in skip or not line.strip() or i<lo or i>hi: continue
    print(f"{i:5d} {line}")
