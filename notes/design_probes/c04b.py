import numpy as np, itertools, warnings
warnings.simplefilter('ignore')
import ahrs
from ahrs import Quaternion, QuaternionArray, DCM
from ahrs.common import orientation as O
from ahrs.filters import *
def Rref(q):
    w,x,y,z=q
    return np.array([[1-2*(y*y+z*z),2*(x*y-w*z),2*(x*z+w*y)],[2*(x*y+w*z),1-2*(x*x+z*z),2*(y*z-w*x)],[2*(x*z-w*y),2*(w*x+y*z),1-2*(x*x+y*y)]])
def toR(out):
    out=np.array(out)
    if out.shape==(3,3): return out.real
    return Rref(out.real/np.linalg.norm(out.real))
dip=60.0
cd,sd=np.cos(np.radians(dip)),np.sin(np.radians(dip))
rng=np.random.default_rng(1)
Qs=[]
for _ in range(6):
    q=rng.normal(size=4); q/=np.linalg.norm(q); Qs.append(q)
grefs={'+z':np.array([0,0,1.]),'-z':np.array([0,0,-1.])}
mrefs={'[c,0,s]':np.array([cd,0,sd]),'[c,0,-s]':np.array([cd,0,-sd]),'[s,0,c]':np.array([sd,0,cd]),'[0,c,-s]':np.array([0,cd,-sd]),'[0,c,s]':np.array([0,cd,sd])}
ests={
 'TRIAD NED default v1': lambda a,m: TRIAD(a,m,v2=np.array([cd,0,sd]),frame='NED').A,
 'TRIAD ENU default v1': lambda a,m: TRIAD(a,m,v2=np.array([0,cd,-sd]),frame='ENU').A,
 'Davenport': lambda a,m: Davenport(a,m,magnetic_dip=dip).Q,
 'QUEST': lambda a,m: QUEST(a,m,magnetic_dip=dip).Q,
 'FLAE sym': lambda a,m: FLAE(a,m,method='symbolic',magnetic_dip=dip).Q,
 'FLAE eig': lambda a,m: FLAE(magnetic_dip=dip).estimate(a,m,method='eig'),
 'FLAE newton': lambda a,m: FLAE(magnetic_dip=dip).estimate(a,m,method='newton'),
 'OLEQ NED': lambda a,m: OLEQ(a,m,magnetic_ref=dip,frame='NED').Q,
 'OLEQ ENU': lambda a,m: OLEQ(a,m,magnetic_ref=dip,frame='ENU').Q,
 'SAAM': lambda a,m: SAAM(a,m).Q,
 'FAMC': lambda a,m: FAMC(a,m).Q,
 'FQA': lambda a,m: FQA(a,m,mag_ref=np.array([cd,0,sd])).Q,
 'Tilt': lambda a,m: Tilt(a,m).Q,
 'AQUA': lambda a,m: AQUA().estimate(a,m),
 'ecompass NED': lambda a,m: O.ecompass(a,m,frame='NED'),
 'ecompass ENU': lambda a,m: O.ecompass(a,m,frame='ENU'),
 'ecompass NED q': lambda a,m: O.ecompass(a,m,frame='NED',representation='quaternion'),
 'am2DCM NED': lambda a,m: O.am2DCM(a,m,frame='NED'),
 'am2DCM ENU': lambda a,m: O.am2DCM(a,m,frame='ENU'),
 'am2q NED': lambda a,m: O.am2q(a,m,frame='NED'),
 'am2q ENU': lambda a,m: O.am2q(a,m,frame='ENU'),
}
for name,f in ests.items():
    hits=[]
    for gk,g in grefs.items():
        for mk,m in mrefs.items():
            for dirn in ('Rout@ref=meas','Rout.T@ref=meas'):
                worst=0
                for q in Qs:
                    R=Rref(q)
                    a=R.T@g*9.8; mg=R.T@m*40
                    np.random.seed(0)
                    try:
                        Ro=toR(f(a,mg))
                    except Exception as e:
                        worst=np.inf; break
                    if dirn=='Rout.T@ref=meas': Ro=Ro.T
                    # heading-only estimators: compare gravity fully and mag only in horizontal direction after projecting
                    e=max(abs(Ro@g-a/9.8).max(), abs(Ro@m-mg/40).max())
                    if not np.isfinite(e): e=np.inf
                    worst=max(worst,e)
                if worst<2e-3: hits.append((gk,mk,dirn,f'{worst:.1e}'))
    print(name, hits)
