import numpy as np, warnings
warnings.simplefilter('ignore')
import ahrs
from ahrs import Quaternion, QuaternionArray, DCM
from ahrs.common import orientation as O
q=Quaternion([1.,2.,3.,4.],versor=False)
print('inv*q', q.product(q.inverse), Quaternion(q.inverse,versor=False).product(q))
print('mult_L', np.abs(q.mult_L()@np.array([0.5,-1,2,3.])-q.product([0.5,-1,2,3.])).max())
p=Quaternion([0.5,-1,2,3.],versor=False)
print('mult_R', np.abs(p.mult_R()@q.A - q.product(p)).max(), ' i.e. R(p) q = q*p')
print('q_mult_L non-unit input', O.q_mult_L(np.array([1.,2,3,4]))[0])
# pow
qv=Quaternion([0.8,0.1,-0.5,0.3])
print('q**1',qv**1, qv.A); print('q**0',qv**0); print('q**2',qv**2, qv.product(qv))
print('exp(log q)', Quaternion(qv.logarithm,versor=False).exponential, qv.A)
# rpy roundtrip
a=np.array([0.4,-1.2,2.9]); print('rpy rt', Quaternion(rpy=a).to_angles()-a)
print('orientation rpy2q/q2rpy', O.q2rpy(O.rpy2q(a.copy()))-a)
# axang
ax,an=qv.to_axang(); print(ax,an, O.axang2quat(ax.copy(),an)-qv.A)
R=DCM(axang=([1,2,3.],1e-3)); print('dcm axang rt', R.to_axisangle())
R=DCM(axang=([1,2,3.],1e-5)); print('dcm axang rt 1e-5', R.to_axisangle())
R=DCM(axang=([1,2,3.],1e-9)); print('dcm axang rt 1e-9', R.to_axisangle())
R=DCM(axang=([1,2,3.],3.14)); print('dcm axang rt 3.14', R.to_axisangle())
for t in (1.0,1e-2,1e-3,1e-5):
    R=DCM(axang=([1,2,3.],t)); L=R.log; print('log',t, np.linalg.norm(L)/np.sqrt(2)/t, np.abs(L+L.T).max())
# euler seq
from ahrs.common.dcm import rotation, rot_seq
print(np.abs(DCM(euler=('zyx',[0.1,0.2,0.3]))-rotation('z',0.1)@rotation('y',0.2)@rotation('x',0.3)).max())
print(np.abs(np.array(DCM(euler=('zyx',[10.,20.,30.])))-rotation('z',10.)@rotation('y',20.)@rotation('x',30.)).max())
print(rotation('z',360.0), rotation('z',2*np.pi))
print(rotation('x',1e-7))
print(DCM(x=0.1,y=0.2,z=0.3)-rotation('x',0.1)@rotation('y',0.2)@rotation('z',0.3))
