import numpy as np, warnings, itertools
warnings.simplefilter('ignore')
import ahrs
from ahrs import Quaternion, QuaternionArray, DCM
from ahrs.common import orientation as O
A=[-np.pi+1e-9,-3,-2,-np.pi/2,-1,-1e-3,-1e-9,0,1e-9,1e-3,0.5,1,np.pi/2,2,3,np.pi]
P=[-(np.pi/2-1e-6),-1.5,-1,-1e-3,0,1e-9,1e-3,1,1.5,np.pi/2-1e-6]
worst=0;wc=None
def wrapdiff(a,b):
    d=(a-b+np.pi)%(2*np.pi)-np.pi
    return np.abs(d)
for r,p,y in itertools.product(A,P,A):
    a=np.array([r,p,y])
    try:
        b=Quaternion(rpy=a).to_angles()
        e=wrapdiff(b,a).max()
    except Exception as ex: e=np.inf
    if e>worst: worst=e;wc=(a,b)
print('rpy roundtrip worst',worst,wc)
# near-gimbal conditioning: error amplification ~ eps/cos(p)^2?
worst=0
for r,p,y in itertools.product(A,P,A):
    a=np.array([r,p,y])
    b=O.q2rpy(O.rpy2q(a.copy())); e=wrapdiff(b,a).max()
    if e>worst: worst=e;wc=(a,b)
print('O rpy roundtrip worst',worst,wc)
# axis-angle q
axes=[v for v in itertools.product((-1,0,1),repeat=3) if any(v)]+[(1,2,3),(0.2,-0.7,0.1)]
angs=[10.0**-k for k in range(1,13)]+[0.5,1,2,3,np.pi-1e-3,np.pi-1e-6,np.pi-1e-9]
worst=0
for ax in axes:
    n=np.array(ax,float)/np.linalg.norm(ax)
    for t in angs:
        q=np.r_[np.cos(t/2),np.sin(t/2)*n]
        a2,t2=Quaternion(q).to_axang()
        e=max(abs(t2-t),np.abs(a2-n).max())
        if e>worst: worst=e;wc=(ax,t,a2,t2)
print('Q.to_axang worst',worst,wc)
worst=0; worstR=0
for ax in axes:
    n=np.array(ax,float)/np.linalg.norm(ax)
    for t in angs:
        R=DCM(axang=(np.array(ax,float),t))
        a2,t2=R.to_axisangle()
        e=max(abs(t2-t),np.abs(a2-n).max())
        if np.linalg.norm(a2)==0: R2=np.eye(3)
        else: R2=np.array(DCM(axang=(a2,float(t2))))
        eR=np.abs(R2-np.array(R)).max()
        if e>worst: worst=e;wc=(ax,t,a2,t2)
        if eR>worstR: worstR=eR; wcR=(ax,t)
print('DCM axang roundtrip worst param err',worst,wc,' worst matrix err',worstR,wcR)
# exp/log
worst=0
for ax in axes:
    n=np.array(ax,float)/np.linalg.norm(ax)
    for t in angs:
        q=Quaternion(np.r_[np.cos(t/2),np.sin(t/2)*n])
        l=q.logarithm
        if not np.any(l): e=np.abs(q.A-[1,0,0,0]).max()
        else: e=np.abs(Quaternion(l,versor=False).exponential-q.A).max()
        if e>worst: worst=e;wc=(ax,t)
print('exp(log) worst',worst,wc)
