import numpy as np, warnings
warnings.simplefilter('ignore')
import ahrs
from ahrs.filters import *
from ahrs import Quaternion, QuaternionArray
def qmul(p,q):
    pw,px,py,pz=p; qw,qx,qy,qz=q
    return np.array([pw*qw-px*qx-py*qy-pz*qz, pw*qx+px*qw+py*qz-pz*qy, pw*qy-px*qz+py*qw+pz*qx, pw*qz+px*qy-py*qx+pz*qw])
def axq(w,t):
    n=np.linalg.norm(w); a=n*t
    return np.r_[np.cos(a/2), np.sin(a/2)*w/n]
q0=np.array([0.5,-0.5,0.5,0.5])
w=np.array([0.3,-1.0,2.0]); dt=0.01
ar=AngularRate()
q=q0.copy(); n=300
for k in range(n): q=ar.update(q,w,method='closed',dt=dt)
print('closed err', np.abs(q-qmul(q0,axq(w,n*dt))).max(), np.abs(q-qmul(axq(w,n*dt),q0)).max())
for order in range(0,7):
    q1=ar.update(q0,w,method='series',order=order,dt=dt)
    qc=ar.update(q0,w,method='closed',dt=dt)
    print('order',order,'err vs closed',np.abs(q1-qc).max(), ' (|w|dt)^(k+1)=',(np.linalg.norm(w)*dt)**(order+1))
# dead reckoning with null acc
g=w
print('Madgwick', Madgwick().updateIMU(q0,g,np.zeros(3),dt=dt))
print('Mahony  ', Mahony().updateIMU(q0,g,np.zeros(3),dt=dt))
print('AQUA    ', AQUA().updateIMU(q0,g,np.zeros(3),dt=dt))
print('AQUA conj', AQUA().updateIMU(q0*[1,-1,-1,-1],g,np.zeros(3),dt=dt)*[1,-1,-1,-1])
print('EKF f   ', EKF().f(q0,g,dt)/np.linalg.norm(EKF().f(q0,g,dt)))
print('ROLEQ   ', ROLEQ().attitude_propagation(q0,g,dt))
qq=q0+0.5*qmul(q0,np.r_[0,w])*dt; print('first order q(x)(0,w)', qq/np.linalg.norm(qq))
# angular velocities round trip
N=50
Q=np.zeros((N,4)); Q[0]=q0
for t in range(1,N): Q[t]=ar.update(Q[t-1],w,dt=dt)
W=QuaternionArray(Q).angular_velocities(dt)
print('angvel', W[0], 'true', w, ' 2 sin(th/2)/dt*axis', 2*np.sin(np.linalg.norm(w)*dt/2)/dt*w/np.linalg.norm(w))
# integration method
A=AngularRate(np.tile(w,(N,1)),method='integration',Dt=dt)
print(type(A.Q), A.Q[:3])
