import numpy as np, warnings, itertools
warnings.simplefilter('ignore')
from ahrs.utils import metrics as M
def axq(ax,a): ax=np.array(ax,float)/np.linalg.norm(ax); return np.r_[np.cos(a/2),np.sin(a/2)*ax]
def qmul(p,q):
    pw,px,py,pz=p; qw,qx,qy,qz=q
    return np.array([pw*qw-px*qx-py*qy-pz*qz, pw*qx+px*qw+py*qz-pz*qy, pw*qy-px*qz+py*qw+pz*qx, pw*qz+px*qy-py*qx+pz*qw])
def Rref(q):
    w,x,y,z=q
    return np.array([[1-2*(y*y+z*z),2*(x*y-w*z),2*(x*z+w*y)],[2*(x*y+w*z),1-2*(x*x+z*z),2*(y*z-w*x)],[2*(x*z-w*y),2*(w*x+y*z),1-2*(x*x+y*y)]])
p=axq([1,-2,0.5],1.1)
for t in (1e-4,2e-4,1e-3,5e-3,1e-2,0.1,1.0,3.0,np.pi-1e-6,np.pi):
    for ax in ([1,2,3],[0,0,1],[1,0,0]):
        q=qmul(p,axq(ax,t)); R1,R2=Rref(p),Rref(q)
        vals=dict(qad=(M.qad(p,q),t),qcip=(M.qcip(p,q),t/2),qeip=(M.qeip(p,q),1-np.cos(t/2)),qdist=(M.qdist(p,q),np.sqrt(2*(1-np.cos(t/2)))),
                  chordal=(M.chordal(R1,R2),2*np.sqrt(2)*np.sin(t/2)),iddev=(M.identity_deviation(R1,R2),2*np.sqrt(2)*np.sin(t/2)),angdist=(M.angular_distance(R1,R2),np.sqrt(2)*t))
        print(f't={t:.3g} ax={ax}', ' '.join(f'{k}:{(v[0]-v[1]):.1e}' for k,v in vals.items()))
