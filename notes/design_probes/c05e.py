import sys; sys.path.insert(0,'/tmp/scratch')
from c05d import *
def traj(name,ti,ax,errdeg,N,step):
    gref,mref,isconj,run=CFG[name]
    qt=TRUTHS[ti]; Rt=Rref(qt)
    q0=qmul(qt,axq(ax,np.radians(errdeg)))
    pat=[np.array([1e-3,0,0]),np.array([0,-1e-3,1e-3])]
    gyr=np.array([pat[t%2] for t in range(N)])
    acc=np.tile(Rt.T@gref*9.8,(N,1)); mag=np.tile(Rt.T@mref*45,(N,1))
    Q=np.array(run(gyr,acc,mag,q0))
    return [round(ang(Q[t]/np.linalg.norm(Q[t]),qt),3) for t in range(0,N,step)]
if __name__=='__main__':
    print('Madgwick MARG t1 z175', traj('Madgwick MARG',1,(0,0,1),175,60000,5000))
    print('Madgwick MARG t1 z170', traj('Madgwick MARG',1,(0,0,1),170,60000,5000))
    print('Mahony MARG t0 x175', traj('Mahony MARG',0,(1,0,0),175,60000,5000))
    print('Mahony MARG t1 z175', traj('Mahony MARG',1,(0,0,1),175,60000,5000))
    print('EKF MARG NED t0 x175', traj('EKF MARG NED',0,(1,0,0),175,30000,2500))
