import numpy as np, warnings, itertools
warnings.simplefilter('ignore')
from ahrs.common import frames as F
worst=0
for lat in (-90,-89.999,-45,0,1e-9,30,89.9999,90):
    for lon in (-180,-90,0,45,180):
        for h in (-1e4,0,1e3,1e6):
            X=F.geodetic2ecef(float(lat),float(lon),float(h))
            try:
                back=F.ecef2geodetic(*X)
                e=[abs(back[0]-lat), min(abs(back[1]-lon),360-abs(back[1]-lon)) if abs(lat)<90 else 0, abs(back[2]-h)]
            except Exception as ex: e=[np.inf]*3; back=str(ex)
            if max(e[0]*1e5,e[1]*1e5*np.cos(np.radians(lat)),e[2])>1e-3 or not np.all(np.isfinite(e)): print(lat,lon,h,back,e)
print(F.llf2ecef(0.3,0.7)@F.ecef2llf(0.3,0.7))
print(F.enu2ecef(*F.ecef2enu(1e6,2e6,3e6,10.,20.,30.),10.,20.,30.))
print(F.enu2aer(*F.aer2enu(30.,40.,1000.)), F.dca2enu(*F.enu2dca(1.,2.,3.,25.),25.))
print(F.enu2aer(0.,0.,5.), F.aer2enu(*F.enu2aer(0.,0.,5.)))
