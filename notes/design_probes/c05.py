import numpy as np, itertools, warnings
warnings.simplefilter('ignore')
import ahrs
from ahrs.filters import *
def Rref(q):
    w,x,y,z=q
    return np.array([[1-2*(y*y+z*z),2*(x*y-w*z),2*(x*z+w*y)],[2*(x*y+w*z),1-2*(x*x+z*z),2*(y*z-w*x)],[2*(x*z-w*y),2*(w*x+y*z),1-2*(x*x+y*y)]])
def qmul(p,q):
    pw,px,py,pz=p; qw,qx,qy,qz=q
    return np.array([pw*qw-px*qx-py*qy-pz*qz, pw*qx+px*qw+py*qz-pz*qy, pw*qy-px*qz+py*qw+pz*qx, pw*qz+px*qy-py*qx+pz*qw])
def ang(q1,q2): return 2*np.arccos(min(1,abs(q1@q2)))
def tiltang(q1,q2):
    z=np.array([0,0,1.]); return np.arccos(np.clip((Rref(q1).T@z)@(Rref(q2).T@z),-1,1))
dip=60.; cd,sd=np.cos(np.radians(dip)),np.sin(np.radians(dip))
qt=np.array([0.8,0.3,-0.4,0.33]); qt/=np.linalg.norm(qt); Rt=Rref(qt)
def axq(ax,a): ax=np.array(ax,float)/np.linalg.norm(ax); return np.r_[np.cos(a/2),np.sin(a/2)*ax]
N=6000
rng=np.random.default_rng(0)
gyr=rng.normal(size=(N,3))*1e-4
g=np.array([0,0,1.]); m=np.array([cd,0,sd])
acc=np.tile(Rt.T@g,(N,1))*9.8; mag=np.tile(Rt.T@m,(N,1))*40
for errdeg in (30,90,150,175):
    dq=axq([1,2,-1.5],np.radians(errdeg)); q0=qmul(qt,dq)
    print('--- initial error',errdeg, 'deg; tilt err', np.degrees(tiltang(q0,qt)))
    def rep(name,Q,tilt=False):
        Q=np.asarray(Q)
        f=(tiltang if tilt else ang)
        e=[np.degrees(f(Q[i]/np.linalg.norm(Q[i]),qt)) for i in (0,N//8,N//4,N//2,N-1)]
        print(f'{name:22s}', ' '.join(f'{x:9.4f}' for x in e))
    def stream(f,upd,q0,*series):
        Q=np.zeros((N,4)); Q[0]=q0
        for t in range(1,N): Q[t]=upd(Q[t-1],*[s[t] for s in series])
        return Q
    try: rep('Madgwick IMU',Madgwick(gyr,acc,q0=q0).Q,True)
    except Exception as e: print('Madgwick IMU',e)
    f=Madgwick(); rep('Madgwick MARG(stream)',stream(f,f.updateMARG,q0,gyr,acc,mag))
    rep('Mahony IMU',Mahony(gyr,acc,q0=q0).Q,True)
    rep('Mahony MARG',Mahony(gyr,acc,mag,q0=q0).Q)
    rep('EKF IMU',EKF(gyr,acc,q0=q0).Q,True)
    rep('EKF MARG',EKF(gyr,acc,mag,q0=q0,magnetic_ref=dip).Q)
    # AQUA: convention Rout@ref=meas -> q is conj
    rep('AQUA IMU (conj)',AQUA(acc,gyr=gyr,q0=q0*[1,-1,-1,-1]).Q*[1,-1,-1,-1],True)
    rep('AQUA MARG (conj)',AQUA(acc,mag,gyr,q0=q0*[1,-1,-1,-1]).Q*[1,-1,-1,-1])
    # ROLEQ NED: a_ref=[0,0,-1], m_ref=[sd,0,cd]
    a2=np.tile(Rt.T@[0,0,-1.],(N,1)); m2=np.tile(Rt.T@[sd,0,cd],(N,1))
    rep('ROLEQ NED',ROLEQ(gyr,a2,m2,magnetic_ref=dip,q0=q0).Q)
    rep('Complementary MARG',Complementary(gyr,acc,mag,w0=ahrs.Quaternion(q0).to_angles()).Q)
