import numpy as np, warnings, datetime
warnings.simplefilter('ignore')
import ahrs
from ahrs.utils.wmm import WMM
w=WMM(date=2021.5,latitude=10.0,longitude=20.0,height=1.0); a=dict(w.magnetic_elements)
w2=WMM(); w2.magnetic_field(10.0,20.0,1.0,date=2021.5); b=dict(w2.magnetic_elements)
print({k:(a[k]-b[k]) for k in a})
# date none path
w2.magnetic_field(10.0,20.0,1.0,date=None); c=dict(w2.magnetic_elements); print('date=None repeat', {k:(c[k]-b[k]) for k in ('X','Y','Z')})
# constructor with lat=0
w3=WMM(date=2021.5,latitude=0.0,longitude=20.0); print('lat0', w3.magnetic_elements)
w3=WMM(date=2021.5,latitude=10.0,longitude=0.0); print('lon0', w3.X)
# boundaries
for d in (2019.95,2019.999,2020.0,2024.95,2024.999,2025.0):
    wc=WMM(date=d,latitude=10.0,longitude=20.0,height=1.0); 
    wm=WMM(); wm.magnetic_field(10.0,20.0,1.0,date=d)
    print(d, wc.wmm_filename, wm.wmm_filename, wc.date_dec, wm.date_dec, wc.X-wm.X)
# poles
wm.magnetic_field(90.0,0.0,0.0,date=2021.5); print('pole',wm.magnetic_elements)
wm.magnetic_field(-90.0,50.0,0.0,date=2021.5); print('pole',wm.X,wm.Y,wm.Z)
wm.magnetic_field(45.0,180.0,0.0,date=2021.5); p=wm.geodetic_vector; wm.magnetic_field(45.0,-180.0,0.0,date=2021.5); print('180', p-wm.geodetic_vector)
# frame ENU
we=WMM(date=2021.5,latitude=10.0,longitude=20.0,height=1.0,frame='ENU'); print(we.magnetic_elements); print(a)
# default date param
import inspect; print(inspect.signature(WMM.magnetic_field))
# date as datetime
wd=WMM(date=datetime.date(2021,7,1),latitude=10.0,longitude=20.0,height=1.0); print(wd.date_dec, wd.X)
print(WMM(date=2014.5) if False else '')
try: WMM(date=2014.9, latitude=1.0, longitude=1.0)
except Exception as e: print(type(e).__name__, e)
