import numpy as np, warnings
warnings.simplefilter('ignore')
import ahrs
from ahrs import Sensors, QuaternionArray
from ahrs.filters import AngularRate
import ahrs.utils.sensors as S
S.GENERATOR=np.random.default_rng(1)
s=Sensors(num_samples=200, gyr_noise=0.0, acc_noise=0.0, mag_noise=0.0)
R=s.rotations
acc_exp=np.array([R[i].T@s.reference_gravitational_vector for i in range(200)])
mag_exp=np.array([R[i].T@s.reference_magnetic_vector for i in range(200)])
print('acc err',np.abs(s.accelerometers-acc_exp).max(),'mag err',np.abs(s.magnetometers-mag_exp).max(),'mag_noise attr',s.mag_noise)
print('rot vs quat',np.abs(QuaternionArray(s.quaternions).to_DCM()-R).max(), 'angpos vs quat', np.abs(np.array(QuaternionArray(rpy=s.ang_pos))-np.array(s.quaternions)).max())
g=s.gyroscopes-s.biases_gyroscopes
Q=np.zeros((200,4)); Q[0]=s.quaternions[0]
ar=AngularRate()
for t in range(1,200): Q[t]=ar.update(Q[t-1],g[t],dt=1/s.frequency)
d=[min(np.abs(Q[t]-s.quaternions[t]).max(),np.abs(Q[t]+s.quaternions[t]).max()) for t in range(200)]
print('integrate back max err',max(d), 'max rate',np.abs(g).max(), 'bias', s.biases_gyroscopes)
# in degrees
S.GENERATOR=np.random.default_rng(1)
s2=Sensors(num_samples=200, gyr_noise=0.0, acc_noise=0.0, mag_noise=0.0, in_degrees=True)
print('deg: ratio', np.nanmedian((s2.gyroscopes-s2.biases_gyroscopes)/(g+1e-300)), 'bias deg',s2.biases_gyroscopes, 'same traj', np.abs(np.array(s2.quaternions)-np.array(s.quaternions)).max())
# given quaternions
t=np.linspace(0,2,201)
Qg=np.array([[np.cos(a/2),np.sin(a/2)*0.6,0,np.sin(a/2)*0.8] for a in 1.5*t])
S.GENERATOR=np.random.default_rng(1)
s3=Sensors(QuaternionArray(Qg),freq=100.0,gyr_noise=0.0,acc_noise=0.0,mag_noise=0.0)
g3=s3.gyroscopes-s3.biases_gyroscopes
print('given: gyro[1]',g3[1],' expected 1.5*[.6,0,.8]=',1.5*np.array([.6,0,.8]), 'gyro[0]',g3[0])
Q=np.zeros((201,4)); Q[0]=Qg[0]
for k in range(1,201): Q[k]=ar.update(Q[k-1],g3[k],dt=0.01)
print('given integrate back', max(min(np.abs(Q[k]-Qg[k]).max(),np.abs(Q[k]+Qg[k]).max()) for k in range(201)))
print('normalized mag', np.abs(np.linalg.norm(Sensors(num_samples=50,normalized_mag=True).magnetometers,axis=1)-1).max())
