import sys; sys.path.insert(0,'/tmp/scratch/r2')
import numpy as np, warnings
warnings.simplefilter('ignore')
import ahrs; print(ahrs.__file__)
from ahrs.filters import *
def Rref(q):
    w,x,y,z=q
    return np.array([[1-2*(y*y+z*z),2*(x*y-w*z),2*(x*z+w*y)],[2*(x*y+w*z),1-2*(x*x+z*z),2*(y*z-w*x)],[2*(x*z-w*y),2*(w*x+y*z),1-2*(x*x+y*y)]])
def qmul(p,q):
    pw,px,py,pz=p; qw,qx,qy,qz=q
    return np.array([pw*qw-px*qx-py*qy-pz*qz, pw*qx+px*qw+py*qz-pz*qy, pw*qy-px*qz+py*qw+pz*qx, pw*qz+px*qy-py*qx+pz*qw])
def ang(q1,q2): return 2*np.arccos(min(1,abs(q1@q2)))
def tiltang(q1,q2):
    z=np.array([0,0,1.]); return np.arccos(np.clip((Rref(q1).T@z)@(Rref(q2).T@z),-1,1))
def axq(ax,a): ax=np.array(ax,float)/np.linalg.norm(ax); return np.r_[np.cos(a/2),np.sin(a/2)*ax]
dip=60.; cd,sd=np.cos(np.radians(dip)),np.sin(np.radians(dip))
qt=np.array([0.8,0.3,-0.4,0.33]); qt/=np.linalg.norm(qt); Rt=Rref(qt)
N=3000
rng=np.random.default_rng(0)
gyr=rng.normal(size=(N,3))*1e-4
g=np.array([0,0,1.]); m=np.array([cd,0,sd])
acc=np.tile(Rt.T@g,(N,1))*9.8; mag=np.tile(Rt.T@m,(N,1))*40
for errdeg in (0,30,90,150,175):
    dq=axq([1,2,-1.5],np.radians(errdeg)); q0=qmul(qt,dq)
    try:
        Q=UKF(gyr,acc,q0=q0).Q
        print('UKF',errdeg,[round(np.degrees(tiltang(Q[i]/np.linalg.norm(Q[i]),qt)),4) for i in (0,10,100,N//2,N-1)], 'norm',np.abs(np.linalg.norm(Q,axis=1)-1).max(), np.isfinite(Q).all())
    except Exception as e: print('UKF EXC',type(e).__name__,e)
    # FKF: first sample from q0, rest from truth
    R0=Rref(q0); a2=acc.copy(); m2=mag.copy(); a2[0]=R0.T@g*9.8; m2[0]=R0.T@m*40
    Q=FKF(gyr,a2,m2).Q
    print('FKF',errdeg,[round(np.degrees(ang(Q[i]/np.linalg.norm(Q[i]),qt)),4) for i in (0,10,100,N//2,N-1)],'norms',np.round(np.linalg.norm(Q[[0,10,100,N-1]],axis=1),4))
