import numpy as np, itertools, warnings, collections
warnings.simplefilter('ignore')
import ahrs
from ahrs.filters import *
dirs=[np.array(v,float)/np.linalg.norm(v) for v in itertools.product((-1,0,1),repeat=3) if any(v)]
pairs=[(a,m) for a in dirs for m in dirs if np.degrees(np.arccos(np.clip(abs(a@m),0,1)))>=1.0]
print(len(dirs),len(pairs))
def valid(out,N):
    out=np.asarray(out)
    if np.iscomplexobj(out):
        if np.abs(out.imag).max()>0: return 'complex-imag'
        out=out.real; c='complexdtype'
    else: c=None
    if out.shape[0]!=N: return f'shape{out.shape}'
    if not np.all(np.isfinite(out)): return 'nonfinite'
    if out.ndim==2 and out.shape[1]==4 and np.abs(np.linalg.norm(out,axis=1)-1).max()>1e-9: return 'nonunit'
    if out.ndim==3 and (np.abs(np.linalg.det(out)-1).max()>1e-9): return 'notSO3'
    return c or 'ok'
N=3
g=np.tile([0.01,-0.02,0.015],(N,1))
cfg={
 'Madgwick IMU':lambda a,m:Madgwick(g,a).Q,'Madgwick MARG':lambda a,m:Madgwick(g,a,m).Q,
 'Mahony IMU':lambda a,m:Mahony(g,a).Q,'Mahony MARG':lambda a,m:Mahony(g,a,m).Q,
 'EKF IMU':lambda a,m:EKF(g,a).Q,'EKF MARG NED':lambda a,m:EKF(g,a,m).Q,'EKF MARG ENU':lambda a,m:EKF(g,a,m,frame='ENU').Q,
 'AQUA acc':lambda a,m:AQUA(a).Q,'AQUA am':lambda a,m:AQUA(a,m).Q,'AQUA IMU':lambda a,m:AQUA(a,gyr=g).Q,'AQUA MARG':lambda a,m:AQUA(a,m,g).Q,
 'Fourati':lambda a,m:Fourati(g,a,m).Q,'ROLEQ':lambda a,m:ROLEQ(g,a,m).Q,'ROLEQ ENU':lambda a,m:ROLEQ(g,a,m,frame='ENU').Q,
 'FKF':lambda a,m:FKF(g,a,m).Q,'Compl IMU':lambda a,m:Complementary(g,a).Q,'Compl MARG':lambda a,m:Complementary(g,a,m).Q,
 'Tilt':lambda a,m:Tilt(a,m).Q,'Tilt acc':lambda a,m:Tilt(a).Q,'Tilt rotmat':lambda a,m:Tilt(a,m,representation='rotmat').Q,'SAAM':lambda a,m:SAAM(a,m).Q,'SAAM rotmat':lambda a,m:SAAM(a,m,representation='rotmat').A,'FAMC':lambda a,m:FAMC(a,m).Q,'FQA':lambda a,m:FQA(a,m).Q,
 'QUEST':lambda a,m:QUEST(a,m,magnetic_dip=60.0).Q,'Davenport':lambda a,m:Davenport(a,m,magnetic_dip=60.0).Q,'FLAE sym':lambda a,m:FLAE(a,m,magnetic_dip=60.0).Q,'FLAE eig':lambda a,m:FLAE(a,m,method='eig',magnetic_dip=60.0).Q,'FLAE newton':lambda a,m:FLAE(a,m,method='newton',magnetic_dip=60.0).Q,
 'OLEQ':lambda a,m:OLEQ(a,m,magnetic_ref=60.0).Q,'TRIAD q':lambda a,m:TRIAD(a,m,v2=np.array([.5,0,.866]),representation='quaternion').A,'TRIAD':lambda a,m:TRIAD(a,m,v2=np.array([.5,0,.866])).A,
}
for name,f in cfg.items():
    cnt=collections.Counter(); ex={}
    for a,m in pairs:
        A=np.tile(a*9.8,(N,1)); M=np.tile(m*45,(N,1))
        np.random.seed(0)
        try: r=valid(f(A,M),N)
        except Exception as e: r='EXC '+type(e).__name__
        cnt[r]+=1; ex.setdefault(r,(np.round(a,2),np.round(m,2)))
    print(f'{name:14s}',dict(cnt), {k:v for k,v in ex.items() if k not in('ok',)} if len(cnt)>1 or 'ok' not in cnt else '')
