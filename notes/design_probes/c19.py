import numpy as np, warnings, inspect
warnings.simplefilter('ignore')
import ahrs
from ahrs.common import orientation as O
from ahrs.filters import *
def snap(args): return [a.tobytes() if isinstance(a,np.ndarray) else None for a in args]
def probe(name,f,*args,**kw):
    before=snap(args)+snap(list(kw.values()))
    try: r1=f(*args,**kw)
    except Exception as e: print(f'{name:28s} EXC {type(e).__name__}: {str(e)[:60]}'); return
    after=snap(args)+snap(list(kw.values()))
    mut=[i for i,(b,a) in enumerate(zip(before,after)) if b!=a]
    try:
        r2=f(*args,**kw)
        rep=np.allclose(np.asarray(r1,dtype=float),np.asarray(r2,dtype=float),equal_nan=True,atol=0,rtol=0) if not isinstance(r1,tuple) else all(np.array_equal(np.asarray(a),np.asarray(b)) for a,b in zip(r1,r2))
    except Exception as e: rep=f'EXC2 {e}'
    if mut or rep is not True: print(f'{name:28s} mutated args {mut} repeatable={rep}')
q=lambda: np.array([1.,2.,3.,4.]); v=lambda: np.array([0.3,-2.,5.])
probe('q_conj',O.q_conj,q()); probe('q_norm',O.q_norm,q()); probe('q_prod',O.q_prod,q(),q())
probe('q_mult_L',O.q_mult_L,q()); probe('q_mult_R',O.q_mult_R,q()); probe('q_rot',O.q_rot,q(),v())
probe('axang2quat',O.axang2quat,v(),0.3); probe('quat2axang',O.quat2axang,q()); probe('q_correct',O.q_correct,np.array([q(),-q(),q()]))
probe('q2R',O.q2R,q()); probe('q2R N',O.q2R,np.array([q(),q()])); probe('q2euler',O.q2euler,q()/np.linalg.norm(q()))
probe('rpy2q deg',O.rpy2q,np.array([10.,20.,30.]),in_deg=True); probe('rpy2q',O.rpy2q,np.array([.1,.2,.3])); probe('q2rpy',O.q2rpy,q())
probe('ecompass',O.ecompass,v(),np.array([1.,0.2,0.4])); probe('am2DCM',O.am2DCM,v(),np.array([1.,0.2,0.4])); probe('am2q',O.am2q,v(),np.array([1.,0.2,0.4]))
probe('acc2q',O.acc2q,v()); probe('am2angles',O.am2angles,v(),np.array([1.,0.2,0.4])); probe('am2angles N',O.am2angles,np.array([v(),v()]),np.array([[1.,0.2,0.4],[1.,0.2,0.4]]))
probe('slerp O',O.slerp,q()/np.linalg.norm(q()),-np.array([1.,2.,3.,3.5])/np.linalg.norm([1.,2.,3.,3.5]),np.array([0,.5,1.]))
probe('chiaverini',O.chiaverini,np.eye(3)); probe('hughes',O.hughes,np.eye(3)); probe('shepperd',O.shepperd,np.eye(3)); probe('sarabandi',O.sarabandi,np.eye(3)); probe('itzhack',O.itzhack,np.eye(3))
probe('dcm2quat',O.dcm2quat,np.eye(3))
a=v(); m=np.array([1.,0.2,0.4])
probe('FQA.estimate',FQA().estimate,v(),np.array([1.,0.2,0.4]))
probe('FQA()',lambda a,m:FQA(a,m).Q,v(),np.array([1.,0.2,0.4]))
probe('FLAE weights',lambda a,m,weights:FLAE(a,m,weights=weights).Q,v(),np.array([1.,0.2,0.4]),weights=np.array([1.,3.]))
probe('Davenport weights',lambda a,m,weights:Davenport(a,m,weights=weights).Q,v(),np.array([1.,0.2,0.4]),weights=np.array([1.,3.]))
probe('OLEQ',lambda a,m,w,mr:OLEQ(a,m,weights=w,magnetic_ref=mr).Q,v(),np.array([1.,0.2,0.4]),np.array([1.,3.]),np.array([1.,0.,2.]))
probe('ROLEQ mref',lambda mr:ROLEQ(magnetic_ref=mr).m_ref,np.array([1.,0.,2.]))
probe('EKF mref',lambda mr:EKF(magnetic_ref=mr).m_ref,np.array([1.,0.,2.]))
probe('EKF P',lambda P:EKF(P=P).P,np.eye(4)*2)
probe('QUEST mdip',lambda mr:QUEST(magnetic_dip=mr).m_q,np.array([1.,0.,2.]))
probe('TRIAD v',lambda a,m,v1,v2:TRIAD(a,m,v1,v2).A,v(),np.array([1.,0.2,0.4]),np.array([0,0,2.]),np.array([1.,0,3.]))
probe('Mahony b0',lambda g,a,b0:Mahony(g,a,b0=b0).Q,np.ones((5,3))*0.1,np.ones((5,3)),np.zeros(3))
probe('Quaternion',lambda x:ahrs.Quaternion(x).A,q()); probe('QuaternionArray',lambda x:ahrs.QuaternionArray(x).array,np.array([q(),q()]))
probe('DCM from_q',ahrs.DCM.from_quaternion,q()); probe('DCM',lambda R:np.array(ahrs.DCM(R)),np.eye(3))
Qn=ahrs.Quaternion(q(),versor=False); 
from ahrs.common.quaternion import slerp
probe('slerp Q',slerp,q()/np.linalg.norm(q()),-np.array([1.,2.,3.,3.5])/np.linalg.norm([1.,2.,3.,3.5]),np.array([0,.5,1.]))
QA=ahrs.QuaternionArray(np.array([q(),q()*[1,-1,1,1]]))
probe('rotate_by',QA.rotate_by,q()); probe('average w',lambda w:ahrs.QuaternionArray(np.array([q(),q()*[1,-1,1,1]])).average(weights=w),np.array([1.,2.]))
probe('Tilt',lambda a,m:Tilt(a,m).Q,np.array([v(),v()]),np.array([m,m])); probe('SAAM',lambda a,m:SAAM(a,m).Q,v(),m.copy())
probe('Complementary',lambda g,a,m:Complementary(g,a,m).Q,np.ones((4,3))*.1,np.array([v()]*4),np.array([m]*4))
probe('AQUA',lambda a,m,g:AQUA(a,m,g).Q,np.array([v()]*4),np.array([m]*4),np.ones((4,3))*.1)
probe('EKF run',lambda g,a,m:EKF(g,a,m).Q,np.ones((4,3))*.1,np.array([v()]*4),np.array([m]*4))
probe('FKF run',lambda g,a,m:FKF(g,a,m).Q,np.ones((4,3))*.1,np.array([v()]*4),np.array([m]*4))
probe('Madgwick upd',Madgwick().updateMARG,q()/np.linalg.norm(q()),v(),v(),m.copy())
probe('Mahony upd',lambda *a:np.array(Mahony().updateMARG(*a)),q()/np.linalg.norm(q()),v(),v(),m.copy())
probe('EKF upd',lambda *a:np.array(EKF().update(*a)),q()/np.linalg.norm(q()),v(),v())
probe('AQUA upd',lambda *a:np.array(AQUA().updateMARG(*a)),q()/np.linalg.norm(q()),v(),v(),m.copy())
probe('Fourati upd',lambda *a:np.array(Fourati().update(*a)),q()/np.linalg.norm(q()),v(),v(),m.copy())
from ahrs.common import frames as F
probe('ned2enu',F.ned2enu,v())
from ahrs.utils import metrics as M
probe('qdist',M.qdist,q(),q()*[1,1,-1,1]); 
