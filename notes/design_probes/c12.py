import numpy as np, warnings
warnings.simplefilter('ignore')
import ahrs
from ahrs import Quaternion, QuaternionArray
from ahrs.common.quaternion import slerp
from ahrs.common import orientation as O
def axq(ax,a): ax=np.array(ax,float)/np.linalg.norm(ax); return np.r_[np.cos(a/2),np.sin(a/2)*ax]
def qmul(p,q):
    pw,px,py,pz=p; qw,qx,qy,qz=q
    return np.array([pw*qw-px*qx-py*qy-pz*qz, pw*qx+px*qw+py*qz-pz*qy, pw*qy-px*qz+py*qw+pz*qx, pw*qz+px*qy-py*qx+pz*qw])
p=axq([1,2,3],0.7)
t=np.linspace(0,1,11)
for d in (1e-6,1e-3,0.03,0.0632,0.064,0.1,1.0,3.0,3.14,2*np.pi-0.5,2*np.pi-1e-3):
    q=qmul(p,axq([-1,0.5,2],d))
    S=slerp(p,q,t)
    norms=np.linalg.norm(S,axis=1)
    # angle from p
    ang=np.array([2*np.arccos(np.clip(abs(S[i]@p),0,1)) for i in range(len(t))])
    tot=2*np.arccos(np.clip(abs(p@q),0,1))
    lin=np.abs(ang-t*tot).max()
    end=min(np.abs(S[-1]-q).max(),np.abs(S[-1]+q).max())
    S2=slerp(p,-q,t)
    print(f'd={d:9.3g} dot={p@q:+.6f} normdev={np.abs(norms-1).max():.1e} speeddev={lin:.2e} (rel {lin/max(tot,1e-300):.1e}) end={end:.1e} start={np.abs(S[0]-p).max():.1e} neg-invariance={np.abs(S-S2).max():.1e}')
# slerp_nan
Q=np.array([axq([1,2,3],0.1*k) for k in range(8)])
QA=QuaternionArray(Q.copy()); QA[2:5]=np.nan
print(np.isnan(np.array(QA)).any(axis=1), np.isnan(QA.array).any(axis=1))
out=QA.slerp_nan(inplace=False)
print(np.abs(out-Q).max())
QA=QuaternionArray(Q.copy()); QA[0]=np.nan
try: print(QA.slerp_nan(inplace=False)[:2])
except Exception as e: print('leading nan',type(e).__name__,e)
QA=QuaternionArray(Q.copy()); QA[7]=np.nan
try: print(QA.slerp_nan(inplace=False)[-2:])
except Exception as e: print('trailing nan',type(e).__name__,e)
# remove_jumps
Qj=Q.copy(); Qj[3:6]*=-1; QA=QuaternionArray(Qj.copy()); QA.remove_jumps(); print('jumps', np.abs(np.array(QA.array)-Q).max())
Qj=Q.copy(); Qj[3:]*=-1; QA=QuaternionArray(Qj.copy()); QA.remove_jumps(); print('jumps tail', np.abs(np.array(QA.array)-Q).max())
Qj=Q.copy(); Qj[7:]*=-1; QA=QuaternionArray(Qj.copy()); QA.remove_jumps(); print('jumps last', np.abs(np.array(QA.array)-Q).max())
Qj=Q.copy(); Qj[0:1]*=-1; QA=QuaternionArray(Qj.copy()); QA.remove_jumps(); print('jumps first', np.abs(np.array(QA.array)-Q).max(), np.abs(np.array(QA.array)+Q).max())
print(O.q_correct(Qj)[0], Q[0])
