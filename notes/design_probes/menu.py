import numpy as np, itertools, warnings
warnings.simplefilter('ignore')
import ahrs
from ahrs import Quaternion, QuaternionArray, DCM
from ahrs.common import orientation as O
from ahrs.filters import *
from grp import *
MENU=[np.array(v,float) for v in [(0.3,-0.5,0.4,0.7),(0.6,0.2,-0.7,0.3),(0.25,0.55,0.65,-0.45),(0.7,-0.3,-0.2,0.6),(0.45,0.45,-0.35,-0.68),(0.2,0.7,0.3,0.6),(0.55,-0.25,0.6,-0.5),(0.35,0.6,-0.6,0.4)]]
MENU=[g/np.linalg.norm(g) for g in MENU]
def Rref(q):
    w,x,y,z=q
    return np.array([[1-2*(y*y+z*z),2*(x*y-w*z),2*(x*z+w*y)],[2*(x*y+w*z),1-2*(x*x+z*z),2*(y*z-w*x)],[2*(x*z-w*y),2*(w*x+y*z),1-2*(x*x+y*y)]])
def genpos(q):
    R=Rref(q); ang=2*np.arccos(min(1,abs(q[0]))); zt=np.degrees(np.arccos(min(1,abs(R[2,2])))); xv=abs(R[2,0])
    return np.abs(q).min()>=0.05 and ang<=np.pi-0.1 and zt>=3 and xv<0.999
cj=lambda q:q*np.array([1,-1,-1,-1])
for k,g0 in enumerate(MENU):
    A=[qmul(qmul(g0,q),cj(g0)) for q in group_2I()]
    AG=[q for q in A if genpos(q)]
    minc=min(np.abs(q).min() for q in A if abs(abs(q[0])-1)>1e-9)
    # C02 worst per method on A
    w2={}
    for meth,kw in [('shepperd',{}),('hughes',{}),('chiaverini',{}),('itzhack',{'version':1}),('itzhack',{'version':2}),('sarabandi',{})]:
        w=0
        for q in A:
            R=Rref(q); qq=np.array(DCM(R).to_quaternion(method=meth,**kw)).real
            w=max(w,abs(Rref(qq)-R).max())
        w2[meth+str(kw.get('version',''))]=w
    # C04 closed-form class on AG
    w4={}
    for name,mk,gref,mf,dirn in [
        ('QUEST',lambda a,m,d:QUEST(a,m,magnetic_dip=d).Q,[0,0,1.],lambda c,s:[c,0,s],'T'),
        ('SAAM',lambda a,m,d:SAAM(a,m).Q,[0,0,1.],lambda c,s:[c,0,s],'N'),
        ('FAMC',lambda a,m,d:FAMC(a,m).Q,[0,0,1.],lambda c,s:[c,0,s],'T'),
        ('FQA',lambda a,m,d:FQA(a,m,mag_ref=np.array([np.cos(np.radians(d)),0,np.sin(np.radians(d))])).Q,[0,0,-1.],lambda c,s:[c,0,s],'T'),
        ('TRIADq',lambda a,m,d:TRIAD(a,m,v1=np.array([0,0,1.]),v2=np.array([np.cos(np.radians(d)),0,np.sin(np.radians(d))]),representation='quaternion').A,[0,0,1.],lambda c,s:[c,0,s],'N'),
        ('am2q',lambda a,m,d:O.am2q(a,m,frame='NED'),[0,0,-1.],lambda c,s:[c,0,s],'T'),
        ('Davenport(allA)',lambda a,m,d:Davenport(a,m,magnetic_dip=d).Q,[0,0,1.],lambda c,s:[c,0,s],'T'),
        ]:
        w=0
        for dip in (-80,-45,-10,10,45,80):
            c,s=np.cos(np.radians(dip)),np.sin(np.radians(dip)); g=np.array(gref); m=np.array(mf(c,s))
            for q in (A if 'allA' in name else AG):
                R=Rref(q); a=R.T@g*9.8; mg=R.T@m*45
                try:
                    out=np.array(mk(a,mg,float(dip))).real; Ro=Rref(out/np.linalg.norm(out))
                    if dirn=='T': Ro=Ro.T
                    e=max(abs(Ro@g-a/9.8).max(),abs(Ro@m-mg/45).max())
                    if not np.isfinite(e): e=np.inf
                except Exception: e=np.inf
                w=max(w,e)
        w4[name]=w
    print(k,'|Gp|',len(AG),'min|comp|',round(minc,3),' C02',{a:f'{b:.0e}' for a,b in w2.items()},' C04',{a:f'{b:.0e}' for a,b in w4.items()})
