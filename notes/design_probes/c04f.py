import sys; sys.path.insert(0,'/tmp/scratch/r2')
import numpy as np, warnings
warnings.simplefilter('ignore')
import ahrs; print(ahrs.__file__)
from ahrs.filters import FLAE
sys.path.insert(0,'/tmp/scratch')
from grp import *
def Rref(q):
    w,x,y,z=q
    return np.array([[1-2*(y*y+z*z),2*(x*y-w*z),2*(x*z+w*y)],[2*(x*y+w*z),1-2*(x*x+z*z),2*(y*z-w*x)],[2*(x*z-w*y),2*(w*x+y*z),1-2*(x*x+y*y)]])
g0=np.array([0.3,-0.5,0.4,0.7]); g0/=np.linalg.norm(g0)
A=[qmul(qmul(g0,q),g0*[1,-1,-1,-1]) for q in group_2I()]
def genpos(q):
    R=Rref(q); ang=2*np.arccos(min(1,abs(q[0]))); zt=np.degrees(np.arccos(min(1,abs(R[2,2])))); xv=abs(R[2,0])
    return np.abs(q).min()>=0.05 and ang<=np.pi-0.1 and zt>=3 and xv<0.999
AG=[q for q in A if genpos(q)]
for meth in ('symbolic','newton'):
    worst=0;n=0;bad=0
    for dip in (-80,-45,-10,10,45,60,80):
        cd,sd=np.cos(np.radians(dip)),np.sin(np.radians(dip)); g=np.array([0,0,1.]); m=np.array([cd,0,-sd])
        f=FLAE(magnetic_dip=float(dip))
        for q in AG:
            R=Rref(q); a=R.T@g*9.8; mg=R.T@m*45
            qq=f.estimate(a,mg,method=meth); Ro=Rref(qq).T
            e=max(abs(Ro@g-a/9.8).max(),abs(Ro@m-mg/45).max()); n+=1
            if e>1e-6: bad+=1
            worst=max(worst,e)
    print(meth,n,'worst',worst,'bad',bad)
