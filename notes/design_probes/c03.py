import numpy as np, itertools, warnings
warnings.simplefilter('ignore')
import ahrs
from ahrs.filters import *
def Rref(q):
    w,x,y,z=q
    return np.array([[1-2*(y*y+z*z),2*(x*y-w*z),2*(x*z+w*y)],[2*(x*y+w*z),1-2*(x*x+z*z),2*(y*z-w*x)],[2*(x*z-w*y),2*(w*x+y*z),1-2*(x*x+y*y)]])
rng=np.random.default_rng(3)
N=6
def hist(scale_a=9.8,scale_m=45.0):
    gyr=rng.normal(size=(N,3))*0.5
    acc=rng.normal(size=(N,3))*scale_a
    mag=rng.normal(size=(N,3))*scale_m
    return gyr,acc,mag
def check(name,out,N):
    out=np.asarray(out)
    msg=[]
    if np.iscomplexobj(out): msg.append('COMPLEX')
    out=out.real if np.iscomplexobj(out) else out
    if out.shape[0]!=N: msg.append(f'shape{out.shape}')
    if not np.all(np.isfinite(out)): msg.append('NONFINITE')
    if out.ndim==2 and out.shape[1]==4:
        n=np.linalg.norm(out,axis=1)
        if np.abs(n-1).max()>1e-9: msg.append(f'norm dev {np.abs(n-1).max():.2e}')
    print(f'{name:30s}', 'OK' if not msg else msg)
gyr,acc,mag=hist()
np.random.seed(0)
runs={
 'Madgwick IMU':lambda:Madgwick(gyr,acc).Q,'Madgwick MARG':lambda:Madgwick(gyr,acc,mag).Q,
 'Mahony IMU':lambda:Mahony(gyr,acc).Q,'Mahony MARG':lambda:Mahony(gyr,acc,mag).Q,
 'EKF IMU':lambda:EKF(gyr,acc).Q,'EKF MARG NED':lambda:EKF(gyr,acc,mag).Q,'EKF MARG ENU':lambda:EKF(gyr,acc,mag,frame='ENU').Q,
 'UKF':lambda:UKF(gyr,acc).Q,
 'AQUA acc':lambda:AQUA(acc).Q,'AQUA acc mag':lambda:AQUA(acc,mag).Q,'AQUA IMU':lambda:AQUA(acc,gyr=gyr).Q,'AQUA MARG':lambda:AQUA(acc,mag,gyr).Q,
 'AQUA MARG adaptive':lambda:AQUA(acc,mag,gyr,adaptive=True).Q,
 'Fourati':lambda:Fourati(gyr,acc,mag).Q,'ROLEQ':lambda:ROLEQ(gyr,acc,mag).Q,'ROLEQ ENU':lambda:ROLEQ(gyr,acc,mag,frame='ENU').Q,
 'FKF':lambda:FKF(gyr,acc,mag).Q,'Complementary IMU':lambda:Complementary(gyr,acc).Q,'Complementary MARG':lambda:Complementary(gyr,acc,mag).Q,
 'AngularRate':lambda:AngularRate(gyr).Q,'AngularRate series3':lambda:AngularRate(gyr,method='series',order=3).Q,
 'Tilt':lambda:Tilt(acc,mag).Q,'Tilt acc':lambda:Tilt(acc).Q,'SAAM':lambda:SAAM(acc,mag).Q,'FAMC':lambda:FAMC(acc,mag).Q,'FQA':lambda:FQA(acc,mag).Q,'FQA acc':lambda:FQA(acc).Q,
 'QUEST':lambda:QUEST(acc,mag).Q,'Davenport':lambda:Davenport(acc,mag).Q,'FLAE sym':lambda:FLAE(acc,mag).Q,'FLAE eig':lambda:FLAE(acc,mag,method='eig').Q,'FLAE newton':lambda:FLAE(acc,mag,method='newton').Q,
 'OLEQ':lambda:OLEQ(acc,mag).Q,'TRIAD q':lambda:TRIAD(acc,mag,representation='quaternion').A,'TRIAD':lambda:TRIAD(acc,mag).A,
}
for k,f in runs.items():
    try: check(k,f(),N)
    except Exception as e: print(f'{k:30s} EXC {type(e).__name__}: {e}')
