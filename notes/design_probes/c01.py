import numpy as np, itertools, warnings
import ahrs
from ahrs import Quaternion, QuaternionArray, DCM
from ahrs.common import orientation as O
from grp import *
G=np.vstack([group_2O(), group_2I()])
lat=[np.array(v,float) for v in itertools.product((-2,-1,0,1,2),repeat=4) if any(v)]
lat=np.array([v/np.linalg.norm(v) for v in lat])
A=np.vstack([G,lat])
print(len(A))
def Rref(q):
    w,x,y,z=q
    return np.array([[1-2*(y*y+z*z),2*(x*y-w*z),2*(x*z+w*y)],[2*(x*y+w*z),1-2*(x*x+z*z),2*(y*z-w*x)],[2*(x*z-w*y),2*(w*x+y*z),1-2*(x*x+y*y)]])
mx=0
for q in A:
    R0=Rref(q)
    routes={
     'Q.to_DCM':Quaternion(q).to_DCM(),
     'QA.to_DCM':QuaternionArray(q[None]).to_DCM()[0],
     'DCM(q=)':np.array(DCM(q=q)),
     'from_quaternion':DCM.from_quaternion(q.copy()),
     'from_quaternion_b':DCM.from_quaternion(q[None].copy())[0],
     'q2R1':O.q2R(q.copy(),1),'q2R2':O.q2R(q.copy(),2),
     'q2R1b':O.q2R(q[None].copy(),1)[0],'q2R2b':O.q2R(q[None].copy(),2)[0],
    }
    for k,R in routes.items():
        e=abs(R-R0).max(); mx=max(mx,e)
        if e>1e-12: print(k,q,e)
    v=np.array([0.3,-1.2,2.5])
    e=abs(O.q_rot(q.copy(),v)-R0.T@v).max()
    if e>1e-12: print('q_rot',q,e)
    e=abs(Quaternion(q).rotate(v)-R0@v).max()
    if e>1e-12: print('rotate',q,e)
print('max',mx)
# homomorphism on group
G2=group_2O()
bad=0
for p in G2:
    for q in G2:
        pq=Quaternion(p).product(q)
        if abs(Rref(pq)-Rref(p)@Rref(q)).max()>1e-12: bad+=1
        if abs(pq-O.q_prod(p,q)).max()>1e-15: bad+=1
        if abs(np.array(Quaternion(p)*Quaternion(q))-pq).max()>0: bad+=1
print('bad',bad)
# scalar-last
q=np.array([0.5,0.5,0.5,0.5]); q=np.array([1,2,3,4.])/np.sqrt(30)
qs=Quaternion(np.roll(q,-1),order='S')
qh=Quaternion(q)
print(qs.w,qs.x,qs.y,qs.z, qh.w,qh.x,qh.y,qh.z)
print(qs.conjugate, qh.conjugate)
print(qs.to_DCM()-qh.to_DCM())
p=np.array([4,-3,2,1.])/np.sqrt(30)
print('prod H', qh.product(p), ' S*', qs.product(np.roll(p,-1)), 'S with H arg', qs.product(p))
print(type(qs*qs), qs*Quaternion(np.roll(p,-1),order='S'))
