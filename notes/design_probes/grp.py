import numpy as np, itertools
def qmul(p,q):
    pw,px,py,pz=p; qw,qx,qy,qz=q
    return np.array([pw*qw-px*qx-py*qy-pz*qz, pw*qx+px*qw+py*qz-pz*qy, pw*qy-px*qz+py*qw+pz*qx, pw*qz+px*qy-py*qx+pz*qw])
def group_2O():
    els=[]
    # 8 units
    for i in range(4):
        for s in (1,-1):
            e=np.zeros(4); e[i]=s; els.append(e)
    # 16 Hurwitz
    for s in itertools.product((0.5,-0.5),repeat=4): els.append(np.array(s))
    # 24: (±1±i)/sqrt2 perms
    r=np.sqrt(0.5)
    for i,j in itertools.combinations(range(4),2):
        for a in (r,-r):
            for b in (r,-r):
                e=np.zeros(4); e[i]=a; e[j]=b; els.append(e)
    return np.array(els)
def group_2I():
    phi=(1+5**0.5)/2
    els=[]
    for i in range(4):
        for s in (1,-1):
            e=np.zeros(4); e[i]=s; els.append(e)
    for s in itertools.product((0.5,-0.5),repeat=4): els.append(np.array(s))
    base=[0.0,0.5,phi/2,1/(2*phi)]  # (0, 1, phi, 1/phi)/2 even perms
    import itertools as it
    def parity(p):
        p=list(p); par=0
        for i in range(len(p)):
            for j in range(i+1,len(p)):
                if p[i]>p[j]: par^=1
        return par
    for perm in it.permutations(range(4)):
        if parity(perm): continue
        for signs in it.product((1,-1),repeat=3):
            v=np.zeros(4); k=0
            vals=[base[perm[i]] for i in range(4)]
            # apply signs to non-zero entries
            sidx=0
            out=[]
            for x in vals:
                if x==0.0: out.append(0.0)
                else: out.append(x*signs[sidx]); sidx+=1
            els.append(np.array(out))
    return np.array(els)
if __name__=="__main__":
    for G in (group_2O(), group_2I()):
        print(len(G), np.allclose(np.linalg.norm(G,axis=1),1))
        # closure
        S={tuple(np.round(g,9)+0.0) for g in G}
        print(len(S))
        ok=all(tuple(np.round(qmul(a,b),9)+0.0) in S for a in G for b in G)
        print("closed",ok)
