import numpy as np, warnings
warnings.simplefilter('ignore')
from ahrs.filters import FLAE
def Rref(q):
    w,x,y,z=q
    return np.array([[1-2*(y*y+z*z),2*(x*y-w*z),2*(x*z+w*y)],[2*(x*y+w*z),1-2*(x*x+z*z),2*(y*z-w*x)],[2*(x*z-w*y),2*(w*x+y*z),1-2*(x*x+y*y)]])
def lam_sym_complex(t1,t2,t3):
    T0 = 2*t1**3 + 27*t2**2 - 72*t1*t3
    T1 = (T0 + np.sqrt(complex(-4*(t1**2 + 12*t3)**3 + T0**2)))**(1/3)
    T2 = np.sqrt(-4*t1 + 2**(4/3)*(t1**2 + 12*t3)/T1 + 2**(2/3)*T1)
    L = np.zeros(4,complex)
    L[0] =   T2 - np.sqrt(-T2**2 - 12*t1 - 12*np.sqrt(6)*t2/T2)
    L[1] =   T2 + np.sqrt(-T2**2 - 12*t1 - 12*np.sqrt(6)*t2/T2)
    L[2] = -(T2 + np.sqrt(-T2**2 - 12*t1 + 12*np.sqrt(6)*t2/T2))
    L[3] = -(T2 - np.sqrt(-T2**2 - 12*t1 + 12*np.sqrt(6)*t2/T2))
    L *= 1.0/(2.0*np.sqrt(6))
    return L
rng=np.random.default_rng(0)
for trial in range(6):
    q=rng.normal(size=4); q/=np.linalg.norm(q); R=Rref(q)
    dip=rng.choice([-80,-45,-10,10,45,80])
    cd,sd=np.cos(np.radians(dip)),np.sin(np.radians(dip))
    g=np.array([0,0,1.]); m=np.array([cd,0,-sd]); a=R.T@g; mg=R.T@m
    f=FLAE(magnetic_dip=float(dip))
    Db = np.r_[[a],[mg]]; H = f.a * Db.T @ f.ref
    W = f._P1Hx(H[0]) + f._P2Hy(H[1]) + f._P3Hz(H[2])
    t1 = -2*np.trace(H@H.T); t2 = -8*np.linalg.det(H.T); t3 = np.linalg.det(W)
    print(dip, np.sort(np.linalg.eigvals(W).real), np.round(lam_sym_complex(t1,t2,t3),6))
