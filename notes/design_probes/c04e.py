import numpy as np, warnings
warnings.simplefilter('ignore')
from ahrs.filters import FLAE
def Rref(q):
    w,x,y,z=q
    return np.array([[1-2*(y*y+z*z),2*(x*y-w*z),2*(x*z+w*y)],[2*(x*y+w*z),1-2*(x*x+z*z),2*(y*z-w*x)],[2*(x*z-w*y),2*(w*x+y*z),1-2*(x*x+y*y)]])
q=np.array([ 0.309, -0.219,  0.693,  0.614]); q/=np.linalg.norm(q); R=Rref(q)
for dip in (-80,-45,-10,10,45,80):
    cd,sd=np.cos(np.radians(dip)),np.sin(np.radians(dip))
    g=np.array([0,0,1.]); m=np.array([cd,0,-sd])
    a=R.T@g; mg=R.T@m
    f=FLAE(magnetic_dip=float(dip))
    Db = np.r_[[a],[mg]]; H = f.a * Db.T @ f.ref
    W = f._P1Hx(H[0]) + f._P2Hy(H[1]) + f._P3Hz(H[2])
    ev=np.sort(np.linalg.eigvals(W).real)
    t1 = -2*np.trace(H@H.T); t2 = -8*np.linalg.det(H.T); t3 = np.linalg.det(W)
    lam=1.0; fp=4*lam**3 + 2*t1*lam + t2; fv=lam**4 + t1*lam**2 + t2*lam + t3
    res={}
    for meth in ('eig','newton','symbolic'):
        qq=f.estimate(a,mg,method=meth); Ro=Rref(qq).T
        res[meth]=max(abs(Ro@g-a).max(),abs(Ro@m-mg).max())
    print(dip,'eigs',np.round(ev,4),'f(1)=%.1e fp(1)=%.3f'%(fv,fp),res)
