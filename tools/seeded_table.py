#!/usr/bin/env python3
"""Print the markdown table of seeded changes (from /verif/seeded/*/meta.json) for DESIGN.md section 7.6."""
import json, glob, os, re
rows = []
for d in sorted(glob.glob('/verif/seeded/*/meta.json')):
    m = json.load(open(d)); sid = os.path.basename(os.path.dirname(d))
    det = m.get('detection') or {}
    by = m.get('detected_by') or sorted({k.split('/')[0] for k, v in det.items() if v.get('rc') == 1})
    sites = []
    for k, v in det.items():
        for s in v.get('sites', [])[:1]:
            mm = re.search(r"site=(['\"])(.*?)\1 failing", s)
            if mm and mm.group(2) not in sites:
                sites.append(mm.group(2))
    title = (m.get('title') or '?').replace('|', '/')
    needs = (m.get('needs_to_manifest') or '').replace('|', '/').replace('\n', ' ')
    rows.append(f"| {sid} | {title[:110]} | {needs[:150]} | {', '.join(by) or 'MISSED'} | {(sites[0] if sites else '')[:90]} |")
print('| seed | change | needs to manifest | caught by (quick, seeds 0 and 3) | first reporting site |')
print('|---|---|---|---|---|')
print('\n'.join(rows))
