#!/usr/bin/env python3
"""Regenerates /verif/MANIFEST.json from the table below (claimed = a props/cNN.py exists and is listed in CLAIMED)."""
import json, os
V = os.path.dirname(os.path.dirname(os.path.abspath(__file__)))

CLAIMED = {
 'C01': dict(cat='model_checking', tech='explicit-state BFS over the Cayley graph of finite quaternion groups driven by the library product + complete pair tables',
   text='Every element/pair of the binary octahedral and icosahedral groups (and a conjugate and a coset of each by a generic rotation), '
        'the normalised integer lattice and an edge-case alphabet is pushed through every public product and quaternion->matrix route; '
        'the BFS must close on exactly |G| states and every edge satisfies the homomorphism law. Finite-group closure turns "for all p, q" into a table that is walked completely.',
   note='Bounded to the listed alphabets (about 1 000 quaternions, 60 000 ordered pairs per menu entry); tolerance 1e-12; trusted: mc/ref/quat.py, NumPy.'),
 'C09': dict(cat='model_checking', tech='complete triple and pair tables of finite quaternion groups and an integer lattice, walked through the library product',
   text='All triples of the binary octahedral group, of a 30-element conjugated icosahedral sub-alphabet and of a generic coset, all pairs over group elements and exactly representable non-unit lattice quaternions, '
        'every non-zero alphabet element for the inverse, and every element in both storage orders are executed on the real operators and compared with a reference Hamilton product. Finite closed groups make the universally quantified algebra laws a finite table.',
   note='Bounded to the alphabets; 1e-12 tolerance; known finding: non-unit inverse (test-pinned). Trusted: mc/ref/quat.py.'),
 'C02': dict(cat='exploration', tech='exhaustive grid walk: designed finite alphabet of rotation matrices x all methods x all routes, on the real code',
   text='About 1 350 rotation matrices per menu entry (17 axes x 47 angles including 0, +-1e-1..1e-12, pi-1e-1..1e-12, pi; the matrices of the binary octahedral and icosahedral groups, a conjugate and a coset; exactly symmetric half-turns) '
        'x 9 method/version/threshold choices x 5 routes, every combination executed; the returned quaternion is rebuilt into a matrix by the reference and compared. Every Shepperd pivot branch, trace<=0, angle 0 and angle pi classes are required non-empty.',
   note='Lattice of angles/axes, not all of SO(3); tolerances 1e-9 (Shepperd, Bar-Itzhack) and 1e-7 below pi-1e-6 (closed-form methods). Trusted: mc/ref/quat.py.'),
 'C10': dict(cat='exploration', tech='exhaustive grid walk over designed angle/axis/exponent/sequence lattices on the real code, reference = elementary rotations and Rodrigues',
   text='2 560 roll-pitch-yaw triples x 3 routes; 17 axes x every alphabet angle in (0, pi) (1e-12 ... pi-1e-12) for quaternion<->axis-angle, matrix<->axis-angle, exp(log q), matrix logarithm; 10 exponents and all exponent pairs; all 39 axis sequences of length 1-3 x 5^len angle tuples; non-unit lattice for exp/log. Every point is executed, none sampled.',
   note='Lattices, not the continuum; conditioning-aware tolerances listed in the evidence assumptions; known finding: exp/log of positive real non-unit quaternions (test-pinned).'),
 'C12': dict(cat='model_checking', tech='exhaustive enumeration of all gap/sign histories of bounded quaternion sequences (every word over {+,-,NaN}) and complete endpoint-pair tables, executed on the real slerp/slerp_nan/remove_jumps',
   text='Every ordered pair of the binary octahedral group and of a generic coset, a grid of 324 near-equal/near-antipodal/threshold pairs per base point x 9 weights through both SLERP copies; every word over {+,-,NaN} of length 3..8 (10 in thorough) on three base sequences, i.e. all interior NaN subsets, all sign patterns and all mixtures, through slerp_nan (both modes) then remove_jumps, and q_correct. The reference geodesic is p exp(t log(p^-1 q)).',
   note='Bounded to sequences of <= 8 (10) rows and the listed endpoint alphabets; LERP-branch tolerance 1e-12 + 0.02 Omega^3; exact ties (orthogonal endpoints) accept either arc.'),
 'C11': dict(cat='exploration', tech='exhaustive grid walk over constructor inputs (directions x 21 decades x shapes, all route/angle grids, all pairs, all small subsets, all stubbed generator answers, finite menu of invalid inputs) on the real code',
   text='Every direction of a 4-D/3-D lattice at every decade of norm from 1e-100 to 1e100 through Quaternion and QuaternionArray (N = 1,2,3,7); every DCM construction route over angle grids; all pairs of 128 quaternions for + and -; rotate_by over the octahedral group; average over all 1-3 element subsets of 12 clustered quaternions; random attitudes with the generator replaced by a stub that returns each of 216 answers; and a finite menu of zero/NaN/mis-shaped inputs and perturbed rotation matrices (accepted below 1e-12, rejected above 1e-4) through three routes.',
   note='Finite menus; the band of matrix perturbations between 1e-12 and 1e-4 is unconstrained as in the statement; known finding: rotate_by(order="S") raises AxisError.'),
 'C14': dict(cat='exploration', tech='exhaustive walk of the complete date grid x place lattice on the real WMM code against an independent spherical-harmonic synthesis of the shipped coefficient files',
   text='All 151 tenth-of-a-year dates 2015.0-2030.0 (thorough; quick: both epoch seams +-1 step, ends, mid-epochs) x 14 latitudes (both poles, +-89.999, +-1e-9, 0) x 8 longitudes (+-180, 0) x 5 heights, dates passed as float, datetime.date and int, X/Y/Z compared with mc/ref/wmm.py (Schmidt semi-normalised three-term recursion, own parser of the COF files) within 2e-4 nT; the reference itself is self-tested against closed forms and the 124 published WMM test values.',
   note='Place lattice, complete date axis in thorough; trusted: mc/ref/wmm.py, WGS84 constants.'),
 'C17': dict(cat='exploration', tech='exhaustive grid walk of latitude x longitude x height, origins x offsets, vectors x angles through every frame conversion of the real code; identities plus closed-form reference',
   text='Geodetic->ECEF->geodetic over 15.6 k (quick) / 1.44 M (thorough) points including both poles, 90-1e-k ladders, an equator ladder and +-180; ECEF<->ENU both directions over origins x 343 offsets, isometry over all pairs of points, AER, DCA (angles, deg/rad), NED<->ENU on vectors and arrays, LLF matrices on an angle grid.',
   note='Grids, not the continuum; latitude tolerance 1e-8 deg = documented stopping criterion of the fixed-point iteration; trusted: mc/ref/frames.py.'),
 'C04': dict(cat='exploration', tech='exhaustive grid walk: every estimator entry x designed attitude alphabet (finite rotation groups, canonical poses, general-position cosets) x dips x frames x scalings x entry points, on the real estimators with exact synthetic measurements',
   text='26 estimator entries (TRIAD, e-compass, am2DCM/am2q, Davenport, FLAE x3, Tilt x4, AQUA.estimate, acc2q, QUEST, OLEQ, SAAM x2, FAMC, FQA x2); singularity-free class on 336 attitudes (all 24 axis-aligned orientations, level/inverted heading rings, icosahedral group and an oblique conjugate incl. exact half-turns), closed-form class on the ~500 general-position elements of a conjugate, a coset and the 4-D integer lattice; x 2 (quick) / 7 (thorough) dips x frames x 2/4 magnitude scalings x constructor and estimate(); OLEQ additionally x an enumerated menu of start vectors (np.random.random is an owned seam). Oracle: the returned rotation maps both unit references onto both unit measurements in the documented direction.',
   note='Attitude lattices, not all of SO(3); reference conventions per estimator in mc/ref/filters.py are part of the trusted base (any mistake there shows as a violation on every case).'),
 'C06': dict(cat='model_checking', tech='exhaustive enumeration of all interleavings (schedules) of two live filter instances plus a construction event, and of all short sample histories, on the real filter objects; solo run as oracle',
   text='(a) every recursive filter entry x 2 configurations x all 81 length-5 histories over a 3-symbol sample alphabet + 2 long histories: batch constructor vs data-less instance fed sample by sample, <= 1e-12; (b) each run three times, bit-identical; (c) every unordered pair of filter entries (10 in quick, all 17 in thorough): ALL 140 schedules of 3 updates each and one batch construction of a third filter at every position, each instance bit-identical to its solo run; estimators sharing a caller-owned weights array.',
   note='Bounded to 2 instances x 3 updates + 1 construction, histories of length 5; no threads are involved: a schedule is the call order, which is the order in which hidden shared state would be touched.'),
 'C16': dict(cat='exploration', tech='exhaustive walk of an (a, f, GM/a^2, m) parameter lattice x latitude x height on the real ReferenceEllipsoid/WGS code; defining identities plus a series-evaluated level-ellipsoid reference',
   text='1 000 (quick) / 8 208 (thorough) ellipsoids incl. f = 0 and f down to 1e-6, x 13/37 latitudes x 4/7 heights, plus every body of the constants table through both classes, international and WELMEC formulas; identities to 1e-12, Pizzetti, symmetry, pole/equator values, monotone height dependence, continuity in f across the lattice and closeness to the rotating sphere.',
   note='Lattice, not the continuum; conditioning-aware bound 1e-12 + 1000 m eps/f^2 where the package formula cancels; known finding: international_gravity epoch 1980 typo (test-pinned).'),
 'C19': dict(cat='model_checking', tech='depth-3 call histories (call, call, call on the same argument objects) for every public callable found by introspection x argument profiles x containers, byte snapshots as oracle',
   text='256 public callables discovered by introspection, all with an argument builder (uncovered list is empty and reported); profiles unit/non-unit, rad/deg, single/N-row, caller-owned optional arrays, ndarray/list/strided view (thorough: Fortran order, negative stride, float32, three scales); after each of three calls every argument array must be byte-identical and the three results bit-identical.',
   note='Bounded to three calls and the listed profiles; RNG-drawing callables are re-seeded before each call (owned seam).'),
 'C03': dict(cat='model_checking', tech='safety invariant checked on every state of an exhaustive enumeration of all short sensor histories (all constant histories over a direction lattice, all length-3 words over a pose alphabet) for every estimator configuration, on the real estimators',
   text='About 60 estimator configurations (22 single-frame entries x frames, 20 recursive filter entries x 2 parameter sets): every pair of the 26 lattice directions at least 1 degree from parallel (624 pairs: every exact canonical pose and every inconsistent pairing) x 2 (quick) / 9 (thorough) magnitude pairs x N = 1, 2, 3, and all 216 length-3 words over a 6-pose alphabet x 3 gyro vectors; invariant on every emitted row: one per sample, real, finite, unit / SO(3).',
   note='Histories of length <= 3; magnitudes 1e-3..1e3; known findings (published singular poses of QUEST, SAAM, FAMC, AQUA; half-turn initialisation of Mahony-MARG and FKF; UKF covariance) are listed by site and by direction pair / pose word.'),
 'C05': dict(cat='model_checking', tech='exhaustive enumeration of closed-loop orbits (filter x configuration x true attitude x initial-error axis/angle x zero-mean gyro-noise pattern) run to a per-configuration horizon on the real filters; reachability of the target set and invariance afterwards',
   text='27 filter configurations (Madgwick, Mahony, EKF, UKF, AQUA, ROLEQ, FKF, Complementary; IMU/MARG; NED/ENU; default and non-default gains; 10 and 100 Hz) x 6 true attitudes x 6 axes x 6 initial error angles (0..175 deg) x 10 zero-mean periodic gyro-noise patterns in the thorough tier (quick: a fixed sub-grid incl. 150 and 175 deg); every orbit is run to its horizon (about twice the slowest measured settling time) and must be finite and unit at every step, within tolerance at the horizon and over the last 10 %, and never end farther than it started.',
   note='Noise realisations are a finite menu of periodic patterns, not all realisations; horizons/tolerances are per configuration (evidence lists them); known findings: UKF (covariance not positive definite / divergence), FKF (algebraic convergence, slower than the horizon from >= 30 deg).'),
 'C07': dict(cat='exploration', tech='exhaustive per-row differential walk: whole batch, row-reversed batch and every one-row batch of a designed alphabet through each N-row entry point versus the single-item entry point on the real code',
   text='1 087 quaternion rows (octahedral and icosahedral groups, an oblique conjugate, 17 axes x 47 angles incl. half-turns and 1e-12) through every Quaternion/QuaternionArray twin, q2R and DCM.from_quaternion; 2 560 angle triples through the rpy constructors; all 7 DCM->quaternion methods as N x 3 x 3 versus 3 x 3 and through the array constructor; 2 976 quaternion pairs (all pairs of the octahedral group, near-equal and near-antipodal pairs from 1e-6 rad) through the batch and single metrics; every single-frame estimator entry with N samples versus one-sample constructor versus estimate(); option pass-through on both paths. Rows are independent, so whole batch + reversed batch + all one-row batches are exhaustive per row.',
   note='Differential tolerance 1e-12 (1e-9 for metrics); estimator outputs compared as attitudes (sign / 2 pi agnostic).'),
 'C13': dict(cat='fault_enumeration', tech='exhaustive enumeration of every single fault (sensor set x start x length), whole-record and tail faults and every pair of single-row faults on a base record, each faulty history run to completion on the real filter; differential recovery oracle against the fault-free run',
   text='17 recursive filter configurations x batch and streaming entry points x 2 (quick) / 9 (thorough) attitudes: 5 sensor sets x 12 starts x 3 lengths, whole-record faults, tail faults, all 66 pairs of single-row faults: 17 646 / 169 314 fault histories. A run may refuse with ValueError or must emit only finite unit rows at and after the fault, and return within a per-filter tolerance of its own fault-free run 24 rows after the last fault.',
   note='Faults are exact zero rows on a 44-row record; recovery tolerances per filter follow the 100x rule and are listed in the module; known finding: UKF fails on the fault-free record for two attitudes.'),
 'C18': dict(cat='model_checking', tech='complete pair and triple tables of finite rotation groups (and conjugates/cosets) walked through the real metric functions, single and N-row, plus an explicit relative-angle grid',
   text='All unordered pairs of the octahedral / icosahedral groups and oblique copies for non-negativity, symmetry, zero set, sign invariance and the closed form; all triples (g, p, q) for left and right invariance; complete n^3 tables for the triangle inequality of the six true metrics; closed forms on 12 bases x 17 axes x 16 (82) relative angles from 1e-4 to pi, as quaternions and as matrices.',
   note='Finite groups and an angle grid; arccos-conditioned tolerances 1e-8, others 1e-9.'),
 'C08': dict(cat='exploration', tech='exhaustive grid walk (initial attitudes x rate axes x rates x step sizes x step counts x series orders) with every chain executed on the real integrators against a scalar cos/sin reference',
   text='6 (20) initial attitudes x 17 (21) axes x 4 (7) rates x 3 (5) step sizes: closed-form update chained and judged at every step count up to 300 (600) and through the batch constructor; series orders 0-6 (equal to the documented truncation, error <= theta^(k+1), non-increasing in the order); null-accelerometer dead reckoning of Madgwick, Mahony, AQUA, EKF.f and ROLEQ chained 10 deep; angular_velocities of constant-rate and axis-switching sequences re-integrated; the vectorised integration method on single-axis rates.',
   note='Grid, not the continuum; closed-form tolerance (n+4) 1e-14; re-integration budget is the analytic chord deficit x 1.01.'),
 'C15': dict(cat='model_checking', tech='explicit-state breadth-first search to the fixpoint over query histories of one real WMM object (fresh object + replay per transition, canonical state = hash of the full __dict__), differential oracle against a fresh object',
   text='96 (108) constructor configurations x an operation menu of 52 (105) queries (places incl. equator, prime meridian, both poles, +-180; explicit decimal dates, calendar dates, date=None, argument omitted; reset_coefficients; reads); BFS with global state deduplication closes at 410 (about 3 000) states / 20 000 (400 000) transitions; at most K = 1 (3) consecutive date=None queries (deviation bound). On every transition the elements equal those of a fresh object asked the same question, H/F/I/D follow from X/Y/Z, ENU is the swapped/negated NED vector, everything is finite and never None, +180 = -180.',
   note='The clock inside ahrs.utils.wmm is an owned seam (fixed today()). Bounded by the operation menu and the date=None deviation bound; hard caps (never hit on the unchanged tree) are reported if hit.'),
 'C20': dict(cat='exploration', tech='exhaustive walk of the configuration grid of Sensors (lengths x spans x yaw x references x noise triples x units x normalisation x generator seeds; given trajectories x rates x axes) with the module-level generator as an owned, recorded seam',
   text='25 000-43 000 (quick) / about 400 000 (thorough) constructions: accelerometer and magnetometer rows equal R^T ref plus a recorded standard-normal draw times the reported noise (exactly R^T ref when the noise is 0), rotations/quaternions/ang_pos describe the same attitudes, gyroscopes minus reported bias equal the ground-truth rate plus recorded noise and integrate back to the trajectory within the analytic chord bound, normalised magnetometer rows have unit norm.',
   note='ahrs.utils.sensors.GENERATOR is rebound to a recording wrapper around default_rng(s) for a fixed menu of s; reference vectors are read back from the instance.'),
}
PENDING_REASON = 'check not built yet in this session (planned in DESIGN.md section 3); not claimed until it runs clean'

props = [json.loads(l) for l in open(os.path.join(V, 'properties.jsonl'))]
checks, na = [], []
for p in props:
    pid = p['id']
    c = CLAIMED.get(pid)
    if c and os.path.exists(os.path.join(V, 'props', pid.lower() + '.py')):
        checks.append({
            'property_id': pid,
            'quick_cmd': f'./check {pid} --tier quick',
            'thorough_cmd': f'./check {pid} --tier thorough',
            'evidence_file': f'/verif/evidence/{pid}.json',
            'replay_cmd_template': f'./check {pid} --replay {{path}}',
            'engine': 'mc',
            'level_claimed': {'category': c['cat'], 'text': c['text'], 'design_ref': f'DESIGN.md section 3, {pid}'},
            'level_note': c['note'],
            'technique': c['tech'],
        })
    else:
        na.append({'property_id': pid, 'reason': (c or {}).get('na', PENDING_REASON)})
m = {
 'version': 1,
 'setup_cmd': '/venv/bin/pip install --no-index --find-links /opt/veriftools/wheels --target /verif/.vendor jsonschema >/dev/null 2>&1 || true; /venv/bin/python -c "import numpy"',
 'hooks': {'guard': 'AHRS_VERIF', 'enable': 'no source hooks: all seams are installed by monkeypatching from the harness (mc/seams.py); checks import ahrs from $VERIF_REPO (default /repo) in a fresh interpreter',
           'baseline_off_cmd': 'cd /repo && /venv/bin/python -m pytest -ra -q -p no:cacheprovider --timeout=900 --continue-on-collection-errors',
           'source_commits': [], 'add_only': True},
 'engines': [{'name': 'mc', 'path': '/verif/mc', 'serves_properties': [c['property_id'] for c in checks],
              'kind_free_text': 'hand-written bounded-exhaustive explorer for Python objects: explicit-state BFS over operation histories with canonical-state deduplication, interleaving and fault drivers, product walker over finite alphabets; runs the real ahrs code, compares with boring reference models'}],
 'checks': checks,
 'not_applicable': na,
 'notes': 'All checks: ./check <ID> --tier quick|thorough ; VERIF_SEED selects the menu entry of generic rotations in quick runs; VERIF_REPO points the same check at another tree.',
}
json.dump(m, open(os.path.join(V, 'MANIFEST.json'), 'w'), indent=1)
print('claimed', [c['property_id'] for c in checks], 'not claimed', len(na))
