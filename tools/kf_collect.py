#!/venv/bin/python
"""tools/kf_collect.py <PID> [tier]  — run a check in-process with an (almost) unlimited record cap and print, per failing site that is
not already covered by known_findings.json, the distinct values of the tokens found in the failing keys.  Used only to WRITE
known_findings.json by hand after triage; never run by the checks."""
import sys, os, re, json, collections, importlib
sys.path.insert(0, os.path.dirname(os.path.dirname(os.path.abspath(__file__))))
os.environ.setdefault('PYTHONHASHSEED', '0')
from mc import core
core.Ctx.MAX_VIOL_PER_SITE = 10**7
core.bind_repo()
pid = sys.argv[1].upper(); tier = sys.argv[2] if len(sys.argv) > 2 else 'quick'
mod = importlib.import_module('props.' + pid.lower())
ctx = core.Ctx(pid, tier, int(os.environ.get('VERIF_SEED', '0')))
mod.run(ctx)
by = collections.defaultdict(list)
for r in ctx.viol:
    by[r['site']].append(r['key'])
out = {}
for site, keys in by.items():
    toks = collections.defaultdict(set)
    for k in keys:
        for t in k.split():
            if '=' in t:
                a, b = t.split('=', 1); toks[a].add(b)
            else:
                toks['_'].add(t)
    out[site] = {'n': len(keys), 'tokens': {a: sorted(b) for a, b in toks.items()}, 'first': keys[0]}
json.dump(out, open(f'/tmp/scratch/kf_{pid}_{tier}.json', 'w'), indent=1)
for site, d in out.items():
    print(site, d['n'], {a: (b if len(b) <= 12 else f'{len(b)} values') for a, b in d['tokens'].items()})
