#!/usr/bin/env python3
"""tools/seed_verify.py <dir with patch.diff, demo.py, meta.json> <seed-id> [PID ...]

Independent confirmation of a seeded defect produced by a sub-agent, then detection run:
  1. fresh scratch worktree of /repo HEAD (outside /repo and /verif); demo.py must PASS on it
  2. apply patch.diff; the repository's own suite must still pass; demo.py must FAIL
  3. run the quick checks of the given properties (default: meta.json's property) against the patched tree (VERIF_REPO), seeds 0 and 3
  4. remove the worktree; if 1-2 hold, store patch.diff, demo.py and meta.json (with what was run and which sites fired) under /verif/seeded/<seed-id>/
"""
import json, os, shutil, subprocess, sys, tempfile

src, sid = sys.argv[1], sys.argv[2]
meta = json.load(open(os.path.join(src, 'meta.json')))
pids = sys.argv[3:] or [meta['property']]
wt = f'/tmp/scratch/sv_{os.getpid()}'
os.makedirs('/tmp/scratch', exist_ok=True)
env = dict(os.environ, PYTHONDONTWRITEBYTECODE='1')


def sh(cmd, cwd=None, extra=None, timeout=3600):
    e = dict(env)
    if extra:
        e.update(extra)
    p = subprocess.run(cmd, shell=True, cwd=cwd, env=e, capture_output=True, text=True, timeout=timeout)
    return p.returncode, (p.stdout + p.stderr)


res = {'seed_id': sid, 'source': src}
try:
    rc, out = sh(f'git -C /repo worktree add -q --detach {wt} HEAD')
    assert rc == 0, out
    res['repo_head'] = sh('git -C /repo rev-parse --short HEAD')[1].strip()
    rc0, out0 = sh(f'/venv/bin/python {os.path.abspath(src)}/demo.py', cwd=wt, extra={'PYTHONPATH': wt})
    res['demo_on_clean_tree'] = {'rc': rc0, 'tail': out0[-300:]}
    rc, out = sh(f'git apply {os.path.abspath(src)}/patch.diff', cwd=wt)
    res['patch_applies'] = (rc == 0)
    if rc != 0:
        res['patch_error'] = out[-500:]
        print('PATCH DOES NOT APPLY to /repo HEAD', res['repo_head'], '(re-base the seed or drop it):', out[-300:])
        raise SystemExit(3)
    rcs, outs = sh('/venv/bin/python -m pytest -q -p no:cacheprovider -x', cwd=wt, extra={'PYTHONPATH': wt})
    res['suite_on_patched_tree'] = {'rc': rcs, 'tail': outs.strip().splitlines()[-1] if outs.strip() else ''}
    rc1, out1 = sh(f'/venv/bin/python {os.path.abspath(src)}/demo.py', cwd=wt, extra={'PYTHONPATH': wt})
    res['demo_on_patched_tree'] = {'rc': rc1, 'tail': out1[-300:]}
    res['valid'] = (rc0 == 0 and rcs == 0 and rc1 != 0)
    det = {}
    for pid in pids:
        for seed in ('0', '3'):
            ev = tempfile.mkdtemp(prefix='ev_', dir='/tmp/scratch')
            rc, out = sh(f'/verif/check {pid} --tier quick', cwd='/verif', extra={'VERIF_REPO': wt, 'VERIF_SEED': seed, 'VERIF_EVIDENCE_DIR': ev})
            sites = [l.strip()[:220] for l in out.splitlines() if l.strip().startswith('site=')]
            det[f'{pid}/seed{seed}'] = {'rc': rc, 'violation_lines': sum(1 for l in out.splitlines() if l.startswith('VIOLATION')), 'sites': sites[:6]}
            shutil.rmtree(ev, ignore_errors=True)
    res['detection'] = det
    # detected = at least one of the listed properties' quick checks reports a violation on BOTH seeds
    res['detected_by'] = [pid for pid in pids if all(det[f'{pid}/seed{s}']['rc'] == 1 for s in ('0', '3'))]
    res['detected'] = bool(res['detected_by']) if det else None
finally:
    sh(f'git -C /repo worktree remove --force {wt}')
    shutil.rmtree(wt, ignore_errors=True)
    sh('git -C /repo worktree prune')

print(json.dumps(res, indent=1)[:4000])
if res.get('valid'):
    dst = f'/verif/seeded/{sid}'
    os.makedirs(dst, exist_ok=True)
    if not os.path.exists(os.path.join(dst, 'patch.diff')) or not os.path.samefile(os.path.join(src, 'patch.diff'), os.path.join(dst, 'patch.diff')):
        shutil.copy(os.path.join(src, 'patch.diff'), dst)
        shutil.copy(os.path.join(src, 'demo.py'), dst)
    meta['verified_by_me'] = {k: res[k] for k in ('repo_head', 'demo_on_clean_tree', 'suite_on_patched_tree', 'demo_on_patched_tree')}
    meta['what_i_ran'] = ['demo.py on a clean scratch worktree (must pass)', 'git apply patch.diff', 'the 250-test suite on the patched worktree (must pass)',
                          'demo.py on the patched worktree (must fail)', 'quick checks of ' + ', '.join(pids) + ' with VERIF_REPO=<patched worktree>, seeds 0 and 3']
    meta['detection'] = res.get('detection')
    meta['detected_by_quick_checks'] = res.get('detected')
    meta['detected_by'] = res.get('detected_by')
    json.dump(meta, open(os.path.join(dst, 'meta.json'), 'w'), indent=1)
    print('STORED', dst, 'detected=', res.get('detected'))
else:
    print('NOT VALID (not stored)')
