"""Core of the bounded-exhaustive checker: context, job fan-out, violation records.

A *job* is a module-level function ``job(ctx, *args)`` of a property module whose ``args`` are
JSON-serialisable.  Jobs partition the bounded case space deterministically, so the explored set
never depends on scheduling of the worker pool.  Every case evaluated calls ``ctx.tick`` (or
one of the ``expect*`` helpers) and every case that is non-trivial by the property's rule calls
``ctx.seen(key)``; violations are records ``{site, key, observed, expected, tol, job}``.
"""
import os, sys, json, time, hashlib, collections, traceback, importlib, warnings

VERIF = os.path.dirname(os.path.dirname(os.path.abspath(__file__)))
REPO = os.path.abspath(os.environ.get('VERIF_REPO', '/repo'))


def bind_repo():
    """Import ahrs from the tree under test (fresh interpreter == rebuild for pure Python)."""
    sys.dont_write_bytecode = True
    if REPO not in sys.path[:1]:
        sys.path.insert(0, REPO)
    warnings.simplefilter('ignore')
    import numpy as np
    np.seterr(all='ignore')
    import ahrs
    f = os.path.abspath(ahrs.__file__)
    if not f.startswith(REPO + os.sep):
        raise SystemExit(f"harness error: ahrs imported from {f}, not from {REPO}")
    return ahrs


def h64(key):
    return int.from_bytes(hashlib.blake2b(repr(key).encode(), digest_size=8).digest(), 'big')


def jsonable(x):
    import numpy as np
    if isinstance(x, (str, int, bool)) or x is None:
        return x
    if isinstance(x, float):
        return x if x == x and abs(x) != float('inf') else repr(x)
    if isinstance(x, complex):
        return repr(x)
    if isinstance(x, np.generic):
        return jsonable(x.item())
    if isinstance(x, np.ndarray):
        if x.size > 64:
            return {'shape': list(x.shape), 'dtype': str(x.dtype), 'head': jsonable(x.ravel()[:16].tolist())}
        return jsonable(x.tolist())
    if isinstance(x, dict):
        return {str(k): jsonable(v) for k, v in x.items()}
    if isinstance(x, (list, tuple, set, frozenset)):
        return [jsonable(v) for v in x]
    return repr(x)


class Ctx:
    MAX_SAMPLES = 6
    MAX_VIOL_PER_SITE = 400       # records kept per site per job (counts are always exact)

    def __init__(self, pid='', tier='quick', seed=0, job=None):
        self.pid, self.tier, self.seed, self.job = pid, tier, seed, job
        self.evals = 0
        self.keys = set()
        self.viol = []
        self.viol_count = collections.Counter()
        self.known_count = collections.Counter()     # index into known entries of this property -> matching records
        self._known = None
        self.classes = collections.Counter()
        self.outcomes = set()
        self.samples = []
        self.states = 0
        self.transitions = 0
        self.traces = 0
        self.max_depth = 0
        self.caps = []
        self.notes = {}
        self.worst = {}

    # ---- accounting -------------------------------------------------------------------
    @property
    def thorough(self):
        return self.tier == 'thorough'

    def tick(self, n=1):
        self.evals += n

    def seen(self, key):
        self.keys.add(h64(key))

    def cls(self, name, n=1):
        self.classes[name] += n

    def outcome(self, o):
        if len(self.outcomes) < 100000:
            self.outcomes.add(h64(o))

    def sample(self, obj):
        if len(self.samples) < self.MAX_SAMPLES:
            self.samples.append(jsonable(obj))

    def track(self, name, value):
        """Remember the worst (largest) observed value per named quantity (information only)."""
        try:
            v = float(value)
        except Exception:
            return
        if v == v and v > self.worst.get(name, -1.0):
            self.worst[name] = v

    # ---- verdicts ---------------------------------------------------------------------
    def fail(self, site, key, observed=None, expected=None, tol=None, repro=None):
        # records selected by a known-findings entry are counted apart, so that the per-site cap on kept
        # records can never hide a *new* failing case behind many known ones
        if self._known is None:
            from . import findings
            self._known = findings.load_known(self.pid)
        if self._known:
            from . import findings
            rec = {'site': site, 'key': str(key)}
            for i, e in enumerate(self._known):
                if findings.entry_matches(e, rec):
                    self.known_count[i] += 1
                    return
        self.viol_count[site] += 1
        if self.viol_count[site] <= self.MAX_VIOL_PER_SITE:
            r = {'site': site, 'key': str(key), 'observed': jsonable(observed),
                 'expected': jsonable(expected), 'tol': tol, 'job': self.job}
            if repro:
                r['repro'] = repro
            self.viol.append(r)

    def expect(self, cond, site, key, observed=None, expected=None, tol=None, repro=None):
        self.evals += 1
        if not cond:
            self.fail(site, key, observed, expected, tol, repro)
        return bool(cond)

    def close(self, a, b, tol, site, key, rel=False, repro=None, track=None):
        """|a-b|_max <= tol (NaN / shape mismatch / complex garbage are failures)."""
        import numpy as np
        self.evals += 1
        try:
            a_ = np.asarray(a); b_ = np.asarray(b)
            if a_.shape != b_.shape:
                self.fail(site, key, {'shape': list(a_.shape)}, {'shape': list(b_.shape)}, tol, repro)
                return False
            d = np.abs(a_.astype(complex) - b_.astype(complex))
            e = float(d.max()) if d.size else 0.0
            if rel:
                e = e / max(float(np.abs(b_).max()), 1e-300)
        except Exception as ex:   # not even numeric
            self.fail(site, key, repr(ex), b, tol, repro)
            return False
        if track:
            self.track(track, e)
        if not (e <= tol):
            self.fail(site, key, a, b, tol, repro)
            return False
        return True

    def raises_ok(self, fn, allowed, site, key):
        """Run fn(); an exception outside `allowed` is a violation. Returns (ok, value|exc)."""
        try:
            return True, fn()
        except allowed as ex:
            return False, ex
        except Exception as ex:
            self.evals += 1
            self.fail(site, key, f'{type(ex).__name__}: {ex}', 'no exception / documented refusal')
            return False, ex

    # ---- (de)serialisation between worker and parent ------------------------------------
    def dump(self):
        return dict(evals=self.evals, keys=self.keys, viol=self.viol, viol_count=dict(self.viol_count), known_count=dict(self.known_count),
                    classes=dict(self.classes), outcomes=self.outcomes, samples=self.samples,
                    states=self.states, transitions=self.transitions, traces=self.traces,
                    max_depth=self.max_depth, caps=self.caps, notes=self.notes, worst=self.worst)

    def merge(self, d):
        self.evals += d['evals']
        self.keys |= d['keys']
        self.viol += d['viol']
        for k, v in d['viol_count'].items():
            self.viol_count[k] += v
        for k, v in d.get('known_count', {}).items():
            self.known_count[k] += v
        for k, v in d['classes'].items():
            self.classes[k] += v
        self.outcomes |= d['outcomes']
        for s in d['samples']:
            if len(self.samples) < self.MAX_SAMPLES:
                self.samples.append(s)
        self.states += d['states']
        self.transitions += d['transitions']
        self.traces += d['traces']
        self.max_depth = max(self.max_depth, d['max_depth'])
        self.caps += d['caps']
        for k, v in d['notes'].items():
            self.notes.setdefault(k, v)
        for k, v in d['worst'].items():
            if v > self.worst.get(k, -1.0):
                self.worst[k] = v


def _run_job(spec):
    pid, tier, seed, modname, fname, args = spec
    mod = importlib.import_module(modname)
    ctx = Ctx(pid, tier, seed, job=[modname, fname, list(args)])
    try:
        getattr(mod, fname)(ctx, *args)
    except Exception:
        ctx.fail('harness: job crashed', f'{fname}{tuple(args)}', traceback.format_exc()[-1500:])
        ctx.notes['harness_error'] = True
    return ctx.dump()


def run_jobs(ctx, modname, jobs, procs=None):
    """jobs: list of (function_name, args_tuple).  Fan out over a fork pool, merge in job order."""
    specs = [(ctx.pid, ctx.tier, ctx.seed, modname, f, tuple(a)) for f, a in jobs]
    procs = procs or int(os.environ.get('VERIF_PROCS', '0')) or min(16, os.cpu_count() or 1)
    if procs <= 1 or len(specs) <= 1:
        res = [_run_job(s) for s in specs]
    else:
        import multiprocessing as mp
        # one forked child per job: a job always starts from the parent's (pristine) interpreter state, so state that the
        # library keeps at module or class level cannot leak from one job into the next and results do not depend on
        # which worker happened to run which job
        with mp.get_context('fork').Pool(min(procs, len(specs)), maxtasksperchild=1) as pool:
            res = pool.map(_run_job, specs, chunksize=1)
    # a job that crashed (an exception escaped the job body) is executed once more, serially, in this process: a
    # transient failure of the harness under load is absorbed (and counted), a deterministic crash is reported as before
    for i, d in enumerate(res):
        if d['notes'].get('harness_error'):
            d2 = _run_job(specs[i])
            ctx.notes['jobs_retried'] = ctx.notes.get('jobs_retried', 0) + 1
            if not d2['notes'].get('harness_error'):
                res[i] = d2
    for d in res:
        ctx.merge(d)
    ctx.notes['jobs'] = ctx.notes.get('jobs', 0) + len(specs)


def rerun_job(pid, tier, seed, job):
    modname, fname, args = job
    return _run_job((pid, tier, seed, modname, fname, tuple(args)))


def in_fresh_child(fn, *args):
    """Run fn(*args) in a forked child of the CURRENT process and return its (picklable) result.  Used for solo baselines:
    the child sees the library state as it is now and nothing it does leaks back."""
    import pickle
    r, w = os.pipe()
    pid = os.fork()
    if pid == 0:
        code = 0
        try:
            os.close(r)
            try:
                payload = pickle.dumps(('ok', fn(*args)))
            except Exception as ex:
                payload = pickle.dumps(('err', f'{type(ex).__name__}: {ex}'))
            with os.fdopen(w, 'wb') as f:
                f.write(payload)
        except BaseException:
            code = 1
        finally:
            os._exit(code)
    os.close(w)
    with os.fdopen(r, 'rb') as f:
        data = f.read()
    os.waitpid(pid, 0)
    kind, val = pickle.loads(data)
    if kind == 'err':
        raise RuntimeError('child failed: ' + val)
    return val


def chunks(seq, n):
    """Split seq into n nearly equal contiguous index ranges [(lo, hi), ...] (deterministic)."""
    L = len(seq) if not isinstance(seq, int) else seq
    n = max(1, min(n, L))
    b = [round(i * L / n) for i in range(n + 1)]
    return [(b[i], b[i + 1]) for i in range(n) if b[i + 1] > b[i]]
