"""Reference knowledge about ahrs' single-frame estimators: which reference vectors each one documents, in which
direction its output maps references to measurements, and uniform entry points (N-sample constructor, one-sample
constructor, estimate()).  Conventions are read back from the instance wherever it exposes them.

direction 'fwd':  R_out @ ref = meas          direction 'T':  R_out.T @ ref = meas
"""
import math
import numpy as np
from . import quat as rq


def cd(d):
    return math.cos(math.radians(d))


def sd(d):
    return math.sin(math.radians(d))


class Est:
    def __init__(self, name, cls, direction, out, g_ref, m_ref, batch, single, estimate=None, frames=('NED',), tilt_only=False,
                 seeded=False, options=None):
        self.name, self.cls, self.direction, self.out = name, cls, direction, out
        self.g_ref, self.m_ref = g_ref, m_ref          # callables (dip, frame) -> unit vector
        self.batch, self.single, self.estimate = batch, single, estimate
        self.frames, self.tilt_only, self.seeded = frames, tilt_only, seeded
        self.options = options or {}

    def refs(self, dip, frame):
        g = np.asarray(self.g_ref(dip, frame), float)
        m = np.asarray(self.m_ref(dip, frame), float)
        return g / np.linalg.norm(g), m / np.linalg.norm(m)

    def measurements(self, Rt, dip, frame, sa=1.0, sm=1.0):
        g, m = self.refs(dip, frame)
        if self.direction == 'fwd':
            return sa * (Rt @ g), sm * (Rt @ m)
        return sa * (Rt.T @ g), sm * (Rt.T @ m)

    def to_matrix(self, out):
        """Output (quaternion / matrix / rpy angles) -> rotation matrix via the reference model, or None if not a valid attitude."""
        o = np.asarray(out)
        if np.iscomplexobj(o) or o.dtype.kind not in 'fiu' or not np.all(np.isfinite(o)):
            return None
        o = o.astype(float)
        if self.out == 'q':
            if o.shape != (4,) or abs(rq.qnorm(o) - 1.0) > 1e-9:
                return None
            return rq.R(o)
        if self.out == 'R':
            if o.shape != (3, 3) or rq.so3_defect(o) > 1e-9:
                return None
            return o
        if self.out == 'angles':
            if o.shape != (3,):
                return None
            return rq.R(rq.rpy2q(*o))
        raise KeyError(self.out)


def _G(z):
    return lambda dip, frame: [0.0, 0.0, z]


def _M_csd(dip, frame):          # [cos, 0, sin] NED ; [0, cos, -sin] ENU
    return [cd(dip), 0.0, sd(dip)] if frame == 'NED' else [0.0, cd(dip), -sd(dip)]


def registry():
    """-> list of Est.  Imports ahrs lazily (the tree under test must already be bound)."""
    from ahrs import filters as F
    from ahrs.common import orientation as O
    E = []
    a2 = np.atleast_2d

    # ---- singularity-free class S ----------------------------------------------------------------------------
    def triad_mk(rep):
        def mk(dip, frame):
            g = np.array([0.0, 0.0, 1.0]) if frame == 'NED' else np.array([0.0, 0.0, -1.0])
            return dict(v1=g, v2=np.array(_M_csd(dip, frame)), representation=rep, frame=frame)
        return mk
    for rep, cls, out in (('rotmat', 'S', 'R'), ('quaternion', 'Gp', 'q')):
        mk = triad_mk(rep)
        E.append(Est(f'TRIAD[{rep}]', cls, 'fwd', out,
                     lambda dip, frame: [0.0, 0.0, 1.0] if frame == 'NED' else [0.0, 0.0, -1.0], _M_csd,
                     batch=lambda a, m, dip, frame, mk=mk: F.TRIAD(a, m, **mk(dip, frame)).A,
                     single=lambda a, m, dip, frame, mk=mk: F.TRIAD(a, m, **mk(dip, frame)).A,
                     estimate=lambda a, m, dip, frame, mk=mk, rep=rep: F.TRIAD(**mk(dip, frame)).estimate(a, m, representation=rep),
                     frames=('NED', 'ENU')))
    for rep, cls, out in (('rotmat', 'S', 'R'), ('quaternion', 'Gp', 'q')):
        E.append(Est(f'ecompass[{rep}]', cls, 'T', out, _G(1.0), _M_csd, batch=None,
                     single=lambda a, m, dip, frame, rep=rep: O.ecompass(a, m, frame=frame, representation=rep), frames=('NED', 'ENU')))
    E.append(Est('am2DCM', 'S', 'fwd', 'R', lambda dip, frame: [0.0, 0.0, -1.0] if frame == 'NED' else [0.0, 0.0, 1.0], _M_csd, batch=None,
                 single=lambda a, m, dip, frame: O.am2DCM(a, m, frame=frame), frames=('NED', 'ENU')))
    E.append(Est('am2q', 'Gp', 'T', 'q', lambda dip, frame: [0.0, 0.0, -1.0] if frame == 'NED' else [0.0, 0.0, 1.0], _M_csd, batch=None,
                 single=lambda a, m, dip, frame: O.am2q(a, m, frame=frame), frames=('NED', 'ENU')))
    E.append(Est('Davenport', 'S', 'T', 'q', _G(1.0), lambda dip, frame: [cd(dip), 0.0, sd(dip)],
                 batch=lambda a, m, dip, frame: F.Davenport(a, m, magnetic_dip=float(dip)).Q,
                 single=lambda a, m, dip, frame: F.Davenport(a, m, magnetic_dip=float(dip)).Q,
                 estimate=lambda a, m, dip, frame: F.Davenport(magnetic_dip=float(dip)).estimate(a, m)))
    for meth, cls in (('eig', 'S'), ('symbolic', 'Gp'), ('newton', 'Gp')):
        E.append(Est(f'FLAE[{meth}]', cls, 'T', 'q', _G(1.0), lambda dip, frame: [cd(dip), 0.0, -sd(dip)],
                     batch=lambda a, m, dip, frame, meth=meth: F.FLAE(a, m, method=meth, magnetic_dip=float(dip)).Q,
                     single=lambda a, m, dip, frame, meth=meth: F.FLAE(a, m, method=meth, magnetic_dip=float(dip)).Q,
                     estimate=lambda a, m, dip, frame, meth=meth: F.FLAE(magnetic_dip=float(dip)).estimate(a, m, method=meth),
                     options={'method': meth}))
    for rep, out in (('quaternion', 'q'), ('rotmat', 'R'), ('angles', 'angles')):
        E.append(Est(f'Tilt[{rep}]', 'S', 'T', out, _G(1.0), lambda dip, frame: [cd(dip), 0.0, sd(dip)],
                     batch=lambda a, m, dip, frame, rep=rep: F.Tilt(a, m, representation=rep).Q,
                     single=lambda a, m, dip, frame, rep=rep: F.Tilt(a, m, representation=rep).Q,
                     estimate=lambda a, m, dip, frame, rep=rep: F.Tilt().estimate(a, m, representation=rep),
                     options={'representation': rep}))
    E.append(Est('Tilt[acc-only]', 'S', 'T', 'q', _G(1.0), lambda dip, frame: [1.0, 0.0, 0.0],
                 batch=lambda a, m, dip, frame: F.Tilt(a).Q, single=lambda a, m, dip, frame: F.Tilt(a).Q,
                 estimate=lambda a, m, dip, frame: F.Tilt().estimate(a), tilt_only=True))
    E.append(Est('AQUA.estimate', 'S', 'fwd', 'q', _G(1.0), lambda dip, frame: [cd(dip), 0.0, sd(dip)],
                 batch=lambda a, m, dip, frame: F.AQUA(acc=a, mag=m).Q,           # no gyroscope: one algebraic fix per row
                 single=lambda a, m, dip, frame: F.AQUA(acc=a, mag=m).Q,
                 estimate=lambda a, m, dip, frame: F.AQUA().estimate(a, m)))
    E.append(Est('AQUA.estimate[acc-only]', 'S', 'fwd', 'q', _G(1.0), lambda dip, frame: [1.0, 0.0, 0.0],
                 batch=lambda a, m, dip, frame: F.AQUA(acc=a).Q, single=lambda a, m, dip, frame: F.AQUA(acc=a).Q,
                 estimate=lambda a, m, dip, frame: F.AQUA().estimate(a), tilt_only=True))
    E.append(Est('acc2q', 'S', 'T', 'q', _G(1.0), lambda dip, frame: [1.0, 0.0, 0.0], batch=None,
                 single=lambda a, m, dip, frame: O.acc2q(a), tilt_only=True))

    # ---- closed-form / iterative class Gp ------------------------------------------------------------------------
    E.append(Est('QUEST', 'Gp', 'T', 'q', _G(1.0), lambda dip, frame: [cd(dip), 0.0, sd(dip)],
                 batch=lambda a, m, dip, frame: F.QUEST(a, m, magnetic_dip=float(dip)).Q,
                 single=lambda a, m, dip, frame: F.QUEST(a, m, magnetic_dip=float(dip)).Q,
                 estimate=lambda a, m, dip, frame: F.QUEST(magnetic_dip=float(dip)).estimate(a, m)))
    E.append(Est('OLEQ', 'Gp', 'T', 'q', lambda dip, frame: [0.0, 0.0, -1.0] if frame == 'NED' else [0.0, 0.0, 1.0],
                 lambda dip, frame: [sd(dip), 0.0, cd(dip)] if frame == 'NED' else [0.0, cd(dip), -sd(dip)],
                 batch=lambda a, m, dip, frame: F.OLEQ(a, m, magnetic_ref=float(dip), frame=frame).Q,
                 single=lambda a, m, dip, frame: F.OLEQ(a, m, magnetic_ref=float(dip), frame=frame).Q,
                 estimate=lambda a, m, dip, frame: F.OLEQ(magnetic_ref=float(dip), frame=frame).estimate(a, m),
                 frames=('NED', 'ENU'), seeded=True))
    for rep, out in (('quaternion', 'q'), ('rotmat', 'R')):
        E.append(Est(f'SAAM[{rep}]', 'Gp', 'fwd', out, _G(1.0), lambda dip, frame: [cd(dip), 0.0, sd(dip)],
                     batch=lambda a, m, dip, frame, rep=rep: (F.SAAM(a, m, representation=rep).A if rep == 'rotmat' else F.SAAM(a, m).Q),
                     single=lambda a, m, dip, frame, rep=rep: (F.SAAM(a, m, representation=rep).A if rep == 'rotmat' else F.SAAM(a, m).Q),
                     estimate=(lambda a, m, dip, frame: F.SAAM().estimate(a, m)) if rep == 'quaternion' else None,
                     options={'representation': rep}))
    E.append(Est('FAMC', 'Gp', 'T', 'q', _G(1.0), lambda dip, frame: [cd(dip), 0.0, sd(dip)],
                 batch=lambda a, m, dip, frame: F.FAMC(a, m).Q, single=lambda a, m, dip, frame: F.FAMC(a, m).Q,
                 estimate=lambda a, m, dip, frame: F.FAMC().estimate(a, m)))
    E.append(Est('FQA', 'Gp', 'T', 'q', _G(-1.0), lambda dip, frame: [cd(dip), 0.0, sd(dip)],
                 batch=lambda a, m, dip, frame: F.FQA(a, m, mag_ref=np.array([cd(dip), 0.0, sd(dip)])).Q,
                 single=lambda a, m, dip, frame: F.FQA(a, m, mag_ref=np.array([cd(dip), 0.0, sd(dip)])).Q,
                 estimate=lambda a, m, dip, frame: F.FQA(mag_ref=np.array([cd(dip), 0.0, sd(dip)])).estimate(a, m)))
    E.append(Est('FQA[acc-only]', 'Gp', 'T', 'q', _G(-1.0), lambda dip, frame: [1.0, 0.0, 0.0],
                 batch=lambda a, m, dip, frame: F.FQA(a).Q, single=lambda a, m, dip, frame: F.FQA(a).Q,
                 estimate=lambda a, m, dip, frame: F.FQA().estimate(a), tilt_only=True))
    return E


def general_position(q):
    """The statement's predicate for the closed-form class."""
    q = np.asarray(q, float)
    Rm = rq.R(q)
    ang = 2.0 * math.acos(min(1.0, abs(q[0])))
    zt = math.degrees(math.acos(min(1.0, abs(Rm[2, 2]))))
    return bool(np.abs(q).min() >= 0.05 and ang <= math.pi - 0.1 and zt >= 3.0 and abs(Rm[2, 0]) < 0.999 and abs(Rm[0, 2]) < 0.999)
