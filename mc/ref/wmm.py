"""Boring, independent evaluator of the World Magnetic Model (degree-12 spherical-harmonic synthesis).

Deliberately different from ahrs/utils/wmm.py in every step that can be done differently:

* the three WMM.COF files of the tree under test are parsed with str.split into plain dicts keyed (n, m)
  (the package packs g and h into one square matrix through numpy.genfromtxt);
* the Schmidt semi-normalised associated Legendre functions P_n^m(cos theta) and dP/dtheta come from the
  standard three-term recursion *in colatitude* with the normalisation built in (the package runs the
  unnormalised Gauss recursion in latitude and rescales the coefficients with a table S[m, n]);
* cos(m lambda), sin(m lambda) are evaluated directly (the package uses the angle-addition recursion);
* the geocentric colatitude is atan2(p, z) on the WGS84 ellipsoid defined by a and 1/f (the package uses
  arcsin(z/r) and a rounded polar radius);
* the polar limit of m P_n^m / sin(theta) is taken analytically (only m = 1 survives: dP_n^1/dtheta / cos theta);
* calendar dates become decimal years as year + (day_of_year - 1)/days_in_year.

All scalar Python floats; numpy is used only for the final dot products.
"""
import os
import math
import datetime
import numpy as np

NMAX = 12
WGS84_A = 6378.137                 # km, defining
WGS84_FINV = 298.257223563         # defining
WMM_A = 6371.2                     # km, geomagnetic reference radius
MODELS = ('WMM2015', 'WMM2020', 'WMM2025')
NM = [(n, m) for n in range(1, NMAX + 1) for m in range(n + 1)]      # 90 (n, m) pairs

_cache = {}


def _repo():
    from mc import core
    return core.REPO


def cof_path(model, repo=None):
    return os.path.join(repo or _repo(), 'ahrs', 'utils', model, 'WMM.COF')


def load(model, repo=None):
    """-> dict(epoch, g, h, gd, hd) with g[(n, m)] etc. in nT and nT/year, as written in the file."""
    key = (model, repo or _repo())
    if key in _cache:
        return _cache[key]
    with open(cof_path(model, repo)) as f:
        lines = f.read().split('\n')
    epoch = float(lines[0].split()[0])
    g, h, gd, hd = {}, {}, {}, {}
    for ln in lines[1:]:
        p = ln.split()
        if len(p) != 6:
            continue                       # terminator lines of 9s
        n, m = int(p[0]), int(p[1])
        g[n, m], h[n, m], gd[n, m], hd[n, m] = (float(x) for x in p[2:])
    if sorted(g) != NM:
        raise ValueError(f'{model}: coefficient file does not hold exactly degrees 1..{NMAX}')
    _cache[key] = dict(epoch=epoch, g=g, h=h, gd=gd, hd=hd,
                       G=np.array([g[k] for k in NM]), H=np.array([h[k] for k in NM]),
                       GD=np.array([gd[k] for k in NM]), HD=np.array([hd[k] for k in NM]))
    return _cache[key]


def model_for(date_decimal):
    """WMM2015 before 2020.0, WMM2020 before 2025.0, WMM2025 afterwards."""
    if date_decimal < 2020.0:
        return 'WMM2015'
    if date_decimal < 2025.0:
        return 'WMM2020'
    return 'WMM2025'


def decimal_year(d):
    """Calendar date -> decimal year (1 January = year.0)."""
    if isinstance(d, datetime.date):
        n = 366 if (d.year % 4 == 0 and (d.year % 100 != 0 or d.year % 400 == 0)) else 365
        return d.year + (d.timetuple().tm_yday - 1) / n
    return float(d)


def grid_date(d):
    """The tenth-of-a-year grid value the model is evaluated at."""
    return round(decimal_year(d), 1)


def first_day_of_tenth(year, k):
    """First calendar day whose decimal year is >= year + k/10."""
    n = 366 if (year % 4 == 0 and (year % 100 != 0 or year % 400 == 0)) else 365
    doy0 = -((-k * n) // 10)               # ceil(k*n/10), zero-based day of year
    return datetime.date(year, 1, 1) + datetime.timedelta(days=doy0)


def schmidt(theta, nmax=NMAX):
    """Schmidt semi-normalised P[n][m](cos theta) and dP[n][m]/dtheta, 0 <= m <= n <= nmax."""
    c, s = math.cos(theta), math.sin(theta)
    P = [[0.0] * (nmax + 1) for _ in range(nmax + 1)]
    dP = [[0.0] * (nmax + 1) for _ in range(nmax + 1)]
    P[0][0] = 1.0
    for n in range(1, nmax + 1):
        for m in range(n + 1):
            if n == m:
                f = math.sqrt(1.0 - 1.0 / (2 * n)) if n > 1 else 1.0
                P[n][n] = f * s * P[n - 1][n - 1]
                dP[n][n] = f * (s * dP[n - 1][n - 1] + c * P[n - 1][n - 1])
            else:
                a = (2 * n - 1) / math.sqrt(n * n - m * m)
                b = math.sqrt(((n - 1) ** 2 - m * m) / (n * n - m * m)) if n > 1 else 0.0
                p2 = P[n - 2][m] if n > 1 else 0.0
                d2 = dP[n - 2][m] if n > 1 else 0.0
                P[n][m] = a * c * P[n - 1][m] - b * p2
                dP[n][m] = a * (c * dP[n - 1][m] - s * P[n - 1][m]) - b * d2
    return P, dP


def geocentric(lat_deg, h_km):
    """Geodetic (lat, h) on WGS84 -> (r [km], colatitude theta [rad], psi = geocentric - geodetic latitude [rad])."""
    fl = 1.0 / WGS84_FINV
    e2 = fl * (2.0 - fl)
    phi = math.radians(lat_deg)
    N = WGS84_A / math.sqrt(1.0 - e2 * math.sin(phi) ** 2)
    p = (N + h_km) * math.cos(phi)
    z = (N * (1.0 - e2) + h_km) * math.sin(phi)
    r = math.hypot(p, z)
    theta = math.atan2(p, z)
    psi = (0.5 * math.pi - theta) - phi
    return r, theta, psi


def basis(lat_deg, lon_deg, h_km):
    """Place-dependent weights: field = WG @ g(t) + WH @ h(t); WG, WH are 3 x 90 (rows X, Y, Z geodetic NED)."""
    r, theta, psi = geocentric(lat_deg, h_km)
    lam = math.radians(lon_deg)
    P, dP = schmidt(theta)
    st, ct = math.sin(theta), math.cos(theta)
    polar = abs(st) < 1e-10
    cps, sps = math.cos(psi), math.sin(psi)
    WG = np.zeros((3, len(NM)))
    WH = np.zeros((3, len(NM)))
    for i, (n, m) in enumerate(NM):
        f = (WMM_A / r) ** (n + 2)
        cm, sm = math.cos(m * lam), math.sin(m * lam)
        # B_r = -dV/dr, B_theta = -(1/r) dV/dtheta, B_lambda = -(1/(r sin theta)) dV/dlambda
        br = (n + 1) * f * P[n][m]
        bt = -f * dP[n][m]
        if m == 0:
            bl = 0.0
        elif not polar:
            bl = f * m * P[n][m] / st
        else:
            bl = f * dP[n][1] / ct if m == 1 else 0.0          # lim P_n^m / sin(theta)
        # geocentric north = -B_theta, east = B_lambda, down = -B_r
        for W, cr, cl in ((WG, cm, sm), (WH, sm, -cm)):
            xp, yp, zp = -bt * cr, bl * cl, -br * cr
            W[0, i] = xp * cps - zp * sps
            W[1, i] = yp
            W[2, i] = xp * sps + zp * cps
    return WG, WH


def coefficients(date, repo=None):
    """Gauss coefficients advanced to the grid date: (model name, g(t), h(t)) as arrays ordered like NM."""
    dd = decimal_year(date)
    name = model_for(dd)
    mdl = load(name, repo)
    t = round(dd, 1) - mdl['epoch']
    return name, mdl['G'] + t * mdl['GD'], mdl['H'] + t * mdl['HD']


def field(lat_deg, lon_deg, h_km, date, repo=None):
    """North, east, down components [nT] at a geodetic place and a date (decimal year or datetime.date)."""
    _, g, h = coefficients(date, repo)
    WG, WH = basis(lat_deg, lon_deg, h_km)
    return WG @ g + WH @ h


def field_direct(lat_deg, lon_deg, h_km, date, repo=None):
    """Same quantity, written as the plain double sum (used by the self-test to pin `basis`)."""
    dd = decimal_year(date)
    mdl = load(model_for(dd), repo)
    t = round(dd, 1) - mdl['epoch']
    r, theta, psi = geocentric(lat_deg, h_km)
    lam = math.radians(lon_deg)
    P, dP = schmidt(theta)
    Br = Bt = Bl = 0.0
    for n in range(1, NMAX + 1):
        f = (WMM_A / r) ** (n + 2)
        for m in range(n + 1):
            g = mdl['g'][n, m] + t * mdl['gd'][n, m]
            h = mdl['h'][n, m] + t * mdl['hd'][n, m]
            cm, sm = math.cos(m * lam), math.sin(m * lam)
            Br += (n + 1) * f * (g * cm + h * sm) * P[n][m]
            Bt -= f * (g * cm + h * sm) * dP[n][m]
            if m:
                Bl += f * m * (g * sm - h * cm) * P[n][m] / math.sin(theta)
    xp, yp, zp = -Bt, Bl, -Br
    return np.array([xp * math.cos(psi) - zp * math.sin(psi), yp, xp * math.sin(psi) + zp * math.cos(psi)])


# ---------------------------------------------------------------------------------------------------
def published(repo=None):
    """Published check points shipped next to the coefficient files: rows (date, h, lat, lon, X, Y, Z)."""
    base = os.path.join(repo or _repo(), 'ahrs', 'utils')
    rows = []
    with open(os.path.join(base, 'WMM2015', 'WMM2015_test_values.csv')) as f:
        for ln in f.read().split('\n')[1:]:
            p = ln.split(';')
            if len(p) >= 7:
                v = [float(x) for x in p[:7]]
                rows.append(('WMM2015', v[0], v[1], v[2], v[3], v[4], v[5], v[6]))
    with open(os.path.join(base, 'WMM2020', 'WMM2020_TEST_VALUES.txt')) as f:
        for ln in f.read().split('\n'):
            p = ln.split()
            if len(p) >= 11 and not ln.lstrip().startswith('#'):
                v = [float(x) for x in p[:11]]
                rows.append(('WMM2020', v[0], v[1], v[2], v[3], v[7], v[8], v[9]))
    with open(os.path.join(base, 'WMM2025', 'WMM2025_TEST_VALUES.txt')) as f:
        for ln in f.read().split('\n'):
            p = ln.split()
            if len(p) >= 7 and not ln.lstrip().startswith('#'):
                v = [float(x) for x in p[:7]]
                rows.append(('WMM2025', v[0], v[1], v[2], v[3], v[4], v[5], v[6]))
    return rows


def selftest(repo=None):
    """Trusted-base self-test of this evaluator, independent of ahrs/utils/wmm.py.

    Returns dict(published_rows, published_worst_nT, closed_form_worst, derivative_worst, basis_vs_direct_nT);
    raises AssertionError when any part is off.
    """
    out = {}
    # 1. Schmidt functions against closed forms up to degree 3, derivative against the analytic derivative
    worst = 0.0
    for theta in (0.0, 1e-9, 0.3, 1.0, 0.5 * math.pi, 2.0, 3.0, math.pi):
        c, s = math.cos(theta), math.sin(theta)
        P, dP = schmidt(theta)
        cf = {(1, 0): (c, -s), (1, 1): (s, c),
              (2, 0): (0.5 * (3 * c * c - 1), -3 * c * s),
              (2, 1): (math.sqrt(3) * s * c, math.sqrt(3) * (c * c - s * s)),
              (2, 2): (0.5 * math.sqrt(3) * s * s, math.sqrt(3) * s * c),
              (3, 0): (0.5 * (5 * c ** 3 - 3 * c), -0.5 * (15 * c * c - 3) * s),
              (3, 1): (math.sqrt(6) / 4 * s * (5 * c * c - 1), math.sqrt(6) / 4 * (c * (5 * c * c - 1) - 10 * c * s * s)),
              (3, 2): (math.sqrt(15) / 2 * s * s * c, math.sqrt(15) / 2 * (2 * s * c * c - s ** 3)),
              (3, 3): (math.sqrt(10) / 4 * s ** 3, 3 * math.sqrt(10) / 4 * s * s * c)}
        for (n, m), (p, d) in cf.items():
            worst = max(worst, abs(P[n][m] - p), abs(dP[n][m] - d))
    out['closed_form_worst'] = worst
    assert worst < 1e-14, ('ref.wmm schmidt closed forms', worst)
    # 2. all degrees: Schmidt norm  int_0^pi P_n^m(theta)^2 sin(theta) dtheta = 2(2 - delta_m0)/(2n+1) ... by
    #    Gauss-Legendre-free route: central difference of P against dP (pins dP for every n, m)
    worst = 0.0
    hh = 1e-5
    for theta in (0.2, 0.9, 1.7, 2.6):
        Pp, _ = schmidt(theta + hh)
        Pm, _ = schmidt(theta - hh)
        _, dP = schmidt(theta)
        for n, m in NM:
            worst = max(worst, abs((Pp[n][m] - Pm[n][m]) / (2 * hh) - dP[n][m]) / (1.0 + n * n))
    out['derivative_worst'] = worst
    assert worst < 1e-7, ('ref.wmm schmidt derivative', worst)
    #    and the addition theorem at coincident points: sum_m P_n^m(theta)^2 = 1 for every n (pins the normalisation)
    worst = 0.0
    for theta in (0.0, 0.2, 0.9, 0.5 * math.pi, 2.6, math.pi):
        P, _ = schmidt(theta)
        for n in range(1, NMAX + 1):
            worst = max(worst, abs(sum(P[n][m] ** 2 for m in range(n + 1)) - 1.0))
    out['addition_theorem_worst'] = worst
    assert worst < 1e-13, ('ref.wmm schmidt normalisation (addition theorem)', worst)
    # 3. vectorised basis against the plain double sum
    worst = 0.0
    for lat, lon, h, d in ((33.0, -120.0, 10.0, 2017.5), (-67.3, 45.0, 850.0, 2022.3), (89.999, 180.0, -1.0, 2029.9)):
        worst = max(worst, float(np.abs(field(lat, lon, h, d, repo) - field_direct(lat, lon, h, d, repo)).max()))
    out['basis_vs_direct_nT'] = worst
    assert worst < 1e-8, ('ref.wmm basis vs direct sum', worst)
    # 4. the published check points (printed to 0.1 nT)
    rows = published(repo)
    worst = 0.0
    for name, d, h, lat, lon, X, Y, Z in rows:
        assert model_for(d) == name, (name, d)
        v = field(lat, lon, h, d, repo)
        worst = max(worst, float(np.abs(v - np.array([X, Y, Z])).max()))
    out['published_rows'] = len(rows)
    out['published_worst_nT'] = worst
    assert len(rows) >= 30 and worst <= 0.06, ('ref.wmm vs published test values', len(rows), worst)
    return out
