"""Inventory of the public callables of the package under test, computed by introspection (C19).

Nothing here calls the library; it only walks the public namespace.  An entry is

    id -> {'kind': 'function' | 'constructor' | 'method' | 'property' | 'classmethod',
           'group': coverage group, 'owner': module or class object, 'name': attribute name,
           'params': [parameter names without self] or None}

ids look like ``orientation.q2R``, ``Quaternion()``, ``Quaternion.product``, ``Quaternion.conj`` (property),
``FQA()``, ``FQA.estimate``, ``frames.ned2enu``.  Methods are registered at the class that defines them
(``WGS`` inherits ``ReferenceEllipsoid.normal_gravity``: one entry, at ReferenceEllipsoid).
"""
import inspect, importlib, pkgutil, collections

# operators a caller reaches with array operands; other dunders are not part of the public calling surface
OPERATORS = ('__add__', '__sub__', '__mul__', '__matmul__', '__pow__', '__radd__', '__rsub__', '__rmul__', '__rmatmul__',
             '__iadd__', '__isub__', '__imul__', '__imatmul__', '__neg__', '__truediv__', '__itruediv__')

MODULES = [  # (module, short name used in ids, coverage group)
    ('ahrs.common.orientation', 'orientation', 'orientation'),
    ('ahrs.common.quaternion', 'quaternion', 'quaternion'),
    ('ahrs.common.dcm', 'dcm', 'dcm'),
    ('ahrs.common.frames', 'frames', 'frames'),
    ('ahrs.common.mathfuncs', 'mathfuncs', 'mathfuncs'),
    ('ahrs.common.geometry', 'geometry', 'geometry'),
    ('ahrs.utils.metrics', 'metrics', 'metrics'),
    ('ahrs.utils.core', 'core', 'core'),
    ('ahrs.utils.sensors', 'sensors', 'sensors'),
    ('ahrs.utils.wmm', 'wmm', 'wmm'),
    ('ahrs.utils.wgs84', 'wgs84', 'ellipsoid'),
    ('ahrs.utils.geodesy', 'geodesy', 'ellipsoid'),
]


def _params(fn, drop_first=False):
    try:
        ps = list(inspect.signature(fn).parameters)
    except (TypeError, ValueError):
        return None
    return ps[1:] if drop_first else ps


def _class_entries(out, cls, group):
    cname = cls.__name__
    ctor = cls.__dict__.get('__init__') or cls.__dict__.get('__new__')
    out[f'{cname}()'] = dict(kind='constructor', group=group, owner=cls, name='__new__' if '__new__' in cls.__dict__ else '__init__',
                             params=_params(ctor, True) if ctor else [])
    for name, v in sorted(cls.__dict__.items()):
        if name.startswith('_') and name not in OPERATORS:
            continue
        if isinstance(v, property):
            out[f'{cname}.{name}'] = dict(kind='property', group=group, owner=cls, name=name, params=[])
        elif isinstance(v, (classmethod, staticmethod)):
            out[f'{cname}.{name}'] = dict(kind='classmethod', group=group, owner=cls, name=name, params=_params(v.__func__, isinstance(v, classmethod)))
        elif inspect.isfunction(v):
            out[f'{cname}.{name}'] = dict(kind='method', group=group, owner=cls, name=name, params=_params(v, True))


def _module_entries(out, modname, short, group):
    mod = importlib.import_module(modname)
    for name, o in sorted(vars(mod).items()):
        if name.startswith('_'):
            continue
        if inspect.isfunction(o) and o.__module__ == mod.__name__:
            out[f'{short}.{name}'] = dict(kind='function', group=group, owner=mod, name=name, params=_params(o))
        elif inspect.isclass(o) and o.__module__ == mod.__name__:
            _class_entries(out, o, group if group not in ('quaternion', 'dcm') else o.__name__)


def discover():
    """Walk the public namespace of the bound ``ahrs`` package -> OrderedDict id -> entry (deterministic order)."""
    out = collections.OrderedDict()
    for modname, short, group in MODULES:
        _module_entries(out, modname, short, group)
    import ahrs.filters as F
    for mi in sorted(pkgutil.iter_modules(F.__path__), key=lambda m: m.name):
        _module_entries(out, 'ahrs.filters.' + mi.name, mi.name, 'filters')
    return out


def no_argument_members(inv, classes):
    """ids of methods / properties of the given class names that take no argument besides self."""
    return [i for i, e in inv.items() if e['kind'] in ('method', 'property') and e['owner'].__name__ in classes and e['params'] == []]
