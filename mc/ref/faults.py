"""Boring reference model for the C13 fault enumeration: fault menu, fault injection, base histories, deviation measures.

Nothing here imports ahrs.  A *fault history* is a tuple of 1 or 2 *atoms*; an atom is
``(sensor_set, start, length)`` with ``sensor_set`` a '+'-joined subset of acc / mag / gyr, and means
"rows start .. start+length-1 of these sensors read exactly zero".
"""
import itertools, math
import numpy as np
from . import sensors as S

SETS = {'MARG': ('acc', 'mag', 'gyr', 'acc+mag', 'acc+mag+gyr'), 'IMU': ('acc', 'gyr', 'acc+gyr')}
PAIR_SETS = {'MARG': ('acc', 'mag', 'gyr', 'acc+mag'), 'IMU': ('acc', 'gyr', 'acc+gyr')}


def menu(arch, n_start, lens, N, mixed_pairs):
    """Every fault history of the menu, in a fixed order.

    singles : sensor set x start in 0..n_start-1 x length in lens        (rows beyond the start range are reached by length)
    whole   : sensor set x the whole record
    tail    : sensor set x length in lens, ending on the last row        (position class 'last')
    pairs   : every pair i < j of length-1 faults with starts in 0..n_start-1; the same sensor set at both rows, or
              (mixed_pairs) every ordered pair of sensor sets
    """
    out = []
    for s in SETS[arch]:
        for st in range(n_start):
            for L in lens:
                out.append(((s, st, L),))
        out.append(((s, 0, N),))
        for L in lens:
            out.append(((s, N - L, L),))
    ps = PAIR_SETS[arch]
    for i, j in itertools.combinations(range(n_start), 2):
        if mixed_pairs:
            for s1 in ps:
                for s2 in ps:
                    out.append(((s1, i, 1), (s2, j, 1)))
        else:
            for s in ps:
                out.append(((s, i, 1), (s, j, 1)))
    return out


def rows_by_sensor(fault, N):
    """{'acc': sorted rows, 'mag': ..., 'gyr': ...} (clipped to the record)."""
    d = {'acc': set(), 'mag': set(), 'gyr': set()}
    for sset, st, L in fault:
        for name in sset.split('+'):
            d[name].update(range(max(st, 0), min(st + L, N)))
    return {k: sorted(v) for k, v in d.items()}


def all_rows(fault, N):
    r = set()
    for v in rows_by_sensor(fault, N).values():
        r.update(v)
    return sorted(r)


def inject(gyr, acc, mag, fault):
    """Copies of the three arrays with the rows of the fault set to exactly 0.0 (mag may be None)."""
    N = len(acc)
    rb = rows_by_sensor(fault, N)
    g, a = np.array(gyr, float), np.array(acc, float)
    m = None if mag is None else np.array(mag, float)
    g[rb['gyr']] = 0.0
    a[rb['acc']] = 0.0
    if m is not None:
        m[rb['mag']] = 0.0
    return g, a, m


def pos_class(fault, N):
    """'first' when row 0 is faulted (a whole-record fault is 'first'), else 'last' when row N-1 is, else 'interior'."""
    r = all_rows(fault, N)
    if 0 in r:
        return 'first'
    if N - 1 in r:
        return 'last'
    return 'interior'


def is_whole(fault, N):
    return any(L >= N for _, _, L in fault)


def render(fault, N):
    """Canonical text of a fault history (part of the case key)."""
    sens = ','.join(a[0] for a in fault)
    starts = ','.join(str(a[1]) for a in fault)
    lens = ','.join('all' if a[2] >= N else str(a[2]) for a in fault)
    return f'sensors={sens} pos={pos_class(fault, N)} start={starts} len={lens}'


# ---------------------------------------------------------------------------------------------------------------------
def body_rates(N, amp):
    """Small, smooth, never-zero body rates (rad/s): three incommensurate sinusoids."""
    t = np.arange(N, dtype=float)
    return amp * np.array([np.sin(0.7 * t + 0.3), np.cos(1.1 * t), np.sin(0.4 * t + 1.0)]).T


def base_history(q0, g_ref, m_ref, N, dt, amp, g_mag=9.81, m_mag=50.0):
    """A physically consistent, almost stationary record.

    The body starts at attitude q0 (body -> reference, Hamilton) and turns with the body rates `body_rates`;
    every sensor row is the exact reading: acc = g_mag R^T g_ref, mag = m_mag R^T m_ref, gyr = the rate.
    Returns (gyr, acc, mag, Qtrue).
    """
    W = body_rates(N, amp)
    Q = S.integrate_body_rates(q0, W, dt)
    R = S.R_rows(Q)
    g = np.asarray(g_ref, float); g = g / math.sqrt(float(g @ g))
    m = np.asarray(m_ref, float); m = m / math.sqrt(float(m @ m))
    return W, g_mag * S.to_body(R, g), m_mag * S.to_body(R, m), Q


def well_formed(Q, n):
    return isinstance(Q, np.ndarray) and Q.ndim == 2 and Q.shape == (n, 4) and Q.dtype.kind == 'f'


def nonfinite_rows(Q):
    return [int(i) for i in np.nonzero(~np.all(np.isfinite(Q), axis=1))[0]]


def unit_defect(Q):
    """max | |q| - 1 | over the finite rows."""
    ok = np.all(np.isfinite(Q), axis=1)
    if not ok.any():
        return 0.0
    return float(np.abs(np.sqrt((Q[ok] * Q[ok]).sum(axis=1)) - 1.0).max())


def full_angle_rows(P, Q):
    """Angle [0, pi] between the rotations of corresponding rows (q and -q are the same attitude)."""
    return S.attitude_angle_rows(P, Q)


def tilt_angle_rows(P, Q, side):
    """Angle between the rotations of corresponding rows AFTER discarding a rotation about the reference z axis
    (heading is unobservable without a magnetometer).  The relative rotation d is p^-1 q composed on the side on which
    a heading change acts: 'left' for states body->reference (q' = qz q  =>  d = q p*), 'right' for the conjugate
    convention (q' = q qz  =>  d = p* q).  Swing-twist about z: tilt = 2 atan2(|(x, y)|, |(w, z)|)."""
    P = np.asarray(P, float); Q = np.asarray(Q, float)
    d = S.qmul_rows(Q, S.qconj_rows(P)) if side == 'left' else S.qmul_rows(S.qconj_rows(P), Q)
    return 2.0 * np.arctan2(np.sqrt(d[:, 1]**2 + d[:, 2]**2), np.sqrt(d[:, 0]**2 + d[:, 3]**2))


def rel_angle_from_first(Q):
    """Rotation angle between row 0 and every row (convention-free: conjugation / frame changes keep angles)."""
    Q = np.asarray(Q, float)
    return S.attitude_angle_rows(np.tile(Q[0], (len(Q), 1)), Q)
