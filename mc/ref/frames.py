"""Boring reference model of the navigation frames judged by C17 (independent of ahrs/common/frames.py).

Everything is plain ``math`` on Python floats.  Angles are degrees unless a name says ``_rad``.
sin/cos of whole multiples of 90 degrees are exact (0, +-1), so the pole really is on the z axis here.

Conventions (the documented ones):
* ellipsoid WGS84 a = 6378137.0, b = 6356752.3142 (the library's defaults), geodetic latitude/longitude/height;
* ENU: up = outward ellipsoid normal, east = d/d(lon), north = up x east;
* AER: azimuth clockwise from North in [0, 360), elevation above the East-North plane, slant range;
* DCA: [d, c] = [[sin t, cos t], [-cos t, sin t]] [e, n], a = u  (t clockwise from North);
* NED <-> ENU: swap the first two components, negate the third.
"""
import math

A = 6378137.0
B = 6356752.3142


def sind(x):
    r = math.remainder(x, 360.0)
    if r == 0.0 or abs(r) == 180.0:
        return 0.0
    if r == 90.0:
        return 1.0
    if r == -90.0:
        return -1.0
    return math.sin(math.radians(r))


def cosd(x):
    r = math.remainder(x, 360.0)
    if abs(r) == 90.0:
        return 0.0
    if r == 0.0:
        return 1.0
    if abs(r) == 180.0:
        return -1.0
    return math.cos(math.radians(r))


def prime_vertical(lat, a=A, b=B):
    """N = a^2 / sqrt(a^2 cos^2 + b^2 sin^2)  (the form without the eccentricity)."""
    c, s = cosd(lat), sind(lat)
    return a * a / math.sqrt(a * a * c * c + b * b * s * s)


def geodetic2ecef(lat, lon, h, a=A, b=B):
    N = prime_vertical(lat, a, b)
    c, s = cosd(lat), sind(lat)
    return ((N + h) * c * cosd(lon), (N + h) * c * sind(lon), (N * (b / a) * (b / a) + h) * s)


def ecef2geodetic(x, y, z, a=A, b=B):
    """Fixed point iterated to machine precision, well-conditioned height (valid on the axis and the equator)."""
    e2 = (a * a - b * b) / (a * a)
    p = math.hypot(x, y)
    lon = math.degrees(math.atan2(y, x))
    lat = math.atan2(z, (1.0 - e2) * p)
    for _ in range(100):
        s = math.sin(lat)
        N = a / math.sqrt(1.0 - e2 * s * s)
        new = math.atan2(z + e2 * N * s, p)
        done = abs(new - lat) <= 2e-16
        lat = new
        if done:
            break
    s, c = math.sin(lat), math.cos(lat)
    h = p * c + z * s - a * math.sqrt(1.0 - e2 * s * s)
    return (math.degrees(lat), lon, h)


def enu_basis(lat, lon):
    """Rows east, north, up expressed in ECEF."""
    sl, cl, sp, cp = sind(lon), cosd(lon), sind(lat), cosd(lat)
    up = (cp * cl, cp * sl, sp)
    east = (-sl, cl, 0.0)
    north = (up[1] * east[2] - up[2] * east[1], up[2] * east[0] - up[0] * east[2], up[0] * east[1] - up[1] * east[0])
    return east, north, up


def ecef2enu(X, X0, lat, lon):
    d = (X[0] - X0[0], X[1] - X0[1], X[2] - X0[2])
    return tuple(r[0] * d[0] + r[1] * d[1] + r[2] * d[2] for r in enu_basis(lat, lon))


def enu2ecef(enu, X0, lat, lon):
    e, n, u = enu_basis(lat, lon)
    return tuple(X0[i] + enu[0] * e[i] + enu[1] * n[i] + enu[2] * u[i] for i in range(3))


def enu2aer_rad(e, n, u):
    r = math.hypot(e, n)
    az = math.atan2(e, n)
    if az < 0.0:
        az += 2.0 * math.pi
    return (az, math.atan2(u, r), math.sqrt(e * e + n * n + u * u))


def aer2enu_rad(az, el, rng):
    return (rng * math.cos(el) * math.sin(az), rng * math.cos(el) * math.cos(az), rng * math.sin(el))


def enu2dca_rad(e, n, u, t):
    return (math.sin(t) * e + math.cos(t) * n, -math.cos(t) * e + math.sin(t) * n, u)


def swap_ned_enu(v):
    return (v[1], v[0], -v[2])


def selftest():
    for lat in (-90.0, -45.0, -1e-9, 0.0, 30.0, 89.9999, 90.0):
        for lon in (-180.0, -45.0, 0.0, 90.0):
            for h in (-1e4, 0.0, 1e6):
                X = geodetic2ecef(lat, lon, h)
                g = ecef2geodetic(*X)
                assert abs(g[0] - lat) < 1e-12 and abs(g[2] - h) < 1e-8, (lat, lon, h, g)
                if abs(lat) < 90.0:
                    assert abs(math.remainder(g[1] - lon, 360.0)) < 1e-12, (lat, lon, h, g)
                e, n, u = enu_basis(lat, lon)
                for a_, b_, want in ((e, e, 1), (n, n, 1), (u, u, 1), (e, n, 0), (e, u, 0), (n, u, 0)):
                    assert abs(sum(p * q for p, q in zip(a_, b_)) - want) < 1e-15
                back = ecef2enu(enu2ecef((3.0, -4.0, 5.0), X, lat, lon), X, lat, lon)
                assert max(abs(back[0] - 3.0), abs(back[1] + 4.0), abs(back[2] - 5.0)) < 1e-8
    assert geodetic2ecef(90.0, 12.0, 0.0)[:2] == (0.0, 0.0)
    return True
