"""Boring reference model of quaternion / SO(3) algebra (scalar-first Hamilton quaternions)."""
import math
import numpy as np


def qmul(p, q):
    pw, px, py, pz = p
    qw, qx, qy, qz = q
    return np.array([pw*qw - px*qx - py*qy - pz*qz,
                     pw*qx + px*qw + py*qz - pz*qy,
                     pw*qy - px*qz + py*qw + pz*qx,
                     pw*qz + px*qy - py*qx + pz*qw])


def qconj(q):
    return np.array([q[0], -q[1], -q[2], -q[3]])


def qnorm(q):
    return math.sqrt(sum(float(c)*float(c) for c in q))


def qunit(q):
    q = np.asarray(q, float)
    return q / qnorm(q)


def R(q):
    """Rotation matrix of a UNIT quaternion (one formula, the textbook one)."""
    w, x, y, z = (float(c) for c in q)
    return np.array([[1 - 2*(y*y + z*z), 2*(x*y - w*z), 2*(x*z + w*y)],
                     [2*(x*y + w*z), 1 - 2*(x*x + z*z), 2*(y*z - w*x)],
                     [2*(x*z - w*y), 2*(w*x + y*z), 1 - 2*(x*x + y*y)]])


def axang2q(axis, angle):
    a = np.asarray(axis, float)
    a = a / math.sqrt(float(a @ a))
    h = 0.5 * angle
    return np.array([math.cos(h), *(math.sin(h) * a)])


def axang2R(axis, angle):
    """Rodrigues formula, written independently of R(q)."""
    a = np.asarray(axis, float)
    a = a / math.sqrt(float(a @ a))
    K = np.array([[0, -a[2], a[1]], [a[2], 0, -a[0]], [-a[1], a[0], 0]])
    return np.eye(3) + math.sin(angle) * K + (1 - math.cos(angle)) * (K @ K)


def rot_angle_R(Rm):
    """Rotation angle of a proper rotation matrix, well conditioned everywhere (atan2 of skew/trace)."""
    s = 0.5 * math.sqrt((Rm[2, 1] - Rm[1, 2])**2 + (Rm[0, 2] - Rm[2, 0])**2 + (Rm[1, 0] - Rm[0, 1])**2)
    c = 0.5 * (Rm[0, 0] + Rm[1, 1] + Rm[2, 2] - 1.0)
    return math.atan2(s, c)


def angle_between_R(A, B):
    return rot_angle_R(np.asarray(A).T @ np.asarray(B))


def qangle(p, q):
    """Relative rotation angle in [0, pi] between the rotations of unit quaternions p, q (sign-agnostic)."""
    d = qmul(qconj(p), q)
    return 2.0 * math.atan2(math.sqrt(d[1]*d[1] + d[2]*d[2] + d[3]*d[3]), abs(d[0]))


def same_rotation(p, q, tol):
    return qangle(qunit(p), qunit(q)) <= tol


def det3(M):
    return (M[0, 0]*(M[1, 1]*M[2, 2] - M[1, 2]*M[2, 1]) - M[0, 1]*(M[1, 0]*M[2, 2] - M[1, 2]*M[2, 0])
            + M[0, 2]*(M[1, 0]*M[2, 1] - M[1, 1]*M[2, 0]))


def so3_defect(M):
    """max(|M M^T - I|_max, |det - 1|); inf for non-finite / non-real / wrong shape."""
    M = np.asarray(M)
    if M.shape != (3, 3) or np.iscomplexobj(M) or not np.all(np.isfinite(M)):
        return float('inf')
    M = M.astype(float)
    return max(float(np.abs(M @ M.T - np.eye(3)).max()), abs(det3(M) - 1.0))


def Rx(a):
    c, s = math.cos(a), math.sin(a)
    return np.array([[1, 0, 0], [0, c, -s], [0, s, c]])


def Ry(a):
    c, s = math.cos(a), math.sin(a)
    return np.array([[c, 0, s], [0, 1, 0], [-s, 0, c]])


def Rz(a):
    c, s = math.cos(a), math.sin(a)
    return np.array([[c, -s, 0], [s, c, 0], [0, 0, 1]])


def rpy2q(roll, pitch, yaw):
    """q = qz(yaw) * qy(pitch) * qx(roll)  (aerospace ZYX)."""
    return qmul(qmul(axang2q([0, 0, 1], yaw), axang2q([0, 1, 0], pitch)), axang2q([1, 0, 0], roll))


def is_real_finite_unit(q, tol=1e-9, n=4):
    q = np.asarray(q)
    if q.shape != (n,) or np.iscomplexobj(q) or q.dtype.kind not in 'fiu':
        return False
    q = q.astype(float)
    return bool(np.all(np.isfinite(q))) and abs(qnorm(q) - 1.0) <= tol
