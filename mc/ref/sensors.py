"""Boring reference model for synthetic strap-down sensor data (used by props/c20.py).

Everything is written from the textbook definitions on plain float arrays; nothing here imports ahrs.

Conventions: scalar-first Hamilton quaternions; R(q) maps body -> reference frame, hence a reference
vector v is seen in the body frame as R(q)^T v; roll-pitch-yaw is the aerospace ZYX sequence
q = qz(yaw) qy(pitch) qx(roll); a body rate w held for dt advances the attitude by q <- q * exp(w dt / 2).
"""
import math
import numpy as np

DEG2RAD = math.pi / 180.0
RAD2DEG = 180.0 / math.pi


def qmul_rows(P, Q):
    """Row-wise Hamilton product of two (N,4) arrays."""
    pw, px, py, pz = np.asarray(P, float).T
    qw, qx, qy, qz = np.asarray(Q, float).T
    return np.array([pw*qw - px*qx - py*qy - pz*qz,
                     pw*qx + px*qw + py*qz - pz*qy,
                     pw*qy - px*qz + py*qw + pz*qx,
                     pw*qz + px*qy - py*qx + pz*qw]).T


def qconj_rows(Q):
    return np.asarray(Q, float) * np.array([1.0, -1.0, -1.0, -1.0])


def R_rows(Q):
    """(N,3,3) rotation matrices of (N,4) unit quaternions, textbook formula."""
    w, x, y, z = np.asarray(Q, float).T
    R = np.empty((len(w), 3, 3))
    R[:, 0, 0] = 1 - 2*(y*y + z*z); R[:, 0, 1] = 2*(x*y - w*z);     R[:, 0, 2] = 2*(x*z + w*y)
    R[:, 1, 0] = 2*(x*y + w*z);     R[:, 1, 1] = 1 - 2*(x*x + z*z); R[:, 1, 2] = 2*(y*z - w*x)
    R[:, 2, 0] = 2*(x*z - w*y);     R[:, 2, 1] = 2*(w*x + y*z);     R[:, 2, 2] = 1 - 2*(x*x + y*y)
    return R


def to_body(R, v):
    """Rows R_i^T v: the reference-frame vector v expressed in the body frame of every sample."""
    v = np.asarray(v, float)
    return np.einsum('nji,j->ni', np.asarray(R, float), v)


def rpy2q_rows(A):
    """(N,3) roll, pitch, yaw -> (N,4) quaternions  qz(yaw) * qy(pitch) * qx(roll)."""
    A = np.asarray(A, float)
    z0 = np.zeros(len(A))
    hx, hy, hz = 0.5*A[:, 0], 0.5*A[:, 1], 0.5*A[:, 2]
    qx = np.array([np.cos(hx), np.sin(hx), z0, z0]).T
    qy = np.array([np.cos(hy), z0, np.sin(hy), z0]).T
    qz = np.array([np.cos(hz), z0, z0, np.sin(hz)]).T
    return qmul_rows(qmul_rows(qz, qy), qx)


def attitude_angle_rows(P, Q):
    """Angle in [0, pi] between the ROTATIONS of the rows of P and Q (q and -q are the same attitude)."""
    d = qmul_rows(qconj_rows(P), Q)
    return 2.0 * np.arctan2(np.sqrt(d[:, 1]**2 + d[:, 2]**2 + d[:, 3]**2), np.abs(d[:, 0]))


def step_angles(Q):
    """theta_k in [0, 2 pi): rotation angle carried by q_{k-1}^* q_k as written (no sign folding), k = 1..N-1."""
    d = qmul_rows(qconj_rows(Q[:-1]), Q[1:])
    return 2.0 * np.arctan2(np.sqrt(d[:, 1]**2 + d[:, 2]**2 + d[:, 3]**2), d[:, 0])


def step_angles_attitude(Q):
    """theta_k in [0, pi]: angle of the ROTATION between attitudes k-1 and k (q and -q are the same attitude), k = 1..N-1."""
    d = qmul_rows(qconj_rows(Q[:-1]), Q[1:])
    return 2.0 * np.arctan2(np.sqrt(d[:, 1]**2 + d[:, 2]**2 + d[:, 3]**2), np.abs(d[:, 0]))


def expq(phi):
    """Unit quaternion of the rotation vector phi (exact exponential map, series near zero)."""
    x, y, z = (float(c) for c in phi)
    a = math.sqrt(x*x + y*y + z*z)
    h = 0.5 * a
    s = 0.5 * (1.0 - h*h/6.0 + h**4/120.0) if a < 1e-4 else math.sin(h) / a
    return (math.cos(h), s*x, s*y, s*z)


def integrate_body_rates(q0, W, dt):
    """Attitudes q_0 .. q_{N-1} obtained by holding the body rate W[k] (rad/s) over the interval (k-1, k)."""
    N = len(W)
    out = np.empty((N, 4))
    w, x, y, z = (float(c) for c in q0)
    out[0] = (w, x, y, z)
    for k in range(1, N):
        ew, ex, ey, ez = expq(W[k] * dt)
        w, x, y, z = (w*ew - x*ex - y*ey - z*ez,
                      w*ex + x*ew + y*ez - z*ey,
                      w*ey - x*ez + y*ew + z*ex,
                      w*ez + x*ey - y*ex + z*ew)
        out[k] = (w, x, y, z)
    return out


def chord_defect(theta):
    """theta - 2 sin(theta/2) >= 0: what is lost per step when the rate is 2 vec(dq)/dt instead of theta/dt."""
    theta = np.asarray(theta, float)
    return theta - 2.0 * np.sin(0.5 * theta)


def axang_rows(axis, angles):
    a = np.asarray(axis, float)
    a = a / math.sqrt(float(a @ a))
    h = 0.5 * np.asarray(angles, float)
    return np.array([np.cos(h), np.sin(h)*a[0], np.sin(h)*a[1], np.sin(h)*a[2]]).T
