"""Uniform handles on ahrs' recursive filters: batch construction, data-less construction + one streaming step,
reference vectors (for generating consistent stationary data) and attitude convention.

A configuration is a dict of constructor keyword arguments that are valid for both the batch and the data-less instance.
"""
import math
import numpy as np
from . import quat as rq
from .filters import cd, sd


class Rec:
    def __init__(self, name, arch, cls, cfgs, has_mag, frame='NED', step=None, out='Q', conj=False, g_ref=None, m_ref=None,
                 q0_key='q0', seeded=False, batch_args=None, first_row=None):
        self.name, self.arch, self.cls_name, self.cfgs, self.has_mag, self.frame = name, arch, cls, cfgs, has_mag, frame
        self.step_fn, self.out, self.conj = step, out, conj
        self.g_ref, self.m_ref = g_ref, m_ref
        self.q0_key, self.seeded = q0_key, seeded
        self.batch_args = batch_args or (lambda g, a, m: dict(gyr=g, acc=a, mag=m) if m is not None else dict(gyr=g, acc=a))

    @property
    def key(self):
        return f'{self.name}-{self.arch}' + (f'-{self.frame}' if self.frame != 'NED' else '')

    def klass(self):
        from ahrs import filters as F
        return getattr(F, self.cls_name)

    def batch(self, gyr, acc, mag, cfg, q0=None):
        kw = dict(cfg)
        if q0 is not None and self.q0_key:
            kw[self.q0_key] = np.array(q0, float)
        inst = self.klass()(**self.batch_args(np.array(gyr, float), np.array(acc, float), None if (mag is None or not self.has_mag) else np.array(mag, float)), **kw)
        return inst

    def output(self, inst):
        return np.asarray(getattr(inst, self.out))

    def fresh(self, cfg):
        return self.klass()(**cfg)

    def step(self, inst, q, gyr, acc, mag):
        return np.asarray(self.step_fn(inst, np.array(q, float), np.array(gyr, float), np.array(acc, float), None if mag is None else np.array(mag, float)))

    def refs(self, dip):
        g = np.asarray(self.g_ref(dip), float)
        m = np.asarray(self.m_ref(dip), float)
        return g / np.linalg.norm(g), m / np.linalg.norm(m)


def registry():
    Z = lambda z: (lambda dip: [0.0, 0.0, z])
    Mned = lambda dip: [cd(dip), 0.0, sd(dip)]
    Menu = lambda dip: [0.0, cd(dip), -sd(dip)]
    R = []
    R.append(Rec('Madgwick', 'IMU', 'Madgwick', [dict(), dict(gain=0.5, frequency=50.0)], False,
                 step=lambda f, q, g, a, m: f.updateIMU(q, g, a), g_ref=Z(1.0), m_ref=Mned))
    R.append(Rec('Madgwick', 'MARG', 'Madgwick', [dict(gain=0.041), dict(gain=0.5, frequency=50.0)], True,
                 step=lambda f, q, g, a, m: f.updateMARG(q, g, a, m), g_ref=Z(1.0), m_ref=Mned, q0_key=None))
    R.append(Rec('Mahony', 'IMU', 'Mahony', [dict(), dict(k_P=2.0, k_I=0.1, frequency=50.0, b0=np.array([0.01, -0.02, 0.005]))], False,
                 step=lambda f, q, g, a, m: f.updateIMU(q, g, a), g_ref=Z(1.0), m_ref=Mned))
    R.append(Rec('Mahony', 'MARG', 'Mahony', [dict(), dict(k_P=2.0, k_I=0.1, frequency=50.0, b0=np.array([0.01, -0.02, 0.005]))], True,
                 step=lambda f, q, g, a, m: f.updateMARG(q, g, a, m), g_ref=Z(1.0), m_ref=lambda dip: [0.0, cd(dip), sd(dip)]))
    for frame, gz, mr in (('NED', 1.0, Mned), ('ENU', -1.0, Menu)):
        R.append(Rec('EKF', 'IMU', 'EKF', [dict(frame=frame), dict(frame=frame, frequency=50.0, noises=[0.1**2, 0.3**2, 0.5**2], P=np.identity(4) * 0.5)], False, frame=frame,
                     step=lambda f, q, g, a, m: f.update(q, g, a), g_ref=Z(gz), m_ref=mr))
        R.append(Rec('EKF', 'MARG', 'EKF', [dict(frame=frame, magnetic_ref=60.0), dict(frame=frame, magnetic_ref=60.0, frequency=50.0, noises=[0.1**2, 0.3**2, 0.5**2])], True,
                     frame=frame, step=lambda f, q, g, a, m: f.update(q, g, a, m), g_ref=Z(gz), m_ref=mr))
    R.append(Rec('UKF', 'IMU', 'UKF', [dict(), dict(frequency=50.0, alpha=1e-2)], False,
                 step=lambda f, q, g, a, m: f.update(q, g, a), g_ref=Z(1.0), m_ref=Mned))
    aq_args = lambda g, a, m: dict(gyr=g, acc=a, mag=m) if m is not None else dict(gyr=g, acc=a)
    R.append(Rec('AQUA', 'IMU', 'AQUA', [dict(), dict(adaptive=True, alpha=0.05, frequency=50.0)], False, conj=True, batch_args=aq_args,
                 step=lambda f, q, g, a, m: f.updateIMU(q, g, a), g_ref=Z(1.0), m_ref=Mned))
    R.append(Rec('AQUA', 'MARG', 'AQUA', [dict(), dict(adaptive=True, alpha=0.05, beta=0.05, frequency=50.0)], True, conj=True, batch_args=aq_args,
                 step=lambda f, q, g, a, m: f.updateMARG(q, g, a, m), g_ref=Z(1.0), m_ref=Mned))
    R.append(Rec('Fourati', 'MARG', 'Fourati', [dict(magnetic_dip=60.0), dict(magnetic_dip=60.0, gain=0.5, frequency=50.0)], True,
                 step=lambda f, q, g, a, m: f.update(q, g, a, m), g_ref=Z(1.0), m_ref=Mned, q0_key=None))
    for frame, gz in (('NED', -1.0), ('ENU', 1.0)):
        R.append(Rec('ROLEQ', 'MARG', 'ROLEQ', [dict(frame=frame, magnetic_ref=60.0), dict(frame=frame, magnetic_ref=60.0, frequency=50.0, weights=np.array([1.0, 2.0]))], True,
                     frame=frame, step=lambda f, q, g, a, m: f.update(q, g, a, m), g_ref=Z(gz),
                     m_ref=(lambda dip: [sd(dip), 0.0, cd(dip)]) if frame == 'NED' else Menu, seeded=True))
    R.append(Rec('AngularRate', 'closed', 'AngularRate', [dict(method='closed'), dict(method='closed', frequency=50.0)], False,
                 step=lambda f, q, g, a, m: f.update(q, g, method='closed'), batch_args=lambda g, a, m: dict(gyr=g), g_ref=Z(1.0), m_ref=Mned))
    R.append(Rec('AngularRate', 'series', 'AngularRate', [dict(method='series', order=1), dict(method='series', order=3, frequency=50.0)], False,
                 step=lambda f, q, g, a, m: f.update(q, g, method='series', order=f.order), batch_args=lambda g, a, m: dict(gyr=g), g_ref=Z(1.0), m_ref=Mned))
    # no streaming entry point
    R.append(Rec('FKF', 'MARG', 'FKF', [dict(), dict(frequency=50.0, sigma_g=0.05)], True, step=None, g_ref=Z(1.0), m_ref=Mned, q0_key=None))
    R.append(Rec('Complementary', 'IMU', 'Complementary', [dict(), dict(gain=0.5, frequency=50.0)], False, step=None, g_ref=Z(1.0), m_ref=Mned, q0_key='w0', out='Q'))
    R.append(Rec('Complementary', 'MARG', 'Complementary', [dict(), dict(gain=0.5, frequency=50.0)], True, step=None, g_ref=Z(1.0), m_ref=Mned, q0_key='w0', out='Q'))
    return R


def by_key(key):
    for r in registry():
        if r.key == key:
            return r
    raise KeyError(key)
