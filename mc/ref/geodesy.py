"""Boring reference model of the level (equipotential) ellipsoid of revolution  (Heiskanen & Moritz 1967, ch. 2;
Moritz 1980 "Geodetic Reference System 1980").

Everything is a function of the four defining constants (a, f, GM, w).  Plain Python floats, no NumPy.

The closed forms

    q0  = 1/2 [(1 + 3/e'^2) atan e' - 3/e']
    q0' = 3 (1 + 1/e'^2)(1 - atan(e')/e') - 1

cancel catastrophically as e' -> 0 (q0 ~ 2/15 e'^3 is the difference of two terms ~ 3/e').  The reference
therefore uses their Maclaurin series in t = e'^2 (alternating, monotonically decreasing terms for t < 1, i.e.
well conditioned for every flattening f < 1 - 1/sqrt(2) = 0.29):

    q0  / e'^3 = S(t) = sum_{k>=1} (-1)^(k+1) 2k / ((2k+1)(2k+3)) t^(k-1)       S(0) = 2/15
    q0' / e'^2 = P(t) = sum_{k>=1} (-1)^(k+1) 6  / ((2k+1)(2k+3)) t^(k-1)       P(0) = 2/5
    atan(e')/e' = A(t) = sum_{n>=0} (-1)^n t^n / (2n+1)                          A(0) = 1

so that  e' q0'/q0 = P(t)/S(t)  is finite and smooth at t = 0 (value 3), which gives the limits for the sphere

    ge(f=0) = GM/a^2 (1 - 3m/2),   gp(f=0) = GM/a^2 (1 + m),   J2(f=0) = -m/3,   U0(f=0) = GM/a + w^2 a^2/3.
"""
import math

NTERMS = 400          # t <= 0.5625 (f = 0.2)  ->  t^130 < 1e-32; 400 terms also cover f up to 0.29 comfortably


def series_S(t):
    s, p = 0.0, 1.0
    for k in range(1, NTERMS):
        term = 2.0 * k / ((2 * k + 1) * (2 * k + 3)) * p
        s += term if k % 2 else -term
        p *= t
        if p < 1e-40:
            break
    return s


def series_P(t):
    s, p = 0.0, 1.0
    for k in range(1, NTERMS):
        term = 6.0 / ((2 * k + 1) * (2 * k + 3)) * p
        s += term if k % 2 else -term
        p *= t
        if p < 1e-40:
            break
    return s


def series_A(t):
    s, p = 0.0, 1.0
    for n in range(0, NTERMS):
        term = p / (2 * n + 1)
        s += -term if n % 2 else term
        p *= t
        if p < 1e-40:
            break
    return s


def q0_closed(es):
    return 0.5 * ((1 + 3 / es ** 2) * math.atan(es) - 3 / es)


def q0p_closed(es):
    return 3 * ((1 + 1 / es ** 2) * (1 - math.atan(es) / es)) - 1


class Ellipsoid:
    """Level ellipsoid from (a, f, GM, w); every quantity evaluated in a well-conditioned way from a and f."""

    def __init__(self, a, f, GM, w):
        self.a, self.f, self.GM, self.w = float(a), float(f), float(GM), float(w)
        a, f = self.a, self.f
        self.b = a * (1.0 - f)
        self.e2 = f * (2.0 - f)                         # (a^2-b^2)/a^2
        self.es2 = f * (2.0 - f) / (1.0 - f) ** 2       # (a^2-b^2)/b^2
        self.E = a * math.sqrt(f * (2.0 - f))           # sqrt(a^2-b^2)
        self.m = self.w ** 2 * a ** 2 * self.b / self.GM
        t = self.es2
        self.S, self.P, self.A = series_S(t), series_P(t), series_A(t)
        self.ratio = self.P / self.S                    # e' q0'/q0  (-> 3 as f -> 0)
        self.ge = self.GM / (a * self.b) * (1.0 - self.m - self.m * self.ratio / 6.0)
        self.gp = self.GM / a ** 2 * (1.0 + self.m * self.ratio / 3.0)
        # J2 = e^2/3 (1 - 2 m e'/(15 q0)),   e^2 e'/q0 = e^2/(e'^2 S) = (1-f)^2 / S
        self.J2 = self.e2 / 3.0 - 2.0 * self.m * (1.0 - f) ** 2 / (45.0 * self.S)
        # U0 = GM/E atan e' + w^2 a^2/3,   atan(e')/E = A/b
        self.U0 = self.GM / self.b * self.A + self.w ** 2 * a ** 2 / 3.0
        self.g_sphere = self.GM / a ** 2                # non-rotating sphere of radius a

    def somigliana(self, lat_deg, ge=None, gp=None):
        """Somigliana's closed formula in its symmetric (first) form."""
        ge = self.ge if ge is None else ge
        gp = self.gp if gp is None else gp
        phi = math.radians(lat_deg)
        c2, s2 = math.cos(phi) ** 2, math.sin(phi) ** 2
        return (self.a * ge * c2 + self.b * gp * s2) / math.sqrt(self.a ** 2 * c2 + self.b ** 2 * s2)

    def height_factor(self, lat_deg, h):
        """Second-order upward continuation  g(h)/g(0)  (Heiskanen & Moritz eq. 2-215 / WGS84 eq. 4-3)."""
        s2 = math.sin(math.radians(lat_deg)) ** 2
        return 1.0 - 2.0 / self.a * (1.0 + self.f + self.m - 2.0 * self.f * s2) * h + 3.0 * h ** 2 / self.a ** 2

    def normal_gravity(self, lat_deg, h=0.0, ge=None, gp=None):
        return self.somigliana(lat_deg, ge, gp) * self.height_factor(lat_deg, h)

    def pizzetti_residual(self, ge, gp):
        """(2 ge/a + gp/b) - (3GM/(a^2 b) - 2 w^2), relative to 3GM/(a^2 b)."""
        rhs = 3.0 * self.GM / (self.a ** 2 * self.b)
        return (2.0 * ge / self.a + gp / self.b - (rhs - 2.0 * self.w ** 2)) / rhs

    def clairaut_residual(self, ge, gp):
        """Clairaut's theorem in closed form (H&M 2-75): f + f* = w^2 b/ge (1 + e' q0'/(2 q0)), f* = (gp-ge)/ge."""
        return self.f + (gp - ge) / ge - self.w ** 2 * self.b / ge * (1.0 + self.ratio / 2.0)


def selftest():
    """Series against closed forms where the closed forms are well conditioned, and the limits at t = 0."""
    for es in (0.3, 0.5, 0.75, 0.9):
        t = es * es
        assert abs(series_S(t) * es ** 3 - q0_closed(es)) <= 2e-12 * q0_closed(es), es
        assert abs(series_P(t) * es ** 2 - q0p_closed(es)) <= 2e-12 * q0p_closed(es), es
        assert abs(series_A(t) * es - math.atan(es)) <= 1e-15, es
    assert abs(series_S(0.0) - 2 / 15) < 1e-17 and abs(series_P(0.0) - 0.4) < 1e-17 and series_A(0.0) == 1.0
    # WGS84 published values (NGA.STND.0036 table 3.6 / 3.7)
    E = Ellipsoid(6378137.0, 1 / 298.257223563, 3.986004418e14, 7.292115e-5)
    assert abs(E.ge - 9.7803253359) < 5e-10 and abs(E.gp - 9.8321849379) < 5e-10
    assert abs(E.m - 0.00344978650684) < 1e-14
    assert abs(E.J2 - 1.082629821313e-3) < 2e-13 and abs(E.U0 - 62636851.7146) < 1e-3
    assert abs(E.pizzetti_residual(E.ge, E.gp)) < 1e-15 and abs(E.clairaut_residual(E.ge, E.gp)) < 1e-15
    return True
