"""Boring reference model of geodesic interpolation on S^3 (scalar-first unit quaternions).

Deliberately NOT the sin-weight formula used by the library: the point at weight t on the
geodesic from p to q' is  p * exp(t * log(p^-1 q'))  (relative rotation, atan2 for the angle).
"""
import math
import numpy as np
from .quat import qmul, qconj


def dot4(a, b):
    return float(a[0]) * float(b[0]) + float(a[1]) * float(b[1]) + float(a[2]) * float(b[2]) + float(a[3]) * float(b[3])


def s3angle(a, b):
    """Angle in [0, pi] between two (nearly) unit 4-vectors; well conditioned everywhere (atan2 of rejection/projection)."""
    c = dot4(a, b)
    na2 = dot4(a, a)
    r = [float(b[i]) - c * float(a[i]) / na2 for i in range(4)]
    s = math.sqrt(r[0] * r[0] + r[1] * r[1] + r[2] * r[2] + r[3] * r[3]) * math.sqrt(na2)
    return math.atan2(s, c)


def s3angles(a, S):
    """s3angle(a, S[i]) for every row of S (a nearly unit)."""
    a = np.asarray(a, float)
    S = np.asarray(S, float)
    na2 = dot4(a, a)
    c = S @ a
    r = S - np.outer(c / na2, a)
    return np.arctan2(np.sqrt((r * r).sum(axis=1)) * math.sqrt(na2), c)


def nearer(p, q):
    """(+1 | -1 | 0): sign s such that s*q is the nearer of q, -q to p; 0 when it is a tie within rounding."""
    d = dot4(p, q)
    if abs(d) <= 1e-15:
        return 0
    return 1 if d > 0 else -1


def geodesic(p, q, t, toward=None):
    """Rows r(t_i) on the great arc from p to toward*q (default: the nearer of +-q; a tie goes to +q).

    r(t) = p * [cos(t*phi), u*sin(t*phi)]  with  p^-1 * q' = [cos(phi), u*sin(phi)].
    """
    p = np.asarray(p, float)
    q = np.asarray(q, float)
    if toward is None:
        toward = nearer(p, q) or 1
    qq = toward * q
    rel = qmul(qconj(p), qq) / dot4(p, p)
    s = math.sqrt(float(rel[1]) ** 2 + float(rel[2]) ** 2 + float(rel[3]) ** 2)
    phi = math.atan2(s, float(rel[0]))
    t = np.atleast_1d(np.asarray(t, float))
    if s == 0.0:                                             # coincident end points (phi = 0 or pi)
        return np.tile(p if rel[0] >= 0 else -p, (len(t), 1))
    a = t * phi
    dw = np.cos(a)
    k = np.sin(a) / s
    dx, dy, dz = k * rel[1], k * rel[2], k * rel[3]
    pw, px, py, pz = (float(c) for c in p)
    return np.stack([pw*dw - px*dx - py*dy - pz*dz,          # Hamilton product p * d(t), row by row
                     pw*dx + px*dw + py*dz - pz*dy,
                     pw*dy - px*dz + py*dw + pz*dx,
                     pw*dz + px*dy - py*dx + pz*dw], axis=1)


def has_jump(X):
    """True when two consecutive rows have a non-positive dot product."""
    X = np.asarray(X, float)
    return bool(np.any(~(np.einsum('ij,ij->i', X[:-1], X[1:]) > 0.0)))


def nan_runs(isnan):
    """Maximal runs [(first, last), ...] of True in a boolean list (plain loop, independent of numpy tricks)."""
    runs, start = [], None
    for i, b in enumerate(list(isnan) + [False]):
        if b and start is None:
            start = i
        elif not b and start is not None:
            runs.append((start, i - 1)); start = None
    return runs
