"""Reference model of the *history semantics* of one WMM object (property C15).

Deliberately boring: the documented behaviour of the object is that of a pure function of
(date, place, height, frame) plus ONE piece of memory, the date last given.  The model therefore
tracks only

    frame      fixed by the constructor
    cur        decimal year of the date last given explicitly (constructor, magnetic_field, reset_coefficients);
               "today" when the constructor got date=None or when the date argument of magnetic_field was omitted
    place      (lat, lon, h) of the last query (None before the first)

and says, for every event of a history, which (decimal date, lat, lon, h, frame) the answer must be the answer of.
It never looks at the object.  The numbers themselves come from a FRESH real object (props/c15.py), pinned by C14.

Events are JSON lists:

    ['ctor', date, lat, lon, h, frame]      lat = None: latitude/longitude/height arguments omitted (package default)
    ['field', lat, lon, h, date]            WMM.magnetic_field(lat, lon, h, date=date);   date 'omit': argument omitted
    ['reset', date]                         WMM.reset_coefficients(date)
    ['read', name]                          reading the property `name` (magnetic_elements | geodetic_vector)
    ['other', date, lat, lon, h]            ANOTHER WMM object is built for `date` (other place, other frame) and evaluated once more; then THIS object answers magnetic_field(lat, lon, h) with date=None
    ['refuse', lat, lon, h, bad]            WMM.magnetic_field(lat, lon, h, date=bad) with a date the package refuses (before 2015, NaN, a string): raises, changes nothing

Date tokens: None | float (decimal year) | 'day:YYYY-MM-DD' (a datetime.date) | 'omit' (magnetic_field only).
"""
import datetime

TODAY = (2026, 3, 1)                      # the fixed clock of the check (see props/c15.py clock shim)
DEFAULT_PLACE = (48.137230, 11.575508, 0.521)   # documented defaults of the constructor (Munich, km)


def is_day(tok):
    return isinstance(tok, str) and tok.startswith('day:')


def day(tok):
    y, m, d = (int(x) for x in tok[4:].split('-'))
    return datetime.date(y, m, d)


def _days_in_year(y):
    return 366 if (y % 4 == 0 and (y % 100 != 0 or y % 400 == 0)) else 365


def decimal(tok):
    """Decimal year of a date token; 1 January = year.0 (same convention as mc/ref/wmm.py, not the package's)."""
    if tok is None or tok == 'omit':
        d = datetime.date(*TODAY)
    elif is_day(tok):
        d = day(tok)
    else:
        return float(tok)
    return d.year + (d.timetuple().tm_yday - 1) / _days_in_year(d.year)


def epoch_file(dd):
    return 'WMM2015' if dd < 2020.0 else ('WMM2020' if dd < 2025.0 else 'WMM2025')


def ctor_place(ev):
    return DEFAULT_PLACE if ev[2] is None else (float(ev[2]), float(ev[3]), float(ev[4]))


class State:
    __slots__ = ('frame', 'cur', 'place', 'query', 'after', 'none_run', 'prev_cur')

    def __init__(self):
        self.frame = None
        self.cur = None            # decimal year the object is set to
        self.prev_cur = None       # the same before the last event
        self.place = None
        self.query = None          # (decimal date, lat, lon, h, frame) the last event must have answered, or None
        self.after = None          # kind of the last state-changing event before the last event
        self.none_run = 0          # length of the run of date=None queries ending the history (reads do not break it)


def _kind(ev):
    if ev[0] == 'ctor':
        la, lo, _ = ctor_place(ev)
        return 'ctor' if (la != 0.0 and lo != 0.0) else 'ctor(lat=0|lon=0)'
    return 'field' if ev[0] == 'other' else ev[0]


def replay(hist):
    """Abstract state after the history; `query` describes what the LAST event had to answer."""
    s = State()
    last_kind = None
    for ev in hist:
        s.query = None
        s.prev_cur = s.cur
        if ev[0] not in ('read', 'refuse'):
            s.after = last_kind
        if ev[0] == 'ctor':
            s.frame = ev[5].upper()
            s.cur = decimal(ev[1])
            s.place = ctor_place(ev)
            s.query = (s.cur,) + s.place + (s.frame,)
            s.none_run = 0
        elif ev[0] == 'field':
            if ev[4] is not None:
                s.cur = decimal(ev[4])
                s.none_run = 0
            else:
                s.none_run += 1
            s.place = (float(ev[1]), float(ev[2]), float(ev[3]))
            s.query = (s.cur,) + s.place + (s.frame,)
        elif ev[0] == 'other':
            # ANOTHER object lives (built for ev[1], evaluated again), then THIS object is asked field(lat, lon, h, date=None): it answers for ITS date
            s.none_run += 1
            s.place = (float(ev[2]), float(ev[3]), float(ev[4]))
            s.query = (s.cur,) + s.place + (s.frame,)
        elif ev[0] == 'reset':
            s.cur = decimal(ev[1])
            s.none_run = 0
        elif ev[0] in ('read', 'refuse'):
            pass                    # a refused query (invalid date) changes nothing the object answers for
        else:
            raise ValueError(ev)
        if ev[0] not in ('read', 'refuse'):
            last_kind = _kind(ev)
    return s


def none_run(hist):
    return replay(hist).none_run


# ---- canonical rendering -------------------------------------------------------------------------
def fnum(x):
    s = repr(float(x))
    return s[:-2] if s.endswith('.0') else s


def fdate(tok):
    if tok is None:
        return 'None'
    if tok == 'omit':
        return 'omitted'
    if is_day(tok):
        return f'day({tok[4:]})'
    return repr(float(tok))


def fevent(ev):
    if ev[0] == 'ctor':
        if ev[2] is None:
            return f'ctor(date={fdate(ev[1])},place=default,{ev[5]})'
        return f'ctor(date={fdate(ev[1])},lat={fnum(ev[2])},lon={fnum(ev[3])},h={fnum(ev[4])},{ev[5]})'
    if ev[0] == 'field':
        p = f'{fnum(ev[1])},{fnum(ev[2])},{fnum(ev[3])}'
        return f'field({p})' if ev[4] == 'omit' else f'field({p},date={fdate(ev[4])})'
    if ev[0] == 'reset':
        return f'reset({fdate(ev[1])})'
    if ev[0] == 'other':
        return f'other-object(date={ev[1]!r});field({fnum(ev[2])},{fnum(ev[3])},{fnum(ev[4])},date=None)'
    if ev[0] == 'refuse':
        return f'refused-field({fnum(ev[1])},{fnum(ev[2])},{fnum(ev[3])},date={ev[4]!r})'
    return f'read({ev[1]})'


def tags(hist):
    """Short class tag of the LAST event of the history (what kind of transition this is)."""
    ev = hist[-1]
    if ev[0] == 'ctor':
        la, lo, _ = ctor_place(ev)
        z = 'ctor(lat=0|lon=0)' if (la == 0.0 or lo == 0.0) else 'ctor(lat&lon!=0)'
        return f'{z} ctor(date={fdate(ev[1])})'
    if ev[0] == 'field':
        t = f'op=field(date={fdate(ev[4])})'
        if ev[4] is None:
            t += f' after={replay(hist).after}'
        return t
    if ev[0] == 'reset':
        return f'op=reset(date={fdate(ev[1])})'
    if ev[0] == 'other':
        return f'op=field(date=None) after another object (date={ev[1]!r}) was built and evaluated'
    if ev[0] == 'refuse':
        return f'op=refused-field(date={ev[4]!r})'
    return f'op=read({ev[1]})'


def key(hist):
    return ' > '.join(fevent(e) for e in hist) + ' | ' + tags(hist)
