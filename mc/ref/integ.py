"""Boring reference model of strap-down gyro integration (scalar-first Hamilton quaternions, body-frame rates).

Attitude kinematics  q' = 1/2 q (x) (0, w):  for a constant rate the solution is q0 (x) axis-angle(w/|w|, |w| t).
Everything is written with scalar cos/sin and the reference product of mc/ref/quat.py; no 4x4 Omega matrix,
no matrix exponential, no matrix power appears here (those are the code paths being judged).
"""
import math
import numpy as np
from .quat import qmul, qnorm


def rate_norm(w):
    return math.sqrt(float(w[0]) * float(w[0]) + float(w[1]) * float(w[1]) + float(w[2]) * float(w[2]))


def delta(w, t):
    """Unit quaternion of the rotation by |w| t about w/|w| (identity for w = 0)."""
    n = rate_norm(w)
    if n == 0.0:
        return np.array([1.0, 0.0, 0.0, 0.0])
    h = 0.5 * n * t
    s = math.sin(h) / n
    return np.array([math.cos(h), s * w[0], s * w[1], s * w[2]])


def exact(q0, w, t):
    """Attitude after a constant body rate w has acted for the time t."""
    return qmul(q0, delta(w, t))


def exact_seq(q0, w, dt, n):
    """Rows 0..n: attitude after i steps of length dt (each row computed from q0, nothing accumulates)."""
    return np.array([exact(q0, w, i * dt) for i in range(n + 1)])


def first_order(q, w, dt, normalise=True):
    """One explicit Euler step  q + 1/2 q (x) (0, w) dt  (normalised by default)."""
    r = np.asarray(q, float) + 0.5 * dt * qmul(q, np.array([0.0, w[0], w[1], w[2]]))
    return r / qnorm(r) if normalise else r


def series_coeffs(h, k):
    """Order-k truncation of exp(h u) = cos h + u sin h for a unit pure quaternion u: (sum of even, sum of odd terms)."""
    c = s = 0.0
    for j in range(k + 1):
        term = h ** j / math.factorial(j)
        if j % 2 == 0:
            c += term if (j // 2) % 2 == 0 else -term
        else:
            s += term if (j // 2) % 2 == 0 else -term
    return c, s


def series_step(q, w, dt, k, normalise=True):
    """q (x) [sum_{j<=k} (dt/2 (0,w))^j / j!], normalised: the documented order-k series step."""
    n = rate_norm(w)
    if n == 0.0:
        return np.asarray(q, float).copy()
    c, s = series_coeffs(0.5 * n * dt, k)
    r = qmul(q, np.array([c, s * w[0] / n, s * w[1] / n, s * w[2] / n]))
    return r / qnorm(r) if normalise else r


def angvel_const(w, dt):
    """What 2/dt vec(q_t^* q_{t+dt}) returns for a constant rate: (2/dt) sin(|w| dt / 2) w/|w|."""
    n = rate_norm(w)
    if n == 0.0:
        return np.zeros(3)
    return (2.0 / dt) * math.sin(0.5 * n * dt) / n * np.asarray(w, float)


def chord_deficit(theta):
    """theta - 2 sin(theta/2)  (angle lost per step when a chord rate is re-integrated), ~ theta^3/24."""
    if abs(theta) < 1e-2:      # series: the closed form cancels catastrophically for small theta
        return theta ** 3 / 24.0 - theta ** 5 / 1920.0
    return theta - 2.0 * math.sin(0.5 * theta)


def sdist(a, b):
    """Max-abs component distance up to the common sign of a quaternion (inf for wrong shape / non-finite / complex)."""
    a = np.asarray(a); b = np.asarray(b)
    if a.shape != b.shape or np.iscomplexobj(a) or a.dtype.kind not in 'fiu' or not np.all(np.isfinite(a)):
        return float('inf')
    a = a.astype(float)
    return min(float(np.abs(a - b).max()), float(np.abs(a + b).max()))
