"""known_findings.json matching, VIOLATION / KNOWN-FINDING lines, replay files."""
import os, re, json, hashlib, collections
from .core import VERIF, jsonable

KF_PATH = os.path.join(VERIF, 'known_findings.json')


def load_known(pid):
    if not os.path.exists(KF_PATH):
        return []
    data = None
    for attempt in range(5):            # the file may be rewritten by hand while a long run is in progress
        try:
            with open(KF_PATH) as f:
                data = json.load(f)
            break
        except json.JSONDecodeError:
            import time
            time.sleep(0.2)
    if data is None:
        with open(KF_PATH) as f:
            data = json.load(f)
    return [e for e in data.get('findings', []) if e.get('property') == pid and e.get('status') == 'known']


def entry_matches(e, rec):
    if e['site'] != rec['site']:
        return False
    if e.get('cases') is not None and rec['key'] not in e['cases']:
        return False
    if e.get('match') is not None and not re.search(e['match'], rec['key']):
        return False
    return True


def partition(pid, records):
    """-> (known: list of (entry, [records])), unknown: OrderedDict site -> [records])"""
    entries = load_known(pid)
    hit = [[] for _ in entries]
    unknown = collections.OrderedDict()
    for r in records:
        for i, e in enumerate(entries):
            if entry_matches(e, r):
                hit[i].append(r)
                break
        else:
            unknown.setdefault(r['site'], []).append(r)
    return [(e, h) for e, h in zip(entries, hit)], unknown


def write_replay(pid, site, recs, total, tier, seed):
    d = os.path.join(VERIF, 'replays', pid)
    os.makedirs(d, exist_ok=True)
    body = {'property': pid, 'site': site, 'total_failing_cases_at_site': total, 'tier': tier, 'seed': seed,
            'cases': recs[:20],
            'how_to_replay': f'./check {pid} --replay <this file>  (re-runs the job of cases[0] on the real code '
                             f'and reports whether the same (site, key) fails again)'}
    sha = hashlib.sha1(json.dumps([site, recs[0]['key']], sort_keys=True).encode()).hexdigest()[:12]
    path = os.path.join(d, sha + '.json')
    with open(path, 'w') as f:
        json.dump(jsonable(body), f, indent=1)
    return path
