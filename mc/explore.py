"""Generic explicit-state explorer: level-synchronous breadth-first search over event histories of ONE real object.

A *state* is identified by the event history that reaches it.  Nothing is ever copied or restored: for every
transition ``hist -> hist + [op]`` a FRESH real object is built and the whole history is replayed on the real code
(``traces`` counts these executions).  States are deduplicated on ``canon`` (a hash of the complete object state plus
whatever part of the history the enabling of operations depends on), so a state reached by several histories is
expanded once, from its first (shortest, then job order, then operation order) history — deterministic.

Parallelism: every BFS level is cut into small jobs (``chunk`` source states each) that run on the fork pool of
``core.run_jobs``; the parent collects the successors, deduplicates them globally and forms the next level.  The explored
set therefore never depends on scheduling, and every job is a deterministic function of its JSON arguments (the CLI
re-executes the job of a failing case).

A *system* is a module (normally the property module) with

    mc_build(hist)                      -> fresh real object with the history replayed (may raise)
    mc_canon(hist, obj)                 -> str, identity of the state reached
    mc_ops(ctx, hist)                   -> enabled operations (JSON values) in a fixed order
    mc_judge(ctx, hist, obj, exc, src_id, dst_id)   the oracle, evaluated on EVERY transition (and on every initial
                                           state with src_id None); exc is the exception text when build raised
"""
import os
import sys
import time
import importlib
from . import core

_NOTE = '_explore_succ'
_known = {}          # known-findings entries read ONCE by the parent (workers inherit them through fork) instead of once
                     # per job: thousands of small jobs must not race with somebody rewriting known_findings.json


def _use_known(ctx):
    if ctx.pid in _known:
        ctx._known = _known[ctx.pid]


def _expand_one(ctx, S, hist, src_id, out):
    try:
        obj, exc = S.mc_build(hist), None
    except Exception as ex:                                   # the oracle decides what an exception means
        obj, exc = None, f'{type(ex).__name__}: {ex}'
    ctx.traces += 1
    dst_id = S.mc_canon(hist, obj) if exc is None else None
    S.mc_judge(ctx, hist, obj, exc, src_id, dst_id)
    if dst_id is not None:
        out.append([dst_id, hist])


def job_init(ctx, sysmod, jobidx, inits):
    """Initial states: one fresh object per initial event."""
    S = importlib.import_module(sysmod)
    _use_known(ctx)
    out = []
    for ev in inits:
        _expand_one(ctx, S, [ev], None, out)
    ctx.notes[f'{_NOTE}/0/{jobidx}'] = out


def job_expand(ctx, sysmod, level, jobidx, items):
    """All enabled operations applied to every source state of the chunk (items = [[hist, state id], ...])."""
    S = importlib.import_module(sysmod)
    _use_known(ctx)
    out = []
    for hist, src_id in items:
        hist = [list(e) for e in hist]
        for op in S.mc_ops(ctx, hist):
            ctx.transitions += 1
            _expand_one(ctx, S, hist + [list(op)], src_id, out)
    ctx.notes[f'{_NOTE}/{level}/{jobidx}'] = out


def _collect(ctx, level, njobs):
    succ = []
    for j in range(njobs):
        succ += ctx.notes.pop(f'{_NOTE}/{level}/{j}', [])
    return succ


def explore(ctx, sysmod, inits, max_depth=None, max_states=50000, max_transitions=None, chunk=4, init_chunk=4):
    """Run the search; fills ctx.states / transitions / traces / max_depth and returns a summary dict.

    max_depth: number of operations after the initial event (None: run to the fixpoint).
    max_states / max_transitions: hard caps (termination on a system whose state space explodes); when one is hit the
    remaining frontier is left unexpanded and ctx.caps says so (the run is then not reported as exhaustive).
    """
    S = importlib.import_module(sysmod)
    from . import findings
    _known[ctx.pid] = findings.load_known(ctx.pid)
    planned = 0
    seen = {}
    jobs = [('job_init', (sysmod, j, inits[lo:lo + init_chunk])) for j, lo in enumerate(range(0, len(inits), init_chunk))]
    core.run_jobs(ctx, __name__, jobs)
    frontier, merged = [], 0
    for sid, hist in _collect(ctx, 0, len(jobs)):
        if sid in seen:
            merged += 1
            continue
        seen[sid] = hist
        frontier.append([hist, sid])
    levels = [len(frontier)]
    depth, closed, capped, dropped = 0, True, False, 0
    while frontier:
        if max_depth is not None and depth >= max_depth:
            closed = False
            break
        if max_transitions is not None:
            keep = 0
            for hist, _ in frontier:
                n = len(S.mc_ops(ctx, hist))
                if planned + n > max_transitions:
                    break
                planned += n
                keep += 1
            if keep < len(frontier):
                ctx.caps.append(f'transition cap {max_transitions} hit at depth {depth}: {len(frontier) - keep} of '
                                f'{len(frontier)} frontier states left unexpanded')
                capped = True
                dropped += len(frontier) - keep
                frontier = frontier[:keep]
                if not frontier:
                    closed = False
                    break
        depth += 1
        jobs = [('job_expand', (sysmod, depth, j, frontier[lo:lo + chunk]))
                for j, lo in enumerate(range(0, len(frontier), chunk))]
        core.run_jobs(ctx, __name__, jobs)
        nxt = []
        for sid, hist in _collect(ctx, depth, len(jobs)):
            if sid in seen:
                merged += 1
                continue
            if len(seen) >= max_states:
                capped = True
                continue
            seen[sid] = hist
            nxt.append([hist, sid])
        levels.append(len(nxt))
        if os.environ.get('VERIF_PROGRESS'):
            print(f'[explore] {time.strftime("%H:%M:%S")} depth {depth}: expanded {len(frontier)} states, {len(nxt)} new, '
                  f'{len(seen)} total, {ctx.transitions} transitions', file=sys.stderr, flush=True)
        frontier = nxt
        if len(seen) >= max_states and capped:
            ctx.caps.append(f'state cap {max_states} hit at depth {depth}: exploration stopped')
        if capped:
            closed = False
            break
    ctx.states += len(seen)
    ctx.max_depth = max(ctx.max_depth, max((len(h) - 1 for h in seen.values()), default=0))
    return {'states': len(seen), 'new_states_per_level': levels, 'transitions_into_known_states': merged,
            'fixpoint_reached': closed, 'unexpanded_states': (len(frontier) + dropped) if not closed else 0,
            'depth_bound': max_depth, 'longest_representative_history': ctx.max_depth}
