"""Finite, deterministic alphabets (sizes are exact; nothing here draws random numbers)."""
import itertools, math
import numpy as np
from .ref.quat import qmul, qconj, qunit, axang2q

PHI = (1 + 5 ** 0.5) / 2


def _units():
    out = []
    for i in range(4):
        for s in (1.0, -1.0):
            e = np.zeros(4); e[i] = s; out.append(e)
    return out


def _hurwitz():
    return [np.array(s) for s in itertools.product((0.5, -0.5), repeat=4)]


def G24():
    return np.array(_units() + _hurwitz())


def G48():
    els = _units() + _hurwitz()
    r = math.sqrt(0.5)
    for i, j in itertools.combinations(range(4), 2):
        for a in (r, -r):
            for b in (r, -r):
                e = np.zeros(4); e[i] = a; e[j] = b; els.append(e)
    return np.array(els)


def _parity(p):
    return sum(1 for i in range(len(p)) for j in range(i + 1, len(p)) if p[i] > p[j]) % 2


def G120():
    els = _units() + _hurwitz()
    base = [0.0, 0.5, PHI / 2, 1 / (2 * PHI)]
    for perm in itertools.permutations(range(4)):
        if _parity(perm):
            continue
        vals = [base[perm[i]] for i in range(4)]
        for signs in itertools.product((1, -1), repeat=3):
            it = iter(signs)
            els.append(np.array([0.0 if x == 0.0 else x * next(it) for x in vals]))
    return np.array(els)


# eight generic unit quaternions, every |component| in [0.2, 0.7]
MENU = [qunit(v) for v in [(0.3, -0.5, 0.4, 0.7), (0.6, 0.2, -0.7, 0.3), (0.25, 0.55, 0.65, -0.45),
                           (0.7, -0.3, -0.2, 0.6), (0.45, 0.45, -0.35, -0.68), (0.2, 0.7, 0.3, 0.6),
                           (0.55, -0.25, 0.6, -0.5), (0.35, 0.6, -0.6, 0.4)]]


def Gc(G, k):
    """g_k G g_k^{-1}: still a closed group, about oblique axes."""
    g = MENU[k % len(MENU)]
    return np.array([qmul(qmul(g, q), qconj(g)) for q in G])


def Gl(G, k):
    """left coset g_k G: all four components generic."""
    g = MENU[k % len(MENU)]
    return np.array([qmul(g, q) for q in G])


def LAT4(r, normalise=True):
    vs = [np.array(v, float) for v in itertools.product(range(-r, r + 1), repeat=4) if any(v)]
    return np.array([v / math.sqrt(float(v @ v)) for v in vs]) if normalise else np.array(vs)


def EDGE4():
    out = list(_units())
    out += [qunit(v) for v in [(0, 1, 1, 0), (0, 1, -2, 3), (0, 0.2, -0.7, 0.1), (1, 1e-9, 0, 0), (1, 0, -1e-12, 0)]]
    p = qunit((0.3, -0.5, 0.4, 0.7))
    for k in (1, 3, 6, 9, 12):
        d = axang2q((1, 2, -1.5), 10.0 ** -k)
        out += [p, -qmul(p, d)]              # near-antipodal pair
    for tiny in (5e-324, 1e-300, 1e-160):
        for i in range(4):
            v = np.array([0.5, -0.5, 0.5, 0.5]); v[i] = tiny
            out.append(v / math.sqrt(0.75))
    return np.array(out)


def AXES():
    seen, out = set(), []
    for v in itertools.product((-1, 0, 1), repeat=3):
        if not any(v):
            continue
        if tuple(-x for x in v) in seen:
            continue
        seen.add(v); out.append(np.array(v, float))
    out += [np.array(v, float) for v in [(1, 2, 3), (-3, 1, 2), (2, -1, 3), (0.2, -0.7, 0.1)]]
    return out


def ANG():
    a = [0.0]
    a += [s * 10.0 ** -k for k in range(1, 13) for s in (1, -1)]
    a += [math.pi - 10.0 ** -k for k in range(1, 13)]
    a += [math.pi, 0.5, 1.0, math.pi / 2, 2 * math.pi / 3, 2.0, 2.5, 3.0, -1.0, -2.5]
    return a


def DIR3():
    return [np.array(v, float) / math.sqrt(sum(x * x for x in v)) for v in itertools.product((-1, 0, 1), repeat=3) if any(v)]


def seed_k(seed):
    return int(seed) % len(MENU)


def selftest():
    """Group closure, re-verified with the reference product on every start-up (cheap)."""
    for G in (G24(), G48(), G120()):
        S = {tuple(np.round(g, 9) + 0.0) for g in G}
        assert len(S) == len(G)
        assert all(tuple(np.round(qmul(a, b), 9) + 0.0) in S for a in G for b in G)
    return True
