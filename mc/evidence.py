"""evidence/<id>.json writer, validated against EVIDENCE.schema.json when jsonschema is available."""
import os, sys, json
from .core import VERIF, jsonable

SCHEMA = '/root/.vp/EVIDENCE.schema.json'
LOCAL_SCHEMA = os.path.join(VERIF, 'mc', 'EVIDENCE.schema.json')


def _validate(doc):
    sch = None
    for p in (SCHEMA, LOCAL_SCHEMA):
        if os.path.exists(p):
            with open(p) as f:
                sch = json.load(f)
            break
    try:
        sys.path.append(os.path.join(VERIF, '.vendor'))
        import jsonschema
        if sch is not None:
            jsonschema.validate(doc, sch)
            return 'jsonschema'
    except ImportError:
        pass
    # structural fallback
    for k in ('property_id', 'tier', 'seed', 'level', 'coverage', 'wall_s'):
        assert k in doc, k
    c = doc['coverage']
    assert c['evaluations'] >= 1 and c['distinct_nontrivial'] >= 2 and c['samples'] and isinstance(c['rule'], str)
    if doc['level'] == 'model_checking':
        assert c['states'] >= 1 and c['transitions'] >= 1 and c['traces_validated_against_impl'] >= 0
    return 'structural'


def write(pid, doc):
    doc = jsonable(doc)
    how = _validate(doc)
    doc['coverage']['evidence_validated_by'] = how
    edir = os.environ.get('VERIF_EVIDENCE_DIR') or os.path.join(VERIF, 'evidence')
    os.makedirs(edir, exist_ok=True)
    path = os.path.join(edir, pid + '.json')
    tmp = path + '.tmp'
    with open(tmp, 'w') as f:
        json.dump(doc, f, indent=1, sort_keys=True)
        f.write('\n')
    os.replace(tmp, path)
    return path
