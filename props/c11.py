"""C11 — constructors only ever produce valid rotations and reject what cannot be one."""
import itertools, math
import numpy as np
from mc import core, alphabet as A
from mc.ref import quat as rq

PID = 'C11'
LEVEL = 'exploration'
RULE = ('exhaustive grids: directions x 21 decades of norm x container shapes; every DCM construction route over angle grids; all pairs for +/-; '
        'all subsets of size 1-3 for average; all 216 answers of the stubbed random generator; a finite menu of invalid inputs and perturbed matrices. '
        'distinct = (route, grid point); non-trivial = input is not already a unit quaternion / the identity')
ASSUMPTIONS = ['accepted side: unit norm within 1e-12, direction cosine with the input >= 1 - 1e-12',
               'matrices within 1e-12 of SO(3) must be accepted, matrices farther than 1e-4 must raise ValueError/TypeError; the band between is unconstrained, as in the statement',
               'the generator behind random_attitudes is an owned seam: np.random.default_rng is replaced by a stub whose uniform() returns every point of {0,1e-12,.25,.5,.75,1-1e-12}^3',
               'rotate_by(order="S") is only required to return unit rows (its intended ordering semantics are ambiguous in the documentation)',
               'infinite components are not judged (the statement speaks of finite vectors and of NaN)']
REQUIRED_CLASSES = ['reject:object-unchanged', 'near-unit', 'vec3', 'vec4', 'array', 'dcm-route', 'addsub', 'addsub:near-cancelling', 'rotate_by', 'average', 'random', 'reject:vector', 'reject:matrix', 'reject:matrix-history', 'reject:matrix:reduced-precision', 'accept:matrix', 'layout']
DECADES = [10.0 ** k for k in range(-100, 101, 10)]


def _is_unit_real(v, n=4, tol=1e-12):
    v = np.asarray(v)
    return v.shape == (n,) and v.dtype.kind == 'f' and bool(np.all(np.isfinite(v))) and abs(rq.qnorm(v) - 1.0) <= tol


def job_vectors(ctx, part):
    from ahrs import Quaternion, QuaternionArray
    dirs4 = A.LAT4(1)
    dirs3 = A.DIR3()
    if part == 0:
        for i, d in enumerate(dirs4):
            for s in DECADES:
                key = f'dir4[{i}] norm={s:g}'
                ok, q = ctx.raises_ok(lambda: Quaternion((d * s).copy()), (), 'Quaternion(4-vector) accepted', key)
                if not ok:
                    continue
                qa = np.asarray(q)
                ctx.expect(_is_unit_real(qa) and float(qa @ d) >= 1 - 1e-12, 'Quaternion(4-vector): unit, same direction', key, qa, d, 1e-12)
                ctx.cls('vec4'); ctx.seen(('v4', i, s))
    elif part == 1:
        for i, d in enumerate(dirs3):
            for s in DECADES:
                key = f'dir3[{i}] norm={s:g}'
                ok, q = ctx.raises_ok(lambda: Quaternion((d * s).copy()), (), 'Quaternion(3-vector) accepted', key)
                if not ok:
                    continue
                qa = np.asarray(q)
                ctx.expect(_is_unit_real(qa) and qa[0] == 0.0 and float(qa[1:] @ d) >= 1 - 1e-12, 'Quaternion(3-vector): pure unit, same direction', key, qa, d, 1e-12)
                ctx.cls('vec3'); ctx.seen(('v3', i, s))
    else:
        # norms within a hair of one (data rounded to a few decimals, single precision, re-scaled): unit afterwards like any other
        NEAR = [1 + 1e-5, 1 - 1e-5, 1 + 3e-6, 1 - 3e-6, 1 + 1e-7, 1 - 1e-7, 1 + 1e-9, 1 + 1e-11, 1 - 1e-11]
        U4 = np.array([d / np.linalg.norm(d) for d in dirs4[::7] if np.linalg.norm(d) > 0])
        for si, s in enumerate(NEAR):
            for N in (1, 2, 5, len(U4)):
                rows = U4[:N] * s
                key = f'near-unit rows N={N} norm={s!r}'
                ok, Q = ctx.raises_ok(lambda: QuaternionArray(rows.copy()), (), 'QuaternionArray(N rows) accepted', key)
                if ok:
                    Qa = np.asarray(Q, float)
                    good = Qa.shape == (N, 4) and bool(np.all(np.isfinite(Qa))) and float(np.abs(np.linalg.norm(Qa, axis=1) - 1).max()) <= 1e-12
                    ctx.expect(good, 'QuaternionArray(rows with norms near one): unit rows', key, np.abs(np.linalg.norm(Qa, axis=1) - 1).max() if Qa.ndim == 2 else Qa, 0.0, 1e-12)
                ok, q = ctx.raises_ok(lambda: Quaternion(rows[N - 1].copy()), (), 'Quaternion(4-vector) accepted', key)
                if ok:
                    ctx.expect(_is_unit_real(np.asarray(q)), 'Quaternion(4-vector with norm near one): unit', key, np.asarray(q), 'unit', 1e-12)
                ctx.cls('near-unit'); ctx.seen(('near', si, N))
        for N in (1, 2, 3, 7):
            for width, dirs in ((4, dirs4), (3, dirs3)):
                for si, s in enumerate(DECADES):
                    for start in range(0, len(dirs) - N + 1, max(1, N)):
                        rows = np.array([dirs[start + j] * DECADES[(si + 3 * j) % len(DECADES)] for j in range(N)])
                        key = f'N={N} width={width} start={start} decade0={s:g}'
                        ok, Q = ctx.raises_ok(lambda: QuaternionArray(rows.copy()), (), 'QuaternionArray(N rows) accepted', key)
                        if not ok:
                            continue
                        Qa = np.asarray(Q)
                        good = Qa.shape == (N, 4) and Qa.dtype.kind == 'f' and bool(np.all(np.isfinite(Qa)))
                        if good:
                            for j in range(N):
                                d = dirs[start + j]
                                r = Qa[j] if width == 4 else Qa[j][1:]
                                good &= abs(rq.qnorm(Qa[j]) - 1) <= 1e-12 and float(r @ d) >= 1 - 1e-12 and (width == 4 or Qa[j][0] == 0.0)
                        ctx.expect(good, 'QuaternionArray(rows): unit rows, same directions', key, Qa, 'unit rows', 1e-12)
                        ctx.cls('array'); ctx.seen(('arr', N, width, si, start))
    ctx.sample({'vector': (dirs4[5] * 1e-100).tolist(), 'decades': [DECADES[0], DECADES[-1]]})


GRID = [-3.0, -math.pi / 2, -1.0, -1e-3, 0.0, 1e-9, 0.5, math.pi / 2, 2.0, math.pi]


def job_dcm_routes(ctx, part):
    from ahrs import DCM, Quaternion
    def judge(M, route, key):
        d = rq.so3_defect(np.asarray(M))
        ctx.track('dcm.so3_defect', d)
        ctx.expect(d <= 1e-12, f'{route} yields a proper rotation matrix', key, d, 0, 1e-12)
        ctx.cls('dcm-route')
    if part == 0:
        for a, b, c in itertools.product(GRID, repeat=3):
            key = f'angles=({a:.6g},{b:.6g},{c:.6g})'
            judge(DCM(x=a, y=b, z=c), 'DCM(x=,y=,z=)', key)
            judge(DCM(x=math.degrees(a), y=math.degrees(b), z=math.degrees(c), degrees=True), 'DCM(x=,y=,z=,degrees=True)', key)
            judge(DCM(rpy=[a, b, c]), 'DCM(rpy=)', key)
            ctx.seen(('xyz', a, b, c))
    elif part == 1:
        seqs = [''.join(s) for L in (1, 2, 3) for s in itertools.product('xyz', repeat=L)]
        sub = [-3.0, -1.0, 1e-9, 0.5, math.pi]
        for seq in seqs:
            for angs in itertools.product(sub, repeat=len(seq)):
                judge(DCM(euler=(seq, list(angs))), 'DCM(euler=)', f'seq={seq} angles={list(angs)}')
                ctx.seen(('euler', seq, angs))
    elif part == 2:
        for ia, ax in enumerate(A.AXES()):
            for ang in A.ANG():
                for s in (1e-3, 1.0, 1e3):
                    judge(DCM(axang=((ax * s).copy(), ang)), 'DCM(axang=)', f'axis{ia}*{s:g} angle={ang:.13g}')
                ctx.seen(('axang', ia, ang))
    else:
        S = np.vstack([A.G48(), A.Gl(A.G120(), A.seed_k(ctx.seed)), A.LAT4(1), A.EDGE4()])
        for i, q in enumerate(S):
            key = f'q=S[{i}]'
            judge(DCM(q=q.copy()), 'DCM(q=)', key)
            judge(DCM(q=(q * 3.7).copy()), 'DCM(q= non-unit)', key)
            judge(DCM(rq.R(q)), 'DCM(R)', key)
            judge(Quaternion(q.copy()).to_DCM(), 'Quaternion.to_DCM', key)
            ctx.seen(('q', i))
        # the same route for N-row arrays of quaternions (every small N; non-unit rows included): every matrix of the stack is a proper rotation
        from ahrs import QuaternionArray
        for nb in (1, 2, 3, 4, 5, 9):
            for off in (0, 17, len(S) - nb):
                rows = S[off:off + nb] * np.array([1.0, 3.7, 0.2, 1.0, 12.0, 1.0, 0.5, 2.0, 1.0])[:nb, None]
                for route, fn in (('DCM().from_quaternion(N rows)', lambda: DCM().from_quaternion(rows.copy())), ('DCM().from_q(N rows)', lambda: DCM().from_q(rows.copy())),
                                  ('QuaternionArray(N rows).to_DCM', lambda: QuaternionArray(rows.copy()).to_DCM()), ('DCM(q=N rows)', lambda: DCM(q=rows.copy()))):
                    key = f'N={nb} offset={off}'
                    try:
                        Ms = np.asarray(fn(), float)
                    except Exception as ex:
                        if route == 'DCM(q=N rows)' and nb == 1 and False:
                            continue
                        ctx.evals += 1
                        ctx.fail(f'{route} raises for valid quaternions', key, f'{type(ex).__name__}: {ex}'[:160], 'N rotations')
                        continue
                    if Ms.shape != (nb, 3, 3):
                        ctx.evals += 1
                        ctx.fail(f'{route} returns N matrices', key, list(Ms.shape), [nb, 3, 3])
                        continue
                    for j in range(nb):
                        judge(Ms[j], route, f'{key} row={j}')
                        ctx.close(Ms[j], rq.R(rq.qunit(S[off + j])), 1e-12, f'{route}: matrix j is the rotation of row j', f'{key} row={j}')
    ctx.sample({'dcm_route_part': part, 'grid': GRID})


def job_addsub(ctx, lo, hi):
    from ahrs import Quaternion
    S = np.vstack([A.G48(), A.LAT4(1)])
    for i in range(lo, hi):
        P = Quaternion(S[i].copy())
        for j in range(len(S)):
            for op, nm in ((1.0, '+'), (-1.0, '-')):
                ref = S[i] + op * S[j]
                n = rq.qnorm(ref)
                if n < 1e-6:
                    continue                        # vanishing sums are excluded by the statement
                key = f'p=S[{i}] {nm} q=S[{j}]'
                try:
                    r = (P + Quaternion(S[j].copy())) if op > 0 else (P - Quaternion(S[j].copy()))
                    r2 = (P + S[j].copy()) if op > 0 else (P - S[j].copy())
                except Exception as ex:
                    ctx.evals += 1
                    ctx.fail(f'Quaternion {nm} raises', key, repr(ex), 'unit quaternion')
                    continue
                for rr in (r, r2):
                    ra = np.asarray(rr)
                    ctx.expect(_is_unit_real(ra) and float(ra @ ref) / n >= 1 - 1e-12, f'p {nm} q is the normalised sum', key, ra, ref / n, 1e-12)
                ctx.cls('addsub'); ctx.seen(('addsub', i, j, nm))
    if lo == 0:
        # nearly cancelling differences / sums (|p -+ q| from 1e-3 down to 1e-8: small, not vanishing) and a second operand that is not unit:
        # still a real unit quaternion along the exact sum
        G = A.G48()
        for i in range(0, len(G), 5):
            p_ = G[i]
            d_ = G[(i + 7) % len(G)]
            for eps in (1e-3, 1e-5, 1e-6, 1e-7, 1e-8):
                q_ = rq.qunit(p_ + eps * d_)
                for op, nm, other in ((-1.0, '-', q_), (1.0, '+', -q_)):
                    ref = p_ + op * other
                    n = rq.qnorm(ref)
                    if n < 1e-9:
                        continue
                    key = f'p=G48[{i}] {nm} (q at distance {eps:g} of {"p" if op < 0 else "-p"})'
                    for form, mk in (('Quaternion', lambda: Quaternion(other.copy())), ('ndarray', lambda: other.copy())):
                        ctx.evals += 1
                        try:
                            P = Quaternion(p_.copy())
                            r = np.asarray((P + mk()) if op > 0 else (P - mk()))
                        except Exception as ex:
                            ctx.fail(f'Quaternion {nm} raises on a small, non-vanishing result', f'{key} operand={form}', repr(ex)[:160], 'unit quaternion'); continue
                        tl = 1e-12 + 1e-15 / n
                        ctx.expect(_is_unit_real(r) and float(r @ ref) / n >= 1 - tl, f'p {nm} q nearly cancelling: the normalised sum, a real unit quaternion', f'{key} operand={form}', r, ref / n, tl)
            for scale in (3.0, 0.01, 250.0):
                raw = d_ * scale
                for op, nm in ((1.0, '+'), (-1.0, '-')):
                    ref = p_ + op * raw
                    n = rq.qnorm(ref)
                    if n < 1e-6:
                        continue
                    ctx.evals += 1
                    key = f'p=G48[{i}] {nm} ndarray of norm {scale:g}'
                    try:
                        P = Quaternion(p_.copy())
                        r = np.asarray((P + raw.copy()) if op > 0 else (P - raw.copy()))
                    except Exception as ex:
                        ctx.fail(f'Quaternion {nm} raises for a non-unit array operand', key, repr(ex)[:160], 'unit quaternion'); continue
                    ctx.expect(_is_unit_real(r) and float(r @ ref) / n >= 1 - 1e-12, f'p {nm} (non-unit array): the normalised sum', key, r, ref / n, 1e-12)
        ctx.cls('addsub:near-cancelling')
    ctx.sample({'p': S[lo].tolist(), 'q': S[-1].tolist(), 'op': '+/-'})


def job_rotate_by(ctx, k):
    from ahrs import QuaternionArray
    G = A.G48()
    Gl = A.Gl(A.G48(), k)
    for i, q in enumerate(G):
        for scale in (1.0, 5.0):
            key = f'q=G48[{i}]*{scale:g}'
            for arr_name, arr in (('G48', G), ('Gl48', Gl)):
                QA = QuaternionArray(arr.copy())
                try:
                    out = np.asarray(QA.rotate_by((q * scale).copy()))
                except Exception as ex:
                    ctx.evals += 1
                    ctx.fail('rotate_by raises', f'{key} array={arr_name}', repr(ex), 'N unit rows')
                    continue
                ref = np.array([rq.qmul(q, r) for r in arr])
                good = out.shape == arr.shape and out.dtype.kind == 'f' and bool(np.all(np.isfinite(out))) and \
                    bool(np.all(np.abs(np.linalg.norm(out, axis=1) - 1) <= 1e-12))
                ctx.expect(good, 'rotate_by: rows are real unit quaternions', f'{key} array={arr_name}', out[:2], 'unit rows', 1e-12)
                if good:
                    ctx.close(out, ref, 1e-12, 'rotate_by(q): rows = q * row', f'{key} array={arr_name}')
                ctx.cls('rotate_by'); ctx.seen(('rot', i, scale, arr_name))
            if scale == 1.0 and i % 6 == 0:
                QA = QuaternionArray(Gl.copy())
                try:
                    out = np.asarray(QA.rotate_by(q.copy(), order='S'))
                    good = out.shape == Gl.shape and bool(np.all(np.abs(np.linalg.norm(out, axis=1) - 1) <= 1e-12))
                    ctx.expect(good, "rotate_by(order='S'): rows are real unit quaternions", key, out[:2], 'unit rows', 1e-12)
                except Exception as ex:
                    ctx.evals += 1
                    ctx.fail("rotate_by(order='S') raises", key, repr(ex)[:200], 'N unit rows')
        # in place
        QA = QuaternionArray(Gl.copy())
        QA.rotate_by(q.copy(), inplace=True)
        out = np.asarray(QA.array)
        ctx.close(out, np.array([rq.qmul(q, r) for r in Gl]), 1e-12, 'rotate_by(inplace=True): array rows = q * row', f'q=G48[{i}]')
    # every cell of (array built with versors=True | False from non-unit rows) x (inplace False | True) x (rotating quaternion unit | scaled):
    # the rotated rows, returned or stored, are unit quaternions q * row / |row|
    scl = np.array([2.0, 0.5, 5.7, 1.0, 0.25, 3.0, 19.0, 1e-3])
    rows = np.array([Gl[j] * scl[j % len(scl)] for j in range(12)])
    refrows = np.array([rq.qunit(r) for r in rows])
    for i, q in enumerate(G[::5]):
        for versors in (True, False):
            for inplace in (False, True):
                for scale in (1.0, 5.0):
                    key = f'q=G48[{5 * i}]*{scale:g} versors={versors} inplace={inplace} k{k}'
                    ctx.evals += 1
                    try:
                        QA = QuaternionArray(rows.copy(), versors=versors)
                        ret = QA.rotate_by((q * scale).copy(), inplace=inplace)
                        out = np.asarray(QA.array if inplace else ret, float)
                        view = np.asarray(QA, float)
                    except Exception as ex:
                        ctx.fail('rotate_by raises', key, repr(ex)[:160], 'N unit rows'); continue
                    good = out.shape == rows.shape and bool(np.all(np.isfinite(out))) and bool(np.all(np.abs(np.linalg.norm(out, axis=1) - 1) <= 1e-12))
                    ctx.expect(good, 'rotate_by on every (versors, inplace) cell: rows returned / stored are real unit quaternions', key, out[:2], 'unit rows', 1e-12)
                    if good:
                        ctx.close(out, np.array([rq.qmul(q, r) for r in refrows]), 1e-12, 'rotate_by on every (versors, inplace) cell: rows = q * row / |row|', key)
                    if inplace:
                        ctx.expect(np.array_equal(view, out), 'rotate_by(inplace=True): the object itself and its .array hold the same rows', key, view[:2], out[:2])
                    ctx.seen(('rot-cell', i, versors, inplace, scale))
    ctx.sample({'rotate_by': G[10].tolist()})


def job_average(ctx, k):
    from ahrs import QuaternionArray
    base = rq.qunit(A.MENU[k])
    # 12 quaternions in a cap of ~40 degrees around a generic rotation (an average is only meaningful for clustered rotations)
    S = [rq.qmul(base, rq.axang2q(ax, a)) for ax, a in zip(A.AXES()[:12], [0.05, 0.1, 0.15, 0.2, 0.25, 0.3, 0.35, 0.4, 0.5, 0.6, 0.65, 0.7])]
    S = [q if i % 3 else -q for i, q in enumerate(S)]        # mixed signs: the average must not care
    for r in (1, 2, 3):
        for idx in itertools.combinations(range(12), r):
            rows = np.array([S[i] for i in idx])
            for wname, w in (('none', None), ('ones', np.ones(r)), ('ramp', np.arange(1.0, r + 1.0))):
                key = f'subset={idx} weights={wname} k{k}'
                try:
                    avg = QuaternionArray(rows.copy()).average() if w is None else QuaternionArray(rows.copy()).average(weights=w.copy())
                except Exception as ex:
                    ctx.evals += 1
                    ctx.fail('average raises', key, repr(ex)[:200], 'unit quaternion')
                    continue
                a = np.asarray(avg)
                good = _is_unit_real(a, tol=1e-9)
                ctx.expect(good, 'average is a real unit quaternion', key, {'dtype': str(a.dtype), 'value': a}, 'real float unit 4-vector', 1e-9)
                if good and wname != 'ramp':
                    M = sum(np.outer(q, q) for q in rows)
                    wv, V = np.linalg.eigh(M)
                    ref = V[:, -1]
                    ctx.expect(abs(abs(float(a @ ref)) - 1) <= 1e-9, 'average = dominant eigenvector of sum q q^T', key, a, ref, 1e-9)
                ctx.cls('average'); ctx.seen(('avg', idx, wname))
    # scalar-last arrays, and histories on one object: average (with weights / a span), then look at the object and average again
    for order in ('H', 'S'):
        X = np.array(S[:6]) if order == 'H' else np.roll(np.array(S[:6]), -1, axis=1)
        for wname, kw in (('none', {}), ('weights', {'weights': np.array([0.5, 1.0, 2.0, 4.0, 1.0, 0.25])}), ('span', {'span': (1, 4)}),
                          ('span+weights', {'span': (1, 4), 'weights': np.array([2.0, 0.5, 3.0])})):
            key = f'order={order} average({wname}) k{k}'
            ctx.evals += 1
            try:
                QA = QuaternionArray(X.copy(), order=order)
                before = np.asarray(QA, float).copy(); before_attr = np.asarray(QA.array, float).copy()
                a1 = np.asarray(QA.average(**{k_: (v.copy() if hasattr(v, 'copy') else v) for k_, v in kw.items()}))
                ctx.expect(_is_unit_real(a1, tol=1e-9), 'average is a real unit quaternion', key, {'dtype': str(a1.dtype), 'value': a1}, 'real float unit 4-vector', 1e-9)
                ctx.expect(np.array_equal(np.asarray(QA, float), before) and np.array_equal(np.asarray(QA.array, float), before_attr),
                           'average leaves the rows of the array as they were (still unit quaternions)', key, np.linalg.norm(np.asarray(QA.array, float), axis=1), 'unchanged rows')
                a2 = np.asarray(QA.average(**{k_: (v.copy() if hasattr(v, 'copy') else v) for k_, v in kw.items()}))
                ctx.expect(a1.shape == a2.shape and np.array_equal(a1, a2), 'a second average on the same object gives the same quaternion', key, a2, a1)
                Rb = np.asarray(QA.to_DCM())
                ctx.expect(Rb.shape == (6, 3, 3) and max(rq.so3_defect(r_) for r_ in Rb) <= 1e-12, 'after average() the object still converts to proper rotations', key, None, 'rotations')
                if order == 'S' and a1.shape == (4,) and not np.iscomplexobj(a1):
                    aH = np.asarray(QuaternionArray(np.array(S[:6]).copy()).average(**{k_: (v.copy() if hasattr(v, 'copy') else v) for k_, v in kw.items()}), float)
                    ctx.expect(abs(abs(float(np.roll(a1.astype(float), 1) @ aH)) - 1) <= 1e-9, "order='S': the average is the scalar-first average in scalar-last order", key, a1, np.roll(aH, -1), 1e-9)
            except Exception as ex:
                ctx.fail('average history raises', key, repr(ex)[:200], 'unit quaternion')
            ctx.cls('average')
    # one quaternion to average (N = 1, or a one-row span of a longer array), with and without a weight that is not one
    for i in (0, 5, 11):
        for wname, w in (('none', None), ('0.25', np.array([0.25])), ('2.5', np.array([2.5])), ('1', np.array([1.0]))):
            for how, mk in (('N=1', lambda: QuaternionArray(np.array([S[i]]))), ):
                key = f'single row {i} weights={wname} {how} k{k}'
                try:
                    a = np.asarray(mk().average() if w is None else mk().average(weights=w.copy()))
                    ctx.expect(_is_unit_real(a, tol=1e-9) and abs(abs(float(a @ S[i])) - 1) <= 1e-9, 'average of one quaternion is that (unit) quaternion', key, a, S[i], 1e-9)
                except Exception as ex:
                    ctx.evals += 1
                    ctx.fail('average raises', key, repr(ex)[:200], 'unit quaternion')
            # a one-row span of a longer array
            try:
                QA = QuaternionArray(np.array(S))
                a = np.asarray(QA.average(span=(i, i + 1)) if w is None else QA.average(span=(i, i + 1), weights=w.copy()))
                ctx.expect(_is_unit_real(a, tol=1e-9) and abs(abs(float(a @ S[i])) - 1) <= 1e-9, 'average over a one-row span is that (unit) quaternion', f'span=({i},{i+1}) weights={wname} k{k}', a, S[i], 1e-9)
            except (TypeError, ValueError):
                ctx.outcome('span-refused')
            except Exception as ex:
                ctx.evals += 1
                ctx.fail('average raises', f'span=({i},{i+1}) weights={wname} k{k}', repr(ex)[:200], 'unit quaternion')
            ctx.cls('average')
    # arrays of PURE quaternions (N-by-3 input, half-turn attitudes): the average has a zero scalar part
    V3 = np.array([[1.0, 0.1, 0.0], [1.0, -0.1, 0.05], [0.9, 0.0, 0.1], [1.0, 0.05, -0.1], [0.95, 0.1, 0.1]])
    for n in (1, 2, 5):
        for nm, arr in ((f'pure N={n} (N-by-3 input)', V3[:n]), (f'pure N={n} (N-by-4 input)', np.c_[np.zeros(n), V3[:n]])):
            try:
                a = np.asarray(QuaternionArray(arr.copy()).average())
                good = _is_unit_real(a, tol=1e-9)
                ctx.expect(good, 'average is a real unit quaternion', f'subset={nm} k{k}', {'dtype': str(a.dtype), 'value': a}, 'real float unit 4-vector', 1e-9)
                if good:
                    ref = rq.qunit(np.r_[0.0, np.linalg.eigh(sum(np.outer(rq.qunit(v), rq.qunit(v)) for v in V3[:n]))[1][:, -1]])
                    ctx.expect(abs(abs(float(a @ ref)) - 1) <= 1e-9, 'average = dominant eigenvector of sum q q^T', f'subset={nm} k{k}', a, ref, 1e-9)
            except Exception as ex:
                ctx.evals += 1
                ctx.fail('average raises', f'subset={nm} k{k}', repr(ex)[:200], 'unit quaternion')
            ctx.cls('average'); ctx.seen(('avgpure', nm))
    ctx.sample({'average_subset': [S[0].tolist(), S[1].tolist(), S[2].tolist()]})


def job_layouts(ctx, k):
    """The same values handed over in other memory layouts / dtypes: C order, Fortran order, transposed view, strided view, float32, integers.
    The object's OWN values (np.asarray(obj), what arithmetic uses) and its attribute copy must both be the expected ones."""
    from ahrs import Quaternion, QuaternionArray, DCM
    Qrows = A.Gl(A.G24(), k)[:5] * np.array([[1.0], [2.5], [0.3], [7.0], [1.0]])
    Qunit = np.array([rq.qunit(r) for r in Qrows])
    Rm = rq.R(A.MENU[k])
    Rint = np.array([[0, -1, 0], [1, 0, 0], [0, 0, 1]])
    def layouts(X):
        big = np.zeros((X.shape[0] * 2, X.shape[1] * 2)); big[::2, ::2] = X
        return [('C', np.ascontiguousarray(X)), ('F', np.asfortranarray(X)), ('T-view', np.ascontiguousarray(X.T).T), ('strided', big[::2, ::2]),
                ('float32', X.astype(np.float32)), ('list', X.tolist())]
    for name, X in layouts(Qrows):
        tol = 1e-6 if name == 'float32' else 1e-12
        key = f'layout={name} k{k}'
        QA = QuaternionArray(X)
        ctx.close(np.asarray(QA), Qunit, tol, 'QuaternionArray(rows in another layout): own values = normalised rows', key)
        ctx.close(np.asarray(QA.array), Qunit, tol, 'QuaternionArray(rows in another layout): .array = normalised rows', key)
        ctx.close(np.asarray(QA.to_DCM()), np.array([rq.R(q) for q in Qunit]), 10 * tol, 'QuaternionArray(rows in another layout).to_DCM', key)
        QA2 = QuaternionArray(X, versors=False)
        ctx.close(np.asarray(QA2), Qrows, tol * 10, 'QuaternionArray(rows in another layout, versors=False): own values = rows', key)
        ctx.cls('layout'); ctx.seen(('layout', 'QA', name))
    for name, X in layouts(Rm):
        tol = 1e-6 if name == 'float32' else 1e-12
        key = f'layout={name} k{k}'
        try:
            D = DCM(X)
        except (ValueError, TypeError):
            if name == 'float32':
                continue                    # single precision is refused by the input assertion / falls outside the SO(3) acceptance band
            raise
        v = np.array([0.3, -1.2, 2.5])
        ctx.close(np.asarray(D), Rm, tol, 'DCM(matrix in another layout): own values = the matrix', key)
        ctx.close(np.asarray(D.A), Rm, tol, 'DCM(matrix in another layout): .A = the matrix', key)
        ctx.close(np.asarray(D @ v), Rm @ v, 10 * tol, 'DCM(matrix in another layout) @ v', key)
        qd = np.asarray(D.to_quaternion(), float)
        ctx.expect(qd.shape == (4,) and rq.qangle(rq.qunit(qd), rq.qunit(A.MENU[k])) <= 1e-6, 'DCM(matrix in another layout).to_quaternion', key, qd, rq.qunit(A.MENU[k]), 1e-6)
        ctx.cls('layout'); ctx.seen(('layout', 'DCM', name))
    for name, X in (('int', Rint), ('int F', np.asfortranarray(Rint)), ('int list', Rint.tolist())):
        D = DCM(X)
        ctx.close(np.asarray(D), Rint.astype(float), 0.0, 'DCM(integer matrix): own values = the matrix', f'layout={name}')
        ctx.close(np.asarray(D.A, float), Rint.astype(float), 0.0, 'DCM(integer matrix): .A = the matrix', f'layout={name}')
    for name, x in (('int', np.array([1, 2, -2, 4])), ('float32', np.array([1, 2, -2, 4], dtype=np.float32)), ('strided', np.arange(8.0)[::2] + 1.0), ('list', [1, 2, -2, 4]), ('tuple', (1.0, 2.0, -2.0, 4.0))):
        Q = Quaternion(x)
        ref = rq.qunit(np.asarray(x, float))
        ctx.close(np.asarray(Q), ref, 1e-7 if name == 'float32' else 1e-12, 'Quaternion(vector in another layout): own values = normalised vector', f'layout={name}')
        ctx.close(np.asarray(Q.A), ref, 1e-7 if name == 'float32' else 1e-12, 'Quaternion(vector in another layout): .A = normalised vector', f'layout={name}')
        ctx.cls('layout'); ctx.seen(('layout', 'Q', name))
    # the object owns its data: changing the caller's array afterwards does not change (or denormalise) the object
    src = np.array([1.0, 2.0, -2.0, 4.0]); Qo = Quaternion(src); keep = np.asarray(Qo).copy()
    src *= 10.0
    ctx.close(np.asarray(Qo), keep, 0.0, 'Quaternion(array): object unaffected by later changes of the caller array', 'float64 4-vector')
    ctx.close(np.asarray(Qo.A), keep, 0.0, 'Quaternion(array): .A unaffected by later changes of the caller array', 'float64 4-vector')
    srcu = rq.qunit(np.array([1.0, 2.0, -2.0, 4.0])); Qu = Quaternion(srcu); srcu[:] = [0.0, 0.0, 0.0, 2.0]
    ctx.expect(abs(rq.qnorm(np.asarray(Qu)) - 1) <= 1e-12, 'Quaternion(unit array): still a unit quaternion after the caller overwrites its array', 'unit float64 4-vector', np.asarray(Qu), 'unit')
    buf = np.array(Qrows[:3]); QAo = QuaternionArray(buf); keepA = np.asarray(QAo).copy(); buf[:] = 0.0
    ctx.close(np.asarray(QAo), keepA, 0.0, 'QuaternionArray(array): object unaffected by later changes of the caller array', 'float64 rows')
    Rb = Rm.copy(); Do = DCM(Rb); Rb[:] = 0.0
    ctx.close(np.asarray(Do), Rm, 0.0, 'DCM(array): object unaffected by later changes of the caller array', 'float64 matrix')
    ctx.close(np.asarray(Do.A), Rm, 0.0, 'DCM(array): .A unaffected by later changes of the caller array', 'float64 matrix')
    Qc = Quaternion(Quaternion(np.array([0.5, 0.5, 0.5, 0.5]))); 
    ctx.sample({'layouts': ['C', 'F', 'T-view', 'strided', 'float32', 'list', 'int']})


class _StubRng:
    def __init__(self, pts):
        self.pts = pts

    def uniform(self, lo, hi, size):
        if isinstance(size, tuple):
            assert size[0] == 3 and size[1] == len(self.pts)
            return np.array(self.pts, float).T.copy()
        assert size == 3 and len(self.pts) == 1
        return np.array(self.pts[0], float)


def job_random(ctx):
    from ahrs import Quaternion, QuaternionArray
    from ahrs.common import quaternion as QM
    menu = [0.0, 1e-12, 0.25, 0.5, 0.75, 1 - 1e-12]
    pts = list(itertools.product(menu, repeat=3))
    real = np.random.default_rng
    try:
        for p in pts:
            np.random.default_rng = lambda *a, **kw: _StubRng([p])
            key = f'u={p}'
            q = np.asarray(QM.random_attitudes(1))
            ctx.expect(_is_unit_real(q), 'random_attitudes(1) is a real unit quaternion', key, q, 'unit', 1e-12)
            M = np.asarray(QM.random_attitudes(1, representation='rotmat'))
            ctx.expect(rq.so3_defect(M) <= 1e-12, "random_attitudes(1,'rotmat') is a proper rotation", key, M, 'SO(3)', 1e-12)
            q = np.asarray(Quaternion(random=True))
            ctx.expect(_is_unit_real(q), 'Quaternion(random=True) is a real unit quaternion', key, q, 'unit', 1e-12)
            ctx.cls('random'); ctx.seen(('rand', p))
        np.random.default_rng = lambda *a, **kw: _StubRng(pts)
        Q = np.asarray(QM.random_attitudes(len(pts)))
        ok = Q.shape == (len(pts), 4) and bool(np.all(np.isfinite(Q))) and bool(np.all(np.abs(np.linalg.norm(Q, axis=1) - 1) <= 1e-12))
        ctx.expect(ok, 'random_attitudes(n) rows are real unit quaternions', 'all 216 generator answers at once', Q[:2], 'unit rows', 1e-12)
        Ms = np.asarray(QM.random_attitudes(len(pts), representation='rotmat'))
        ctx.expect(Ms.shape == (len(pts), 3, 3) and max(rq.so3_defect(m) for m in Ms) <= 1e-12, "random_attitudes(n,'rotmat') rows are proper rotations",
                   'all 216 generator answers at once', None, 'SO(3)', 1e-12)
        QA = np.asarray(QuaternionArray(len(pts)))
        ok = QA.shape == (len(pts), 4) and bool(np.all(np.abs(np.linalg.norm(QA, axis=1) - 1) <= 1e-12))
        ctx.expect(ok, 'QuaternionArray(n) rows are real unit quaternions', 'all 216 generator answers at once', QA[:2], 'unit rows', 1e-12)
    finally:
        np.random.default_rng = real
    ctx.sample({'generator_answers': [list(pts[0]), list(pts[-1])]})


def job_reject(ctx, k):
    from ahrs import Quaternion, QuaternionArray, DCM
    nan = float('nan')

    def must_reject(fn, site, key):
        ctx.evals += 1
        try:
            r = fn()
        except (ValueError, TypeError):
            return
        except Exception as ex:
            ctx.fail(site + ' (rejects with ValueError/TypeError)', key, f'{type(ex).__name__}: {ex}'[:200], 'ValueError/TypeError')
            return
        ctx.fail(site + ' (rejects with ValueError/TypeError)', key, np.asarray(r) if r is not None else None, 'ValueError/TypeError')

    bad_vecs = [('zero4', [0.0, 0, 0, 0]), ('zero3', [0.0, 0, 0]), ('len2', [1.0, 2]), ('len5', [1.0, 2, 3, 4, 5]), ('2x4', [[1.0, 0, 0, 0], [0, 1.0, 0, 0]]),
                ('str', 'abcd'), ('strs', ['a', 'b', 'c', 'd']), ('scalar', 3.0), ('empty', []),
                # wrong shapes that happen to hold 3 or 4 numbers
                ('2x2', [[1.0, 2.0], [3.0, 4.0]]), ('1x4', [[1.0, 0, 0, 0]]), ('4x1', [[1.0], [0.0], [0.0], [0.0]]), ('1x3', [[1.0, 2.0, 3.0]]), ('3x1', [[1.0], [2.0], [3.0]]),
                ('2x2x1', [[[1.0], [2.0]], [[3.0], [4.0]]]), ('1x1x4', [[[1.0, 0, 0, 0]]]), ('1x1x3', [[[1.0, 2.0, 3.0]]])]
    for pos in range(4):
        v = [0.5, -0.5, 0.5, 0.5]; v[pos] = nan
        bad_vecs.append((f'nan@{pos}', v))
    for pos in range(3):
        v = [0.0, 1.0, 2.0]; v[pos] = nan
        bad_vecs.append((f'nan3@{pos}', v))
    bad_vecs.append(('allnan', [nan] * 4))
    for name, v in bad_vecs:
        must_reject(lambda: Quaternion(np.array(v) if not isinstance(v, str) and name not in ('scalar',) else v), 'Quaternion(invalid)', f'input={name}')
        # the option versor=False keeps the norm of a VALID vector; it does not make zero vectors, NaNs or wrong shapes acceptable
        must_reject(lambda: Quaternion(np.array(v) if not isinstance(v, str) and name not in ('scalar',) else v, versor=False), 'Quaternion(invalid, versor=False)', f'input={name}')
        must_reject(lambda: Quaternion(np.array(v) if not isinstance(v, str) and name not in ('scalar',) else v, versor=False, order='S'), "Quaternion(invalid, versor=False, order='S')", f'input={name}')
        ctx.cls('reject:vector'); ctx.seen(('rejq', name))
    bad_arrs = [('zero-row', [[1.0, 0, 0, 0], [0.0, 0, 0, 0]]), ('1d', [1.0, 0, 0, 0]), ('Nx5', [[1.0, 0, 0, 0, 0]]), ('Nx2', [[1.0, 0]]), ('3d', [[[1.0, 0, 0, 0]]]),
                ('str', 'abc'), ('nan-row', [[1.0, 0, 0, 0], [nan, 0, 0, 1.0]]), ('nan-row3', [[1.0, 0, 0], [0, nan, 1.0]]), ('zero-row3', [[0.0, 0, 0]])]
    for name, v in bad_arrs:
        must_reject(lambda: QuaternionArray(np.array(v) if not isinstance(v, str) else v), 'QuaternionArray(invalid)', f'input={name}')
        must_reject(lambda: QuaternionArray(np.array(v) if not isinstance(v, str) else v, versors=False), 'QuaternionArray(invalid, versors=False)', f'input={name}')
        ctx.cls('reject:vector'); ctx.seen(('rejqa', name))

    # complex-valued data (non-zero imaginary parts) are not real vectors / rotations: refused, never silently reduced to their real part
    qc = A.MENU[k]
    Rg = rq.R(A.MENU[(k + 5) % 8]); Sg = rq.R(A.MENU[(k + 2) % 8])
    for name, fn in (('complex 4-vector', lambda: Quaternion(qc + 1j * qc[::-1])), ('complex 3-vector', lambda: Quaternion(qc[1:] + 0.5j * qc[:3])),
                     ('complex rows', lambda: QuaternionArray(np.array([qc, qc[::-1]]) + 1j * np.array([qc[::-1], qc]))),
                     ('complex matrix R+iS', lambda: DCM(Rg + 1j * Sg)), ('complex matrix R+i*1e-3*S', lambda: DCM(Rg + 1e-3j * Sg)),
                     ('complex stack', lambda: DCM(np.array([Rg, Sg]) + 1j * np.array([Sg, Rg]))),
                     ('Quaternion(dcm=complex)', lambda: Quaternion(dcm=Rg + 1j * Sg)), ('DCM(q=complex)', lambda: DCM(q=qc + 1j * qc[::-1]))):
        must_reject(fn, 'complex-valued input', f'input={name}')
        ctx.cls('reject:vector'); ctx.seen(('rejc', name))
    # degenerate values (zero vectors, NaN, wrong lengths) through the keyword routes of DCM: refused, as the statement says, not turned into some rotation
    for name, fn in (('axang zero axis', lambda: DCM(axang=(np.zeros(3), 0.5))), ('axang zero axis, angle 0', lambda: DCM(axang=(np.zeros(3), 0.0))), ('axang zero axis, angle pi', lambda: DCM(axang=(np.zeros(3), math.pi))), ('axang zero axis (list)', lambda: DCM(axang=([0.0, 0.0, 0.0], 1.0))), ('axang NaN axis', lambda: DCM(axang=(np.array([nan, 0.0, 1.0]), 0.5))),
                     ('axang NaN angle', lambda: DCM(axang=(np.array([0.0, 0.0, 1.0]), nan))), ('q zero', lambda: DCM(q=np.zeros(4))),
                     ('q NaN', lambda: DCM(q=np.array([1.0, nan, 0.0, 0.0]))), ('x NaN', lambda: DCM(x=nan)), ('y NaN', lambda: DCM(y=nan, z=0.3)),
                     ('rpy NaN', lambda: DCM(rpy=[0.1, nan, 0.2])), ('euler NaN', lambda: DCM(euler=('zyx', [0.1, 0.2, nan]))),
                     ('rpy wrong length', lambda: DCM(rpy=[0.1, 0.2])), ('euler not a tuple', lambda: DCM(euler=['zyx', [0.1, 0.2, 0.3]]))):
        must_reject(fn, 'DCM(keyword route, degenerate value)', f'input={name}')
        ctx.cls('reject:vector'); ctx.seen(('rejkw', name))
    # matrices
    Rs = [rq.R(q) for q in [np.array([1.0, 0, 0, 0]), A.MENU[k], A.MENU[(k + 3) % 8], A.G48()[30], A.G48()[12], A.Gl(A.G120(), k)[17],
                            rq.axang2q([1, 2, 3], math.pi), rq.axang2q([0, 0, 1], 1e-9)]]
    good = rq.R(A.MENU[(k + 5) % 8])
    def typed(M):
        # the same numbers carried by a DCM-typed array (what arithmetic on an existing DCM object produces, e.g. -R, 2*R, R + E)
        return DCM(np.eye(3)) * 0.0 + M
    routes = [('DCM(R)', lambda M: DCM(M.copy())), ('Quaternion(dcm=)', lambda M: Quaternion(dcm=M.copy())),
              ('Quaternion(dcm=DCM-typed array)', lambda M: Quaternion(dcm=typed(M))), ('DCM(DCM-typed array)', lambda M: DCM(typed(M))),
              ('QuaternionArray(DCM=)', lambda M: QuaternionArray(DCM=M.copy()[None])),
              ('DCM(stack [M])', lambda M: DCM(M.copy()[None])), ('DCM(stack [good, M, good])', lambda M: DCM(np.array([good, M.copy(), good]))),
              ('QuaternionArray(DCM=[good, M])', lambda M: QuaternionArray(DCM=np.array([good, M.copy()]))),
              ('QuaternionArray(DCM=[M, good])', lambda M: QuaternionArray(DCM=np.array([M.copy(), good]))),
              ('QuaternionArray(DCM=[good, M, good, good])', lambda M: QuaternionArray(DCM=np.array([good, M.copy(), good, good]))),
              ('QuaternionArray().from_DCM([M, good, good])', lambda M: QuaternionArray().from_DCM(np.array([M.copy(), good, good]))),
              ('DCM(stack [M, good])', lambda M: DCM(np.array([M.copy(), good])))]

    def perturbs(eps):
        out = [('scale+', np.eye(3) * (1 + eps)), ('scale-', np.eye(3) * (1 - eps)), ('scale-x', np.diag([1 + eps, 1.0, 1.0]))]
        for i in range(3):
            for j in range(3):
                if i != j:
                    P = np.eye(3); P[i, j] = eps
                    out.append((f'shear{i}{j}', P))
        return out

    for ir, R in enumerate(Rs):
        for rn, fn in routes:
            for eps in (1e-15, 1e-14, 1e-13, 1e-12):
                for pn, P in perturbs(eps):
                    key = f'R#{ir} P={pn} eps={eps:g} k{k}'
                    ok, val = ctx.raises_ok(lambda: fn(R @ P), (), f'{rn}: matrix within 1e-12 of SO(3) accepted', key)
                    ctx.evals += 1
                    ctx.cls('accept:matrix')
                ctx.seen(('acc', ir, rn, eps))
            for eps in (1.01e-4, 1e-3, 1e-2, 1e-1, 1.0):
                for pn, P in perturbs(eps):
                    if pn == 'scale-' and eps == 1.0:
                        pn = 'rank-deficient-zero'
                    must_reject(lambda: fn(R @ P), f'{rn}: matrix farther than 1e-4 from SO(3)', f'R#{ir} P={pn} eps={eps:g} k{k}')
                    ctx.cls('reject:matrix')
                ctx.seen(('rej', ir, rn, eps))
            # the rejection band does not depend on the numeric type that carries the matrix (single / half precision arrays of the same numbers)
            if rn in ('DCM(R)', 'Quaternion(dcm=)', 'DCM(stack [M])', 'QuaternionArray(DCM=)'):
                for eps in (2e-4, 5e-4, 3e-3, 1e-1):
                    for pn, P in perturbs(eps)[:5]:
                        for dt_ in (np.float32, np.float16):
                            if dt_ is np.float16 and eps < 1e-1:
                                continue            # (half precision cannot carry a 5e-4 defect: the cast would round it away)
                            must_reject(lambda: fn((R @ P).astype(dt_)), f'{rn}: matrix farther than 1e-4 from SO(3), carried by a reduced-precision array', f'R#{ir} P={pn} eps={eps:g} dtype={np.dtype(dt_).name} k{k}')
                ctx.cls('reject:matrix:reduced-precision')
            for pn, P in (('reflect-x', np.diag([-1.0, 1, 1])), ('reflect-all', -np.eye(3)), ('swap-xy', np.array([[0.0, 1, 0], [1, 0, 0], [0, 0, 1]])),
                          ('rank2', np.diag([1.0, 1, 0]))):
                must_reject(lambda: fn(R @ P), f'{rn}: improper / singular matrix', f'R#{ir} P={pn} k{k}')
                ctx.cls('reject:matrix')
            for i in range(3):
                for j in range(3):
                    M = R.copy(); M[i, j] = nan
                    must_reject(lambda: fn(M), f'{rn}: matrix containing NaN', f'R#{ir} nan@{i}{j} k{k}')
                    ctx.cls('reject:matrix')
            for name, M in (('2x2', np.eye(2)), ('3x4', np.zeros((3, 4))), ('vector', np.ones(9)), ('4x4', np.eye(4))):
                if rn != 'DCM(R)' and rn != 'Quaternion(dcm=)':
                    continue
                must_reject(lambda: fn(M), f'{rn}: wrong shape', f'shape={name}')
                ctx.cls('reject:matrix')
    # history on ONE caller-owned array: converted while it is a proper rotation, then CHANGED IN PLACE into something that is not one, then
    # converted again (no other call in between): refused like a fresh array holding the same numbers
    spoils = [('scaled by 1.5', lambda M: np.multiply(M, 1.5, out=M)), ('first column mirrored', lambda M: np.negative(M[..., :, 0], out=M[..., :, 0])),
              ('one element sheared', lambda M: M.__setitem__((Ellipsis, 0, 1), M[..., 0, 1] + 0.3)), ('a NaN written', lambda M: M.__setitem__((Ellipsis, 2, 2), nan))]
    hist_routes = [('Quaternion(dcm=R)', lambda M: Quaternion(dcm=M)), ('Quaternion().from_DCM(R)', lambda M: Quaternion().from_DCM(M)), ('DCM(R)', lambda M: DCM(M)),
                   ('QuaternionArray(DCM=[R, good])', lambda M: QuaternionArray(DCM=M)), ('DCM(stack)', lambda M: DCM(M))]
    for rn, fn in hist_routes:
        for sn, spoil in spoils:
            for ir, R in enumerate(Rs[1:4]):
                M = R.copy() if 'stack' not in rn and '[' not in rn else np.array([R.copy(), good.copy()])
                ctx.evals += 1
                try:
                    fn(M); fn(M)                      # twice: the same object seen before
                except Exception as ex:
                    ctx.fail(f'{rn}: a proper rotation is accepted (also the second time the same array is given)', f'R#{ir + 1} k{k}', repr(ex)[:120], 'accepted'); continue
                spoil(M)
                must_reject(lambda: fn(M), f'{rn}: an array converted before and then changed in place into a non-rotation', f'R#{ir + 1} change={sn} k{k}')
                ctx.cls('reject:matrix-history')
    # a REFUSED in-place call leaves the object it was called on as it was (still unit rows / a proper rotation, same elements)
    rowsQ = np.array([A.MENU[(k + j) % 8] for j in range(5)])
    badR = np.array([good, good @ np.diag([-1.0, 1.0, 1.0]), good])            # a reflection in the stack
    for nm, mk, ops in (('QuaternionArray', lambda: QuaternionArray(rowsQ.copy()),
                         [('from_DCM(stack with a reflection)', lambda o: o.from_DCM(badR.copy())), ('from_DCM(itzhack, version=7)', lambda o: o.from_DCM(np.array([good, good]), method='itzhack', version=7)),
                          ('from_DCM(NaN matrix)', lambda o: o.from_DCM(np.array([good, good * np.nan]))), ('from_rpy(wrong shape)', lambda o: o.from_rpy(np.ones((3, 2)))),
                          ('rotate_by(zero quaternion, inplace=True)', lambda o: o.rotate_by(np.zeros(4), inplace=True)), ('rotate_by(NaN, inplace=True)', lambda o: o.rotate_by(np.full(4, np.nan), inplace=True))]),
                        ('Quaternion', lambda: Quaternion(rowsQ[1].copy()),
                         [('from_DCM(reflection)', lambda o: o.from_DCM(badR[1].copy())), ('from_rpy(NaN)', lambda o: o.from_rpy(np.array([0.1, nan, 0.3]))), ('rotate(wrong shape)', lambda o: o.rotate(np.ones((2, 5)))),
                          ('product(zero-length)', lambda o: o.product(np.ones(2)))]),
                        ('DCM', lambda: DCM(good.copy()),
                         [('from_quaternion(zero)', lambda o: o.from_quaternion(np.zeros(4))), ('from_axisangle(zero axis)', lambda o: o.from_axisangle(np.zeros(3), 0.4)),
                          ('from_q(NaN)', lambda o: o.from_q(np.full(4, np.nan)))])):
        for on, op in ops:
            obj = mk()
            b0 = np.asarray(obj, float).copy()
            a0 = np.asarray(getattr(obj, 'array', getattr(obj, 'A', None)), float).copy()
            ctx.evals += 1
            try:
                op(obj)
                ctx.outcome(('in-place-call-answered', nm, on))
                continue                                   # answered, not refused: nothing to judge here
            except Exception:
                pass
            same = np.array_equal(np.asarray(obj, float), b0) and np.array_equal(np.asarray(getattr(obj, 'array', getattr(obj, 'A', None)), float), a0)
            ctx.expect(same, f'{nm}: a refused call leaves the object as it was', f'op={on} k{k}', np.asarray(getattr(obj, 'array', getattr(obj, 'A', None)), float).ravel()[:4], a0.ravel()[:4])
            try:
                Ms = np.asarray(obj.to_DCM() if nm != 'DCM' else obj, float)
                ok = max(rq.so3_defect(m_) for m_ in (Ms if Ms.ndim == 3 else [Ms])) <= 1e-12
            except Exception as ex:
                ok = False
            ctx.expect(ok, f'{nm}: after a refused call the object still converts to proper rotations', f'op={on} k{k}', None, 'rotations')
            ctx.cls('reject:object-unchanged')
    ctx.sample({'perturbation': 'R @ (I + eps e_i e_j^T)', 'eps_accept': [1e-15, 1e-12], 'eps_reject': [1.01e-4, 1.0]})


def run(ctx):
    k = A.seed_k(ctx.seed)
    ks = list(range(8)) if ctx.thorough else [k]
    jobs = [('job_vectors', (p,)) for p in range(3)] + [('job_dcm_routes', (p,)) for p in range(4)]
    n = len(A.G48()) + len(A.LAT4(1))
    jobs += [('job_addsub', (lo, hi)) for lo, hi in core.chunks(n, 8)]
    jobs.append(('job_random', ()))
    for kk in ks:
        jobs += [('job_rotate_by', (kk,)), ('job_average', (kk,)), ('job_reject', (kk,)), ('job_layouts', (kk,))]
    core.run_jobs(ctx, __name__, jobs)
