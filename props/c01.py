"""C01 — quaternions and rotation matrices are one rotation group (homomorphism, SO(3)).

(a) Cayley-graph exploration: BFS from the identity, transitions = right multiplication by group
    generators *through the library's own product routes*; must close on exactly |G| states.
(b) complete pair tables G x G, coset x coset, LAT4(1)^2: M(pq) = M(p)M(q) for every matrix route.
(c) unary laws on ~1 000 quaternions through all nine quaternion->matrix routes.
(d) vector rotation: rotate(v) = M(q) v = vec(q v q*), q_rot(q, v) = M(q)^T v.
"""
import math
import numpy as np
from mc import core, alphabet as A
from mc.ref import quat as rq

PID = 'C01'
LEVEL = 'model_checking'
RULE = ('states = group elements reached by BFS over the Cayley graph using the library product (4 routes per edge); '
        'evaluations = every law instance checked; a case is distinct by (law, route, operand ids) and non-trivial '
        'when neither operand is +-identity')
ASSUMPTIONS = ['unit quaternions only (the statement is about unit quaternions)',
               'tolerance 1e-12 absolute (relative to |v| for vector rotation); observed <= 3e-15',
               'reference model mc/ref/quat.py is the textbook formula; any disagreement is reported as a violation']
REQUIRED_CLASSES = ['default-objects', 'quaternion-objects-as-arguments', 'derived-scalar-last', 'multiplication-matrices', 'normalised-in-place', 'scalar-last-array-and-same-raw-numbers', 'cayley:closed', 'pairs:group', 'pairs:coset', 'unary:edge', 'rotate', 'int-operands', 'array-history']
TOL = 1e-12


def _lib():
    from ahrs import Quaternion, QuaternionArray, DCM
    from ahrs.common import orientation as O
    return Quaternion, QuaternionArray, DCM, O


def _routes_single(q):
    """The seven one-quaternion routes to a matrix (each gets its own copy of q)."""
    Quaternion, QuaternionArray, DCM, O = _lib()
    return {
        'Quaternion.to_DCM': np.asarray(Quaternion(q.copy()).to_DCM()),
        'DCM(q=)': np.asarray(DCM(q=q.copy())),
        'DCM.from_quaternion': np.asarray(DCM().from_quaternion(q.copy())),
        'DCM.from_q': np.asarray(DCM().from_q(q.copy())),
        'q2R(v1)': np.asarray(O.q2R(q.copy(), 1)),
        'q2R(v2)': np.asarray(O.q2R(q.copy(), 2)),
    }


def _routes_batch(Q):
    """Batch routes over an (N,4) array -> dict of (N,3,3)."""
    Quaternion, QuaternionArray, DCM, O = _lib()
    return {
        'QuaternionArray.to_DCM': np.asarray(QuaternionArray(Q.copy()).to_DCM()),
        'DCM.from_quaternion[batch]': np.asarray(DCM().from_quaternion(Q.copy())),
        'q2R(v1)[batch]': np.asarray(O.q2R(Q.copy(), 1)),
        'q2R(v2)[batch]': np.asarray(O.q2R(Q.copy(), 2)),
    }


def _products(p, q):
    Quaternion, QuaternionArray, DCM, O = _lib()
    P, Qq = Quaternion(p.copy()), Quaternion(q.copy())
    return {
        'product': np.asarray(P.product(q.copy())),
        '*': np.asarray(P * Qq),
        '@': np.asarray(P @ Qq),
        'q_prod': np.asarray(O.q_prod(p.copy(), q.copy())),
    }


def _group(name, k):
    base = {'G24': A.G24, 'G48': A.G48, 'G120': A.G120}[name.split(':')[0]]()
    kind = name.split(':')[1] if ':' in name else 'plain'
    if kind == 'c':
        return A.Gc(base, k)
    if kind == 'l':
        return A.Gl(base, k)
    return base


def _generators(G):
    """Greedy generating set, verified with the reference product."""
    key = lambda q: tuple(np.round(q, 9) + 0.0)
    gens, span = [], {key(G[0] * 0 + np.array([1.0, 0, 0, 0]))}
    elems = {key(np.array([1.0, 0, 0, 0])): np.array([1.0, 0, 0, 0])}
    for g in G:
        if key(g) in span:
            continue
        gens.append(g)
        # closure
        frontier = list(elems.values())
        while frontier:
            new = []
            for e in frontier:
                for h in gens:
                    x = rq.qmul(e, h)
                    if key(x) not in elems:
                        elems[key(x)] = x; new.append(x)
            frontier = new
        span = set(elems)
        if len(span) == len(G):
            break
    assert len(span) == len(G), 'generators do not span'
    return gens


def job_cayley(ctx, gname, k):
    """BFS over the Cayley graph with the library product; a state is the library's own value."""
    G = _group(gname, k)
    gens = _generators(G)
    ident = np.array([1.0, 0.0, 0.0, 0.0])

    def index(x):
        d = np.abs(G - x).max(axis=1)
        i = int(d.argmin())
        return i if d[i] <= 1e-9 else None

    seen = {index(ident): ident}
    frontier = [ident]
    depth = 0
    while frontier:
        nxt = []
        for p in frontier:
            ip = index(p)
            for gi, g in enumerate(gens):
                ref = rq.qmul(p, g)
                prods = _products(p, g)
                ctx.transitions += len(prods)
                ctx.traces += len(prods)
                for rname, val in prods.items():
                    key = f'{gname}#k{k} p={ip} gen={gi} route={rname}'
                    ctx.close(val, ref, TOL, f'product route {rname} = Hamilton product', key, track='cayley.product')
                    ctx.seen(('cayley', gname, ip, gi, rname))
                val = prods['product']
                j = index(val)
                if not ctx.expect(j is not None, 'Cayley closure: product stays in the group', f'{gname}#k{k} p={ip} gen={gi}',
                                  val, 'a group element'):
                    continue
                # homomorphism on this edge through the scalar matrix routes
                Mp, Mg, Mpg = _routes_single(p), _routes_single(g), _routes_single(val)
                for rname in Mp:
                    ctx.close(Mpg[rname], Mp[rname] @ Mg[rname], TOL, f'M(pq)=M(p)M(q) via {rname}',
                              f'{gname}#k{k} p={ip} gen={gi}', track='cayley.homomorphism')
                if j not in seen:
                    seen[j] = val
                    nxt.append(val)
        frontier = nxt
        depth += 1
    ctx.states += len(seen)
    ctx.max_depth = max(ctx.max_depth, depth)
    ok = ctx.expect(len(seen) == len(G), 'Cayley closure: BFS closes on |G| states', f'{gname}#k{k}', len(seen), len(G))
    if ok:
        ctx.cls('cayley:closed')
    ctx.sample({'cayley': gname, 'k': k, 'generators': [g.tolist() for g in gens], 'states': len(seen), 'depth': depth})


def _pairset(sname, k):
    if sname == 'LAT4(1)':
        return A.LAT4(1)
    return _group(sname, k)


def job_pairs(ctx, sname, k, lo, hi):
    """Rows lo..hi of the complete pair table of a set: product routes and the homomorphism law."""
    Quaternion, QuaternionArray, DCM, O = _lib()
    S = _pairset(sname, k)
    Ms = {i: _routes_single(S[i]) for i in range(len(S))}
    Mb = _routes_batch(S)
    ident = lambda q: abs(abs(q[0]) - 1.0) < 1e-12
    cname = 'pairs:coset' if ':l' in sname else ('pairs:lattice' if 'LAT' in sname else 'pairs:group')
    for i in range(lo, hi):
        p = S[i]
        PQ = np.array([np.asarray(Quaternion(p.copy()).product(S[j].copy())) for j in range(len(S))])
        ref = np.array([rq.qmul(p, S[j]) for j in range(len(S))])
        ctx.close(PQ, ref, TOL, 'Quaternion.product = Hamilton product', f'{sname}#k{k} row={i}', track='pairs.product')
        Mb_pq = _routes_batch(PQ)
        for rname, M in Mb_pq.items():
            exp = np.einsum('ij,njk->nik', Mb[rname][i], Mb[rname])
            d = np.abs(M - exp).reshape(len(S), -1).max(axis=1)
            ctx.tick(len(S))
            ctx.track('pairs.homomorphism', d.max())
            for j in np.nonzero(~(d <= TOL))[0]:
                ctx.fail(f'M(pq)=M(p)M(q) via {rname}', f'{sname}#k{k} p={i} q={int(j)}', M[j], exp[j], TOL)
        for j in range(len(S)):
            Mpq = _routes_single(PQ[j])
            for rname, M in Mpq.items():
                ctx.close(M, Ms[i][rname] @ Ms[j][rname], TOL, f'M(pq)=M(p)M(q) via {rname}', f'{sname}#k{k} p={i} q={j}',
                          track='pairs.homomorphism')
            if not (ident(p) or ident(S[j])):
                ctx.seen(('pair', sname, k, i, j))
            ctx.cls(cname)
            ctx.transitions += 1
    ctx.traces += (hi - lo) * len(S)
    ctx.sample({'pair_table': sname, 'k': k, 'rows': [lo, hi], 'p': S[lo].tolist(), 'q': S[-1].tolist()})


def _unary_set(k):
    parts = [('G48', A.G48()), ('G120', A.G120()), ('G120:c', A.Gc(A.G120(), k)), ('G120:l', A.Gl(A.G120(), k)),
             ('G48:c', A.Gc(A.G48(), k)), ('LAT4(2)', A.LAT4(2)), ('EDGE4', A.EDGE4())]
    return parts


def _lib_conjugates(q):
    """q* through every public conjugate route."""
    Quaternion, QuaternionArray, DCM, O = _lib()
    return {'Quaternion.conjugate': np.asarray(Quaternion(q.copy()).conjugate), 'Quaternion.conj': np.asarray(Quaternion(q.copy()).conj),
            'q_conj': np.asarray(O.q_conj(q.copy())), 'QuaternionArray.conjugate': np.asarray(QuaternionArray(q.copy()[None]).conjugate())[0],
            'Quaternion.inverse': np.asarray(Quaternion(q.copy()).inverse)}


def job_int_operands(ctx, k):
    """Axis-aligned unit quaternions given as INTEGER arrays (a user writing [0, 1, 0, 0]) on either side of every product route."""
    Quaternion, QuaternionArray, DCM, O = _lib()
    ints = [np.array(v, dtype=int) for v in [(1, 0, 0, 0), (0, 1, 0, 0), (0, 0, 1, 0), (0, 0, 0, 1), (-1, 0, 0, 0), (0, 0, -1, 0)]]
    gen = [A.MENU[k], A.Gl(A.G24(), k)[5], A.G48()[30]]
    for ii, pi_ in enumerate(ints):
        for gi, g in enumerate(gen):
            for side in ('int*float', 'float*int'):
                p, q = (pi_, g) if side == 'int*float' else (g, pi_)
                ref = rq.qmul(np.asarray(p, float), np.asarray(q, float))
                key = f'int#{ii} gen#{gi} k{k} {side}'
                ctx.close(np.asarray(O.q_prod(p.copy(), q.copy()), float), ref, TOL, 'q_prod with an integer-typed operand = Hamilton product', key)
                ctx.close(np.asarray(Quaternion(p.copy()).product(q.copy()), float), ref, TOL, 'Quaternion.product with an integer-typed operand = Hamilton product', key)
                ctx.close(np.asarray(O.q2R(np.asarray(O.q_prod(p.copy(), q.copy()), float))), rq.R(np.asarray(p, float)) @ rq.R(np.asarray(q, float)), TOL,
                          'q2R(q_prod(p, q)) = q2R(p) q2R(q) with an integer-typed operand', key)
                ctx.seen(('int', ii, gi, side))
                ctx.cls('int-operands')
        v = np.array([0.3, -1.2, 2.5])
        ctx.close(np.asarray(O.q_rot(pi_.copy(), v.copy()), float), rq.R(np.asarray(pi_, float)).T @ v, TOL, 'q_rot with an integer-typed quaternion', f'int#{ii}')
        ctx.close(np.asarray(Quaternion(pi_.copy()).rotate(v.copy()), float), rq.R(np.asarray(pi_, float)) @ v, TOL, 'Quaternion.rotate with an integer-typed quaternion', f'int#{ii}')
    ctx.sample({'integer_operand': [0, 1, 0, 0], 'other': gen[0].tolist()})


def job_array_histories(ctx, k):
    """Operation sequences on ONE QuaternionArray: after any sequence (including in-place ones) its matrices are those of a fresh array
    built from its current rows, and equal the per-row reference."""
    Quaternion, QuaternionArray, DCM, O = _lib()
    import itertools
    rows0 = A.Gl(A.G24(), k)[:6]
    g = A.MENU[(k + 2) % 8]
    ops = ['to_DCM', 'rotate_by(inplace)', 'rotate_by(copy)', 'conjugate', 'to_angles', 'remove_jumps', 'write_rows', 'negate_rows']
    def apply(QA, op):
        if op == 'to_DCM':
            QA.to_DCM()
        elif op == 'rotate_by(inplace)':
            QA.rotate_by(g.copy(), inplace=True)
        elif op == 'rotate_by(copy)':
            QA.rotate_by(g.copy())
        elif op == 'conjugate':
            QA.conjugate()
        elif op == 'to_angles':
            QA.to_angles()
        elif op == 'remove_jumps':
            QA.remove_jumps()
        elif op == 'write_rows':
            QA.array[:] = A.Gl(A.G24(), k)[6:12]
        elif op == 'negate_rows':
            QA.array[1::2] *= -1.0
    n = 0
    for d in (1, 2, 3):
        for word in itertools.product(ops, repeat=d):
            if d > 1 and not any(o in word for o in ('rotate_by(inplace)', 'write_rows', 'negate_rows', 'remove_jumps')):
                continue
            if word[-1] != 'to_DCM' and d > 1:
                continue                     # longer words are judged through the matrix they finally produce
            QA = QuaternionArray(rows0.copy())
            try:
                for op in word:
                    apply(QA, op)
                    ctx.transitions += 1
                got = np.asarray(QA.to_DCM())
                cur = np.asarray(QA.array, float)
                exp = np.array([rq.R(rq.qunit(r)) for r in cur])
            except Exception as ex:
                ctx.evals += 1
                ctx.fail('QuaternionArray history raises', f'ops={">".join(word)} k{k}', repr(ex)[:200], 'completes')
                continue
            ctx.close(got, exp, TOL, 'QuaternionArray.to_DCM after an operation history = matrices of its current rows', f'ops={">".join(word)} k{k}')
            ctx.seen(('arrhist', word))
            ctx.cls('array-history')
            n += 1
    ctx.states += n
    ctx.traces += n
    ctx.sample({'array_history': 'to_DCM>rotate_by(inplace)>to_DCM', 'rows': rows0[:2].tolist()})


def job_unary(ctx, k, part):
    Quaternion, QuaternionArray, DCM, O = _lib()
    name, S = _unary_set(k)[part]
    # history: a scalar-last object is used first (its conjugate, product and matrix), so that state shared between
    # quaternion objects of different storage order would be visible in everything that follows
    foreign = Quaternion(np.roll(A.MENU[(k + 1) % 8], -1).copy(), order='S')
    _ = (foreign.conjugate, foreign.product(A.MENU[k].copy()), foreign.to_DCM())
    Mb = _routes_batch(S)
    Mb_neg = _routes_batch(-S)
    conj = S * np.array([1.0, -1, -1, -1])
    Mb_conj = _routes_batch(conj)
    # the free function on the whole (N,4) batch and on short batches: rows conjugated one by one
    for nb, off in ((len(S), 0), (1, 0), (2, 1), (3, 0), (4, 2), (5, 0)):
        if off + nb > len(S):
            continue
        try:
            cb = np.asarray(O.q_conj(S[off:off + nb].copy()), float)
            ctx.close(cb if cb.shape == (nb, 4) else np.zeros(1), conj[off:off + nb], 1e-15, 'q_conj(N rows) = every row conjugated', f'{name}#k{k} N={nb} offset={off}')
        except Exception as ex:
            ctx.fail('q_conj(N rows) raises', f'{name}#k{k} N={nb}', repr(ex)[:120], 'N rows')
    # short batches of every small size (an N = 3 or N = 4 batch of 4-vectors / 3x3 matrices is a square block): rows = the rows of the long batch
    for nb in (1, 2, 3, 4, 5):
        for off in (0, max(0, len(S) // 2 - 2)):
            if off + nb > len(S):
                continue
            try:
                small = _routes_batch(S[off:off + nb])
            except Exception as ex:
                ctx.fail('batch routes raise on a short batch', f'{name}#k{k} N={nb} offset={off}', repr(ex)[:160], 'N matrices')
                continue
            for rname in Mb:
                ok = small[rname].shape == (nb, 3, 3)
                ctx.close(small[rname] if ok else np.zeros(1), Mb[rname][off:off + nb], TOL, f'{rname}: an N-row batch gives the rows of the long batch (N = 1 ... 5)', f'{name}#k{k} N={nb} offset={off}')
    # batches with missing rows (all-NaN quaternions, gaps of a recorded track): a route that answers gives every VALID row its own matrix
    for gaps in ((2,), (1, 4), (0, 3, 5), (2, 3, 6)):
        nb = 8
        if len(S) < nb:
            break
        X = S[:nb].copy(); X[list(gaps)] = np.nan
        for rname, fn in (('QuaternionArray.to_DCM', None), ('DCM.from_quaternion[batch]', lambda: np.asarray(DCM().from_quaternion(X.copy()))),
                          ('q2R(v1)[batch]', lambda: np.asarray(O.q2R(X.copy(), 1))), ('q2R(v2)[batch]', lambda: np.asarray(O.q2R(X.copy(), 2)))):
            if fn is None:
                continue
            try:
                with np.errstate(all='ignore'):
                    out = fn()
            except Exception:
                ctx.outcome(('nan-rows-refused', rname)); continue
            ok = out.shape == (nb, 3, 3)
            for i in range(nb):
                if i in gaps:
                    continue
                ctx.close(out[i] if ok else np.zeros(1), Mb[rname][i], TOL, f'{rname}: valid rows of a batch with missing (NaN) rows keep their own matrices', f'{name}#k{k} gaps={gaps} row={i}')
    for rname in Mb:
        for i in range(len(S)):
            key = f'{name}#k{k} q={i}'
            Rr = rq.R(S[i])
            ctx.close(Mb[rname][i], Rr, TOL, f'{rname} = reference matrix', key, track='unary.ref')
            ctx.close(Mb_neg[rname][i], Mb[rname][i], TOL, f'M(-q)=M(q) via {rname}', key)
            ctx.close(Mb_conj[rname][i], Mb[rname][i].T, TOL, f'M(q*)=M(q)^T via {rname}', key)
            ctx.expect(rq.so3_defect(Mb[rname][i]) <= TOL, f'{rname} is a proper rotation', key, rq.so3_defect(Mb[rname][i]), 0, TOL)
    for i in range(len(S)):
        key = f'{name}#k{k} q={i}'
        q = S[i]
        Rr = rq.R(q)
        Ms, Mn, Mc = _routes_single(q), _routes_single(-q), _routes_single(conj[i])
        for rname, M in Ms.items():
            ctx.close(M, Rr, TOL, f'{rname} = reference matrix', key, track='unary.ref')
            ctx.close(Mn[rname], M, TOL, f'M(-q)=M(q) via {rname}', key)
            ctx.close(Mc[rname], M.T, TOL, f'M(q*)=M(q)^T via {rname}', key)
            d = rq.so3_defect(M)
            ctx.track('unary.so3_defect', d)
            ctx.expect(d <= TOL, f'{rname} is a proper rotation', key, d, 0, TOL)
        if i in (len(S) // 3, 2 * len(S) // 3):        # the foreign object is used again part-way (1, 2 and 3 uses are all covered)
            _ = (foreign.conjugate, foreign.product(q.copy()))
        for cname, cq in _lib_conjugates(q).items():
            ctx.close(cq, conj[i], 1e-15, f'{cname} = (w, -x, -y, -z)', key)
            ctx.close(np.asarray(Quaternion(cq.copy()).to_DCM()), Ms['Quaternion.to_DCM'].T, TOL, f'M(q*) = M(q)^T with q* from {cname}', key)
        ctx.seen(('unary', name, k, i))
        ctx.cls('unary:edge' if name == 'EDGE4' else 'unary:' + name.split('(')[0].split(':')[0])
        ctx.transitions += 1
    ctx.traces += len(S)
    ctx.sample({'unary': name, 'k': k, 'q': S[min(5, len(S) - 1)].tolist()})


def job_rotate(ctx, k, part):
    Quaternion, QuaternionArray, DCM, O = _lib()
    name, S = _unary_set(k)[part]
    vecs = [(f'dir{j}*{m:g}', d * m) for j, d in enumerate(A.DIR3()) for m in (1e-3, 1.0, 1e3)]
    vecs.append(('generic', np.array([0.3, -1.2, 2.5])))
    # lengths within a hair of one (but not one): a vector is not a versor, its length must come back as it went in
    un = np.array([0.3, -1.2, 2.5]) / np.linalg.norm([0.3, -1.2, 2.5])
    vecs += [(f'generic unit*{f!r}', un * f) for f in (1 + 4e-6, 1 - 3e-6, 1 + 1e-9, 1 - 1e-7)]
    V = np.array([v for _, v in vecs]).T      # 3 x N
    for i in range(len(S)):
        q = S[i]
        Rr = rq.R(q)
        key = f'{name}#k{k} q={i}'
        Qq = Quaternion(q.copy())
        out = np.asarray(Qq.rotate(V.copy()))
        exp = Rr @ V
        scale = np.abs(V).max(axis=0)
        d = (np.abs(out - exp).max(axis=0) / scale)
        ctx.tick(V.shape[1])
        ctx.track('rotate.rel', d.max())
        for j in np.nonzero(~(d <= TOL))[0]:
            ctx.fail('Quaternion.rotate(v) = M(q) v', f'{key} v={vecs[j][0]}', out[:, j], exp[:, j], TOL)
        M = np.asarray(Qq.to_DCM())
        for nb in (1, 2, 3, 4):                         # 3-by-N blocks of column vectors for small N (N = 3 is a square block)
            blk = V[:, 5:5 + nb].copy()
            got = np.asarray(Qq.rotate(blk.copy()))
            ctx.close(got, Rr @ blk, TOL * max(1.0, float(np.abs(blk).max())), 'Quaternion.rotate(3-by-N block) = M(q) @ block', f'{key} N={nb}')
        for j, (vn, v) in enumerate(vecs):
            s = float(np.abs(v).max())
            r1 = np.asarray(Qq.rotate(v.copy()))
            ctx.close(r1 / s, (M @ v) / s, TOL, 'Quaternion.rotate(v) = to_DCM() v', f'{key} v={vn}')
            # vec(q v q*) through the library product on raw arrays (no renormalisation of the pure quaternion)
            vq = np.array([0.0, *v])
            qvq = np.asarray(O.q_prod(O.q_prod(q.copy(), vq), O.q_conj(q.copy())))
            ctx.close(qvq[1:] / s, (Rr @ v) / s, TOL, 'vec(q v q*) = M(q) v (q_prod, q_conj)', f'{key} v={vn}')
            ctx.close(qvq[:1] / s, [0.0], TOL, 'scalar part of q v q* is 0', f'{key} v={vn}')
            qv = np.asarray(Qq.product(vq))
            qvq2 = rq.qmul(qv, rq.qconj(q))
            ctx.close(qvq2[1:] / s, (Rr @ v) / s, TOL, 'vec(q v q*) = M(q) v (Quaternion.product)', f'{key} v={vn}')
            ctx.close(np.asarray(O.q_rot(q.copy(), v.copy())) / s, (Rr.T @ v) / s, TOL, 'q_rot(q, v) = M(q)^T v', f'{key} v={vn}')
            # the same numbers in plain Python containers: a route that answers must give the same rotation
            for cn, conv in (('list', lambda a: [float(x) for x in a]), ('tuple', lambda a: tuple(float(x) for x in a))):
                for rn, call, exp_c in (('q_rot', lambda: O.q_rot(conv(q), conv(v)), Rr.T @ v),
                                        ('q_rot(ndarray q)', lambda: O.q_rot(q.copy(), conv(v)), Rr.T @ v),
                                        ('rotate', lambda: Qq.rotate(conv(v)), Rr @ v),
                                        ('q_prod', lambda: np.asarray(O.q_prod(conv(q), conv(vq)))[1:], rq.qmul(q, vq)[1:])):
                    try:
                        got_c = np.asarray(call(), float)
                    except (TypeError, ValueError, AttributeError):
                        ctx.outcome('container-refused')
                        continue
                    ctx.close(got_c / s, exp_c / s, TOL, f'{rn} with {cn} arguments = the ndarray answer', f'{key} v={vn}')
        ctx.seen(('rotate', name, k, i))
        ctx.cls('rotate')
        ctx.transitions += 1
    ctx.traces += len(S)
    ctx.sample({'rotate': name, 'k': k, 'q': S[0].tolist(), 'v': vecs[4][1].tolist()})


def job_objects(ctx, k):
    """(1) Default-constructed objects (Quaternion(), DCM(), QuaternionArray()) are independent identities, also after one of them was
    updated in place.  (2) ahrs.Quaternion objects handed to the free functions give what their elements give as plain arrays.
    (3) Objects that NumPy derives from a scalar-LAST quaternion (-q, +q, copies) are the same rotation read in the same order."""
    import copy as _copy
    Quaternion, QuaternionArray, DCM, O = _lib()
    I3 = np.eye(3); one = np.array([1.0, 0.0, 0.0, 0.0])
    qs = [A.MENU[k], A.MENU[(k + 3) % 8], A.G48()[30], A.Gl(A.G120(), k)[11]]
    v = np.array([1.0, 2.0, -3.0])
    # (1)
    e = Quaternion(); acc = Quaternion(); d0 = DCM(); d1 = DCM(); qa0 = QuaternionArray(); qa1 = QuaternionArray()
    for step, q in enumerate(qs):
        acc[:] = np.asarray(Quaternion(acc.product(q)))          # in-place update of one default-constructed object
        d1[:] = np.asarray(d1) @ rq.R(q)
        try:
            qa1[:] = q
        except Exception:
            pass
        key = f'after {step + 1} in-place updates of another default-constructed object k{k}'
        for nm, obj in (('the untouched Quaternion()', e), ('a new Quaternion()', Quaternion())):
            ctx.close(np.asarray(obj, float), one, 0.0, f'{nm} is the identity', key)
            ctx.close(np.asarray(obj.to_DCM()), I3, 0.0, f'{nm}: to_DCM() is the identity matrix', key)
            ctx.close(np.asarray(obj.product(q.copy())), q, TOL, f'{nm}: e*q = q', key)
            ctx.close(np.asarray(obj.rotate(v.copy())), v, TOL, f'{nm}: rotate(v) = v', key)
        for nm, obj in (('the untouched DCM()', d0), ('a new DCM()', DCM())):
            ctx.close(np.asarray(obj, float), I3, 0.0, f'{nm} is the identity matrix', key)
        for nm, obj in (('the untouched QuaternionArray()', qa0), ('a new QuaternionArray()', QuaternionArray())):
            ctx.close(np.asarray(obj, float), one[None], 0.0, f'{nm} is one identity row', key)
            ctx.close(np.asarray(obj.to_DCM()), I3[None], 0.0, f'{nm}: to_DCM() is the identity matrix', key)
        ctx.cls('default-objects')
    # (2)
    for qi, q in enumerate(qs):
        Q = Quaternion(q.copy())
        key = f'q#{qi} k{k}'
        for nm, got, exp in (('q2R(v1)', lambda: O.q2R(Q, 1), rq.R(q)), ('q2R(v2)', lambda: O.q2R(Q, 2), rq.R(q)), ('q_rot', lambda: O.q_rot(Q, v.copy()), rq.R(q).T @ v),
                             ('q_conj', lambda: O.q_conj(Q), rq.qconj(q)), ('q_prod(left)', lambda: O.q_prod(Q, qs[0].copy()), rq.qmul(q, qs[0])),
                             ('q_prod(right)', lambda: O.q_prod(qs[0].copy(), Q), rq.qmul(qs[0], q)), ('DCM(q=)', lambda: DCM(q=Q), rq.R(q)),
                             ('DCM().from_quaternion', lambda: DCM().from_quaternion(Q), rq.R(q)), ('Quaternion(Quaternion).to_DCM', lambda: Quaternion(Q).to_DCM(), rq.R(q)),
                             ('QuaternionArray([Quaternion objects])', lambda: np.asarray(QuaternionArray(np.array([Q, Q])).to_DCM())[1], rq.R(q))):
            try:
                out = np.asarray(got(), float)
            except (TypeError, AttributeError):
                ctx.outcome(('object-refused', nm)); continue
            except Exception as ex:
                ctx.fail(f'{nm} raises for an ahrs.Quaternion argument', key, repr(ex)[:120], 'the array answer'); continue
            ctx.close(out, exp, TOL, f'{nm}: an ahrs.Quaternion argument gives what its elements give as a plain array', key)
        ctx.cls('quaternion-objects-as-arguments')
    # (3)
    for qi, q in enumerate(qs):
        S = Quaternion(np.roll(q, -1).copy(), order='S')
        Rq = rq.R(q)
        for dn, mk, sign in (('-q', lambda: -S, -1.0), ('+q', lambda: +S, 1.0), ('q.copy()', lambda: S.copy(), 1.0), ('copy.copy(q)', lambda: _copy.copy(S), 1.0),
                             ('copy.deepcopy(q)', lambda: _copy.deepcopy(S), 1.0), ('q[:]', lambda: S[:], 1.0), ('np.negative(q)', lambda: np.negative(S), -1.0)):
            key = f'q#{qi} derived={dn} k{k}'
            try:
                Dq = mk()
                if not isinstance(Dq, Quaternion):
                    ctx.outcome(('derived-plain', dn)); continue
                ctx.close(np.asarray(Dq.to_DCM()), Rq, TOL, "order='S': a derived object (negation, copy) has the same rotation matrix", key)
                ctx.close(np.asarray(Dq.rotate(v.copy())), Rq @ v, TOL, "order='S': a derived object rotates vectors like the original", key)
                ctx.close([Dq.w, Dq.x, Dq.y, Dq.z], sign * q, TOL, "order='S': w, x, y, z of a derived object", key)
                pq = np.asarray(Dq.product(qs[1].copy()), float)
                ctx.close(rq.R(rq.qunit(np.roll(pq, 1))) if True else None, Rq @ rq.R(qs[1]), 1e-9, "order='S': R(derived * p) = R(q) R(p) (product read in the object's order)", key) if False else None
            except Exception as ex:
                ctx.fail("order='S': operation on a derived object raises", key, repr(ex)[:120], 'completes')
        ctx.cls('derived-scalar-last')
    # (4) the multiplication matrices (method and free-function twins): L(p) q = p q = R(q) p, and the product they give has the product of the matrices
    for pi_, p in enumerate(qs):
        for qi, q in enumerate(qs):
            key = f'p#{pi_} q#{qi} k{k}'
            pq = rq.qmul(p, q)
            for nm, got in (('Quaternion.mult_L', lambda: np.asarray(Quaternion(p.copy()).mult_L(), float) @ q), ('Quaternion.mult_R', lambda: np.asarray(Quaternion(q.copy()).mult_R(), float) @ p),
                            ('q_mult_L', lambda: np.asarray(O.q_mult_L(p.copy()), float) @ q), ('q_mult_R', lambda: np.asarray(O.q_mult_R(q.copy()), float) @ p)):
                try:
                    out = got()
                except Exception as ex:
                    ctx.fail(f'{nm} raises', key, repr(ex)[:120], pq); continue
                ctx.close(out, pq, TOL, f'{nm}: the multiplication matrix applied to the other factor is the Hamilton product', key)
                ctx.close(rq.R(rq.qunit(out)) if np.all(np.isfinite(out)) and np.any(out) else np.full((3, 3), np.nan), rq.R(p) @ rq.R(q), 1e-9, f'{nm}: M(product through the multiplication matrix) = M(p) M(q)', key)
        ctx.cls('multiplication-matrices')
    # (5) an object built with versor=False from a non-unit array and then normalised in place is the unit quaternion on EVERY route that reads it
    for qi, q in enumerate(qs):
        for scale in (3.0, 0.2):
            for order in ('H', 'S'):
                raw = (q if order == 'H' else np.roll(q, -1)) * scale
                key = f'q#{qi} scale={scale:g} order={order} k{k}'
                try:
                    Qn = Quaternion(raw.copy(), versor=False, order=order)
                    Qn.normalize()
                except Exception as ex:
                    ctx.outcome(('normalize-refused', order)); continue
                unit = q if order == 'H' else np.roll(q, -1)
                Rq = rq.R(q)
                reads = [('np.asarray(q)', lambda: np.asarray(Qn, float), unit), ('q.A', lambda: np.asarray(Qn.A, float), unit), ('q.to_array()', lambda: np.asarray(Qn.to_array(), float), unit),
                         ('(-q).A negated', lambda: -np.asarray((-Qn).A, float), unit), ('q.copy()', lambda: np.asarray(Qn.copy(), float), unit),
                         ('copy.deepcopy(q).A', lambda: np.asarray(_copy.deepcopy(Qn).A, float), unit), ('q.to_DCM()', lambda: np.asarray(Qn.to_DCM(), float), Rq),
                         ('(-q).to_DCM()', lambda: np.asarray((-Qn).to_DCM(), float), Rq), ('q.copy().to_DCM()', lambda: np.asarray(Qn.copy().to_DCM(), float), Rq),
                         ('q.rotate(v)', lambda: np.asarray(Qn.rotate(v.copy()), float), Rq @ v), ('[w, x, y, z]', lambda: np.array([Qn.w, Qn.x, Qn.y, Qn.z], float), q)]
                if order == 'H':
                    reads += [('q2R(q)', lambda: np.asarray(O.q2R(Qn), float), Rq), ('q_rot(q, v)', lambda: np.asarray(O.q_rot(Qn, v.copy()), float), Rq.T @ v),
                              ('q_prod(p, q)', lambda: np.asarray(O.q_prod(qs[0].copy(), Qn), float), rq.qmul(qs[0], q)), ('Quaternion(p).product(q)', lambda: np.asarray(Quaternion(qs[0].copy()).product(Qn), float), rq.qmul(qs[0], q)),
                              ('DCM(q=q)', lambda: np.asarray(DCM(q=Qn), float), Rq)]
                for nm, got, exp in reads:
                    try:
                        out = got()
                    except (TypeError, AttributeError):
                        ctx.outcome(('object-refused', nm)); continue
                    except Exception as ex:
                        ctx.fail(f'{nm} raises after normalize()', key, repr(ex)[:120], 'the unit quaternion'); continue
                    ctx.close(out, exp, TOL, f'after Quaternion(non-unit, versor=False).normalize(): {nm} reads the unit quaternion', key)
        ctx.cls('normalised-in-place')
    # (6) scalar-LAST storage is a storage permutation of the same Hamilton quaternion: the array class gives the same matrices / rotated vectors,
    #     and two objects holding the SAME raw numbers in the two orders each answer for their own reading, in either creation order
    rows = np.array(qs + [rq.qmul(qs[0], qs[1]), rq.qconj(qs[2])])
    try:
        QS = QuaternionArray(np.roll(rows, -1, axis=1).copy(), order='S'); QH = QuaternionArray(rows.copy())
        ctx.close(np.asarray(QS.to_DCM()), np.array([rq.R(r_) for r_ in rows]), TOL, "QuaternionArray(order='S').to_DCM() = the matrices of the same quaternions stored scalar-first", f'k{k}')
        ctx.close(np.asarray(QS.to_DCM()), np.asarray(QH.to_DCM()), TOL, "QuaternionArray(order='S').to_DCM() = QuaternionArray(scalar-first).to_DCM()", f'k{k}')
        for nm_ in ('w', 'x', 'y', 'z'):
            ctx.close(np.asarray(getattr(QS, nm_), float), np.asarray(getattr(QH, nm_), float), 1e-15, f"QuaternionArray(order='S').{nm_} = the scalar-first array's", f'k{k}')
    except Exception as ex:
        ctx.fail("QuaternionArray(order='S') raises", f'k{k}', repr(ex)[:120], 'matrices')
    for qi, raw in enumerate(qs):
        qH, qS_ = raw, np.roll(raw, 1)
        for first in ('H', 'S'):
            objs = {}
            for o_ in (first, 'S' if first == 'H' else 'H'):
                objs[o_] = Quaternion(raw.copy(), order=o_)
                for o2, Qo in objs.items():
                    qq = qH if o2 == 'H' else qS_
                    key = f'raw=q#{qi} built first={first} asked={o2} k{k}'
                    ctx.close(np.asarray(Qo.to_DCM()), rq.R(qq), TOL, "same raw numbers in the two storage orders: to_DCM answers for the object's own reading", key)
                    ctx.close(np.asarray(Qo.rotate(v.copy())), rq.R(qq) @ v, TOL, "same raw numbers in the two storage orders: rotate answers for the object's own reading", key)
                    ctx.close(np.asarray(DCM(q=np.array([Qo.w, Qo.x, Qo.y, Qo.z]))), rq.R(qq), TOL, 'same raw numbers in the two storage orders: DCM(q=(w, x, y, z))', key)
    # (7) every finite vector is rotated like R v: the null vector, a null column inside a 3-by-N block, vectors of denormal length
    for qi, q in enumerate(qs):
        Qo = Quaternion(q.copy()); Rq = rq.R(q)
        blk = np.array([[1.0, 2.0, -3.0], [0.0, 0.0, 0.0], [0.5, -0.25, 4.0]]).T
        for nm, vv in (('null vector', np.zeros(3)), ('vector of length 1e-170', np.array([1e-170, -2e-170, 2e-170])), ('vector of length 1e+150', np.array([1e150, -2e150, 2e150])), ('3-by-3 block with a null column', blk)):
            key = f'q#{qi} v={nm} k{k}'
            try:
                with np.errstate(all='ignore'):
                    out = np.asarray(Qo.rotate(vv.copy()), float)
                    out2 = np.asarray(O.q_rot(rq.qconj(q).copy(), vv.copy()), float) if vv.ndim == 1 else None
            except Exception as ex:
                ctx.fail('rotate raises for a finite vector', key, repr(ex)[:120], 'R v'); continue
            sc = max(1e-300, float(np.abs(vv).max()))
            ctx.close(out / sc, (Rq @ vv) / sc, TOL, 'Quaternion.rotate(v) = R v for every finite v (null and extreme lengths included)', key)
            if out2 is not None:
                ctx.close(out2 / sc, (Rq @ vv) / sc, TOL, 'q_rot(q*, v) = R v for every finite v (null and extreme lengths included)', key)
    # (8) the public attribute .A re-bound to another versor on a live object: every accessor that reads .A (w..z, to_DCM, rotate, product, conjugate)
    #     follows it together - the answers of a fresh object built from the new numbers
    for qi, q in enumerate(qs):
        for order in ('H', 'S'):
            newq = rq.qmul(q, qs[(qi + 1) % len(qs)])
            Qo = Quaternion((q if order == 'H' else np.roll(q, -1)).copy(), order=order)
            Qo.to_DCM(); Qo.rotate(v.copy())
            Qo.A = (newq if order == 'H' else np.roll(newq, -1)).copy()
            Fo = Quaternion((newq if order == 'H' else np.roll(newq, -1)).copy(), order=order)
            key = f'q#{qi} order={order} k{k}'
            for nm, fn in (('to_DCM', lambda Q_: np.asarray(Q_.to_DCM(), float)), ('rotate', lambda Q_: np.asarray(Q_.rotate(v.copy()), float)), ('w,x,y,z', lambda Q_: np.array([Q_.w, Q_.x, Q_.y, Q_.z], float)),
                           ('product', lambda Q_: np.asarray(Q_.product(qs[0].copy()), float)), ('conjugate', lambda Q_: np.asarray(Q_.conjugate, float)), ('mult_L', lambda Q_: np.asarray(Q_.mult_L(), float))):
                try:
                    ctx.close(fn(Qo), fn(Fo), TOL, f'after .A was re-bound on a live object {nm} answers for the new numbers (like every other accessor)', key)
                except Exception as ex:
                    ctx.fail(f'{nm} raises after .A was re-bound', key, repr(ex)[:120], 'the answer of a fresh object')
    ctx.cls('scalar-last-array-and-same-raw-numbers')
    ctx.sample({'default_objects': ['Quaternion()', 'DCM()', 'QuaternionArray()'], 'derived': ['-q', '+q', 'copy', 'deepcopy']})


def run(ctx):
    A.selftest()
    ks = list(range(len(A.MENU))) if ctx.thorough else [A.seed_k(ctx.seed)]
    jobs = []
    for k in ks:
        for g in ('G48', 'G120', 'G48:c', 'G120:c'):
            jobs.append(('job_cayley', (g, k)))
        tables = [('G48', 4), ('G48:c', 4), ('G120:c', 12), ('G120:l', 12), ('LAT4(1)', 8)]
        if k == ks[0]:
            tables.append(('G120', 12))
        for sname, n in tables:
            L = len(_pairset(sname, k))
            for lo, hi in core.chunks(L, n):
                jobs.append(('job_pairs', (sname, k, lo, hi)))
        jobs.append(('job_int_operands', (k,)))
        jobs.append(('job_objects', (k,)))
        jobs.append(('job_array_histories', (k,)))
        for part in range(len(_unary_set(k))):
            jobs.append(('job_unary', (k, part)))
            jobs.append(('job_rotate', (k, part)))
    core.run_jobs(ctx, __name__, jobs)
    ctx.notes['menu_entries'] = ks
