"""C12 — SLERP follows the shortest geodesic at constant speed; NaN gaps are filled along it; sign jumps removed.

(a) endpoint pairs: complete ordered pair tables of finite rotation groups / cosets (equal, antipodal, exactly
    orthogonal, 45/60/90/120/135 degrees apart on S^3) and a grid (p, +-p*delta), (p, +-delta*p) whose S^3 angle
    runs from 1e-12 through the LERP threshold arccos(0.9995) +- 1e-4, pi/2 +- 1e-6 ... pi - 1e-8; nine weights as one
    array and singly; both copies (`quaternion.slerp`, `orientation.slerp`).
(b) bounded histories (the model-checking part): every word over {+ valid, - valid with flipped sign, n NaN} for the
    interior rows and {+, -} for the two end rows of a smooth N-row sequence (N = 3..8, 10 in the thorough tier).  This
    contains ALL 2^(N-2) subsets of interior NaN rows (all positions / lengths / multiplicities of interior runs),
    ALL 2^N sign patterns, and all their mixtures.  Operations applied: slerp_nan(inplace=True|False), then
    remove_jumps on the filled result (depth 2); on NaN-free histories also remove_jumps (twice) and q_correct.
"""
import math, itertools
import numpy as np
from mc import core, alphabet as A
from mc.ref import quat as rq
from mc.ref import slerp as rs

PID = 'C12'
LEVEL = 'model_checking'
RULE = ('slerp: one case = (copy, ordered endpoint pair) evaluated at 9 weights (array call + 9 single-weight calls + '
        'the two endpoint-negation calls); non-trivial when p != +-q.  histories: one state = (base sequence, length N, '
        'word over {+,-,n} with valid end rows); one transition = one library operation applied to a state; '
        'non-trivial when the word contains a NaN row or two valid rows of different sign')
OM_THR = math.acos(0.9995)          # S^3 angle at which the library switches from normalised LERP to SLERP
TOL = 1e-12


def tol_arc(om):
    """Allowed deviation [rad on S^3 = max-abs component, to first order] for end points `om` apart."""
    return TOL + (0.02 * om ** 3 if om <= OM_THR + 1e-9 else 0.0)


ASSUMPTIONS = [
    'unit quaternions, weights in [0,1], default threshold 0.9995 (the statement is about these)',
    'tolerance 1e-12 (absolute, components and S^3 angles) wherever the library is in its SLERP branch; worst observed '
    'on the unchanged tree over the thorough alphabet: 4.4e-16 (components, speed), 6.8e-16 (arc sum); the smallest '
    'mutation effect seen (threshold 0.9995 -> 0.95) is 5e-7',
    'for end points closer than arccos(0.9995)=0.031624 rad on S^3 the library documents a normalised LERP: the point '
    'is exactly on the arc but its angle deviates from t*Omega by Omega^3*t(1-t)(1-2t)/6 <= 0.01604*Omega^3 '
    '(measured 0.0160*Omega^3); allowed there: 1e-12 + 0.02*Omega^3 (5.1e-7 rad at the threshold, design allowed '
    '5e-6); a threshold moved to 0.95 gives 4e-6..4e-4 rad on the grid points 0.0317..0.3 where 1e-12 is demanded',
    'exact ties (|p.q| <= 1e-15: exactly orthogonal end points) have two minor arcs; either is accepted and the '
    'negation-invariance laws are not demanded there (slerp(p,-q) legitimately picks the other arc)',
    'slerp(-p,q) is compared with -slerp(p,q): same rotations, the path starts at the endpoint actually given',
    'slerp_nan runs remove_jumps first, which may negate valid rows of a history that has sign jumps; valid rows '
    'are therefore required bit-for-bit unchanged only when all valid rows carry the same sign, and unchanged up to '
    'sign (bit-for-bit after negation) otherwise; filled rows are compared with the reference geodesic between the '
    'neighbouring valid rows of the OUTPUT at weights j/(L+1)',
    'base sequences are smooth (consecutive rotation angle < 120 deg, i.e. chord < 1 — the regime in which a sign '
    'flip is distinguishable from motion by the chord>1 rule); leading/trailing NaN rows are outside the statement',
    'remove_jumps / q_correct are not applied to histories that still contain NaN (not covered by the statement)',
    'the empty set of NaN rows is one of the 2^(N-2) subsets: slerp_nan on a NaN-free history must return/leave the '
    'valid rows (up to the sign normalisation above) and must not raise',
    'reference model mc/ref/slerp.py: p*exp(t*log(p^-1 q)) with atan2 angles, independent of the sin-weight formula',
]
REQUIRED_CLASSES = ['slerp:equal', 'slerp:antipodal', 'slerp:orthogonal-tie', 'slerp:obtuse(flip)', 'slerp:acute',
                    'slerp:lerp-branch', 'slerp:just-below-threshold', 'slerp:just-above-threshold',
                    'slerp:near-orthogonal', 'nan:1run', 'nan:2+runs', 'nan:runlen>=3', 'nan:all-interior',
                    'nan:gap-lerp', 'nan:gap-slerp', 'nan:mixed-with-sign-flips', 'jumps:odd-count',
                    'jumps:even-count', 'jumps:row0-flipped', 'jumps:last-row-only', 'slerp:containers', 'slerp:order-S', 'slerp:weights-ownership', 'slerp:missing-ends', 'slerp:weight-order', 'slerp_nan:again-on-the-same-object']

W = np.array([0.0, 1e-9, 0.1, 0.25, 0.5, 0.75, 0.9, 1.0 - 1e-9, 1.0])


def _copies():
    from ahrs.common import quaternion as Qm, orientation as O
    return [('quaternion.slerp', Qm.slerp), ('orientation.slerp', O.slerp)]


def _call(ctx, fn, p, q, t):
    ctx.traces += 1
    try:
        return np.asarray(fn(p.copy(), q.copy(), np.array(t, float)))
    except Exception as ex:                      # reported by the shape/finite site
        return f'{type(ex).__name__}: {ex}'


def _well_formed(S, n):
    return (isinstance(S, np.ndarray) and S.shape == (n, 4) and S.dtype.kind == 'f' and bool(np.all(np.isfinite(S))))


def _check_pair(ctx, p, q, key):
    """All clauses of the statement for one ordered endpoint pair, both copies."""
    sgn = rs.nearer(p, q)
    tie = sgn == 0
    d = rs.dot4(p, q)
    for cname, fn in _copies():
        S = _call(ctx, fn, p, q, W)
        if not ctx.expect(_well_formed(S, len(W)), f'{cname}: returns a finite real (n,4) array', key, S, f'({len(W)},4) floats'):
            continue
        s = sgn if not tie else (1 if rs.dot4(S[-1], q) >= 0 else -1)
        qn = s * q
        om = rs.s3angle(p, qn)
        tol = tol_arc(om)
        lerp = om <= OM_THR + 1e-9
        # unit norm
        nd = float(np.abs(np.sqrt((S * S).sum(axis=1)) - 1.0).max())
        ctx.track('slerp.norm', nd)
        ctx.expect(nd <= TOL, f'{cname}: interpolants are unit quaternions', key, nd, 0.0, TOL)
        # end points
        ctx.close(S[0], p, TOL, f'{cname}: t=0 gives the first endpoint', key, track='slerp.start')
        ctx.close(S[-1], qn, TOL, f'{cname}: t=1 gives the nearer of +-q', key, track='slerp.end')
        # constant speed
        ang = rs.s3angles(p, S)
        sp = float(np.abs(ang - W * om).max())
        ctx.track('slerp.speed.lerp-branch/Omega^3' if lerp and om > 1e-5 else 'slerp.speed.slerp-branch',
                  sp / om ** 3 if lerp and om > 1e-5 else (sp if not lerp else 0.0))
        ctx.expect(sp <= tol, f'{cname}: angle from p advances proportionally to the weight', key,
                   {'angles': ang, 'Omega': om}, W * om, tol)
        # minor arc: between p and qn (spherical triangle equality), never farther than Omega <= pi/2
        ang2 = rs.s3angles(qn, S)
        arc = float(np.abs(ang + ang2 - om).max())
        ctx.track('slerp.arc', arc)
        ctx.expect(arc <= tol and float(ang.max()) <= om + tol and om <= math.pi / 2 + TOL,
                   f'{cname}: interpolants lie on the minor arc between p and +-q', key,
                   {'ang(p,s)+ang(s,q)-Omega': arc, 'Omega': om}, 0.0, tol)
        # reference geodesic
        ref = rs.geodesic(p, q, W, toward=s)
        ctx.close(S, ref, tol, f'{cname}: = reference geodesic p*exp(t*log(p^-1 q))', key,
                  track='slerp.ref.lerp-branch' if lerp else 'slerp.ref.slerp-branch')
        # negated end points
        if not tie:
            Sq = _call(ctx, fn, p, -q, W)
            if ctx.expect(_well_formed(Sq, len(W)), f'{cname}: returns a finite real (n,4) array', key + ' (-q)', Sq):
                ctx.close(Sq, S, TOL, f'{cname}: slerp(p,-q) = slerp(p,q)', key, track='slerp.neg_q')
            Sp = _call(ctx, fn, -p, q, W)
            if ctx.expect(_well_formed(Sp, len(W)), f'{cname}: returns a finite real (n,4) array', key + ' (-p)', Sp):
                ctx.close(Sp, -S, TOL, f'{cname}: slerp(-p,q) = -slerp(p,q) (same rotations)', key, track='slerp.neg_p')
        # weights given singly
        worst, bad = 0.0, None
        for i, t in enumerate(W):
            S1 = _call(ctx, fn, p, q, [t])
            if not _well_formed(S1, 1):
                worst, bad = float('inf'), (float(t), S1)
                break
            e = float(np.abs(S1[0] - S[i]).max())
            if e > worst:
                worst, bad = e, (float(t), S1[0])
        ctx.track('slerp.single', worst)
        ctx.expect(worst <= TOL, f'{cname}: single weight = row of the array call', key, bad, 'row of array call', TOL)
        ctx.outcome((cname, lerp, d < 0, tie))
    # coverage classes (what the reference says about this pair)
    om_raw = rs.s3angle(p, q)
    if om_raw <= 1e-15:
        ctx.cls('slerp:equal')
    elif math.pi - om_raw <= 1e-15:
        ctx.cls('slerp:antipodal')
    elif tie:
        ctx.cls('slerp:orthogonal-tie')
    elif d < 0:
        ctx.cls('slerp:obtuse(flip)')
    else:
        ctx.cls('slerp:acute')
    omn = min(om_raw, math.pi - om_raw)
    if omn <= OM_THR:
        ctx.cls('slerp:lerp-branch')
        if OM_THR - omn <= 2e-4:
            ctx.cls('slerp:just-below-threshold')
    elif omn - OM_THR <= 2e-4:
        ctx.cls('slerp:just-above-threshold')
    if not tie and abs(d) <= 1e-5:
        ctx.cls('slerp:near-orthogonal')
    if 1e-15 < om_raw < math.pi - 1e-15:
        ctx.seen(('pair', key))


# ---- (a) pair tables ---------------------------------------------------------------------------------------------

def _pairset(sname, k):
    base = {'G48': A.G48, 'G120': A.G120}[sname.split(':')[0]]()
    return A.Gl(base, k) if sname.endswith(':l') else base


def _setkey(sname, k):
    return f'{sname}#k{k}' if ':' in sname else sname


def job_pairs(ctx, sname, k, lo, hi):
    S = _pairset(sname, k)
    for i in range(lo, hi):
        for j in range(len(S)):
            _check_pair(ctx, S[i], S[j], f'{_setkey(sname, k)} p={i} q={j}')
    ctx.sample({'pair_table': _setkey(sname, k), 'rows': [lo, hi], 'p': S[lo].tolist(), 'q': S[(lo + 7) % len(S)].tolist(),
                'weights': W.tolist()})


DELTA_AXES = [('x', (1, 0, 0)), ('a', (1, 2, -1.5)), ('b', (-0.3, 0.7, 0.2))]
DELTA_ANG = [('1e-12', 1e-12), ('1e-8', 1e-8), ('1e-6', 1e-6), ('1e-4', 1e-4), ('0.01', 0.01), ('0.02', 0.02),
             ('thr-1e-4', OM_THR - 1e-4), ('thr+1e-4', OM_THR + 1e-4), ('0.04', 0.04), ('0.05', 0.05), ('0.1', 0.1),
             ('0.2', 0.2), ('0.3', 0.3), ('0.5', 0.5), ('0.75', 0.75), ('1', 1.0), ('1.3', 1.3), ('1.5', 1.5),
             ('pi/2-1e-3', math.pi / 2 - 1e-3), ('pi/2-1e-6', math.pi / 2 - 1e-6), ('pi/2-1e-9', math.pi / 2 - 1e-9),
             ('pi/2+1e-9', math.pi / 2 + 1e-9), ('pi/2+1e-6', math.pi / 2 + 1e-6), ('2', 2.0), ('3', 3.0),
             ('pi-1e-4', math.pi - 1e-4), ('pi-1e-8', math.pi - 1e-8)]


def _delta_p(pname):
    if pname == 'I':
        return np.array([1.0, 0.0, 0.0, 0.0])
    if pname.startswith('M'):
        return A.MENU[int(pname[1:])]
    return A.G48()[int(pname[1:])]          # 'Hnn'


def job_delta(ctx, pname):
    """(p, +-p*delta) and (p, +-delta*p): S^3 angle of delta from the grid (rotation angle = twice that)."""
    p = _delta_p(pname)
    for (an, ax), (gn, om), side, neg in itertools.product(DELTA_AXES, DELTA_ANG, ('R', 'L'), (False, True)):
        dq = rq.axang2q(ax, 2.0 * om)
        q = rq.qmul(p, dq) if side == 'R' else rq.qmul(dq, p)
        q = rq.qunit(-q if neg else q)
        _check_pair(ctx, p, q, f'delta p={pname} axis={an} S3angle={gn} side={side} {"-q" if neg else "+q"}')
    ctx.sample({'delta_grid': pname, 'p': p.tolist(), 'S3_angles': [g for g, _ in DELTA_ANG], 'axes': [a for a, _ in DELTA_AXES]})


# ---- (b) bounded histories ---------------------------------------------------------------------------------------

B_AXES = [(1, 2, -1.5), (-0.3, 0.7, 0.2), (2, -1, 3), (0.2, -0.7, 0.1), (1, 0, 0), (-3, 1, 2), (0, 1, 1), (1, 1, -1), (0.5, -2, 1)]
B_ANG = [0.5, 0.9, 0.6, 0.8, 0.55, 0.85, 0.7, 0.65, 0.75]            # rotation angle per sample [rad]
C_ANG = [1.6, 1.95, 1.7, 1.9, 1.65, 1.85, 1.75, 1.8, 1.92]           # 92..112 deg per sample (< 120 deg)


def _base(seq, k, N):
    """Smooth N-row base sequences.  A: constant axis, 0.02 rad steps (1- and 2-row gaps close in the LERP branch,
    longer ones in the SLERP branch); B: varying axes, 0.5-0.9 rad steps; C: varying axes, 92-112 deg steps."""
    if seq == 'A':
        g = rq.qunit((0.3, -0.5, 0.4, 0.7))
        return np.array([rq.qunit(rq.qmul(g, rq.axang2q((1, 2, 3), 0.02 * i))) for i in range(N)])
    rows = [A.MENU[k % 8] if seq == 'B' else A.MENU[(k + 3) % 8]]
    for i in range(N - 1):
        ax = B_AXES[i % 9] if seq == 'B' else B_AXES[(2 * i + 4) % 9]
        ang = (B_ANG if seq == 'B' else C_ANG)[i % 9]
        rows.append(rq.qunit(rq.qmul(rows[-1], rq.axang2q(ax, ang))))
    return np.array(rows)


def _histories(N):
    out = []
    for e0, e1 in itertools.product('+-', repeat=2):
        for mid in itertools.product('+-n', repeat=N - 2):
            out.append(e0 + ''.join(mid) + e1)
    return out


def _seqkey(seq, k):
    return 'A' if seq == 'A' else f'{seq}#k{k}'


def _mk(V, nanmask, partial=False):
    from ahrs import QuaternionArray
    QA = QuaternionArray(V.copy())
    X0 = np.array(QA.array, dtype=float)            # rows as the object holds them (constructor normalises)
    if nanmask.any():
        if partial:                                 # a sample with only SOME components missing is a gap too
            for r_ in np.nonzero(nanmask)[0]:
                QA[r_, r_ % 4] = np.nan
                QA.array[r_, r_ % 4] = np.nan
        else:
            QA[nanmask] = np.nan                    # the route the repository's own test uses
            QA.array[nanmask] = np.nan
    return QA, X0


def _pm_equal(out, X):
    """Row-wise: out[i] is bit-for-bit X[i] or -X[i]."""
    return np.all(out == X, axis=1) | np.all(out == -X, axis=1)


def _check_fill(ctx, op, key, X0, nanmask, out, samesign):
    if not ctx.expect(isinstance(out, np.ndarray) and out.shape == X0.shape and out.dtype.kind == 'f'
                      and bool(np.all(np.isfinite(out))), f'{op}: result is a finite (N,4) array, no NaN left', key, out):
        return False
    out = np.asarray(out, float)
    valid = ~nanmask
    if samesign:
        ctx.expect(bool(np.all(out[valid] == X0[valid])), f'{op}: valid rows unchanged bit-for-bit', key,
                   out[valid], X0[valid], 0.0)
    else:
        ctx.expect(bool(np.all(_pm_equal(out[valid], X0[valid]))), f'{op}: valid rows unchanged up to sign', key,
                   out[valid], X0[valid], 0.0)
    for a, b in rs.nan_runs(nanmask):
        L, R = out[a - 1], out[b + 1]
        n = b - a + 1
        t = np.array([j / (n + 1) for j in range(1, n + 1)])
        s = rs.nearer(L, R) or (1 if rs.dot4(out[b], R) >= 0 else -1)
        om = rs.s3angle(L, s * R)
        ref = rs.geodesic(L, R, t, toward=s)
        lerp = om <= OM_THR + 1e-9
        ctx.cls('nan:gap-lerp' if lerp else 'nan:gap-slerp')
        ctx.close(out[a:b + 1], ref, tol_arc(om), f'{op}: filled rows = geodesic interpolants between the neighbouring valid rows',
                  f'{key} run={a}..{b}', track='nan.fill.lerp-branch' if lerp else 'nan.fill.slerp-branch')
    return True


def _check_jumps(ctx, op, key, X, out):
    if not ctx.expect(isinstance(out, np.ndarray) and out.shape == X.shape and bool(np.all(np.isfinite(out))),
                      f'{op}: result is a finite (N,4) array', key, out):
        return
    out = np.asarray(out, float)
    ctx.expect(bool(np.all(_pm_equal(out, X))), f'{op}: every row equals the original up to sign', key, out, X, 0.0)
    dots = np.einsum('ij,ij->i', out[:-1], out[1:])
    ctx.expect(bool(np.all(dots > 0.0)), f'{op}: no sign jump remains (consecutive dot products > 0)', key, dots, '> 0')


def _apply(ctx, op, key, fn):
    """One transition on the real code; an exception is a violation of the site '<op>: completes without raising'."""
    ctx.transitions += 1
    ctx.traces += 1
    try:
        return True, fn()
    except Exception as ex:
        ctx.expect(False, f'{op}: completes without raising', key, f'{type(ex).__name__}: {ex}', 'no exception')
        return False, None


def job_hist(ctx, seq, k, N, lo, hi):
    from ahrs.common import orientation as O
    base = _base(seq, k, N)
    H = _histories(N)[lo:hi]
    sk = _seqkey(seq, k)
    ctx.max_depth = 2
    for h in H:
        key = f'seq={sk} N={N} hist={h}'
        signs = np.array([-1.0 if c == '-' else 1.0 for c in h])
        nanmask = np.array([c == 'n' for c in h])
        V = base * signs[:, None]
        vs = {c for c in h if c != 'n'}
        samesign = len(vs) == 1
        has_nan = bool(nanmask.any())
        ctx.states += 1
        # ---- slerp_nan(inplace=True), then remove_jumps on the filled sequence (depth 2)
        QA, X0 = _mk(V, nanmask)
        ok, _ = _apply(ctx, 'slerp_nan(inplace=True)', key, lambda: QA.slerp_nan(inplace=True))
        if ok:
            view, arr = np.array(np.asarray(QA), float), np.array(QA.array, float)
            ok = _check_fill(ctx, 'slerp_nan(inplace=True)[.array]', key, X0, nanmask, arr, samesign)
            _check_fill(ctx, 'slerp_nan(inplace=True)[object rows]', key, X0, nanmask, view, samesign)
        if ok and _apply(ctx, 'slerp_nan -> remove_jumps', key, QA.remove_jumps)[0]:
            _check_jumps(ctx, 'slerp_nan -> remove_jumps', key, arr, np.array(QA.array, float))
            ctx.outcome(('fill', sk, N, tuple(np.sign(np.einsum('ij,ij->i', np.array(QA.array, float), base)))))
        # ---- slerp_nan(inplace=False)
        QA, X0 = _mk(V, nanmask)
        before = np.array(QA.array, float)
        ok, out = _apply(ctx, 'slerp_nan(inplace=False)', key, lambda: QA.slerp_nan(inplace=False))
        if ok:
            _check_fill(ctx, 'slerp_nan(inplace=False)', key, X0, nanmask, out, samesign)
            after = np.array(QA.array, float)
            ctx.expect(np.array_equal(before, after, equal_nan=True) and not np.shares_memory(np.asarray(out), QA.array),
                       'slerp_nan(inplace=False) leaves the object as it was and returns a new array', key, after, before)
        # ---- rows with only one component missing are gaps as well (short histories only)
        if has_nan and N <= 6:
            for mode in (True, False):
                QA, X0 = _mk(V, nanmask, partial=True)
                ok, out = _apply(ctx, f'slerp_nan(inplace={mode}) [partially-NaN rows]', key, lambda: QA.slerp_nan(inplace=mode))
                if ok:
                    _check_fill(ctx, f'slerp_nan(inplace={mode}) [partially-NaN rows]', key, X0, nanmask, np.array(QA.array, float) if mode else out, samesign)
                ctx.cls('nan:partial-rows')
        # ---- sign-jump removal on NaN-free histories
        if not has_nan:
            QA, X0 = _mk(V, nanmask)
            if _apply(ctx, 'remove_jumps', key, QA.remove_jumps)[0]:
                r1v, r1 = np.array(np.asarray(QA), float), np.array(QA.array, float)
                _check_jumps(ctx, 'remove_jumps[.array]', key, X0, r1)
                _check_jumps(ctx, 'remove_jumps[object rows]', key, X0, r1v)
                ctx.outcome(('jumps', sk, N, tuple(np.sign(np.einsum('ij,ij->i', r1, base)))))
                if _apply(ctx, 'remove_jumps -> remove_jumps', key, QA.remove_jumps)[0]:
                    _check_jumps(ctx, 'remove_jumps -> remove_jumps', key, r1, np.array(QA.array, float))
            ok, out = _apply(ctx, 'q_correct', key, lambda: O.q_correct(X0.copy()))
            if ok:
                _check_jumps(ctx, 'q_correct', key, X0, out)
        # ---- coverage classes
        runs = rs.nan_runs(nanmask)
        if has_nan:
            ctx.cls('nan:1run' if len(runs) == 1 else 'nan:2+runs')
            if max(b - a + 1 for a, b in runs) >= 3:
                ctx.cls('nan:runlen>=3')
            if len(runs) == 1 and runs[0] == (1, N - 2):
                ctx.cls('nan:all-interior')
            if not samesign:
                ctx.cls('nan:mixed-with-sign-flips')
        else:
            nj = sum(1 for i in range(N - 1) if h[i] != h[i + 1])
            ctx.cls('jumps:none' if nj == 0 else ('jumps:odd-count' if nj % 2 else 'jumps:even-count'))
            if h[0] == '-':
                ctx.cls('jumps:row0-flipped')
            if h[-1] == '-' and '-' not in h[:-1]:
                ctx.cls('jumps:last-row-only')
        if has_nan or not samesign:
            ctx.seen(('hist', sk, N, h))
    if H:
        ctx.sample({'history_block': sk, 'N': N, 'range': [lo, hi], 'first': H[0], 'last': H[-1],
                    'legend': '+ valid, - valid negated, n NaN', 'base_rows_0_1': base[:2].tolist()})


def job_containers(ctx, k):
    """The endpoints handed over in other containers / numeric types (integer-valued unit quaternions written as ints, lists, tuples,
    single precision, Quaternion objects): the interpolants are those of the same values as float64 arrays."""
    from ahrs import Quaternion
    Q8 = [np.array(v, float) for v in ([1, 0, 0, 0], [0, 1, 0, 0], [0, 0, 1, 0], [0, 0, 0, 1], [-1, 0, 0, 0], [0, 0, -1, 0])]
    gen = [A.MENU[k], A.MENU[(k + 3) % 8], rq.qunit(np.array([0.2, -0.1, 0.9, 0.3]))]
    carriers = [('int list', lambda v: [int(x) for x in v], True), ('int64 array', lambda v: np.array(v).astype(np.int64), True), ('int tuple', lambda v: tuple(int(x) for x in v), True),
                ('float list', lambda v: [float(x) for x in v], False), ('float tuple', lambda v: tuple(float(x) for x in v), False),
                ('float32 array', lambda v: np.array(v, np.float32), False), ('Quaternion', lambda v: Quaternion(np.array(v, float)), False)]
    for cname, fn in _copies():
        for ip, pi_ in enumerate(Q8):
            for ig, g in enumerate(gen):
                for first, second, tag in ((pi_, g, 'int-valued first endpoint'), (g, pi_, 'int-valued second endpoint')):
                    ref = np.asarray(fn(first.copy(), second.copy(), W.copy()))
                    for cn1, c1, ints1 in carriers:
                        for cn2, c2, ints2 in carriers:
                            a_int = first is pi_
                            if (ints1 and not a_int) or (ints2 and a_int):
                                continue                   # integer carriers only for the integer-valued endpoint
                            key = f'{tag} Q8[{ip}] generic#{ig} p as {cn1}, q as {cn2}'
                            ctx.evals += 1
                            try:
                                S = np.asarray(fn(c1(first), c2(second), W.copy()), float)
                            except (TypeError, ValueError):            # a refusal of the container is not judged; a wrong answer is
                                ctx.outcome(('container-refused', cn1, cn2))
                                continue
                            except Exception as ex:
                                ctx.fail(f'{cname}: raises for endpoints in another container', key, f'{type(ex).__name__}: {ex}'[:160], 'interpolants')
                                continue
                            tol = 1e-6 if 'float32' in (cn1 + cn2) else TOL
                            ok = S.shape == ref.shape and bool(np.all(np.isfinite(S))) and float(np.abs(S - ref).max()) <= tol
                            ctx.expect(ok, f'{cname}: endpoints in another container / numeric type give the interpolants of the float64 arrays', key, S, ref, tol)
                    ctx.seen(('containers', cname, ip, ig, tag))
                    ctx.cls('slerp:containers')
    ctx.sample({'containers': [c[0] for c in carriers], 'p': Q8[2].tolist(), 'q': gen[0].tolist()})


def job_orders_and_weights(ctx, k):
    """(1) Scalar-LAST arrays (order='S'): gaps of every length 1 ... 4 are filled with the rows a scalar-first array of the same rotations gets.
    (2) The weights array is the caller's: slerp leaves it as it was, and a second call with the same array object answers for those weights."""
    from ahrs import QuaternionArray
    N = 9
    V = _base('B', k, N)
    for glen in (1, 2, 3, 4):
        for start in (1, 3):
            mask = np.zeros(N, bool); mask[start:start + glen] = True
            for op in ('slerp_nan(inplace=True)', 'slerp_nan(inplace=False)'):
                key = f'order=S gap=[{start},{start + glen}) op={op} k{k}'
                ctx.evals += 1
                try:
                    QH = QuaternionArray(V.copy()); QS = QuaternionArray(np.roll(V, -1, axis=1).copy(), order='S')
                    QH[mask] = np.nan; QH.array[mask] = np.nan
                    QS[mask] = np.nan; QS.array[mask] = np.nan
                    if 'True' in op:
                        QH.slerp_nan(); QS.slerp_nan()
                        oh, os_ = np.asarray(QH.array, float), np.asarray(QS.array, float)
                    else:
                        oh, os_ = np.asarray(QH.slerp_nan(inplace=False), float), np.asarray(QS.slerp_nan(inplace=False), float)
                except Exception as ex:
                    ctx.fail("order='S': slerp_nan raises", key, repr(ex)[:160], 'filled rows')
                    continue
                exp = np.roll(oh, -1, axis=1)
                ok = os_.shape == exp.shape and bool(np.all(np.isfinite(os_))) and float(np.abs(os_ - exp).max()) <= 1e-12
                ctx.expect(ok, "order='S': slerp_nan fills the rows a scalar-first array of the same rotations gets (every gap length)", key, os_[start:start + glen], exp[start:start + glen], 1e-12)
                ctx.seen(('orderS', glen, start, op))
    ctx.cls('slerp:order-S')
    # (3) records that START or END with missing rows: the interior gaps are filled exactly as in the record whose ends are present
    N2 = 13
    V2 = _base('B', k, N2)
    interior = [4, 7, 8, 10]
    for lead, trail in ((1, 0), (2, 0), (3, 0)):        # (a record that ENDS with missing rows makes slerp_nan raise IndexError on the unchanged tree: observation 7.7, not judged)
        for op in ('slerp_nan(inplace=True)', 'slerp_nan(inplace=False)'):
            key = f'leading NaN rows={lead} trailing NaN rows={trail} interior gaps={interior} op={op} k{k}'
            ctx.evals += 1
            try:
                outs = []
                for with_ends in (False, True):
                    Q_ = QuaternionArray(V2.copy())
                    mask = np.zeros(N2, bool); mask[interior] = True
                    if with_ends:
                        mask[:lead] = True
                        if trail:
                            mask[N2 - trail:] = True
                    Q_[mask] = np.nan; Q_.array[mask] = np.nan
                    if 'True' in op:
                        Q_.slerp_nan(); outs.append(np.asarray(Q_.array, float))
                    else:
                        outs.append(np.asarray(Q_.slerp_nan(inplace=False), float))
            except Exception as ex:
                ctx.fail('slerp_nan raises on a record that starts / ends with missing rows', key, repr(ex)[:160], 'filled rows')
                continue
            ref_, got_ = outs
            rows_ = [i for i in range(lead + 1, N2 - trail - 1)]
            ok = got_.shape == ref_.shape and all(np.all(np.isfinite(got_[i])) and min(float(np.abs(got_[i] - ref_[i]).max()), float(np.abs(got_[i] + ref_[i]).max())) <= 1e-12 for i in rows_)
            ctx.expect(ok, 'slerp_nan: interior rows of a record that starts / ends with missing rows = those of the record whose ends are present', key, got_[interior], ref_[interior], 1e-12)
    ctx.cls('slerp:missing-ends')
    gen = [A.MENU[k], A.MENU[(k + 3) % 8], A.MENU[(k + 5) % 8], rq.qmul(A.MENU[k], rq.axang2q([1, 2, 3], 0.01))]
    for cname, fn in _copies():
        for (i, j), (i2, j2) in (((0, 1), (1, 2)), ((0, 3), (0, 1)), ((1, 2), (0, 3))):
            t = W.copy(); t0 = t.copy()
            key = f'pairs=({i},{j}) then ({i2},{j2}) k{k}'
            ctx.evals += 1
            try:
                S1 = np.asarray(fn(gen[i].copy(), gen[j].copy(), t), float)
                ctx.expect(np.array_equal(t, t0), f"{cname}: the caller's weights array is left as it was", key + ' first call', t.tolist(), t0.tolist())
                S2 = np.asarray(fn(gen[i2].copy(), gen[j2].copy(), t), float)
                ctx.expect(np.array_equal(t, t0), f"{cname}: the caller's weights array is left as it was", key + ' second call', t.tolist(), t0.tolist())
                R2 = np.asarray(fn(gen[i2].copy(), gen[j2].copy(), t0.copy()), float)
                ctx.close(S2, R2, 0.0, f'{cname}: a second call with the same weights array object = the call with a fresh array', key)
            except Exception as ex:
                ctx.fail(f'{cname}: raises when the weights array is re-used', key, repr(ex)[:160], 'interpolants')
    ctx.cls('slerp:weights-ownership')
    # (4) the weights in ANY order and with repeats: row i is the interpolant for t[i] (= the single-weight call, = the reference geodesic)
    import itertools as _it
    base_w = [0.0, 0.25, 0.6, 1.0]
    wvecs = [list(pm) for pm in _it.permutations(base_w)] + [[0.0, 0.5, 0.5, 1.0], [0.5, 0.5], [1.0, 1.0, 0.0], [0.3, 0.3, 0.3], list(W[::-1]), [1.0, 0.0, 0.5], [0.5, 0.0, 1.0, 0.0]]
    for cname, fn in _copies():
        for (i, j) in ((0, 1), (1, 2), (0, 3)):           # spherical branch twice, linear branch once
            p_, q_ = gen[i], gen[j]
            s_ = rs.nearer(p_, q_) or 1
            for wv in wvecs:
                key = f'pair=({i},{j}) weights={wv} k{k}'
                ctx.evals += 1
                try:
                    Sv = np.asarray(fn(p_.copy(), q_.copy(), np.array(wv, float)), float)
                    singles = np.array([np.asarray(fn(p_.copy(), q_.copy(), np.array([t_], float)), float)[0] for t_ in wv])
                except Exception as ex:
                    ctx.fail(f'{cname}: raises for weights that are not ascending / not distinct', key, repr(ex)[:160], 'one interpolant per weight'); continue
                ok = Sv.shape == (len(wv), 4) and float(np.abs(Sv - singles).max()) <= TOL
                ctx.expect(ok, f'{cname}: row i is the interpolant of weight t[i], whatever the order of the weights and with repeats', key, Sv, singles, TOL)
                ref = rs.geodesic(p_, q_, np.array(wv, float), toward=s_)
                if Sv.shape == ref.shape:
                    ctx.close(Sv, ref, tol_arc(rs.s3angle(p_, s_ * q_)), f'{cname}: = reference geodesic for weights in any order', key)
    ctx.cls('slerp:weight-order')
    # (5) slerp_nan again on the SAME object after new rows went missing (and an earlier gap row was re-measured): what a fresh object holding the
    #     same rows gives; the first call may have seen a complete record
    N3 = 14
    V3 = _base('B', k, N3)
    for first_gaps, second_gaps in (([3, 4], [9, 10, 11]), ([], [5, 6]), ([2], [2, 7]), ([6, 7, 8], [1, 12]), ([4], [4])):
        for op in ('slerp_nan(inplace=True)', 'slerp_nan(inplace=False)'):
            key = f'first gaps={first_gaps} then gaps={second_gaps} op={op} k{k}'
            ctx.evals += 1
            try:
                Q_ = QuaternionArray(V3.copy())
                if first_gaps:
                    Q_[first_gaps] = np.nan; Q_.array[first_gaps] = np.nan
                if 'True' in op:
                    Q_.slerp_nan()
                else:
                    Q_.slerp_nan(inplace=False)
                    if first_gaps:                                   # (the copying variant leaves the gaps; the caller re-measures them)
                        Q_[first_gaps] = V3[first_gaps]; Q_.array[first_gaps] = V3[first_gaps]
                if first_gaps:                                       # an earlier gap row is re-measured (valid from now on, another value)
                    r0 = first_gaps[0]
                    newrow = rq.qunit(V3[r0] + 0.02 * V3[(r0 + 5) % N3])
                    if r0 not in second_gaps:
                        Q_[r0] = newrow; Q_.array[r0] = newrow
                Q_[second_gaps] = np.nan; Q_.array[second_gaps] = np.nan
                content = np.array(Q_.array, float)
                fresh = QuaternionArray(V3.copy())
                fresh[:] = content; fresh.array[:] = content
                if 'True' in op:
                    Q_.slerp_nan(); fresh.slerp_nan()
                    got, exp = np.asarray(Q_.array, float), np.asarray(fresh.array, float)
                else:
                    got, exp = np.asarray(Q_.slerp_nan(inplace=False), float), np.asarray(fresh.slerp_nan(inplace=False), float)
            except Exception as ex:
                ctx.fail('slerp_nan raises when called again on the same object', key, repr(ex)[:160], 'filled rows'); continue
            ok = got.shape == exp.shape and np.array_equal(np.isfinite(got), np.isfinite(exp)) and bool(np.all(np.isfinite(got))) and float(np.abs(got - exp).max()) <= 1e-12
            ctx.expect(ok, 'slerp_nan called again on the same object (new gaps, a re-measured row) = slerp_nan of a fresh object holding the same rows', key, got, exp, 1e-12)
    ctx.cls('slerp_nan:again-on-the-same-object')
    ctx.sample({'order_S_gaps': [1, 2, 3, 4], 'weights_reuse': 'slerp(a,b,t); slerp(b,c,t)'})


def run(ctx):
    A.selftest()
    allk = list(range(len(A.MENU)))
    ks = allk if ctx.thorough else [A.seed_k(ctx.seed)]
    jobs = []
    tables = [('G48', 0, 8)] + [('G48:l', k, 8) for k in ks]
    if ctx.thorough:
        tables += [('G120', 0, 24)] + [('G120:l', k, 24) for k in ks[:2]]
    for sname, k, n in tables:
        for lo, hi in core.chunks(len(_pairset(sname, k)), n):
            jobs.append(('job_pairs', (sname, k, lo, hi)))
    pnames = ['I', 'H20', 'H40'] + [f'M{k}' for k in ks]
    for pn in pnames:
        jobs.append(('job_delta', (pn,)))
    jobs += [('job_containers', (k,)) for k in ks[:2]]
    jobs += [('job_orders_and_weights', (k,)) for k in ks[:2]]
    seqs = [('A', 0)] + [(s, k) for k in ks for s in ('B', 'C')]
    for seq, k in seqs:
        for N in (3, 4, 5, 6):
            jobs.append(('job_hist', (seq, k, N, 0, 4 * 3 ** (N - 2))))
        for lo, hi in core.chunks(4 * 3 ** 5, 2):
            jobs.append(('job_hist', (seq, k, 7, lo, hi)))
        for lo, hi in core.chunks(4 * 3 ** 6, 6):
            jobs.append(('job_hist', (seq, k, 8, lo, hi)))
    if ctx.thorough:
        for seq, k in [('A', 0), ('B', 0), ('C', 0)]:
            for lo, hi in core.chunks(4 * 3 ** 8, 16):
                jobs.append(('job_hist', (seq, k, 10, lo, hi)))
    core.run_jobs(ctx, __name__, jobs)
    ctx.notes['menu_entries'] = ks
    ctx.notes['weights'] = W.tolist()
    ctx.notes['history_alphabet'] = {'interior rows': ['+', '-', 'n'], 'end rows': ['+', '-'],
                                     'lengths': [3, 4, 5, 6, 7, 8] + ([10] if ctx.thorough else []),
                                     'operations': ['slerp_nan(inplace=True)', 'slerp_nan(inplace=False)',
                                                    'remove_jumps', 'q_correct'], 'max_ops_in_sequence': 2}
