"""C02 — every DCM->quaternion method inverts quaternion->DCM over all of SO(3).

Exhaustive grid: rotation matrices from AXES x ANG (Rodrigues), the matrices of G48, G120 and a conjugated copy,
exactly symmetric half-turns; x 7 method/version choices (+ one non-default Sarabandi threshold) x 4 routes.
"""
import math
import numpy as np
from mc import core, alphabet as A
from mc.ref import quat as rq

PID = 'C02'
LEVEL = 'exploration'
RULE = ('every (matrix, method/version, route) triple of the grid is executed; a case is distinct by (matrix id, method, route) '
        'and non-trivial when the matrix is not the identity')
ASSUMPTIONS = ['matrix-level oracle |M_ref(q) - R|_max: Shepperd and Bar-Itzhack v1-3 <= 1e-9 on the whole grid (identity and exact '
               'half-turns included); Hughes, Chiaverini, Sarabandi <= 1e-7 for rotation angles <= pi - 1e-6 (observed <= 3e-8), '
               'not judged beyond, as in the statement',
               'result must be a real floating array of shape (4,), finite, | |q| - 1 | <= 1e-12',
               'Sarabandi is exercised with its default threshold and with threshold=0.5']
REQUIRED_CLASSES = ['small-stacks', 'default-method', 'object-history', 'shepperd pivot 0', 'shepperd pivot 1', 'shepperd pivot 2', 'shepperd pivot 3', 'angle=0', 'angle=pi',
                    'angle<1e-6', 'pi-angle<1e-6', 'trace<=0']

METHODS = [('shepperd', {}), ('hughes', {}), ('chiaverini', {}), ('itzhack', {'version': 1}), ('itzhack', {'version': 2}),
           ('itzhack', {'version': 3}), ('itzhack', {}), ('sarabandi', {}), ('sarabandi', {'threshold': 0.5})]
EXACT = {'shepperd', 'itzhack'}


def mname(m, kw):
    return m + ''.join(f'[{k}={v}]' for k, v in kw.items())


def matrices(k):
    """-> list of (label, R, angle)"""
    out = []
    for ia, ax in enumerate(A.AXES()):
        for ig, ang in enumerate(A.ANG()):
            out.append((f'axis{ia}/ang{ig}={ang:.13g}', rq.axang2R(ax, ang), None))
    for name, G in (('G48', A.G48()), ('G120', A.G120()), (f'Gc120k{k}', A.Gc(A.G120(), k)), (f'Gl120k{k}', A.Gl(A.G120(), k))):
        for i, q in enumerate(G):
            out.append((f'{name}[{i}]', rq.R(q), None))
    for ia, ax in enumerate(A.AXES()):
        n = ax / math.sqrt(float(ax @ ax))
        out.append((f'halfturn-sym{ia}', 2.0 * np.outer(n, n) - np.eye(3), None))
    res = []
    for lab, R, _ in out:
        res.append((lab, R, rq.rot_angle_R(R)))
    return res


def _judge(ctx, q, R, ang, mn, meth, route, lab):
    key = f'R={lab} method={mn}'
    site = f'{route}: {mn}'
    ctx.evals += 1
    qa = np.asarray(q)
    if qa.shape != (4,) or np.iscomplexobj(qa) or qa.dtype.kind != 'f':
        ctx.fail(site + ' returns a real float 4-vector', key, {'dtype': str(qa.dtype), 'shape': list(qa.shape)}, 'float64 (4,)')
        return
    if not np.all(np.isfinite(qa)) or abs(rq.qnorm(qa) - 1.0) > 1e-12:
        if meth in EXACT or ang <= math.pi - 1e-6:
            ctx.fail(site + ' returns a finite unit quaternion', key, qa, 'finite, unit')
        return
    e = float(np.abs(rq.R(qa) - R).max())
    if meth in EXACT:
        ctx.track('exact-methods', e)
        if not e <= 1e-9:
            ctx.fail(site + ' inverts q->DCM', key, qa, {'matrix_error': e}, 1e-9)
    elif ang <= math.pi - 1e-6:
        ctx.track('closed-form-methods', e)
        if not e <= 1e-7:
            ctx.fail(site + ' inverts q->DCM', key, qa, {'matrix_error': e}, 1e-7)
    ctx.outcome((lab, tuple(np.round(np.abs(qa), 6))))


def job_grid(ctx, k, lo, hi):
    from ahrs import Quaternion, QuaternionArray, DCM
    M = matrices(k)[lo:hi]
    for lab, R, ang in M:
        # coverage classes decided by the reference
        u = [R[0, 0] + R[1, 1] + R[2, 2], R[0, 0], R[1, 1], R[2, 2]]
        ctx.cls(f'shepperd pivot {int(np.argmax(u))}')
        if ang == 0.0:
            ctx.cls('angle=0')
        elif ang < 1e-6:
            ctx.cls('angle<1e-6')
        if abs(ang - math.pi) < 1e-15 or lab.startswith('halfturn'):
            ctx.cls('angle=pi')
        elif math.pi - ang < 1e-6:
            ctx.cls('pi-angle<1e-6')
        if u[0] <= 0:
            ctx.cls('trace<=0')
        for meth, kw in METHODS:
            mn = mname(meth, kw)
            for route, fn in (('DCM(F-ordered).to_quaternion', lambda: DCM(np.asfortranarray(R)).to_quaternion(method=meth, **kw)),
                              ('Quaternion(dcm=F-ordered)', lambda: Quaternion(dcm=np.asfortranarray(R), method=meth, **kw)),
                              ('DCM.to_quaternion', lambda: DCM(R.copy()).to_quaternion(method=meth, **kw)),
                              ('DCM.to_q', lambda: DCM(R.copy()).to_q(method=meth, **kw)),
                              ('Quaternion(dcm=)', lambda: Quaternion(dcm=R.copy(), method=meth, **kw)),
                              ('QuaternionArray(DCM=[R])', lambda: np.asarray(QuaternionArray(DCM=R.copy()[None], method=meth, **kw))[0])):
                try:
                    q = fn()
                except Exception as ex:
                    ctx.evals += 1
                    if meth in EXACT or ang <= math.pi - 1e-6:
                        ctx.fail(f'{route}: {mn} raises', f'R={lab} method={mn}', f'{type(ex).__name__}: {ex}'[:200], 'a quaternion')
                    continue
                _judge(ctx, q, R, ang, mn, meth, route, lab)
                if ang != 0.0:
                    ctx.seen((lab, mn, route))
    ctx.sample({'R': M[len(M) // 2][0], 'matrix': M[len(M) // 2][1].tolist(), 'methods': [mname(*m) for m in METHODS]})


def job_batch(ctx, k):
    """The whole grid as one N x 3 x 3 array through QuaternionArray(DCM=...)."""
    from ahrs import QuaternionArray
    Mall = matrices(k)
    for meth, kw in METHODS:
        mn = mname(meth, kw)
        # closed-form methods are only specified up to pi - 1e-6: a NaN row beyond that would make the array
        # constructor refuse the whole batch, which the statement does not forbid
        M = Mall if meth in EXACT else [m for m in Mall if m[2] <= math.pi - 1e-6]
        Rs = np.array([m[1] for m in M])
        try:
            Q = np.asarray(QuaternionArray(DCM=Rs.copy(), method=meth, **kw))
        except Exception as ex:
            ctx.evals += 1
            ctx.fail(f'QuaternionArray(DCM=all): {mn} raises', f'R=<whole grid> method={mn}', f'{type(ex).__name__}: {ex}'[:200], 'N quaternions')
            continue
        if Q.shape != (len(M), 4):
            ctx.fail(f'QuaternionArray(DCM=all): {mn} shape', f'R=<whole grid> method={mn}', list(Q.shape), [len(M), 4])
            continue
        for (lab, R, ang), q in zip(M, Q):
            _judge(ctx, np.array(q), R, ang, mn, meth, 'QuaternionArray(DCM=all)', lab)
            ctx.seen((lab, mn, 'batch'))


def job_options(ctx, k):
    """Dispatchers pass the options on: an invalid version / method must be refused through every route."""
    from ahrs import Quaternion, QuaternionArray, DCM
    R = rq.R(A.MENU[k])
    routes = {'DCM.to_quaternion': lambda m, kw: DCM(R.copy()).to_quaternion(method=m, **kw),
              'DCM.to_q': lambda m, kw: DCM(R.copy()).to_q(method=m, **kw),
              'Quaternion(dcm=)': lambda m, kw: Quaternion(dcm=R.copy(), method=m, **kw),
              'QuaternionArray(DCM=[R])': lambda m, kw: QuaternionArray(DCM=R.copy()[None], method=m, **kw)}
    for rn, fn in routes.items():
        for m, kw in (('itzhack', {'version': 4}), ('itzhack', {'version': 0}), ('no-such-method', {})):
            try:
                fn(m, kw)
                ok = False
            except Exception:
                ok = True           # any refusal shows that the option reached the converter
            ctx.expect(ok, f'{rn}: invalid option reaches the converter and is refused', f'method={mname(m, kw)}', 'accepted', 'ValueError')
            ctx.seen(('opt', rn, m, str(kw)))


def job_sequences(ctx, k):
    """Two-call sequences through every dispatcher: a call WITH an option (valid or refused), then a call relying on the defaults.
    The second answer must be the default method's answer (options must not stick).  Also integer-typed matrices."""
    from ahrs import Quaternion, QuaternionArray, DCM
    mats = [('identity', np.eye(3)), ('generic', rq.R(A.MENU[k])), ('tiny', rq.axang2R([1, 2, 3], 1e-9)), ('half-turn', rq.R(np.array([0.0, 0.6, 0.0, 0.8])))]
    routes = {'DCM.to_quaternion': lambda R, m, kw: DCM(R.copy()).to_quaternion(method=m, **kw),
              'Quaternion(dcm=)': lambda R, m, kw: Quaternion(dcm=R.copy(), method=m, **kw),
              'QuaternionArray(DCM=[R])': lambda R, m, kw: np.asarray(QuaternionArray(DCM=R.copy()[None], method=m, **kw))[0]}
    firsts = [('sarabandi', {'threshold': 3.0}), ('sarabandi', {'threshold': -3.0}), ('itzhack', {'version': 1}), ('itzhack', {'version': 4}), ('no-such-method', {})]
    for lab, R in mats:
        ang = rq.rot_angle_R(R)
        for rn, fn in routes.items():
            for fm, fkw in firsts:
                for sm in ('sarabandi', 'itzhack', 'shepperd'):
                    if sm == 'sarabandi' and ang > math.pi - 1e-6:
                        continue
                    try:
                        fn(R, fm, fkw)
                    except Exception:
                        pass
                    key = f'R={lab} first={mname(fm, fkw)} then={sm}(defaults) k{k}'
                    try:
                        q = fn(R, sm, {})
                    except Exception as ex:
                        ctx.evals += 1
                        ctx.fail(f'{rn}: default call after a call with options raises', key, f'{type(ex).__name__}: {ex}'[:160], 'a quaternion')
                        continue
                    _judge(ctx, q, R, ang, sm + '(after options)', sm, rn, key)
                    ctx.seen(('seq', lab, rn, fm, str(fkw), sm))
                    ctx.cls('sequence')
    # rotation matrices with integer entries (the 24 axis-aligned orientations) given with an integer dtype
    for i, q in enumerate(A.G48()):
        R = rq.R(q)
        if np.abs(R - np.round(R)).max() > 1e-12:
            continue
        Ri = np.round(R).astype(int)
        for meth in ('shepperd', 'itzhack'):
            for rn, fn in (('DCM(int matrix).to_quaternion', lambda: DCM(Ri.copy()).to_quaternion(method=meth)), ('Quaternion(dcm=int matrix)', lambda: Quaternion(dcm=Ri.copy(), method=meth))):
                try:
                    qq = fn()
                except Exception as ex:
                    ctx.evals += 1
                    ctx.fail(f'{rn}: raises', f'R=G48[{i}] method={meth}', f'{type(ex).__name__}: {ex}'[:160], 'a quaternion')
                    continue
                _judge(ctx, qq, np.round(R), rq.rot_angle_R(R), meth, meth, rn, f'G48[{i}](int dtype)')
    ctx.sample({'sequence': ['sarabandi[threshold=3.0]', 'sarabandi(defaults)'], 'matrix': 'identity'})


def job_defaults_and_objects(ctx, k):
    """(1) The method argument OMITTED through the three dispatchers: the default method inverts q -> DCM on the whole grid, exact half-turns
    included (the statement's clause about the default), and the array route returns the very rows the scalar routes return.
    (2) Histories on ONE DCM object: convert, edit the returned array in place, convert again; update the matrix in place, convert again."""
    from ahrs import Quaternion, QuaternionArray, DCM
    M = matrices(k)
    Rs = np.array([m[1] for m in M])
    try:
        QA = np.asarray(QuaternionArray(DCM=Rs.copy()), float)
    except Exception as ex:
        ctx.evals += 1
        ctx.fail('QuaternionArray(DCM=all), method omitted: raises', 'R=<whole grid>', f'{type(ex).__name__}: {ex}'[:160], 'N quaternions')
        QA = None
    for i, (lab, R, ang) in enumerate(M):
        outs = {}
        for rn, fn in (('DCM.to_quaternion()', lambda: DCM(R.copy()).to_quaternion()), ('DCM.to_q()', lambda: DCM(R.copy()).to_q()), ('Quaternion(dcm=)', lambda: Quaternion(dcm=R.copy())),
                       ('Quaternion.from_DCM', lambda: Quaternion().from_DCM(R.copy())), ('QuaternionArray(DCM=[R])', lambda: np.asarray(QuaternionArray(DCM=R.copy()[None]))[0]),
                       ('QuaternionArray(DCM=all)[i]', (lambda: QA[i]) if QA is not None and QA.shape == (len(M), 4) else None)):
            if fn is None:
                continue
            try:
                q = np.asarray(fn(), float)
            except Exception as ex:
                ctx.evals += 1
                ctx.fail(f'{rn}, method omitted: raises', f'R={lab}', f'{type(ex).__name__}: {ex}'[:160], 'a quaternion')
                continue
            _judge(ctx, q, R, ang, 'default', 'shepperd', rn + ' with the method omitted', lab)
            outs[rn] = q
        ref = outs.get('Quaternion(dcm=)')
        if ref is not None and ref.shape == (4,):
            for rn, q in outs.items():
                ctx.evals += 1
                if q.shape != (4,) or not float(np.abs(q - ref).max()) <= 1e-12:
                    ctx.fail('method omitted: every dispatcher returns the same quaternion (same sign) as Quaternion(dcm=)', f'R={lab} route={rn}', q, ref, 1e-12)
        ctx.seen(('default', lab))
    ctx.cls('default-method')
    # (2)
    pick = [m for m in M if 0.3 < m[2] < math.pi - 0.3][::max(1, len(M) // 10)][:8]
    for i, (lab, R, ang) in enumerate(pick):
        lab2, R2, ang2 = pick[(i + 3) % len(pick)]
        for meth, kw in METHODS:
            mn = mname(meth, kw)
            D = DCM(R.copy())
            try:
                q1 = D.to_quaternion(method=meth, **kw)
                keep = np.array(q1, float, copy=True)
                try:
                    q1[1:] *= -1.0; q1 *= 2.0                     # the caller edits the array it was given
                except Exception:
                    pass
                q2 = np.asarray(D.to_quaternion(method=meth, **kw), float)
                ctx.evals += 1
                if not np.array_equal(q2, keep):
                    ctx.fail('DCM.to_quaternion: a second conversion is not affected by edits of the first returned array', f'R={lab} method={mn}', q2, keep, 0)
                D[:] = R2                                           # the matrix updated in place (the object and .A share memory)
                q3 = D.to_quaternion(method=meth, **kw)
                _judge(ctx, q3, R2, ang2, mn, meth, 'DCM.to_quaternion after the matrix was updated in place', f'{lab}->{lab2}')
            except Exception as ex:
                ctx.evals += 1
                ctx.fail('DCM object history raises', f'R={lab} method={mn}', f'{type(ex).__name__}: {ex}'[:160], 'completes')
        ctx.cls('object-history')
    ctx.sample({'default_method_routes': ['DCM.to_quaternion()', 'Quaternion(dcm=)', 'QuaternionArray(DCM=)']})


def job_derived(ctx, k):
    """DCM objects that NumPy derives from other DCM objects (R.T, R1 @ R2, R.copy(), R[:], R.view(), np.transpose(R)) and short stacks of
    every small N: a conversion that ANSWERS gives the quaternion of the object's own matrix (a refusal is not judged)."""
    from ahrs import DCM, QuaternionArray
    M = matrices(k)
    pick = [m for m in M if 0.3 < m[2] < math.pi - 0.3][::max(1, len(M) // 12)][:10]
    for i, (lab, R, ang) in enumerate(pick):
        lab2, R2, ang2 = pick[(i + 3) % len(pick)]
        D1, D2 = DCM(R.copy()), DCM(R2.copy())
        derived = [('R.T', lambda: D1.T, R.T), ('R1@R2', lambda: D1 @ D2, R @ R2), ('R.copy()', lambda: D1.copy(), R), ('R[:]', lambda: D1[:], R), ('R.view()', lambda: D1.view(), R),
                   ('np.transpose(R)', lambda: np.transpose(D1), R.T), ('R.T.T', lambda: D1.T.T, R), ('R1@R2.T', lambda: D1 @ D2.T, R @ R2.T), ('M.view(DCM)', lambda: R2.copy().view(DCM), R2)]
        for dn, mk, Rown in derived:
            try:
                obj = mk()
            except Exception:
                ctx.outcome(('derive-refused', dn)); continue
            if not isinstance(obj, DCM):
                ctx.outcome(('derive-plain', dn)); continue
            angle_own = rq.rot_angle_R(Rown)
            if not (0.05 < angle_own < math.pi - 0.05):
                continue
            for meth, kw in METHODS:
                mn = mname(meth, kw)
                for rn, call in (('to_quaternion', lambda: obj.to_quaternion(method=meth, **kw)), ('to_q', lambda: obj.to_q(method=meth, **kw))):
                    try:
                        q = call()
                    except Exception:
                        ctx.outcome(('derived-refused', dn, rn)); continue
                    _judge(ctx, q, Rown, angle_own, mn, meth, f'{dn}.{rn}() on a derived DCM object', f'{lab}|{lab2}')
            ctx.cls('derived-objects'); ctx.seen(('derived', lab, dn))
    # stacks of every small N through the array constructor and the batch functions
    from ahrs.common import orientation as O
    gen = [m for m in M if 0.2 < m[2] < math.pi - 0.2]
    for nb in (1, 2, 3, 4, 5):
        for off in (0, len(gen) // 2):
            sub = gen[off:off + nb]
            Rs = np.array([m[1] for m in sub])
            for meth, kw in METHODS:
                mn = mname(meth, kw)
                try:
                    Q = np.asarray(QuaternionArray(DCM=Rs.copy(), method=meth, **kw))
                except Exception as ex:
                    ctx.evals += 1
                    ctx.fail(f'QuaternionArray(DCM=N matrices): {mn} raises', f'N={nb} offset={off}', f'{type(ex).__name__}: {ex}'[:160], 'N quaternions')
                    continue
                if Q.shape != (nb, 4):
                    ctx.fail(f'QuaternionArray(DCM=N matrices): {mn} shape', f'N={nb} offset={off}', list(Q.shape), [nb, 4]); continue
                for (lab, R, ang), q in zip(sub, Q):
                    _judge(ctx, np.array(q), R, ang, mn, meth, f'QuaternionArray(DCM=N matrices, N={nb})', lab)
            for fname in ('hughes', 'chiaverini'):
                try:
                    Q = np.asarray(getattr(O, fname)(Rs.copy()))
                except Exception as ex:
                    ctx.evals += 1
                    ctx.fail(f'{fname}(N x 3 x 3) raises', f'N={nb} offset={off}', f'{type(ex).__name__}: {ex}'[:160], 'N quaternions'); continue
                if Q.shape != (nb, 4):
                    ctx.fail(f'{fname}(N x 3 x 3) shape', f'N={nb} offset={off}', list(Q.shape), [nb, 4]); continue
                for (lab, R, ang), q in zip(sub, Q):
                    _judge(ctx, np.array(q), R, ang, fname, fname, f'{fname}(N x 3 x 3, N={nb})', lab)
        ctx.cls('small-stacks')
    ctx.sample({'derived': ['R.T', 'R1@R2', 'R.copy()', 'R[:]', 'R.view()', 'np.transpose(R)'], 'stack_sizes': [1, 2, 3, 4, 5]})


def run(ctx):
    ks = list(range(8)) if ctx.thorough else [A.seed_k(ctx.seed)]
    jobs = []
    for k in ks:
        n = len(matrices(k))
        jobs += [('job_grid', (k, lo, hi)) for lo, hi in core.chunks(n, 15)]
        jobs.append(('job_batch', (k,)))
        jobs.append(('job_options', (k,)))
        jobs.append(('job_sequences', (k,)))
        jobs.append(('job_derived', (k,)))
        jobs.append(('job_defaults_and_objects', (k,)))
    core.run_jobs(ctx, __name__, jobs)
    ctx.notes['matrices_per_menu_entry'] = len(matrices(ks[0]))
