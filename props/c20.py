"""C20 — synthetic sensor data (ahrs.Sensors) agree with their own ground truth.

Every configuration of a finite product is constructed on the real code with the module-level random
generator of ahrs.utils.sensors rebound to a *recording* numpy Generator seeded from a fixed menu, so
every run is deterministic and the standard-normal draws that became noise are known exactly.

random trajectories : num_samples x frequency x span x yaw x reference vectors
given trajectories  : constant-rate rotations about each of alphabet.AXES() at {0.1, 1, 3} rad/s, a stationary one,
                      two piecewise ones and one through pitch = 90 deg, at 100 and 25 Hz, from the identity and from a
                      generic start attitude, handed over as QuaternionArray or ndarray
each crossed with   : gyr_noise x acc_noise x mag_noise in {0, default, [mid,] large} x in_degrees x normalized_mag x
                      generator seed.

Oracle per construction (reference model mc/ref/sensors.py, independent of ahrs):
  * N rows everywhere, finite; quaternions unit; rotations[i] = R(quaternions[i]); rpy2q(ang_pos[i]) = +-quaternions[i];
  * requested noise 0  =>  accelerometers[i] = R_i^T g, magnetometers[i] = R_i^T m (/|m| when normalised) exactly;
  * any noise: data = clean + Z * <reported noise attribute> for one of the recorded standard-normal draws Z
    (so the reported noise is the applied one, and the clean part is R^T ref even when noise is present);
  * gyroscopes - biases_gyroscopes - unit * ang_vel = Z * gyr_noise (0 exactly when gyr_noise = 0): reported bias is the
    applied one;
  * integrating the bias-corrected (de-noised) gyroscopes from quaternions[0] with the exact exponential map stays
    within the rigorous bound sum_k (theta_k - 2 sin(theta_k / 2)) of the ground truth;
  * normalized_mag rows have unit norm; the same generator state reproduces the same data bit for bit.
"""
import math
import numpy as np
from mc import core, alphabet as A
from mc.ref import quat as rq
from mc.ref import sensors as rs

PID = 'C20'
LEVEL = 'exploration'
RULE = ('one case = one Sensors(...) construction, identified by (trajectory source and its parameters, gyr/acc/mag noise '
        'setting, in_degrees, normalized_mag, reference vectors, generator seed); every case of the finite product is '
        'constructed on the real code and judged on every one of its samples; a case is non-trivial when its trajectory '
        'moves (the stationary given trajectory is evaluated but not counted as distinct non-trivial)')
ASSUMPTIONS = [
    'trajectory lengths >= 10 only (statement); given trajectories are sign-continuous unit quaternions with step angle '
    '<= 0.12 rad; noise settings are scalars',
    'the random stream is the module-level ahrs.utils.sensors.GENERATOR (rebound to a recording wrapper around '
    'numpy.random.default_rng(s), s from a fixed menu + VERIF_SEED); noise is recognised as sigma * Z for a (N,3) draw Z '
    'obtained through GENERATOR.standard_normal - no assumption on the order of the draws; if no such draw is observed '
    'the run is reported as capped instead of guessing',
    'reference vectors are read back from the instance (reference_gravitational_vector / reference_magnetic_vector); '
    'when passed explicitly they must be the ones passed. The import-time WMM (today\'s date) therefore never enters the oracle',
    'gyr_noise is in deg/s and is scaled with the data to rad/s when in_degrees is False (the default NOISE_SIGMA is built '
    'with "* RAD2DEG" and the docstring says "then scaled to be in the same units as the gyroscope data")',
    'zero-noise exactness and noise identification: 1e-12 relative to |reference vector| + 6 sigma '
    '(observed over the thorough tier <= 1.0e-15); rotations vs R(q), unit norm, given quaternions kept: 1e-12 absolute '
    '(observed <= 4.5e-16)',
    'ang_pos vs quaternions: angle <= 1e-12 + 1e-13 / max(|cos pitch|, 1e-9) rad; the second term is the conditioning of '
    'pitch = arcsin(.) used by any Euler extraction (observed <= 2.4e-14 for |cos pitch| > 0.01, <= 2.9e-13 on the rows nearer the pole)',
    'gyro integration: reference integrator = exact exponential map with the rate held over each sample interval; '
    'ang_vel is 2 vec(q_{k-1}^* q_k)/dt, so by bi-invariance + triangle inequality the attitude error after k steps is '
    '<= sum_{j<=k} (theta_j - 2 sin(theta_j/2)), theta_j the step angle as written along the angle history ang_pos (random trajectories) or along the given rows (given trajectories); verdict threshold 1.01 * that + 1e-9 rad (observed excess over the rigorous bound <= 6e-15 rad)',
    'not demanded: a particular value or unit of the bias (only reported = applied), the value of ang_vel[0], that a '
    'requested non-zero mag_noise is honoured (only that the reported attribute is the applied one; replacements are counted '
    'in coverage class mag_noise:request-replaced)',
]
REQUIRED_CLASSES = ['given:repaired QuaternionArray object', 'given:near-pole', 'given:near-unit rows', 'in_degrees:other carrier', 'mode:random', 'mode:given', 'gyr_noise=0', 'acc_noise=0', 'mag_noise=0', 'gyr_noise>0', 'acc_noise>0',
                    'mag_noise>0', 'in_degrees', 'radians', 'normalized_mag', 'raw_mag', 'refs:default', 'refs:explicit',
                    'mag_noise:request-honoured', 'N=10', 'given:piecewise', 'given:through-pole', 'integration:tight-bound', 'history:generate-again', 'history:unit-flag-assigned', 'history:two-objects', 'given:other layout / container']

TOL = 1e-12
DEG2RAD, RAD2DEG = rs.DEG2RAD, rs.RAD2DEG

# ---- finite menus ------------------------------------------------------------------------------------------
GYR = {'0': 0.0, 'def': None, 'big': 50.0, 'vec': np.array([0.0, 20.0, 0.0])}          # 'vec': a per-axis triple with silent axes
ACC = {'0': 0.0, 'def': None, 'big': 5.0, 'vec': np.array([0.0, 0.0, 0.05])}
MAG = {'0': 0.0, 'def': None, 'mid': 100.0, 'big': 2.5e5}          # (mag_noise is compared with a scalar inside generate(): a per-axis triple is not an input of that parameter)
SPANS = {'wide': (0.0, 2.0 * math.pi), 'turns': (-2.0 * math.pi, 2.0 * math.pi), 'def': None, 'half': (-0.5 * math.pi, 0.5 * math.pi), 'small': (0.0, 0.3), 'list': [-0.1, 0.1], 'quarter': (0.0, 0.5 * math.pi)}
YAWS = {'-': None, '0': 0.0, '45': 45.0, '-120': -120.0}
REFS = {'def': None,
        'A': (np.array([0.3, -0.2, 9.7]), np.array([21000.0, 1200.0, 43000.0])),
        'U': (np.array([0.0, 0.0, 1.0]), np.array([math.cos(math.radians(60.0)), 0.0, math.sin(math.radians(60.0))]))}
RATES = (0.1, 1.0, 3.0)


def _noise_menu(full):
    if full:
        return [(g, a, m) for g in GYR for a in ACC for m in MAG if g != 'vec' and a != 'vec'] + [('vec', 'vec', 'mid'), ('vec', '0', '0'), ('0', 'vec', '0')]
    out = [(g, a, m) for g in ('0', 'def') for a in ('0', 'def') for m in ('0', 'def')]
    out += [('big', 'big', 'big'), ('big', 'big', 'mid'), ('0', 'big', 'mid'), ('big', '0', 'big'), ('vec', 'vec', 'mid'), ('vec', '0', '0'), ('0', 'vec', '0')]
    return out


def _traj_names():
    names = ['still']
    names += [f'ax{j}r{r:g}' for j in range(len(A.AXES())) for r in RATES]
    names += ['pw1', 'pw2', 'pole']
    # nose-down / nose-up within a fraction of a degree of the vertical (never exactly on it), heading and roll generic
    names += ['npole', 'ppole']
    # trajectories whose rows are almost but not exactly unit (rounded to 6 decimals; rescaled by 1 + 3e-6): ground truth = the normalised rows
    names += ['ax5r1~r6', 'pw1~s', 'ax11r3~s', 'pw2~r6']
    # very slow turns (1e-5 ... 1e-7 rad per sample at 100 Hz): consecutive rows are almost, but not, equal
    names += ['ax5r0.001', 'ax11r0.0003', 'ax2r1e-05']
    return names


def _raw(name, Qg):
    """The array actually handed to the library for trajectory `name` (Qg = its unit rows)."""
    if name.endswith('~r6'):
        return np.round(Qg, 6)
    if name.endswith('~s'):
        return Qg * (1.0 + 3e-6)
    return Qg


def _given(name, N, freq, q0):
    """Deterministic (N,4) unit-quaternion trajectory; body rates are bounded by 3 rad/s (pole: pi/100 rad per step)."""
    dt = 1.0 / freq
    name = name.split('~')[0]
    if name in ('npole', 'ppole'):
        sg = -1.0 if name == 'npole' else 1.0
        pitch = sg * (0.5 * math.pi - 1.7e-4) + 5e-4 * (np.arange(N) - N // 2)
        return np.array([rq.rpy2q(0.7, float(pt), 2.5) for pt in pitch])
    if name == 'still':
        return np.tile(q0, (N, 1))
    if name.startswith('ax'):
        j, r = name[2:].split('r')
        ax = A.AXES()[int(j)]
        return rs.qmul_rows(np.tile(q0, (N, 1)), rs.axang_rows(ax, float(r) * dt * np.arange(N)))
    if name == 'pole':      # quarter turns about y in exact steps of pi/100: sample 50 sits on pitch = +90 deg
        return rs.qmul_rows(np.tile(q0, (N, 1)), rs.axang_rows([0, 1, 0], (math.pi / 100.0) * np.arange(N)))
    Q = np.empty((N, 4)); Q[0] = q0
    for k in range(1, N):
        if name == 'pw1':   # x at 1 rad/s, then y at 2 rad/s, then (1,2,3) at 0.5 rad/s
            ax, r = (([1, 0, 0], 1.0), ([0, 1, 0], 2.0), ([1, 2, 3], 0.5))[min(2, 3 * k // N)]
        else:               # pw2: ramp about (-3,1,2) up to 3 rad/s with a pause in the middle third
            ax, r = [-3, 1, 2], (0.0 if N // 3 <= k < 2 * N // 3 else 3.0 * k / N)
        Q[k] = rq.qmul(Q[k - 1], rq.axang2q(ax, r * dt))
        Q[k] /= rq.qnorm(Q[k])
    return Q


class _RecGen:
    """numpy Generator that remembers every standard-normal draw handed to the library."""

    def __init__(self, seed):
        self._g = np.random.default_rng(seed)
        self.draws = []

    def standard_normal(self, *a, **k):
        z = self._g.standard_normal(*a, **k)
        self.draws.append(np.array(z, dtype=float, copy=True))
        return z

    def __getattr__(self, name):
        return getattr(self._g, name)


def _construct(rng, quats, N, freq, kw):
    import ahrs.utils.sensors as S
    from ahrs import QuaternionArray
    rec = _RecGen(rng)
    old = S.GENERATOR
    S.GENERATOR = rec
    try:
        if quats is None:
            s = S.Sensors(num_samples=N, freq=freq, **kw)
        else:
            typ, Q = quats
            if typ == 'QAr':
                # composition: a sequence with sign jumps, repaired in place by the array class, then handed over as the object
                X = Q.copy()
                X[len(X) // 3: len(X) // 2] *= -1.0
                X[-3:] *= -1.0
                obj = QuaternionArray(X)
                obj.remove_jumps()
                s = S.Sensors(obj, freq=freq, **kw)
            elif typ in ('F', 'cols', 'list'):
                X = np.asfortranarray(Q.copy()) if typ == 'F' else (np.array([Q[:, 0], Q[:, 1], Q[:, 2], Q[:, 3]]).T if typ == 'cols' else [[float(x) for x in r] for r in Q])
                s = S.Sensors(X, freq=freq, **kw)
            else:
                s = S.Sensors(QuaternionArray(Q.copy()) if typ == 'QA' else Q.copy(), freq=freq, **kw)
    finally:
        S.GENERATOR = old
    return s, rec


def _kwargs(gl, al, ml, deg, nmag, refs, span=None, yaw=None, degc='py'):
    kw = {}
    if degc == 'np':          # the switch carried by a numpy boolean / a plain integer instead of a Python bool
        kw['in_degrees'] = np.bool_(bool(deg))
    elif degc == 'int':
        kw['in_degrees'] = int(deg)
    if GYR[gl] is not None: kw['gyr_noise'] = np.copy(GYR[gl]) if isinstance(GYR[gl], np.ndarray) else GYR[gl]
    if ACC[al] is not None: kw['acc_noise'] = np.copy(ACC[al]) if isinstance(ACC[al], np.ndarray) else ACC[al]
    if MAG[ml] is not None: kw['mag_noise'] = np.copy(MAG[ml]) if isinstance(MAG[ml], np.ndarray) else MAG[ml]
    if deg and degc == 'py': kw['in_degrees'] = True
    if nmag: kw['normalized_mag'] = True
    if REFS[refs] is not None:
        kw['reference_gravitational_vector'] = REFS[refs][0].copy()
        kw['reference_magnetic_vector'] = REFS[refs][1].copy()
    if span is not None: kw['span'] = span
    if yaw is not None: kw['yaw'] = yaw
    return kw


def _best(obs, predict, cands):
    """min over recorded draws Z of max|obs - predict(Z)| -> (err, index)."""
    best, bj = float('inf'), -1
    for j, Z in enumerate(cands):
        e = np.abs(obs - predict(Z)).max()
        e = float(e) if e == e else float('inf')
        if e < best:
            best, bj = e, j
    return best, bj


def _rows_close(ctx, a, b, tol, site, key, track):
    """max-abs row-wise comparison with a compact violation record (worst row only)."""
    d = np.abs(a - b).reshape(len(a), -1).max(axis=1)
    i = int(np.argmax(d))
    ctx.track(track, d[i])
    return ctx.expect(bool(d[i] <= tol), site, key, {'row': i, 'deviation': float(d[i]), 'observed': a[i]}, b[i], tol)


def _unit_rows(X):
    return X / np.sqrt((X * X).sum(axis=1))[:, None]


def _arr(x, shape, ctx, site, key):
    """Real finite float array of the demanded shape or None (+ violation)."""
    try:
        a = np.asarray(x)
        ok = a.shape == shape and a.dtype.kind in 'fiu' and bool(np.all(np.isfinite(a)))
    except Exception:
        a, ok = None, False
    ctx.expect(ok, site, key, {'shape': list(getattr(a, 'shape', ())), 'dtype': str(getattr(a, 'dtype', type(x)))},
               {'shape': list(shape), 'finite real': True})
    return a.astype(float) if ok else None


def _judge(ctx, key, s, rec, N, freq, gl, al, ml, deg, nmag, refs, given=None):
    """All verdicts for one constructed instance. Returns a dict of facts for pairwise information or None."""
    names = ('accelerometers', 'magnetometers', 'gyroscopes', 'ang_pos', 'ang_vel')
    arrs = {n: _arr(getattr(s, n, None), (N, 3), ctx, f'{n} is a finite (N,3) array', key) for n in names}
    Q = _arr(getattr(s, 'quaternions', None), (N, 4), ctx, 'quaternions is a finite (N,4) array', key)
    Rm = _arr(getattr(s, 'rotations', None), (N, 3, 3), ctx, 'rotations is a finite (N,3,3) array', key)
    bias = _arr(getattr(s, 'biases_gyroscopes', None), (3,), ctx, 'biases_gyroscopes is a finite 3-vector', key)
    g = _arr(getattr(s, 'reference_gravitational_vector', None), (3,), ctx, 'reference_gravitational_vector is a 3-vector', key)
    m = _arr(getattr(s, 'reference_magnetic_vector', None), (3,), ctx, 'reference_magnetic_vector is a 3-vector', key)
    if Q is None or Rm is None or bias is None or g is None or m is None or any(v is None for v in arrs.values()):
        return None
    acc, mag, gyr, ap, av = (arrs[n] for n in names)
    if REFS[refs] is not None:
        ctx.expect(np.array_equal(g, REFS[refs][0]) and np.array_equal(m, REFS[refs][1]),
                   'reference vectors held by the instance are the ones passed', key, [g, m], list(REFS[refs]))
    if given is not None:
        _rows_close(ctx, Q, given, TOL, 'given quaternions are the ground truth', key, 'given.kept')

    # ---- rotations, quaternions and angular positions are the same attitudes -------------------------
    ctx.close(np.sqrt((Q * Q).sum(axis=1)), np.ones(N), TOL, 'quaternions have unit norm', key, track='quat.norm')
    Rref = rs.R_rows(Q)
    _rows_close(ctx, Rm, Rref, TOL, 'rotations[i] = R(quaternions[i])', key, 'rot.vs.quat')
    e_ap = rs.attitude_angle_rows(rs.rpy2q_rows(ap), Q)
    cp = np.abs(np.cos(ap[:, 1]))
    tol_ap = TOL + 1e-13 / np.maximum(cp, 1e-9)
    bad = np.nonzero(~(e_ap <= tol_ap))[0]
    reg = cp > 0.01
    if reg.any():
        ctx.track('angpos.vs.quat[|cos pitch|>0.01]', e_ap[reg].max())
    if (~reg).any():
        ctx.track('angpos.vs.quat[near pole]', e_ap[~reg].max())
        ctx.cls('ang_pos:near-pole rows', int((~reg).sum()))
    ctx.expect(bad.size == 0, 'ang_pos[i] and quaternions[i] are the same attitude', key,
               {'row': int(bad[0]), 'angle': float(e_ap[bad[0]]), 'ang_pos': ap[bad[0]], 'q': Q[bad[0]]} if bad.size else None,
               'angle 0', float(tol_ap[bad[0]]) if bad.size else TOL)

    cands = [Z for Z in rec.draws if Z.shape == (N, 3)]
    if not cands:
        if not ctx.caps:
            ctx.caps.append('no (N,3) standard_normal draw observed: reported-noise identities not judged')
        cands = [np.zeros((N, 3))]
    sig_a, sig_m = getattr(s, 'acc_noise', None), getattr(s, 'mag_noise', None)
    sig_g = getattr(s, 'gyr_noise', None)
    ok_sig = True
    for nm, v in (('acc_noise', sig_a), ('mag_noise', sig_m), ('gyr_noise', sig_g)):
        try:
            vv = np.asarray(v, float)
            good = vv.shape in ((), (3,)) and bool(np.all(np.isfinite(vv))) and bool(np.all(vv >= 0))
        except Exception:
            good = False
        ok_sig &= ctx.expect(good, f'reported {nm} is a finite non-negative scalar (or per-axis triple)', key, repr(v), '>= 0')
    if not ok_sig:
        return None
    sig_a, sig_m, sig_g = np.asarray(sig_a, float), np.asarray(sig_m, float), np.asarray(sig_g, float)

    # ---- accelerometers ---------------------------------------------------------------------------
    gn, mn = float(np.sqrt(g @ g)), float(np.sqrt(m @ m))
    acc_clean, mag_clean = rs.to_body(Rref, g), rs.to_body(Rref, m)
    if al == '0':
        ctx.cls('acc_noise=0')
        _rows_close(ctx, acc / gn, acc_clean / gn, TOL, 'acc_noise=0: accelerometers[i] = R_i^T g exactly', key, 'acc.zero-noise.rel')
    else:
        ctx.cls('acc_noise>0')
    sc = gn + 6.0 * float(sig_a.max())
    e, ja = _best(acc, lambda Z: acc_clean + Z * sig_a, cands)
    ctx.track('acc.reported-noise.rel', e / sc)
    ctx.expect(e <= TOL * sc, 'accelerometers = R^T g + Z * acc_noise (reported noise is the applied one)', key,
               {'residual': e, 'acc_noise': sig_a, 'acc[1]': acc[1], 'R^T g[1]': acc_clean[1]}, 'residual 0', TOL * sc)

    # ---- magnetometers ----------------------------------------------------------------------------
    post = _unit_rows if nmag else (lambda X: X)
    msc = 1.0 if nmag else mn
    if ml == '0':
        ctx.cls('mag_noise=0')
        _rows_close(ctx, mag / msc, post(mag_clean) / msc, TOL,
                    'mag_noise=0: magnetometers[i] = R_i^T m exactly (unit-normalised when normalized_mag)', key,
                    'mag.zero-noise.rel')
    else:
        ctx.cls('mag_noise>0')
    requested = MAG[ml]
    if requested is not None:
        ctx.cls('mag_noise:request-honoured' if np.array_equal(np.asarray(sig_m, float), np.asarray(requested, float)) or (np.ndim(requested) == 0 and float(sig_m.max()) == requested) else 'mag_noise:request-replaced')
    sc = 1.0 if nmag else mn + 6.0 * float(sig_m.max())
    e, jm = _best(mag, lambda Z: post(mag_clean + Z * sig_m), cands)
    ctx.track('mag.reported-noise.rel', e / sc)
    ctx.expect(e <= TOL * sc, 'magnetometers = R^T m + Z * mag_noise (reported noise is the applied one)', key,
               {'residual': e, 'mag_noise': sig_m, 'mag[1]': mag[1], 'R^T m[1]': post(mag_clean)[1]}, 'residual 0', TOL * sc)
    if nmag:
        ctx.cls('normalized_mag')
        ctx.close(np.sqrt((mag * mag).sum(axis=1)), np.ones(N), TOL, 'normalized_mag: rows have unit norm', key, track='mag.unit')
    else:
        ctx.cls('raw_mag')
    # the two auxiliary magnetometer channels, against the reference vectors the instance itself reports
    for nm, rn in (('magnetometers_nd', 'reference_magnetic_vector_nd'), ('magnetometers_enu', 'reference_magnetic_vector_enu')):
        X, rv = getattr(s, nm, None), getattr(s, rn, None)
        if X is None or rv is None:
            continue
        X, rv = np.asarray(X, float), np.asarray(rv, float)
        if X.shape != (N, 3) or rv.shape != (3,):
            ctx.fail(f'{nm} = R^T {rn} + Z * mag_noise', key, {'shape': list(X.shape)}, {'shape': [N, 3]})
            continue
        clean = rs.to_body(Rref, rv)
        sc2 = 1.0 if nmag else float(np.sqrt(rv @ rv)) + 6.0 * float(sig_m.max())
        e, _ = _best(X, lambda Z: post(clean + Z * sig_m), cands)
        ctx.track(f'{nm}.rel', e / sc2)
        ctx.expect(e <= TOL * sc2, f'{nm} = R^T {rn} + Z * mag_noise', key, {'residual': e}, 'residual 0', TOL * sc2)

    # ---- gyroscopes: reported bias / noise, integration -----------------------------------------------
    U = RAD2DEG if deg else 1.0          # output unit per rad/s
    V = 1.0 if deg else DEG2RAD          # output unit per unit of gyr_noise (deg/s)
    ctx.cls('in_degrees' if deg else 'radians')
    resid = gyr - bias - av * U
    sc = 1.0 + float(np.abs(av).max()) * U + 6.0 * float(sig_g.max()) * V
    if gl == '0':
        ctx.cls('gyr_noise=0')
        ctx.track('gyr.zero-noise.rel', float(np.abs(resid).max()) / sc)
        ctx.expect(float(np.abs(resid).max()) <= TOL * sc,
                   'gyr_noise=0: gyroscopes - biases_gyroscopes = ang_vel exactly (reported bias is the applied one)', key,
                   {'max residual': float(np.abs(resid).max()), 'biases_gyroscopes': bias, 'row1': resid[1]}, 'residual 0', TOL * sc)
    else:
        ctx.cls('gyr_noise>0')
    e, jg = _best(resid, lambda Z: Z * sig_g * V, cands)
    ctx.track('gyr.reported-noise.rel', e / sc)
    ctx.expect(e <= TOL * sc, 'gyroscopes - biases_gyroscopes - ang_vel = Z * gyr_noise (reported bias and noise are the applied ones)',
               key, {'residual': e, 'gyr_noise': sig_g, 'biases_gyroscopes': bias, 'row1': resid[1]}, 'residual 0', TOL * sc)

    W = (gyr - bias - cands[jg] * sig_g * V) / U          # rad/s, what an integrator is fed
    # step angles as written along the path the object describes: for a random trajectory that path is the angle history ang_pos (half-angle
    # formulas, continuous in the angles - a sign jump between two rows of `quaternions` is not a turn of the sensor); for a given
    # trajectory it is the given rows themselves
    theta = rs.step_angles(rs.rpy2q_rows(ap) if given is None else Q)
    cum = np.concatenate([[0.0], np.cumsum(rs.chord_defect(theta))])
    Qi = rs.integrate_body_rates(Q[0], W, 1.0 / freq)
    err = rs.attitude_angle_rows(Qi, Q)
    thr = 1.01 * cum + 1e-9
    bad = np.nonzero(~(err <= thr))[0]
    ctx.track('integration.err-minus-rigorous-bound', float((err - cum).max()))
    ctx.track('integration.max-err', float(err.max()))
    if cum[-1] <= 1e-4:
        ctx.cls('integration:tight-bound')          # threshold far below the effect of any rate error
    elif cum[-1] <= 1e-2:
        ctx.cls('integration:medium-bound')
    else:
        ctx.cls('integration:loose-bound')
    ctx.expect(bad.size == 0, 'integrating gyroscopes - biases_gyroscopes from quaternions[0] reproduces quaternions', key,
               {'row': int(bad[0]), 'angle error': float(err[bad[0]]), 'max angle error': float(np.nanmax(err)) if np.isfinite(err).any() else 'nan'}
               if bad.size else None, 'angle error <= 1.01 * sum(theta - 2 sin(theta/2)) + 1e-9',
               float(thr[bad[0]]) if bad.size else None)
    ctx.traces += 1
    ctx.outcome((tuple(np.round(acc[N // 2], 9)), tuple(np.round(gyr[N // 2], 9)), tuple(np.round(mag[N // 2], 6))))
    return {'bias_phys': bias / U, 'Q': Q, 'moving': bool(theta.max() > 1e-9), 'theta_max': float(theta.max())}


def _repeat(ctx, key, s, build):
    """Same generator state -> identical data."""
    s2, _ = build()
    same = all(np.array_equal(np.asarray(getattr(s, n)), np.asarray(getattr(s2, n)))
               for n in ('accelerometers', 'magnetometers', 'gyroscopes', 'quaternions', 'biases_gyroscopes'))
    ctx.expect(same, 'same generator state gives the same data', key, 'differs', 'identical')


def _case(ctx, key, build, N, freq, combo, deg, nmag, refs, given=None):
    gl, al, ml = combo
    try:
        s, rec = build()
    except Exception as ex:
        ctx.expect(False, 'Sensors(...) constructs', key, f'{type(ex).__name__}: {ex}', 'an instance')
        return None
    facts = _judge(ctx, key, s, rec, N, freq, gl, al, ml, deg, nmag, refs, given)
    if combo == ('def', 'def', 'def'):
        _repeat(ctx, key, s, build)
    if facts is not None and (combo in (('0', '0', '0'), ('def', 'def', 'def')) or given is not None):
        # two objects alive at once: ANOTHER Sensors object (other length, other unit, other noise) is built and regenerated; the first one
        # still satisfies every clause with the draws it was built from (nothing is shared between instances)
        import ahrs.utils.sensors as S
        old = S.GENERATOR
        S.GENERATOR = np.random.default_rng(77)
        try:
            other = S.Sensors(num_samples=N + 3, freq=freq, in_degrees=not deg, gyr_noise=1.0, acc_noise=0.0, mag_noise=0.0, normalized_mag=not nmag)
            other.generate(other.rotations)
        except Exception as ex:
            other = None
            ctx.expect(False, 'a second Sensors object constructs', key, f'{type(ex).__name__}: {ex}', 'an instance')
        finally:
            S.GENERATOR = old
        if other is not None:
            _judge(ctx, key + ' [after another Sensors object was built]', s, rec, N, freq, gl, al, ml, deg, nmag, refs, given)
            ctx.cls('history:two-objects')
        # history: the public generate() called again on the same object (a new noise realisation) - the object again satisfies every clause
        rec2 = _RecGen(1000 + (len(key) % 7))
        old = S.GENERATOR
        S.GENERATOR = rec2
        try:
            s.generate(s.rotations)
        except Exception as ex:
            ctx.expect(False, 'generate() called again on the same object', key, f'{type(ex).__name__}: {ex}', 'new samples')
            return facts
        finally:
            S.GENERATOR = old
        _judge(ctx, key + ' [after a second generate()]', s, rec2, N, freq, gl, al, ml, deg, nmag, refs, given)
        ctx.cls('history:generate-again')
        # the public unit flag assigned on the live object, then generate() again: the object follows its CURRENT attributes
        rec3 = _RecGen(2000 + (len(key) % 5))
        old = S.GENERATOR
        S.GENERATOR = rec3
        try:
            s.in_degrees = not bool(deg)
            s.generate(s.rotations)
        except Exception as ex:
            ctx.expect(False, 'generate() after in_degrees was assigned on the object', key, f'{type(ex).__name__}: {ex}', 'new samples')
            return facts
        finally:
            S.GENERATOR = old
        _judge(ctx, key + ' [in_degrees assigned on the object, generate() again]', s, rec3, N, freq, gl, al, ml, 0 if deg else 1, nmag, refs, given)
        ctx.cls('history:unit-flag-assigned')
    return facts


def job_random(ctx, N, freq, span, yaw, refs, rngs, full):
    first = True
    for rng in rngs:
        for combo in _noise_menu(full):
            phys = {}
            for deg in (0, 1):
                for nmag in (0, 1):
                    gl, al, ml = combo
                    key = (f'rand N={N} f={freq:g} span={span} yaw={yaw} refs={refs} gyr={gl} acc={al} mag={ml} '
                           f'deg={deg} nmag={nmag} rng={rng}')
                    build = lambda: _construct(rng, None, N, float(freq), _kwargs(gl, al, ml, deg, nmag, refs, SPANS[span], YAWS[yaw]))
                    facts = _case(ctx, key, build, N, float(freq), combo, deg, nmag, refs)
                    ctx.cls('mode:random'); ctx.cls(f'N={N}'); ctx.cls('refs:default' if refs == 'def' else 'refs:explicit')
                    if facts is None:
                        continue
                    if facts['moving']:
                        ctx.seen(key)
                    phys[(deg, nmag)] = facts
                    if first:
                        first = False
                        ctx.sample({'case': key, 'quaternions[0:2]': facts['Q'][:2], 'max step angle': facts['theta_max']})
            _deg_info(ctx, phys)


def _deg_info(ctx, phys):
    """Information only: physical size of the bias with in_degrees vs without (same generator state)."""
    a, b = phys.get((0, 0)), phys.get((1, 0))
    if a and b and np.abs(a['bias_phys']).max() > 0:
        ctx.track('info.physical-bias(in_degrees)/physical-bias(radians)',
                  float(np.abs(b['bias_phys']).max() / np.abs(a['bias_phys']).max()))
        ctx.track('info.trajectory differs between in_degrees settings', float(np.abs(a['Q'] - b['Q']).max()))


def job_ownership(ctx):
    """A Sensors object built from a caller's trajectory keeps describing THAT trajectory when the caller later reuses (rotates, rescales,
    overwrites) the array it handed over: ground truth, rotations and samples stay mutually consistent."""
    import ahrs
    from ahrs.utils import sensors as S
    from mc.ref import quat as rq
    N = 40
    axis = np.array([0.3, -0.5, 0.8]); axis /= np.linalg.norm(axis)
    traj = np.array([rq.axang2q(axis, 0.02 * i) for i in range(N)])
    g = rq.qunit([0.7, -0.3, -0.2, 0.6])
    old = S.GENERATOR
    try:
        for typ in ('QuaternionArray', 'ndarray'):
            S.GENERATOR = np.random.default_rng(7)
            given = ahrs.QuaternionArray(traj.copy()) if typ == 'QuaternionArray' else traj.copy()
            imu = ahrs.Sensors(quaternions=given, num_samples=N, gyr_noise=0.0, acc_noise=0.0, mag_noise=0.0)
            q_before = np.array(np.asarray(imu.quaternions), float).copy()
            acc_before = np.array(imu.accelerometers, float).copy()
            # the caller reuses its array for a second, differently mounted sensor
            if typ == 'QuaternionArray':
                given.rotate_by(g.copy(), inplace=True)
            else:
                given[:] = np.array([rq.qmul(g, r) for r in given])
            S.GENERATOR = np.random.default_rng(8)
            imu2 = ahrs.Sensors(quaternions=given, num_samples=N, gyr_noise=0.0, acc_noise=0.0, mag_noise=0.0)
            key = f'given as {typ}, caller rotates its array in place afterwards'
            q_after = np.array(np.asarray(imu.quaternions), float)
            ctx.expect(q_after.shape == q_before.shape and np.abs(q_after - q_before).max() == 0.0, 'Sensors.quaternions unaffected by later changes of the caller trajectory', key, q_after[:2], q_before[:2])
            R = np.asarray(imu.rotations, float)
            Rq = np.array([rq.R(rq.qunit(q)) for q in q_after])
            ctx.close(R, Rq, 1e-12, 'rotations and quaternions of the first object still describe the same attitudes', key)
            gref = np.asarray(imu.reference_gravitational_vector, float) if hasattr(imu, 'reference_gravitational_vector') else None
            ctx.close(np.array(imu.accelerometers, float), acc_before, 0.0, 'accelerometers of the first object unchanged', key)
            ctx.expect(not np.shares_memory(np.asarray(imu.quaternions), np.asarray(given)), 'Sensors.quaternions does not share memory with the caller trajectory', key, True, False)
            ctx.seen(('own', typ)); ctx.cls('ownership')
    finally:
        S.GENERATOR = old
    ctx.sample({'ownership': 'Sensors(quaternions=Q); Q.rotate_by(g, inplace=True); re-check the first object'})


def job_given(ctx, names, N, freq, q0name, rngs, full):
    q0 = np.array([1.0, 0.0, 0.0, 0.0]) if q0name == 'I' else A.MENU[int(q0name[1:])].copy()
    for ti, name in enumerate(names):
        Qg = _given(name, N, float(freq), q0)
        Qraw = _raw(name, Qg)
        Qg = Qraw / np.sqrt((Qraw * Qraw).sum(axis=1))[:, None]
        typ = 'QA' if (ti + (q0name != 'I')) % 2 == 0 else 'nd'
        if ti % 5 == 3 and '~' not in name:
            typ = 'QAr'
        if ti % 5 == 1:
            typ = ('F', 'cols', 'list')[(ti // 5) % 3]          # the same rows in another memory layout / container
        degc = ('py', 'np', 'int')[ti % 3]
        first = True
        for rng in rngs:
            for combo in _noise_menu(full):
                phys = {}
                for deg in (0, 1):
                    for nmag in (0, 1):
                        gl, al, ml = combo
                        refs = 'A' if (deg + nmag + ti) % 2 == 0 else 'def'
                        key = (f'given traj={name} N={N} f={freq:g} q0={q0name} typ={typ} refs={refs} gyr={gl} acc={al} mag={ml} '
                               f'deg={deg}' + ('' if degc == 'py' else f'(as {degc})') + f' nmag={nmag} rng={rng}')
                        build = lambda: _construct(rng, (typ, Qraw), N, float(freq), _kwargs(gl, al, ml, deg, nmag, refs, degc=degc))
                        facts = _case(ctx, key, build, N, float(freq), combo, deg, nmag, refs, given=Qg)
                        ctx.cls('mode:given'); ctx.cls('refs:default' if refs == 'def' else 'refs:explicit')
                        if name in ('pw1', 'pw2'): ctx.cls('given:piecewise')
                        if name == 'pole': ctx.cls('given:through-pole')
                        if name in ('npole', 'ppole'): ctx.cls('given:near-pole')
                        if '~' in name: ctx.cls('given:near-unit rows')
                        if degc != 'py': ctx.cls('in_degrees:other carrier')
                        if typ == 'QAr': ctx.cls('given:repaired QuaternionArray object')
                        if typ in ('F', 'cols', 'list'): ctx.cls('given:other layout / container')
                        if facts is None:
                            continue
                        if facts['moving']:
                            ctx.seen(key)
                        phys[(deg, nmag)] = facts
                        if first:
                            first = False
                            ctx.sample({'case': key, 'quaternions[0:2]': Qg[:2], 'max step angle': facts['theta_max']})
                _deg_info(ctx, phys)


def run(ctx):
    thorough = ctx.thorough
    rngs = sorted({0, 1, int(ctx.seed)} | ({2, 3, 5} if thorough else set()))
    jobs = []
    # ---- random trajectories -----------------------------------------------------------------------
    Ns = (10, 11, 12, 50, 51, 100, 200, 500) if thorough else (10, 11, 50, 200)
    spans = ('def', 'half', 'small', 'list', 'quarter') if thorough else ('def', 'half', 'small')
    yaws = ('-', '0', '45', '-120') if thorough else ('-', '0', '45')
    for N in Ns:
        cfgs = [(100.0, sp, yw, refs) for sp in spans for yw in yaws for refs in ('def', 'A') if thorough or refs == 'def' or yw == '-']
        cfgs.append((100.0, 'def', '-', 'U'))
        cfgs += [(100.0, 'wide', '-', 'def'), (100.0, 'turns', '-', 'def')]        # angle histories that pass +-180 degrees
        cfgs += [(12.5, 'def', '-', 'def'), (59.94, 'half', '-', 'def')]           # sampling rates that are not a whole number of Hz
        if thorough:
            cfgs += [(f, 'def', '-', refs) for f in (25.0, 1000.0) for refs in ('def', 'A')]
        for f, sp, yw, refs in cfgs:
            for part in ([[r] for r in rngs] if thorough else [rngs]):
                jobs.append(('job_random', (N, f, sp, yw, refs, part, True)))
    # ---- given trajectories ------------------------------------------------------------------------
    names = _traj_names()
    ks = list(range(len(A.MENU))) if thorough else [A.seed_k(ctx.seed)]
    grngs = sorted({0, 1, int(ctx.seed)}) if thorough else sorted({0, int(ctx.seed)})
    for f, N in (((100.0, 120), (25.0, 60), (100.0, 400), (1000.0, 52), (59.94, 60)) if thorough else ((100.0, 80), (25.0, 60), (59.94, 60))):
        q0s = ['I'] + [f'M{k}' for k in (ks if (f, N) == (100.0, 120) or not thorough else [A.seed_k(ctx.seed)])]
        for q0 in q0s:
            full = thorough and q0 == 'I'
            for lo, hi in core.chunks(len(names), 28 if full else (14 if thorough else 8)):
                jobs.append(('job_given', (names[lo:hi], N, f, q0, grngs, full)))
    # record lengths around the powers of two (a blocked evaluation has its last partial block there), light configuration
    for N in ((127, 128, 129, 130, 255, 256, 257, 385, 513, 1025) if thorough else (128, 129, 257)):
        jobs.append(('job_random', (N, 100.0, 'def', '-', 'def', [rngs[0]], False)))
        jobs.append(('job_given', (['ax5r1', 'pw1'], N, 100.0, 'I', [grngs[0]], False)))
    jobs.append(('job_ownership', ()))
    core.run_jobs(ctx, __name__, jobs)
    ctx.notes['generator_seeds'] = rngs
    ctx.notes['noise_menu'] = {'gyr_noise [deg/s]': GYR, 'acc_noise': ACC, 'mag_noise': MAG}
