"""C10 — attitude representations round-trip (Euler, axis-angle, log/exp, powers, Euler sequences, matrix log)."""
import itertools, math
import numpy as np
from mc import core, alphabet as A
from mc.ref import quat as rq

PID = 'C10'
LEVEL = 'exploration'
RULE = ('exhaustive grids: (roll, pitch, yaw) lattice; AXES x angles in (0, pi); exponent grid and all exponent pairs; all 39 axis '
        'sequences x angle triples; a case is distinct by (law, grid point) and non-trivial when the rotation is not the identity')
ASSUMPTIONS = ['Euler round trip compared modulo 2 pi with tolerance 1e-12 / cos^2(pitch) (conditioning of arcsin near +-pi/2)',
               'axis-angle round trips are judged at the rotation level (rebuilt by the reference, 1e-7 rad); parameters are compared (1e-9) only '
               'for angles in [1e-3, pi - 1e-3] where they are well conditioned',
               'DCM.log: skew-symmetry 1e-12, Frobenius norm sqrt(2) theta within 1e-7 absolute, for angles in [0, pi - 1e-3]; sign convention not asserted',
               'powers: 1e-10 for angles >= 1e-2, 1e-6 below (same arccos conditioning, amplified by |a| <= 3)', 'powers: q**a compared as a rotation (sign-agnostic) AND as a quaternion for |a theta| <= pi (principal branch)',
               'exp(log q) = q: 1e-12 for angles >= 1e-2, 1e-7 below (the logarithm uses arccos of the scalar part, absolute error eps/sin(theta/2))',
               'matrix <-> axis-angle parameter comparison near 0 and pi is not made: arccos of the trace loses half of the digits there']
REQUIRED_CLASSES = ['rpy', 'rpy:degrees', 'axang', 'explog:unit', 'explog:nonunit', 'pow', 'pow-pairs', 'seq len1', 'seq len2', 'seq len3', 'log:small', 'log:regular', 'orders-and-objects', 'objects:changed-in-place', 'keyword-order']

PI = math.pi
RY = [-PI + 1e-9, -3.0, -PI / 2, -1.0, -1e-3, -1e-9, 0.0, 1e-9, 1e-3, 0.7, PI / 2, 2.0, 2.5, 3.0, PI - 1e-9, PI]     # roll / yaw, 16
PITCH = [-(PI / 2 - 1e-6), -1.5, -1.0, -1e-3, 0.0, 1e-9, 0.3, 1.2, 1.5, PI / 2 - 1e-6]                               # 10
EXPO = [-3.0, -2.0, -1.0, -0.5, 0.0, 1.0 / 3.0, 0.5, 1.0, 2.0, 3.0]


def wrap(a):
    return (a + PI) % (2 * PI) - PI


def job_rpy(ctx, lo, hi):
    from ahrs import Quaternion, QuaternionArray
    from ahrs.common import orientation as O
    for ir in range(lo, hi):
        roll = RY[ir]
        rows = []
        for ip, pitch in enumerate(PITCH):
            tol = 1e-12 / math.cos(pitch) ** 2
            for iy, yaw in enumerate(RY):
                key = f'roll={roll:.12g} pitch={pitch:.12g} yaw={yaw:.12g}'
                ang = np.array([roll, pitch, yaw])
                qref = rq.rpy2q(roll, pitch, yaw)
                rows.append((key, ang, qref, tol))
                for route, mk, back in (
                        ('Quaternion(rpy=).to_angles', lambda: Quaternion(rpy=ang.copy()), lambda q: np.asarray(q.to_angles())),
                        ('rpy2q->q2rpy', lambda: O.rpy2q(ang.copy()), lambda q: np.asarray(O.q2rpy(np.asarray(q).copy())))):
                    q = mk()
                    qa = np.asarray(q)
                    e = min(np.abs(qa - qref).max(), np.abs(qa + qref).max())
                    ctx.expect(e <= 1e-12, f'{route}: quaternion = qz(yaw) qy(pitch) qx(roll)', key, qa, qref, 1e-12)
                    out = back(q)
                    d = float(np.abs(wrap(out - ang)).max())
                    ctx.track('rpy.roundtrip*cos^2', d * math.cos(pitch) ** 2)
                    ctx.expect(d <= tol, f'{route}: angles round-trip', key, out, ang, tol)
                ctx.seen(('rpy', ir, ip, iy))
                ctx.cls('rpy')
        # the conversion METHODS called directly, all results of this roll kept alive and judged afterwards (a result may not be
        # overwritten by a later conversion)
        kept = []
        for (key, ang, qref, tol) in rows[::5]:
            kept.append((key, ang, qref, Quaternion().from_rpy(ang.copy()), Quaternion().from_angles(ang.copy()), O.rpy2q(ang.copy())))
        for key, ang, qref, r1, r2, r3 in kept:
            for nm, rr_ in (('Quaternion.from_rpy', r1), ('Quaternion.from_angles', r2), ('rpy2q', r3)):
                ra = np.asarray(rr_, float)
                e = min(np.abs(ra - qref).max(), np.abs(ra + qref).max()) if ra.shape == (4,) else float('inf')
                ctx.expect(e <= 1e-12, f'{nm}: result kept while other conversions are made still equals qz(yaw) qy(pitch) qx(roll)', key, ra, qref, 1e-12)
        # the degree option of the function routes, the caller keeping and re-using its array of degrees
        for (key, ang, qref, tol) in rows[::5]:
            deg = np.degrees(ang)
            deg0 = deg.copy()
            for nm, fn in (('rpy2q', O.rpy2q), ('cardan2q', O.cardan2q)):
                q1 = np.asarray(fn(deg, in_deg=True), float)
                ctx.expect(np.array_equal(deg, deg0), f"{nm}(angles, in_deg=True) leaves the caller's array of degrees unchanged", key, deg.copy(), deg0)
                deg[...] = deg0
                e = min(np.abs(q1 - qref).max(), np.abs(q1 + qref).max()) if q1.shape == (4,) else float('inf')
                ctx.expect(e <= 1e-12, f'{nm}(degrees, in_deg=True): quaternion = qz(yaw) qy(pitch) qx(roll)', key, q1, qref, 1e-12)
                q2 = np.asarray(fn(deg, in_deg=True), float)
                deg[...] = deg0
                ctx.expect(np.array_equal(q1, q2), f'{nm}(degrees, in_deg=True): converting the same array twice gives the same quaternion', key, q2, q1)
                if q1.shape == (4,):
                    qk = q1.copy()
                    b = np.asarray(O.q2rpy(qk, in_deg=True), float)
                    ctx.expect(np.array_equal(qk, q1), "q2rpy(q, in_deg=True) leaves the caller's quaternion unchanged", key, qk, q1)
                    ctx.expect(float(np.abs(wrap(np.radians(b) - ang)).max()) <= tol, f'{nm} -> q2rpy in degrees: angles round-trip', key, b, deg0, tol)
            ctx.cls('rpy:degrees')
        DegN = np.degrees(np.array([r[1] for r in rows[::5]])); DegN0 = DegN.copy()
        QN = np.asarray(O.rpy2q(DegN, in_deg=True), float)
        ctx.expect(np.array_equal(DegN, DegN0), "rpy2q(N-by-3 angles, in_deg=True) leaves the caller's array unchanged", f'roll={roll:.12g}', DegN[:1].copy(), DegN0[:1])
        if QN.shape == (len(DegN0), 4):
            for (key, ang, qref, tol), q in zip(rows[::5], QN):
                e = min(np.abs(q - qref).max(), np.abs(q + qref).max())
                ctx.expect(e <= 1e-12, 'rpy2q(N-by-3 degrees, in_deg=True): rows = qz(yaw) qy(pitch) qx(roll)', key, q, qref, 1e-12)
        # N-row batches of every small size through the function and the array class (N = 3 is a square 3-by-3 block of angles)
        for nb in (1, 2, 3, 4, 5):
            for off in (0, 7):
                sub = rows[off:off + nb]
                if len(sub) < nb:
                    continue
                AngN = np.array([r[1] for r in sub])
                for nm, fn in (('rpy2q(N-by-3)', lambda: np.asarray(O.rpy2q(AngN.copy()), float).T), ('QuaternionArray(rpy=N-by-3)', lambda: np.asarray(QuaternionArray(rpy=AngN.copy()), float))):
                    try:
                        QN_ = fn()
                    except Exception as ex:
                        ctx.fail(f'{nm} raises', f'roll={roll:.12g} N={nb} offset={off}', repr(ex)[:160], 'N quaternions')
                        continue
                    okN = QN_.shape == (nb, 4) and all(min(np.abs(QN_[j] - sub[j][2]).max(), np.abs(QN_[j] + sub[j][2]).max()) <= 1e-12 for j in range(nb))
                    ctx.expect(okN, f'{nm}: row j = qz(yaw) qy(pitch) qx(roll) of triple j, for every small N', f'roll={roll:.12g} N={nb} offset={off}', QN_, [r[2].tolist() for r in sub], 1e-12)
        # array route, all rows of this roll at once
        Ang = np.array([r[1] for r in rows])
        QA = QuaternionArray(rpy=Ang.copy())
        back = np.asarray(QA.to_angles())
        for (key, ang, qref, tol), q, b in zip(rows, np.asarray(QA), back):
            e = min(np.abs(q - qref).max(), np.abs(q + qref).max())
            ctx.expect(e <= 1e-12, 'QuaternionArray(rpy=): quaternion = qz(yaw) qy(pitch) qx(roll)', key, q, qref, 1e-12)
            ctx.expect(float(np.abs(wrap(b - ang)).max()) <= tol, 'QuaternionArray(rpy=).to_angles: angles round-trip', key, b, ang, tol)
    ctx.sample({'rpy': [RY[lo], PITCH[2], RY[5]]})


THOROUGH = False


def _axes():
    ax = list(A.AXES())
    if THOROUGH:      # + the 31 rotation axes of the icosahedral group and of two oblique conjugates (no alignment with x, y, z)
        for G in (A.G120(), A.Gc(A.G120(), 0), A.Gc(A.G120(), 5)):
            seen = []
            for q in G:
                v = q[1:]
                n = math.sqrt(float(v @ v))
                if n < 1e-9:
                    continue
                v = v / n
                if not any(abs(abs(float(v @ w)) - 1) < 1e-9 for w in seen):
                    seen.append(v)
            ax += seen
    return ax


def _axang_cases():
    out = []
    for ia, ax in enumerate(_axes()):
        for ang in A.ANG():
            if 0.0 < ang < PI:
                out.append((ia, ax / math.sqrt(float(ax @ ax)), ang))
    return out


def job_axang(ctx, lo, hi):
    _set_tier(ctx)
    from ahrs import Quaternion, DCM
    from ahrs.common import orientation as O
    for ia, n, ang in _axang_cases()[lo:hi]:
        key = f'axis{ia} angle={ang:.13g}'
        qref = rq.axang2q(n, ang)
        Rref = rq.axang2R(n, ang)
        wellc = 1e-3 <= ang <= PI - 1e-3
        # quaternion -> axis-angle
        for route, fn in (('Quaternion.to_axang', lambda: Quaternion(qref.copy()).to_axang()),
                          ('quat2axang', lambda: O.quat2axang(qref.copy()))):
            ax2, an2 = fn()
            ax2 = np.asarray(ax2, float)
            ok = np.all(np.isfinite(ax2)) and np.isfinite(an2) and float(ax2 @ ax2) > 0
            if not np.any(ax2) and an2 == 0.0:
                err = ang
            else:
                err = rq.qangle(rq.axang2q(ax2, float(an2)), qref) if ok else float('inf')
            ctx.track('axang.q->aa', err)
            ctx.expect(err <= 1e-7, f'{route}: same rotation', key, [ax2, an2], [n, ang], 1e-7)
            if wellc and ok:
                ctx.expect(abs(an2 - ang) <= 1e-9 and np.abs(ax2 - n).max() <= 1e-9, f'{route}: parameters', key, [ax2, an2], [n, ang], 1e-9)
        # the antipode -q (negative scalar part; also what q**a and the Euler routes produce) is the same rotation through both routes,
        # and the method and the function agree on it
        outs = {}
        for route, fn in (('Quaternion.to_axang', lambda: Quaternion((-qref).copy()).to_axang()), ('quat2axang', lambda: O.quat2axang((-qref).copy()))):
            ax2, an2 = fn()
            ax2 = np.asarray(ax2, float)
            ok = np.all(np.isfinite(ax2)) and np.isfinite(an2) and float(ax2 @ ax2) > 0
            err = ang if (not np.any(ax2) and an2 == 0.0) else (rq.qangle(rq.axang2q(ax2, float(an2)), qref) if ok else float('inf'))
            ctx.expect(err <= 1e-7, f'{route}(-q): same rotation as q', key, [ax2, an2], [n, ang], 1e-7)
            outs[route] = rq.axang2q(ax2, float(an2)) if ok and np.any(ax2) else np.array([1.0, 0, 0, 0])
        ctx.expect(rq.qangle(outs['Quaternion.to_axang'], outs['quat2axang']) <= 1e-7, 'Quaternion.to_axang and quat2axang describe the same rotation for -q', key,
                   outs['Quaternion.to_axang'], outs['quat2axang'], 1e-7)
        # axis-angle -> quaternion
        q2 = np.asarray(O.axang2quat((n * 2.5).copy(), ang))
        ctx.expect(min(np.abs(q2 - qref).max(), np.abs(q2 + qref).max()) <= 1e-12, 'axang2quat = reference', key, q2, qref, 1e-12)
        q3 = np.asarray(O.axang2quat((n * 2.5).copy(), math.degrees(ang), rad=False))
        ctx.expect(min(np.abs(q3 - qref).max(), np.abs(q3 + qref).max()) <= 1e-12, 'axang2quat(rad=False) = reference', key, q3, qref, 1e-12)
        # matrix <-> axis-angle
        for route, fn in (('DCM(axang=)', lambda: np.asarray(DCM(axang=((n * 0.3).copy(), ang)))),
                          ('DCM.from_axisangle', lambda: np.asarray(DCM().from_axisangle((n * 7.0).copy(), ang))),
                          ('DCM.from_axang', lambda: np.asarray(DCM().from_axang((n * 7.0).copy(), ang)))):
            M = fn()
            ctx.close(M, Rref, 1e-12, f'{route} = Rodrigues reference', key, track='axang.aa->R')
        for route, fn in (('DCM.to_axisangle', lambda: DCM(Rref.copy()).to_axisangle()), ('DCM.to_axang', lambda: DCM(Rref.copy()).to_axang())):
            ax2, an2 = fn()
            ax2 = np.asarray(ax2, float)
            ok = np.all(np.isfinite(ax2)) and np.isfinite(an2) and float(ax2 @ ax2) > 0
            if not np.any(ax2) and an2 == 0.0:          # "no rotation" answer: judged as the identity
                err = rq.rot_angle_R(Rref)
            else:
                err = rq.angle_between_R(rq.axang2R(ax2, float(an2)), Rref) if ok else float('inf')
            ctx.track('axang.R->aa', err)
            ctx.expect(err <= 1e-7, f'{route}: same rotation', key, [ax2, an2], [n, ang], 1e-7)
            if wellc and ok:
                ctx.expect(abs(an2 - ang) <= 1e-9 and np.abs(ax2 - n).max() <= 1e-9, f'{route}: parameters', key, [ax2, an2], [n, ang], 1e-9)
            elif ok and 1e-7 <= ang < 1e-3:
                # small angles: the matrix carries the angle in its off-diagonal elements to full relative precision; a round trip that returns
                # 1e-6 rad for 1e-6 rad to six digits is demanded (an arccos of the trace cannot do that)
                ctx.expect(abs(an2 - ang) <= 1e-6 * ang and np.abs(ax2 - n).max() <= 1e-6, f'{route}: small angle returned to six digits', key, [ax2, an2], [n, ang], 1e-6 * ang)
        # exp(log q) = q
        Qq = Quaternion(qref.copy())
        lg = np.asarray(Qq.logarithm)
        one = np.array([1.0, 0, 0, 0])
        ex = np.asarray(Quaternion(lg.copy(), versor=False).exponential) if np.any(lg) else one
        # the logarithm takes arccos(w): absolute error ~ eps / sin(theta/2); 1e-12 is demanded only where that is < 1e-13
        tl = 1e-12 if ang >= 1e-2 else 1e-7
        ctx.close(ex, qref, tl, 'exp(log q) = q (unit)', key, track='explog' if ang >= 1e-2 else 'explog.small')
        lg2 = np.asarray(Qq.log)
        ctx.close(np.asarray(Quaternion(lg2.copy(), versor=False).exp) if np.any(lg2) else one, qref, tl, 'exp(log q) = q (unit, .log/.exp aliases)', key)
        ctx.close(lg, np.array([0.0, *(0.5 * ang * n)]), 1e-9 if wellc else 1e-7, 'log q = (0, theta/2 n)', key)
        # composition: the 3-element vector part of a logarithm (half rotation vector) fed back as a pure, NON-versor quaternion
        if ang >= 1e-2:
            for nm3, v3 in (('log(q)[1:]', lg[1:].copy()), ('theta/2 n', 0.5 * ang * n)):
                try:
                    P3 = Quaternion(v3.copy(), versor=False)
                    ctx.close(np.asarray(P3, float), np.array([0.0, *v3]), 1e-15, 'Quaternion(3-vector, versor=False) = (0, v) with its norm kept', f'{key} v={nm3}')
                    ctx.close(np.asarray(P3.exponential, float), qref, 1e-9, 'exp of the pure quaternion built from a 3-vector with versor=False = q', f'{key} v={nm3}')
                except Exception as ex:
                    ctx.fail('Quaternion(3-vector, versor=False).exponential raises', f'{key} v={nm3}', repr(ex)[:120], qref)
        ctx.cls('explog:unit')
        ctx.cls('axang')
        ctx.seen(('axang', ia, ang))
        # DCM.log
        if ang <= PI - 1e-3:
            L = np.asarray(DCM(Rref.copy()).log)
            ctx.close(L + L.T, np.zeros((3, 3)), 1e-12, 'DCM.log is skew-symmetric', key)
            fro = math.sqrt(float((L * L).sum())) if np.all(np.isfinite(L)) else float('nan')
            ctx.track('log.fro', abs(fro - math.sqrt(2) * ang))
            ctx.expect(abs(fro - math.sqrt(2) * ang) <= 1e-7, 'DCM.log: |log R|_F = sqrt(2) theta', key, fro, math.sqrt(2) * ang, 1e-7)
            ctx.cls('log:small' if ang < 6e-3 else 'log:regular')
    ctx.sample({'axis': _axang_cases()[lo][1].tolist(), 'angle': _axang_cases()[lo][2]})


def job_explog_nonunit(ctx):
    from ahrs import Quaternion
    lat = A.LAT4(2, normalise=False)
    for i, q in enumerate(lat):
        if not np.any(q[1:]) and q[0] < 0:
            continue            # negative reals have no real logarithm
        for s in (1.0, 0.37):
            qq = q * s
            key = f'LAT4(2)[{i}]*{s} q={qq.tolist()}'
            lg = np.asarray(Quaternion(qq.copy(), versor=False).logarithm)
            ex = np.asarray(Quaternion(lg.copy(), versor=False).exponential) if np.any(lg) else np.array([1.0, 0, 0, 0])
            ctx.close(ex, qq, 1e-12 * max(1.0, rq.qnorm(qq)), 'exp(log q) = q (non-unit)', key, track='explog.nonunit')
            ctx.cls('explog:nonunit')
            ctx.seen(('explog', i, s))
    ctx.sample({'nonunit': lat[100].tolist()})


def job_pow(ctx, lo, hi):
    _set_tier(ctx)
    from ahrs import Quaternion
    one = np.array([1.0, 0, 0, 0])
    for ia, n, ang in _axang_cases()[lo:hi]:
        if not (1e-6 <= ang <= PI - 1e-6):
            continue
        q = rq.axang2q(n, ang)
        Qq = Quaternion(q.copy())
        P = {}
        for a in EXPO:
            key = f'axis{ia} angle={ang:.13g} a={a:.6g}'
            try:
                r = np.asarray(Qq ** a, float)
            except Exception as ex:
                ctx.evals += 1
                ctx.fail('q**a raises', key, repr(ex), 'a quaternion')
                continue
            P[a] = r
            ref = rq.axang2q(n, a * ang)
            ok = r.shape == (4,) and np.all(np.isfinite(r)) and abs(rq.qnorm(r) - 1) <= 1e-9
            err = rq.qangle(r / rq.qnorm(r), ref) if ok else float('inf')
            tp = 1e-10 if ang >= 1e-2 else 1e-6       # logarithm = arccos(w): absolute error eps/sin(theta/2), times |a|
            ctx.track('pow.rotation' if ang >= 1e-2 else 'pow.rotation.small', err)
            ctx.expect(ok and err <= tp, 'q**a = rotation about the same axis by a*theta', key, r, ref, 1e-9)
            if abs(a * ang) <= PI:
                ctx.close(r, ref, tp, 'q**a = (cos(a theta/2), n sin(a theta/2)) (principal branch)', key)
            if a == 1.0:
                ctx.close(r, q, 1e-12 if ang >= 1e-2 else 1e-7, 'q**1 = q', key)
            if a == 0.0:
                ctx.close(r, one, 1e-12, 'q**0 = 1', key)
            # the same exponent carried by other numeric types
            carriers = [('numpy.float64', np.float64(a)), ('numpy.float32', np.float32(a))] if float(np.float32(a)) == a else [('numpy.float64', np.float64(a))]
            if a == int(a):
                carriers += [('int', int(a)), ('numpy.int64', np.int64(int(a))), ('numpy.int8', np.int8(int(a)))]
            for cn, ac in carriers:
                try:
                    rc = np.asarray(Qq ** ac, float)
                except TypeError:
                    ctx.outcome(('exponent-type-refused', cn))
                    continue
                except Exception as ex:
                    ctx.fail('q**a raises', f'{key} exponent-type={cn}', repr(ex), 'a quaternion')
                    continue
                ctx.close(rc, r, 1e-12, 'q**a does not depend on the numeric type carrying the exponent', f'{key} exponent-type={cn}')
            ctx.cls('pow')
            ctx.seen(('pow', ia, ang, a))
        for a, b in itertools.product(EXPO, EXPO):
            if abs(a + b) > 3.0 or a not in P or b not in P or P[a].shape != (4,) or P[b].shape != (4,):
                continue
            key = f'axis{ia} angle={ang:.13g} a={a:.6g} b={b:.6g}'
            try:
                rhs = np.asarray(Qq ** (a + b), float)
                lhs = rq.qmul(P[a], P[b])
                err = rq.qangle(rq.qunit(lhs), rq.qunit(rhs))
            except Exception as ex:
                err = float('inf'); lhs = repr(ex); rhs = None
            ctx.expect(err <= (1e-10 if ang >= 1e-2 else 1e-6), 'q**a q**b = q**(a+b)', key, lhs, rhs, 1e-10 if ang >= 1e-2 else 1e-6)
            ctx.cls('pow-pairs')
    ctx.sample({'pow': {'axis': _axang_cases()[lo][1].tolist(), 'angle': _axang_cases()[lo][2], 'exponents': EXPO}})


SEQ_ANG = [-2.4, -0.6, 0.0, 1e-3, 0.9, 3.0]      # an exactly zero angle inside a sequence is a null rotation, not the end of the sequence
ELEM = {'x': rq.Rx, 'y': rq.Ry, 'z': rq.Rz}


def _sequences():
    out = []
    for L in (1, 2, 3):
        out += [''.join(s) for s in itertools.product('xyz', repeat=L)]
    return out


def job_seq(ctx, lo, hi):
    from ahrs import DCM
    from ahrs.common.dcm import rot_seq, rotation
    for seq in _sequences()[lo:hi]:
        for angs in itertools.product(SEQ_ANG, repeat=len(seq)):
            key = f'seq={seq} angles={list(angs)}'
            ref = np.eye(3)
            for axn, a in zip(seq, angs):
                ref = ref @ ELEM[axn](a)
            ctx.close(np.asarray(DCM(euler=(seq, list(angs)))), ref, 1e-12, 'DCM(euler=(seq, angles)) = ordered product', key, track='seq')
            ctx.close(np.asarray(rot_seq(seq, list(angs))), ref, 1e-12, 'rot_seq(str) = ordered product', key)
            ctx.close(np.asarray(rot_seq(list(seq.upper()), [math.degrees(a) for a in angs], degrees=True)), ref, 1e-12,
                      'rot_seq(list, degrees=True) = ordered product', key)
            ctx.cls(f'seq len{len(seq)}')
            ctx.seen(('seq', seq, angs))
    if lo == 0:
        for a in SEQ_ANG + [1e-5, 0.5, PI, -PI / 2]:
            for axn in 'xyz':
                key = f'axis={axn} angle={a}'
                ctx.close(np.asarray(rotation(axn, a)), ELEM[axn](a), 1e-12, 'rotation(ax, ang) = elementary rotation', key)
                ctx.close(np.asarray(rotation(axn, math.degrees(a), degrees=True)), ELEM[axn](a), 1e-12, 'rotation(ax, ang, degrees=True)', key)
                ctx.close(np.asarray(rotation('xyz'.index(axn), a)), ELEM[axn](a), 1e-12, 'rotation(int axis)', key)
                ctx.close(np.asarray(rotation(axn.upper(), a)), ELEM[axn](a), 1e-12, 'rotation(upper-case axis letter)', key)
                if axn == 'z':
                    # the axis omitted / None: the documented default is the Z-axis
                    ctx.close(np.asarray(rotation(ang=a)), ELEM['z'](a), 1e-12, 'rotation(ang=) with the axis omitted = rotation about z (documented default)', key)
                    ctx.close(np.asarray(rotation(None, a)), ELEM['z'](a), 1e-12, 'rotation(None, ang) = rotation about z (documented default)', key)
                    ctx.close(np.asarray(rotation(ang=math.degrees(a), degrees=True)), ELEM['z'](a), 1e-12, 'rotation(ang=, degrees=True) with the axis omitted = rotation about z', key)
                kw = {axn: a}
                ctx.close(np.asarray(DCM(**kw)), ELEM[axn](a), 1e-12, 'DCM(x=|y=|z=) = elementary rotation', key)
                kw = {axn: math.degrees(a), 'degrees': True}
                ctx.close(np.asarray(DCM(**kw)), ELEM[axn](a), 1e-12, 'DCM(x=|y=|z=, degrees=True)', key)
        for angs in itertools.product(SEQ_ANG, repeat=3):
            key = f'angles={list(angs)}'
            ctx.close(np.asarray(DCM(x=angs[0], y=angs[1], z=angs[2])), rq.Rx(angs[0]) @ rq.Ry(angs[1]) @ rq.Rz(angs[2]), 1e-12,
                      'DCM(x=, y=, z=) = Rx Ry Rz', key)
            ctx.close(np.asarray(DCM(x=math.degrees(angs[0]), y=math.degrees(angs[1]), z=math.degrees(angs[2]), degrees=True)),
                      rq.Rx(angs[0]) @ rq.Ry(angs[1]) @ rq.Rz(angs[2]), 1e-12, 'DCM(x=, y=, z=, degrees=True) = Rx Ry Rz', key)
            for pair in (('x', 'y'), ('y', 'z'), ('x', 'z')):
                kw = {pair[0]: math.degrees(angs[0]), pair[1]: math.degrees(angs[1]), 'degrees': True}
                ctx.close(np.asarray(DCM(**kw)), ELEM[pair[0]](angs[0]) @ ELEM[pair[1]](angs[1]), 1e-12, 'DCM(two of x=, y=, z=, degrees=True) = ordered product', f'{key} axes={pair}')
            ctx.close(np.asarray(DCM(rpy=list(angs))), rq.Rz(angs[0]) @ rq.Ry(angs[1]) @ rq.Rx(angs[2]), 1e-12,
                      "DCM(rpy=) = rot_seq('zyx') ordered product", key)
    ctx.sample({'sequence': _sequences()[lo], 'angles': SEQ_ANG[:len(_sequences()[lo])]})


def job_orders_and_objects(ctx, lo, hi):
    """(1) A scalar-last (order='S') object stands for the same quaternion as the Hamilton-ordered object built from the rolled components:
    to_axang, to_angles, logarithm, exponential and ** answer exactly what the Hamilton-ordered object answers (all of them return
    scalar-first arrays).  (2) The conversions are read-only: the object holds the same numbers afterwards and a second call gives the
    same answer.  (3) DCM(x=, y=, z=) does not depend on the order in which the keywords are written."""
    _set_tier(ctx)
    from ahrs import Quaternion, DCM
    from ahrs.common.dcm import rot_seq, rotation
    cases = _axang_cases()[lo:hi]
    for ia, n, ang in cases:
        if not (1e-6 <= ang <= PI - 1e-6):
            continue
        q = rq.axang2q(n, ang)
        key = f'axis{ia} angle={ang:.13g}'
        H = Quaternion(q.copy())
        S = Quaternion(np.roll(q, -1).copy(), order='S')
        h0, s0 = np.array(H, float), np.array(S, float)          # the numbers the objects hold (normalised on construction)
        tl = 1e-12 if ang >= 1e-2 else 1e-6                        # arccos conditioning of the logarithm, times |a| <= 3
        readers = [('to_axang', lambda Q_: np.concatenate([np.ravel(np.asarray(x, float)) for x in Q_.to_axang()])),
                   ('to_angles', lambda Q_: np.asarray(Q_.to_angles(), float)),
                   ('logarithm', lambda Q_: np.asarray(Q_.logarithm, float)), ('log', lambda Q_: np.asarray(Q_.log, float)),
                   ('exponential', lambda Q_: np.asarray(Q_.exponential, float)), ('exp', lambda Q_: np.asarray(Q_.exp, float))]
        readers += [(f'**{a:.6g}', lambda Q_, a=a: np.asarray(Q_ ** a, float)) for a in EXPO]
        for nm, fn in readers:
            ctx.evals += 1
            try:
                h1 = fn(H)
                s1 = fn(S)
                h2 = fn(H)
                s2 = fn(S)
            except Exception as ex:
                ctx.fail(f'{nm} raises on an object it answered for / on the scalar-last twin', key, repr(ex)[:160], 'an answer'); continue
            ctx.close(s1, h1, tl, f"Quaternion(order='S').{nm} = the Hamilton-ordered object's answer", key)
            ctx.expect(np.array_equal(h1, h2, equal_nan=True) and np.array_equal(s1, s2, equal_nan=True), f'{nm}: a second call on the same object gives the same answer', key, [h2, s2], [h1, s1])
            ctx.expect(np.array_equal(np.asarray(H, float), h0) and np.array_equal(np.asarray(H.A, float), h0) and np.array_equal(np.asarray(S, float), s0),
                       f'{nm} is read-only: the object holds the same numbers afterwards', key, [np.asarray(H, float), np.asarray(S, float)], [h0, s0])
            if not np.array_equal(np.asarray(H, float), h0) or not np.array_equal(np.asarray(S, float), s0):
                H = Quaternion(q.copy()); S = Quaternion(np.roll(q, -1).copy(), order='S')
        # history on one object: conversions asked, the object CHANGED in place (element assignment, normalize() of a non-unit object),
        # conversions asked again -> they describe the new value (= what a fresh object holding the new numbers answers)
        other = rq.qmul(q, rq.axang2q([0.3, -0.5, 0.8], 0.9))
        for how in ('q[:] = other', 'q *= -1 (element-wise, same rotation)', 'normalize() of a versor=False object', 'q.A = other (the public attribute re-bound to a new array)'):
            try:
                if how.startswith('normalize'):
                    Hh = Quaternion(2.5 * q, versor=False)
                    for nm, fn in readers[:6]:
                        fn(Hh)
                    Hh.normalize()
                    newv = np.array(Hh, float)
                elif how.startswith('q.A ='):
                    Hh = Quaternion(q.copy())
                    for nm, fn in readers:
                        fn(Hh)
                    Hh.A = rq.qunit(other).copy()
                    newv = rq.qunit(other).copy()
                elif how.startswith('q[:]'):
                    Hh = Quaternion(q.copy())
                    for nm, fn in readers:
                        fn(Hh)
                    Hh[:] = other
                    newv = np.array(Hh, float)
                else:
                    Hh = Quaternion(q.copy())
                    for nm, fn in readers:
                        fn(Hh)
                    np.negative(np.asarray(Hh), out=np.asarray(Hh))
                    newv = np.array(Hh, float)
                Fh = Quaternion(newv.copy(), versor=False)
            except Exception as ex:
                ctx.outcome(('in-place-change-refused', how)); continue
            for nm, fn in readers:
                ctx.evals += 1
                try:
                    with np.errstate(all='ignore'):
                        got, exp = fn(Hh), fn(Fh)
                except Exception as ex:
                    ctx.fail(f'{nm} raises after the object was changed in place', f'{key} change={how}', repr(ex)[:120], 'the answer of a fresh object'); continue
                ctx.expect(got.shape == exp.shape and np.array_equal(np.isnan(got), np.isnan(exp)) and float(np.nanmax(np.abs(np.nan_to_num(got) - np.nan_to_num(exp)))) <= 1e-12,
                           f'{nm}: after the object was changed in place the answer describes the NEW value (that of a fresh object holding the same numbers)', f'{key} change={how}', got, exp, 1e-12)
        ctx.cls('objects:changed-in-place')
        Rref = rq.axang2R(n, ang)
        D = DCM(Rref.copy())
        for nm, fn in (('to_axisangle', lambda: np.concatenate([np.ravel(np.asarray(x, float)) for x in D.to_axisangle()])), ('log', lambda: np.asarray(D.log, float)),
                       ('to_angles', lambda: np.asarray(D.to_angles(), float)), ('to_rpy', lambda: np.asarray(D.to_rpy(), float))):
            try:
                r1 = fn(); r2 = fn()
            except Exception as ex:
                ctx.outcome(('DCM reader raises', nm)); continue
            ctx.expect(np.array_equal(r1, r2, equal_nan=True) and np.array_equal(np.asarray(D, float), Rref), f'DCM.{nm} is read-only and repeatable', key, [r2, np.asarray(D, float)], [r1, Rref])
        ctx.cls('orders-and-objects')
        ctx.seen(('orders', ia, ang))
    if lo == 0:
        for angs in itertools.product(SEQ_ANG[:5], repeat=3):
            val = dict(zip('xyz', angs))
            for L in (2, 3):
                for names in itertools.permutations('xyz', L):
                    if list(names) == sorted(names):
                        continue
                    kw = {c: val[c] for c in names}                 # keywords in THIS order
                    kw0 = {c: val[c] for c in sorted(names)}
                    key = f'keywords written as {list(names)} angles={[val[c] for c in names]}'
                    ctx.close(np.asarray(DCM(**kw)), np.asarray(DCM(**kw0)), 0.0, 'DCM(x=, y=, z=) does not depend on the order in which the keywords are written', key)
                    kd = {c: math.degrees(val[c]) for c in names}; kd['degrees'] = True
                    ref = np.eye(3)
                    for c in sorted(names):
                        ref = ref @ ELEM[c](val[c])
                    ctx.close(np.asarray(DCM(**kd)), ref, 1e-12, 'DCM(keywords in any order, degrees=True) = Rx Ry Rz of the given angles', key)
        # the same NUMBER given as radians, as degrees, and as radians again (same axis, same process): each call answers for its own unit
        for a in (1.0, 0.5, 0.25, 30.0, -2.0):
            for axn in 'xyz':
                key = f'axis={axn} number={a}'
                for step, deg in enumerate((False, True, False, True)):
                    ang_r = math.radians(a) if deg else a
                    ctx.close(np.asarray(rotation(axn, a, degrees=deg)), ELEM[axn](ang_r), 1e-12, 'rotation(ax, a) and rotation(ax, a, degrees=True) called alternately with the same number', f'{key} call#{step} degrees={deg}')
                    kw = {axn: a, 'degrees': deg}
                    ctx.close(np.asarray(DCM(**kw)), ELEM[axn](ang_r), 1e-12, 'DCM(x|y|z=a) and DCM(..., degrees=True) called alternately with the same number', f'{key} call#{step} degrees={deg}')
            for deg in (True, False, True):
                angs3 = [a, 0.5 * a, 0.25 * a]
                conv = [math.radians(v_) if deg else v_ for v_ in angs3]
                ctx.close(np.asarray(rot_seq('zyx', list(angs3), degrees=deg)), rq.Rz(conv[0]) @ rq.Ry(conv[1]) @ rq.Rx(conv[2]), 1e-12, "rot_seq('zyx', angles) called alternately in degrees and radians with the same numbers", f'numbers={angs3} degrees={deg}')
                ctx.close(np.asarray(DCM(euler=('zyx', list(angs3)))), rq.Rz(angs3[0]) @ rq.Ry(angs3[1]) @ rq.Rx(angs3[2]), 1e-12, "DCM(euler=) in radians after rot_seq in degrees with the same numbers", f'numbers={angs3} after degrees={deg}')
        ctx.cls('keyword-order')


def _set_tier(ctx):
    global THOROUGH
    THOROUGH = ctx.thorough


def run(ctx):
    _set_tier(ctx)
    jobs = [('job_rpy', (lo, hi)) for lo, hi in core.chunks(len(RY), 16)]
    n = len(_axang_cases())
    jobs += [('job_axang', (lo, hi)) for lo, hi in core.chunks(n, 8 if not ctx.thorough else 32)]
    jobs += [('job_pow', (lo, hi)) for lo, hi in core.chunks(n, 16 if not ctx.thorough else 48)]
    jobs += [('job_seq', (lo, hi)) for lo, hi in core.chunks(len(_sequences()), 13)]
    jobs.append(('job_explog_nonunit', ()))
    jobs += [('job_orders_and_objects', (lo, hi)) for lo, hi in core.chunks(n, 8 if not ctx.thorough else 32)]
    core.run_jobs(ctx, __name__, jobs)
