"""C13 — a dropped-out sensor sample never corrupts a recursive filter (bounded-exhaustive fault enumeration).

For every recursive filter x architecture x frame (19 configurations) and both entry points (batch constructor;
streaming ``update*`` on a data-less instance, where the class has one) a physically consistent, slowly turning base
record is built (mc/ref/faults.py) and EVERY fault history of the menu is injected and run to completion on the real
filter:

  singles : sensor set in {acc, mag, gyr, acc+mag, acc+mag+gyr} x start in 0..11 x length in {1, 2, 3}
  whole   : sensor set x the whole record
  tail    : sensor set x length in {1, 2, 3} ending on the last row
  pairs   : all 66 pairs i < j of single-row faults with rows in 0..11 x sensor sets (the same set at both rows in the
            quick tier; all 16 ordered combinations of {acc, mag, gyr, acc+mag} in the thorough tier)

(IMU architectures have no magnetometer: sets {acc, gyr, acc+gyr}.)

Oracle, per fault history:
  1. the run completes, or refuses with ValueError (batch: the record; streaming: the faulted sample, after which the
     caller keeps the previous estimate and goes on).  Any other exception type (numpy's LinAlgError included, although
     it derives from ValueError: a failed factorisation is a crash, not a refusal), and a ValueError on a VALID sample
     after the dropout, is a violation.
  2. every emitted row is finite and (when the filter's fault-free output is unit at all) a unit quaternion.
  3. differential recovery: W samples after the last faulted row the estimate is within tol_f of the same filter's
     estimate on the same record without the fault (no hand-written expected attitude anywhere).
"""
import math
import numpy as np
from mc import core, alphabet as A
from mc.ref import faults as rf

PID = 'C13'
LEVEL = 'fault_enumeration'

DT = 0.01               # every filter's default sampling step (100 Hz)
DIP = 60.0              # magnetic dip handed explicitly to every constructor that accepts a reference
RATE = 0.005            # amplitude of the body rates of the base record, rad/s
N_START = 12            # single faults and pairs start in rows 0..11
LENS = (1, 2, 3)
W = 24                  # recovery window, samples
N = N_START + max(LENS) - 1 + W + 6     # 44 rows: at least 5 judged rows after the latest interior fault
UNIT_TOL = 1e-9

# name: (filter, arch, frame, streaming entry, heading side of the tilt measure, tol_f [rad], batch runs start from q0 = truth)
CONFIGS = {
    'Madgwick-IMU':       ('Madgwick', 'IMU', None, True, 'left', 0.13, False),
    'Madgwick-MARG':      ('Madgwick', 'MARG', None, True, 'left', 0.13, False),
    'Mahony-IMU':         ('Mahony', 'IMU', None, True, 'left', 0.02, False),
    'Mahony-MARG':        ('Mahony', 'MARG', None, True, 'left', 0.02, False),
    'Mahony-IMU-b0':      ('Mahony', 'IMU', None, True, 'left', 0.02, False),         # a gyroscope with a constant bias, the bias given as b0: the filter carries a non-zero bias estimate
    'Mahony-MARG-b0':     ('Mahony', 'MARG', None, True, 'left', 0.02, False),
    'EKF-IMU-NED':        ('EKF', 'IMU', 'NED', True, 'left', 0.006, False),
    'EKF-IMU-ENU':        ('EKF', 'IMU', 'ENU', True, 'left', 0.006, True),
    'EKF-MARG-NED':       ('EKF', 'MARG', 'NED', True, 'left', 0.006, False),
    'EKF-MARG-ENU':       ('EKF', 'MARG', 'ENU', True, 'left', 0.006, True),
    'UKF-IMU':            ('UKF', 'IMU', None, True, 'left', 0.4, False),
    'AQUA-IMU':           ('AQUA', 'IMU', None, True, 'right', 0.02, False),
    'AQUA-MARG':          ('AQUA', 'MARG', None, True, 'right', 0.02, False),
    'AQUA-IMU-adaptive':  ('AQUA', 'IMU', None, True, 'right', 0.02, False),          # adaptive=True: the gain is recomputed from every accelerometer sample
    'AQUA-MARG-adaptive': ('AQUA', 'MARG', None, True, 'right', 0.02, False),
    'Fourati-MARG':       ('Fourati', 'MARG', None, True, 'left', 0.02, False),
    'ROLEQ-MARG-NED':     ('ROLEQ', 'MARG', 'NED', True, 'left', 1e-06, False),
    'ROLEQ-MARG-ENU':     ('ROLEQ', 'MARG', 'ENU', True, 'left', 0.002, False),
    'ROLEQ-MARG-NED-w10': ('ROLEQ', 'MARG', 'NED', True, 'left', 0.02, False),        # weights=[1, 0]: the magnetometer is configured away
    'ROLEQ-MARG-NED-w01': ('ROLEQ', 'MARG', 'NED', True, 'left', 0.02, False),        # weights=[0, 1]: the accelerometer is configured away
    'FKF-MARG':           ('FKF', 'MARG', None, False, 'left', 0.015, False),
    'Complementary-IMU':  ('Complementary', 'IMU', None, False, 'left', 0.001, False),
    'Complementary-MARG': ('Complementary', 'MARG', None, False, 'left', 0.002, False),
}

RULE = ('one evaluation = one fault history (configuration, entry point, base attitude, fault) run to completion on the real '
        'filter; distinct by that tuple; non-trivial when the faulted run is observably different from the fault-free run '
        '(it refused, or at least one emitted row differs)')
ASSUMPTIONS = [
    'dropout = the whole tri-axial sample reads exactly 0.0 (the statement: "all zeros"); partial zeros, NaN and tiny non-zero '
    'readings are not faults of this menu',
    'base record: 44 rows at 100 Hz, exact readings acc = 9.81 R^T g_ref, mag = 50 R^T m_ref of a body that starts at the base '
    'attitude (identity, or MENU[k]) and turns with the body rates 0.005 rad/s * (sin(0.7t+0.3), cos(1.1t), sin(0.4t+1)) '
    '(never zero: an all-zero gyro makes Madgwick/Mahony/AQUA/Fourati return the prior by design); g_ref/m_ref are read back '
    'from an instance (EKF, ROLEQ, Fourati) or +z / [cos 60, 0, sin 60] (Mahony-MARG: [0, cos 60, -sin 60], the heading of its '
    'am2q start); magnetic references are always explicit (dip 60 deg) because the defaults come from a WMM evaluated at import time',
    'EKF frame=ENU batch runs get q0 = the true start attitude: EKF\'s own initialisation (acc2q / ecompass) does not start at the '
    'fixed point of its ENU measurement model (exactly 180 deg off for every attitude but the identity), and a record that begins '
    'in that transient is not "otherwise valid, converged" (that is C04/C05 business); with q0 the first row is not consumed, so '
    'first-row faults are trivial for these two configurations (counted in class trivial:...)',
    'information only: base.tracking_defect = | rotation angle from row 0 of the fault-free estimate - the same for the true '
    'motion | (convention-free) is <= 1.4e-3 rad for every configuration (UKF 3e-2), i.e. every base run is converged',
    'streaming entry: one update call per row (row 0 included) on a fresh data-less instance, started from the first row of the '
    'fault-free batch run; a ValueError on a faulted row is a refusal of that sample (allowed): the caller carries the previous '
    'estimate; a ValueError on a non-faulted row is a violation (state corrupted by the dropout)',
    'batch entry: ValueError from the constructor (or from reading .Q) is a refusal of the record (allowed by the statement); it is '
    'not possible to tell from outside which row raised, so a NaN that is caught one row later by Quaternion()\'s NaN check counts '
    'as a refusal in batch mode - the streaming entry and the tail faults (NaN in the last row has no later row) expose it',
    'unit norm: | |q| - 1 | <= 1e-9 (observed <= 3.4e-16); judged only when the fault-free output of the same configuration is unit '
    '(a fault-free output that is not unit - FKF at design time - is reported once per base run at its own site, not once per fault)',
    'recovery oracle is differential: deviation = rotation angle between faulted and fault-free estimate of the SAME filter on the '
    'same record (full angle for MARG; for IMU architectures the heading-free swing angle about the reference z axis, taken on '
    'the side on which the state composes a heading change: left, AQUA right), maximum over all rows later than W = 24 rows after '
    'the last faulted row; faults that reach the end of the record have no judged rows',
    'tol_f = 100 x the worst deviation observed over the whole thorough menu on the unchanged tree, rounded up (observed -> tol, rad): '
    'Madgwick 1.29e-3 -> 0.13 (its fixed-length gradient step gain*dt = 4e-4 makes two runs chatter apart); Mahony 1.74e-4 -> 0.02; '
    'EKF 5.6e-5 -> 0.006; UKF 3.6e-3 -> 0.4 (streaming: its covariance reset makes the estimate jitter by ~1e-2); AQUA 1.84e-4 -> 0.02; '
    'Fourati 1.95e-4 -> 0.02; ROLEQ-NED 7.3e-9 -> 1e-6; ROLEQ-ENU 1.65e-5 -> 2e-3; FKF 1.35e-4 -> 0.015; Complementary IMU 8.9e-6 -> 1e-3, '
    'MARG 1.57e-5 -> 2e-3.  Most of the observed deviation is physical (up to three missed gyro samples = 1.5e-4 rad that slow '
    'filters keep for seconds), which is why the body rate is small.  The upper rule (<= 1e-3 x smallest mutation effect) cannot be met by a '
    'differential oracle of this kind: the smallest finite mutation tried (dropout fallback called with acc and gyr swapped) '
    'deviates 0.09 rad per faulted row, i.e. 4.5 x tol for Mahony; NaN-type mutations are caught by the finiteness oracle instead',
    'first-row faults in BATCH mode only change the initial estimate (IMU architectures fall back to the identity attitude, '
    'up to 1.4 rad away); how fast a filter converges from far away is C05 - here only "the deviation does not grow": '
    'deviation over the judged rows <= max(tol_f, deviation right after the fault); observed ratio <= 0.993',
    'ROLEQ\'s batch initialisation draws a start vector from numpy\'s global generator: the harness re-seeds it (seed 0) before '
    'every run so that faulted and fault-free runs start alike; nothing in the oracle path is random',
    'numpy.linalg.LinAlgError (singular / not positive definite) derives from ValueError but is judged as "other exception": it is a '
    'failed factorisation, not a refusal of invalid input',
    'a configuration x attitude whose FAULT-FREE run does not complete (UKF: Cholesky failure on clean data at MENU[2] and MENU[7]) is '
    'reported once at its own site and its fault histories are not enumerated (class skipped:base-run-failed)',
    'FKF and Complementary have no streaming entry; UKF has no MARG architecture; AQUA ignores `frame`; Complementary is also '
    'judged on its native output W (angles)',
]
# only classes fixed by the enumeration itself (outcome classes such as refusals depend on the tree under test)
REQUIRED_CLASSES = ['pos:first', 'pos:interior', 'pos:last', 'len:1', 'len:2', 'len:3', 'len:all', 'pairs',
                    'sensors:acc', 'sensors:mag', 'sensors:gyr', 'sensors:acc+mag', 'sensors:acc+mag+gyr', 'sensors:acc+gyr',
                    'entry:batch', 'entry:stream', 'entry:stream-dt', 'entry:stream-dt-vs-configured', 'outcome:completed', 'recovery:judged']

S_BASE_RUN = 'fault-free base run completes'
S_BASE_ROWS = 'fault-free base run: every row is a finite unit quaternion'
S_EXC = 'a dropout is refused only with ValueError (no other exception type)'
S_VALID = 'streaming: a valid sample after the dropout is not refused'
S_SHAPE = 'one real (N,4) row per sample'
S_FINITE = 'every emitted row is finite (no NaN/inf at the dropout or after it)'
S_UNIT = 'every emitted row is a unit quaternion'
S_ANGLES = 'W: every emitted angle triple is finite'
S_RECOVER = 'estimate returns to the fault-free run within the recovery window'
S_CONTRACT = 'first-sample dropout: deviation from the fault-free run does not grow'
S_FIRST = 'first-sample dropout accepted by the batch run: estimate returns to the fault-free run within the recovery window'


def site(spec, law):
    """Stable site string: the class under test and the law."""
    return f'{spec.filter}: {law}'


# ---------------------------------------------------------------------------------------------------------------------
class Spec:
    pass


def _dtm(dtm):
    """Entry 'stream-dt': the object is CONFIGURED for another sampling rate (37 Hz) and every call is given the record's own step through
    the dt argument of the update method -> (constructor keywords, call keywords)."""
    return ({'frequency': 37.0}, {'dt': DT}) if dtm else ({}, {})


def build(name):
    """Adapters around the real classes.  Magnetic references are explicit everywhere (the defaults come from a WMM
    evaluated at import time); reference vectors are read back from an instance where the class exposes them."""
    import ahrs.filters as F
    filt, arch, frame, has_stream, side, tol, q0_truth = CONFIGS[name]
    s = Spec()
    s.name, s.filter, s.arch, s.frame, s.side, s.tol, s.q0_truth = name, filt, arch, frame, side, tol, q0_truth
    marg = arch == 'MARG'
    c, sn = math.cos(math.radians(DIP)), math.sin(math.radians(DIP))
    s.g_ref, s.m_ref = np.array([0.0, 0.0, 1.0]), np.array([c, 0.0, sn])           # NED-style default
    kw0 = lambda q0: {} if q0 is None else {'q0': q0}
    only_q = lambda Q: (np.asarray(Q), None)
    if filt == 'Madgwick':
        s.batch = lambda g, a, m, q0: only_q(F.Madgwick(gyr=g, acc=a, mag=m).Q if marg else F.Madgwick(gyr=g, acc=a).Q)
        def new(dtm=False):
            fk, dk = _dtm(dtm)
            inst = F.Madgwick(gain=0.041, **fk) if marg else F.Madgwick(**fk)     # the data-less default gain is the IMU one; batch MARG uses 0.041
            return (lambda q, g, a, m: inst.updateMARG(q, g, a, m, **dk)) if marg else (lambda q, g, a, m: inst.updateIMU(q, g, a, **dk))
    elif filt == 'Mahony':
        if marg:
            s.m_ref = np.array([0.0, c, -sn])      # Mahony-MARG aligns the horizontal field with +y (its am2q start is ENU)
        bias = np.array([0.06, -0.05, 0.04]) if name.endswith('-b0') else None      # rad/s, added to every gyroscope row and given to the filter as b0
        bk = (lambda: {'b0': bias.copy()}) if bias is not None else (lambda: {})
        gb = (lambda g: np.where(np.all(g == 0.0, axis=-1, keepdims=True), g, g + bias)) if bias is not None else (lambda g: g)      # (a dropped gyroscope row stays all-zero)
        s.batch = lambda g, a, m, q0: only_q(F.Mahony(gyr=gb(g), acc=a, mag=m, **bk()).Q if marg else F.Mahony(gyr=gb(g), acc=a, **bk()).Q)
        def new(dtm=False):
            fk, dk = _dtm(dtm)
            inst = F.Mahony(**fk, **bk())
            return (lambda q, g, a, m: inst.updateMARG(q, gb(g), a, m, **dk)) if marg else (lambda q, g, a, m: inst.updateIMU(q, gb(g), a, **dk))
    elif filt == 'EKF':
        probe = F.EKF(magnetic_ref=DIP, frame=frame)
        s.g_ref, s.m_ref = np.array(probe.a_ref, float), np.array(probe.m_ref, float)
        s.batch = lambda g, a, m, q0: only_q(F.EKF(gyr=g, acc=a, mag=m, magnetic_ref=DIP, frame=frame, **kw0(q0)).Q if marg
                                             else F.EKF(gyr=g, acc=a, magnetic_ref=DIP, frame=frame, **kw0(q0)).Q)
        def new(dtm=False):
            fk, dk = _dtm(dtm)
            inst = F.EKF(magnetic_ref=DIP, frame=frame, **fk)
            return (lambda q, g, a, m: inst.update(q, g, a, m, **dk)) if marg else (lambda q, g, a, m: inst.update(q, g, a, **dk))
    elif filt == 'UKF':
        s.batch = lambda g, a, m, q0: only_q(F.UKF(gyr=g, acc=a).Q)
        def new(dtm=False):
            fk, dk = _dtm(dtm)
            inst = F.UKF(**fk)
            return lambda q, g, a, m: inst.update(q, g, a, **dk)
    elif filt == 'AQUA':
        akw = {'adaptive': True} if name.endswith('-adaptive') else {}
        s.batch = lambda g, a, m, q0: only_q(F.AQUA(acc=a, mag=m, gyr=g, **akw).Q if marg else F.AQUA(acc=a, gyr=g, **akw).Q)
        def new(dtm=False):
            fk, dk = _dtm(dtm)
            inst = F.AQUA(**akw, **fk)
            return (lambda q, g, a, m: inst.updateMARG(q, g, a, m, **dk)) if marg else (lambda q, g, a, m: inst.updateIMU(q, g, a, **dk))
    elif filt == 'Fourati':
        probe = F.Fourati(magnetic_dip=DIP)
        s.g_ref, s.m_ref = np.array(np.asarray(probe.g_q)[1:], float), np.array(np.asarray(probe.m_q)[1:], float)
        s.batch = lambda g, a, m, q0: only_q(F.Fourati(gyr=g, acc=a, mag=m, magnetic_dip=DIP).Q)
        def new(dtm=False):
            fk, dk = _dtm(dtm)
            inst = F.Fourati(magnetic_dip=DIP, **fk)
            return lambda q, g, a, m: inst.update(q, g, a, m, **dk)
    elif filt == 'ROLEQ':
        probe = F.ROLEQ(magnetic_ref=DIP, frame=frame)
        s.g_ref, s.m_ref = np.array(probe.a_ref, float), np.array(probe.m_ref, float)
        wkw = {'weights': np.array([1.0, 0.0])} if name.endswith('-w10') else ({'weights': np.array([0.0, 1.0])} if name.endswith('-w01') else {})
        s.batch = lambda g, a, m, q0: only_q(F.ROLEQ(gyr=g, acc=a, mag=m, magnetic_ref=DIP, frame=frame, **wkw, **kw0(q0)).Q)
        def new(dtm=False):
            fk, dk = _dtm(dtm)
            inst = F.ROLEQ(magnetic_ref=DIP, frame=frame, **wkw, **fk)
            return lambda q, g, a, m: inst.update(q, g, a, m, **dk)
    elif filt == 'FKF':
        s.batch = lambda g, a, m, q0: only_q(F.FKF(gyr=g, acc=a, mag=m).Q)
        new = None
    elif filt == 'Complementary':
        def batch(g, a, m, q0):
            inst = F.Complementary(gyr=g, acc=a, mag=m) if marg else F.Complementary(gyr=g, acc=a)
            return np.asarray(inst.Q), np.asarray(inst.W)
        s.batch = batch
        new = None
    else:
        raise KeyError(name)
    s.new_stream = new if has_stream else None
    return s


def attitude(att):
    return np.array([1.0, 0.0, 0.0, 0.0]) if att == 'id' else np.asarray(A.MENU[int(att[1:])], float)


def run_batch(spec, g, a, m, q0):
    """-> ('done', Q, extra) | ('refused', message) | ('error', 'Type: message')."""
    np.random.seed(0)           # ROLEQ's batch initialisation (OLEQ) draws its start vector from the global generator
    try:
        Q, extra = spec.batch(g.copy(), a.copy(), m.copy() if spec.arch == 'MARG' else None, None if q0 is None else q0.copy())
    except np.linalg.LinAlgError as ex:         # a ValueError subclass, but a numerical crash, not a refusal
        return ('error', f'{type(ex).__name__}: {ex}'[:240])
    except ValueError as ex:
        return ('refused', str(ex)[:160])
    except Exception as ex:
        return ('error', f'{type(ex).__name__}: {ex}'[:240])
    return ('done', Q, extra)


def _instance_of(step):
    """The live filter object captured by a streaming closure."""
    for c in (step.__closure__ or ()):
        v = c.cell_contents
        if type(v).__module__.startswith('ahrs.'):
            return v
    return None


def _scalars(inst):
    """Scalar configuration attributes (gains, rates, flags, names) of a filter object."""
    if inst is None:
        return {}
    return {k: v for k, v in vars(inst).items() if isinstance(v, (int, float, str, bool)) or v is None}


def run_stream(spec, q_init, g, a, m, faulted, dtm=False):
    """One update call per row, starting from q_init, on a fresh data-less instance.

    A ValueError on a faulted row is a refusal of that sample: the previous estimate is carried.  Returns
    ('done', Q, refused_rows) | ('refused-valid', row, message) | ('error', row, 'Type: message').
    A non-finite or mis-shaped row ends the run (the rows after it stay NaN and are reported by the caller)."""
    np.random.seed(0)
    try:
        step = spec.new_stream(dtm)
    except Exception as ex:
        return ('error', -1, f'{type(ex).__name__}: {ex}'[:240])
    inst = _instance_of(step)
    spec.params_before = _scalars(inst)
    spec.params_after = None
    spec.live_instance = inst
    out = np.full((len(g), 4), np.nan)
    q = np.array(q_init, float)
    q_feed = q.copy()           # what the user loop `q = f.update(q, ...)` hands back: the returned object AS IT IS
    refused = []
    for t in range(len(g)):
        try:
            qn = step(q_feed.copy() if type(q_feed) is np.ndarray else q_feed, g[t].copy(), a[t].copy(), m[t].copy())
            q_ret = qn
        except np.linalg.LinAlgError as ex:     # a ValueError subclass, but a numerical crash, not a refusal
            return ('error', t, f'{type(ex).__name__}: {ex}'[:240])
        except ValueError as ex:
            if t in faulted:
                refused.append(t)
                out[t] = q
                continue
            return ('refused-valid', t, str(ex)[:160])
        except Exception as ex:
            return ('error', t, f'{type(ex).__name__}: {ex}'[:240])
        try:
            qn = np.array(qn, float)
        except Exception:
            qn = np.full(4, np.nan)
        if qn.shape != (4,) or not np.all(np.isfinite(qn)):
            if qn.shape == (4,):
                out[t] = qn
            break
        out[t] = qn
        q = qn
        q_feed = q_ret if isinstance(q_ret, np.ndarray) else qn
    spec.params_after = _scalars(inst)
    return ('done', out, refused)


def deviation(spec, Qa, Qb):
    return rf.full_angle_rows(Qa, Qb) if spec.arch == 'MARG' else rf.tilt_angle_rows(Qa, Qb, spec.side)


def key_of(spec, entry, att, fault):
    fr = f' frame={spec.frame}' if spec.frame else ''
    what = rf.render(fault, N) if fault else 'fault=none'
    return f'filter={spec.filter} arch={spec.arch}{fr} entry={entry} {what} att={att}'


def the_menu(arch, tier, att_index):
    """Quick: singles/whole/tail on both attitudes, same-sensor pairs on the generic attitude only.
    Thorough: everything on every attitude; the pairs carry all ordered sensor-set combinations on the first three
    attitudes (identity, MENU[0], MENU[1]) and the same sensor set at both rows on the other six."""
    if tier == 'thorough':
        return rf.menu(arch, N_START, LENS, N, mixed_pairs=att_index <= 2)
    m = rf.menu(arch, N_START, LENS, N, mixed_pairs=False)
    if att_index == 0:
        m = [f for f in m if len(f) == 1]
    return m


def base_run(spec, entry, att):
    """Fault-free run of this entry point. -> (g, a, m, Qtrue, q0, status, Qbase, extra, q_init)"""
    g, a, m, Qt = rf.base_history(attitude(att), spec.g_ref, spec.m_ref, N, DT, RATE)
    q0 = attitude(att) if spec.q0_truth else None
    rb = run_batch(spec, g, a, m, q0)
    if entry == 'batch':
        if rb[0] != 'done':
            return g, a, m, Qt, q0, rb, None, None, None
        return g, a, m, Qt, q0, rb, rb[1], rb[2], None
    # streaming starts from the filter's own initial estimate on the clean first sample
    if rb[0] != 'done' or not rf.well_formed(rb[1], N) or not np.all(np.isfinite(rb[1][0])):
        return g, a, m, Qt, q0, ('error', 'no initial estimate: the batch run on the clean record failed: ' + str(rb[1])[:160]), None, None, None
    q_init = rb[1][0].copy()
    rs = run_stream(spec, q_init, g, a, m, (), dtm=(entry == 'stream-dt'))
    spec.base_params = (spec.params_before, spec.params_after)
    if rs[0] != 'done':
        return g, a, m, Qt, q0, ('error', f'row {rs[1]}: {rs[2]}'), None, None, q_init
    return g, a, m, Qt, q0, rs, rs[1], None, q_init


def job_faults(ctx, name, entry, att, att_index, lo, hi):
    spec = build(name)
    g, a, m, Qt, q0, st, Qb, extra_b, q_init = base_run(spec, entry, att)
    bkey = key_of(spec, entry, att, ())
    menu = the_menu(spec.arch, ctx.tier, att_index)
    first = lo == 0
    if Qb is None:
        if first:
            ctx.fail(site(spec, S_BASE_RUN), bkey, st[1], 'completes')
        ctx.cls('skipped:base-run-failed', hi - lo)
        return
    base_ok = rf.well_formed(Qb, N) and not rf.nonfinite_rows(Qb)
    base_unit = base_ok and rf.unit_defect(Qb) <= UNIT_TOL
    if first:
        ctx.traces += 1
        if not base_ok:
            ctx.fail(site(spec, S_BASE_ROWS), bkey, {'nonfinite_rows': rf.nonfinite_rows(Qb) if rf.well_formed(Qb, N) else 'malformed'}, 'finite rows')
        elif not base_unit:
            ctx.fail(site(spec, S_BASE_ROWS), bkey, {'max||q|-1|': rf.unit_defect(Qb), 'norm_first': float(np.linalg.norm(Qb[0])),
                                         'norm_last': float(np.linalg.norm(Qb[-1]))}, 0.0, UNIT_TOL)
        if base_ok:
            # information: how well the fault-free run follows the true motion (rotation angle from row 0, convention-free)
            ctx.track(f'base.tracking_defect[{name}/{entry}]', np.abs(rf.rel_angle_from_first(Qb) - rf.rel_angle_from_first(Qt)).max())
            ctx.track(f'base.unit_defect[{name}]', rf.unit_defect(Qb))
    if not base_ok:
        ctx.cls('skipped:base-run-not-finite', hi - lo)
        return
    for fault in menu[lo:hi]:
        evaluate(ctx, spec, entry, att, fault, key_of(spec, entry, att, fault), g, a, m, q0, Qb, base_unit, q_init)
    if first:
        ctx.sample({'configuration': name, 'entry': entry, 'attitude': att, 'rows': N, 'menu_size': len(menu),
                    'g_ref': spec.g_ref, 'm_ref': spec.m_ref, 'acc[0]': a[0], 'mag[0]': m[0], 'gyr[0]': g[0],
                    'example_fault': rf.render(menu[min(40, len(menu) - 1)], N)})


def evaluate(ctx, spec, entry, att, fault, key, g, a, m, q0, Qb, base_unit, q_init):
    name = spec.name
    ctx.tick(1)
    ctx.traces += 1
    rows = rf.all_rows(fault, N)
    pos = rf.pos_class(fault, N)
    whole = rf.is_whole(fault, N)
    ctx.cls('pos:' + pos)
    ctx.cls('entry:' + entry)
    ctx.cls('cfg:' + name)
    if len(fault) == 2:
        ctx.cls('pairs')
        ctx.cls('pairs:mixed-sensor-sets' if fault[0][0] != fault[1][0] else 'pairs:same-sensor-set')
    else:
        ctx.cls('len:all' if whole else f'len:{fault[0][2]}')
    for atom in fault:
        ctx.cls('sensors:' + atom[0])
    gf, af, mf = rf.inject(g, a, m, fault)
    extra = None
    if entry == 'batch':
        res = run_batch(spec, gf, af, mf, q0)
        if res[0] == 'error':
            ctx.cls('outcome:other-exception')
            ctx.outcome((name, entry, 'error', res[1].split(':')[0]))
            ctx.fail(site(spec, S_EXC), key, res[1], 'completes, or raises ValueError')
            ctx.seen(key)
            return
        if res[0] == 'refused':
            ctx.cls('outcome:refused-record(batch)')
            ctx.outcome((name, entry, 'refused', pos))
            ctx.seen(key)
            return
        Q, extra = res[1], res[2]
        refused = []
    else:
        res = run_stream(spec, q_init, gf, af, mf, set(rows), dtm=(entry == 'stream-dt'))
        # a dropout must not leave the filter's own settings (gains, rates, flags) different from what a clean record leaves
        b0, b1 = getattr(spec, 'base_params', ({}, None))
        f0, f1 = spec.params_before, spec.params_after
        if b1 is not None and f1 is not None:
            changed = {k: [f0.get(k), f1.get(k)] for k in b0 if b0[k] == b1.get(k) and f1.get(k) != f0.get(k)}
            ctx.expect(not changed, site(spec, 'scalar settings of the filter object are the same after the dropout history as after the clean history'), key, changed, 'unchanged')
        if res[0] == 'error':
            ctx.cls('outcome:other-exception')
            ctx.outcome((name, entry, 'error', res[2].split(':')[0]))
            ctx.fail(site(spec, S_EXC), key, {'row': res[1], 'faulted_rows': rows[:8], 'exception': res[2]}, 'completes, or raises ValueError on a faulted row')
            ctx.seen(key)
            return
        if res[0] == 'refused-valid':
            ctx.cls('outcome:refused-valid-sample')
            ctx.outcome((name, entry, 'refused-valid'))
            ctx.fail(site(spec, S_VALID), key, {'row': res[1], 'faulted_rows': rows[:8], 'ValueError': res[2]}, 'valid samples are processed')
            ctx.seen(key)
            return
        Q, refused = res[1], res[2]
        if refused:
            ctx.cls('outcome:refused-sample(stream)')
        if entry == 'stream-dt':
            # the same fault history through an object CONFIGURED for the record's step (no dt argument): the two runs are the same run, on
            # the faulted rows too (a dropout branch that forgets the caller's dt integrates that sample over another step)
            res_c = run_stream(spec, q_init, gf, af, mf, set(rows), dtm=False)
            if res_c[0] == 'done' and rf.well_formed(Q, N):
                same = list(res_c[2]) == list(refused) and np.array_equal(np.isfinite(Q), np.isfinite(res_c[1])) and \
                    float(np.nanmax(np.abs(np.nan_to_num(Q) - np.nan_to_num(res_c[1])))) <= 1e-12
                ctx.expect(same, site(spec, 'a fault history gives the same estimates whether the step is configured on the object or given to every call as dt'), key,
                           {'max difference': float(np.nanmax(np.abs(np.nan_to_num(Q) - np.nan_to_num(res_c[1])))), 'faulted_rows': rows[:8]}, 'identical runs', 1e-12)
            ctx.cls('entry:stream-dt-vs-configured')
    ctx.cls('outcome:completed')
    if not rf.well_formed(Q, N):
        ctx.fail(site(spec, S_SHAPE), key, {'type': type(Q).__name__, 'shape': list(getattr(Q, 'shape', ())), 'dtype': str(getattr(Q, 'dtype', ''))}, [N, 4])
        ctx.seen(key)
        return
    if extra is not None and not np.all(np.isfinite(extra)):
        bad = [int(i) for i in np.nonzero(~np.all(np.isfinite(extra), axis=1))[0]]
        ctx.fail(site(spec, S_ANGLES), key, {'first_bad_row': bad[0], 'bad_rows': len(bad), 'of': N, 'faulted_rows': rows[:8]}, 'finite angles')
    bad = rf.nonfinite_rows(Q)
    if bad:
        ctx.outcome((name, entry, 'nonfinite', pos))
        ctx.fail(site(spec, S_FINITE), key, {'first_bad_row': bad[0], 'bad_rows': len(bad), 'of': N, 'faulted_rows': rows[:8], 'row': Q[bad[0]]}, 'finite rows')
        ctx.seen(key)
        return
    ud = rf.unit_defect(Q)
    if base_unit:
        ctx.track(f'unit_defect[{name}]', ud)
        if not ud <= UNIT_TOL:
            ctx.outcome((name, entry, 'nonunit', pos))
            ctx.fail(site(spec, S_UNIT), key, {'max||q|-1|': ud, 'faulted_rows': rows[:8]}, 0.0, UNIT_TOL)
    else:
        ctx.cls('unit-not-judged(fault-free output is not unit either)')
    changed = bool(refused) or not np.array_equal(Q, Qb)
    if changed:
        ctx.seen(key)
    else:
        ctx.cls('trivial:fault-not-consumed(output identical)')
    # ---- differential recovery --------------------------------------------------------------------------------------
    dev = deviation(spec, Q, Qb)
    r_end = rows[-1]
    j0 = r_end + 1 + W
    if whole or j0 > N - 1:
        ctx.cls('recovery:none(fault reaches the end of the record)')
        ctx.outcome((name, entry, 'completed', pos, 'unjudged'))
        return
    d_end = float(dev[j0:].max())
    if entry == 'batch' and pos == 'first' and changed:
        # the first row only initialises a batch run; a filter that skips it starts from its default attitude, i.e.
        # arbitrarily far away, and the speed of convergence from far away is C05's subject: demand no growth here
        d0 = float(dev[r_end + 1])
        ctx.cls('recovery:first-sample(contraction)')
        ctx.track(f'first.dev_after/dev_before[{name}]', d_end / d0 if d0 > spec.tol else 0.0)
        ctx.track(f'first.dev_before[{name}]', d0)
        if not d_end <= max(spec.tol, d0):
            ctx.fail(site(spec, S_CONTRACT), key, {'deviation_after_fault': d0, f'deviation_{W}_rows_later': d_end}, f'<= max({spec.tol}, deviation_after_fault)', spec.tol)
        # the statement makes no exception for the first sample: a record that is ACCEPTED with a dropped first sample must be back at the
        # fault-free estimates after the window like any other (the IMU filters that start such a record from the identity and
        # need longer are recorded findings; every MARG filter refuses such a record)
        if not d_end <= spec.tol:
            ctx.fail(site(spec, S_FIRST), key, {'deviation_at_judged_rows': d_end, 'deviation_after_fault': d0, 'judged_rows': [j0, N - 1]}, 0.0, spec.tol)
        ctx.outcome((name, entry, 'completed', pos, 'contraction'))
        return
    ctx.cls('recovery:judged')
    ctx.track(f'recovery.dev[{name}/{entry}]', d_end)
    ctx.track(f'transient.dev[{name}/{entry}]', float(dev.max()))
    ctx.outcome((name, entry, 'completed', pos, 'recovered' if d_end <= spec.tol else 'not-recovered'))
    if not d_end <= spec.tol:
        ctx.fail(site(spec, S_RECOVER), key, {'deviation_at_judged_rows': d_end, 'max_deviation': float(dev.max()), 'judged_rows': [j0, N - 1],
                                  'faulted_rows': rows[:8]}, 0.0, spec.tol)


def run(ctx):
    ks = list(range(len(A.MENU))) if ctx.thorough else [A.seed_k(ctx.seed)]
    atts = ['id'] + [f'M{k}' for k in ks]
    jobs = []
    for name, cfg in CONFIGS.items():
        arch, has_stream = cfg[1], cfg[3]
        for entry in (('batch', 'stream', 'stream-dt') if has_stream else ('batch',)):
            for ai, att in enumerate(atts):
                L = len(the_menu(arch, ctx.tier, ai))
                for lo, hi in core.chunks(L, max(1, L // 150)):
                    jobs.append(('job_faults', (name, entry, att, ai, lo, hi)))
    core.run_jobs(ctx, __name__, jobs)
    ctx.notes['attitudes'] = atts
    ctx.notes['rows_per_history'] = N
    ctx.notes['recovery_window'] = W
    ctx.notes['configurations'] = list(CONFIGS)
