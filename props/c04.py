"""C04 — single-frame estimators recover the attitude exactly from consistent data.

For every estimator entry of mc/ref/filters.registry(): attitude alphabet (class S: everything incl. level, inverted,
vertical, half-turn poses; class Gp: the elements in general position) x dips x frames x measurement scalings x entry points.
"""
import math
import numpy as np
from mc import core, alphabet as A
from mc.ref import quat as rq, filters as rf

PID = 'C04'
LEVEL = 'exploration'
RULE = ('every (estimator entry, attitude, dip, frame, scaling, entry point) of the grid is executed on the real estimator with exact '
        'measurements meas = s * R^(T) ref; distinct by that tuple; non-trivial when the attitude is not the identity')
ASSUMPTIONS = ['oracle: the returned rotation maps both unit references onto both unit measurements in the documented direction; '
               'class S within 1e-9 (1e-6 for the two scalings whose magnitude ratio is 1e6: Davenport weights the raw vectors and loses digits in proportion, observed 8e-8), class Gp (closed-form / iterative) within 1e-6 (observed <= 1e-12 where the property holds)',
               'class Gp attitudes satisfy the statement\'s general-position predicate (|q_i| >= 0.05, angle <= pi - 0.1, z-axis >= 3 deg from vertical, x-axis not vertical)',
               'reference vectors and directions per estimator are those in mc/ref/filters.py (documentation of each class); OLEQ start vector: '
               'np.random.random is an owned seam returning each vector of a fixed menu',
               'OLEQ: tolerance max(1e-6, 1e-7 rho/(1-rho)) with rho the documented contraction ratio of its fixed-point iteration (stopping test 1e-8 on successive iterates)', 'accelerometer-only variants are judged on the gravity direction only']
REQUIRED_CLASSES = ['S', 'Gp', 'int-samples', 'weights-option', 'default-references', 'references-reassigned', 'option-spellings', 'batch-rows:per-row-magnitudes', 'tilt-only', 'pose:level', 'pose:inverted', 'pose:vertical', 'pose:half-turn']
DIPS_Q = [-45.0, 0.0, 60.0]
DIPS_T = [-80.0, -45.0, -10.0, 0.0, 1e-9, 10.0, 45.0, 60.0, 80.0]
SCAL_Q = [(1.0, 1.0), (9.81, 45.0)]
SCAL_T = [(1.0, 1.0), (9.81, 45.0), (1e-3, 1e3), (1e3, 1e-3)]
TOL = {'S': 1e-9, 'Gp': 1e-6}

OLEQ_STARTS = [np.array(v, float) for v in [(0.9137, 0.1211, 0.2043, 0.3179), (0.1071, 0.9013, 0.4219, 0.6157), (0.5531, 0.4517, 0.6029, 0.3511),
                                            (0.2113, 0.8017, 0.1229, 0.7043), (0.9901, 0.5119, 0.4813, 0.5231), (0.4517, 0.0109, 0.5323, 0.9907),
                                            (0.3137, 0.6211, 0.9043, 0.2179), (0.7019, 0.2203, 0.3041, 0.9511)]]


def attitudes(cls, k):
    """-> list of (label, unit quaternion)"""
    out = []
    if cls == 'S':
        for i, q in enumerate(A.G48()):
            out.append((f'G48[{i}]', q))
        for h in range(24):
            yaw = math.radians(15.0 * h)
            out.append((f'level/yaw{15*h}', rq.axang2q([0, 0, 1], yaw)))
            out.append((f'inverted/yaw{15*h}', rq.qmul(rq.axang2q([0, 0, 1], yaw), np.array([0.0, 1.0, 0, 0]))))
        for i, q in enumerate(A.G120()):
            out.append((f'G120[{i}]', q))
        for i, q in enumerate(A.Gc(A.G120(), k)):
            out.append((f'Gc120k{k}[{i}]', q))
    else:
        for name, S in ((f'Gc120k{k}', A.Gc(A.G120(), k)), (f'Gl120k{k}', A.Gl(A.G120(), k)), ('LAT4(2)', A.LAT4(2))):
            for i, q in enumerate(S):
                if rf.general_position(q):
                    out.append((f'{name}[{i}]', q))
        # just inside the general-position region: x-axis 3.5 / 5 / 8 degrees from the vertical (up and down), z-axis 3.5 / 5 degrees from
        # the vertical, rotation angle pi - 0.1 - 1e-3, each with generic heading and roll
        edge = []
        for off in (3.5, 5.0, 8.0):
            for sgn in (1.0, -1.0):
                for roll in (0.7, -2.0):
                    for yaw in (0.4, 2.5):
                        # pitch sgn*(90 - off): body x-axis off degrees from the vertical
                        edge.append((f'x-axis {off}deg from vertical sgn={sgn:g} roll={roll} yaw={yaw}',
                                     rq.rpy2q(roll, sgn * math.radians(90.0 - off), yaw)))
        for off in (3.5, 5.0):
            for az in (0.3, 1.9, -2.2):
                for yaw in (0.4, -2.5):
                    tilt = rq.axang2q([math.cos(az), math.sin(az), 0.0], math.radians(off))
                    edge.append((f'z-axis {off}deg from vertical az={az} yaw={yaw}', rq.qmul(rq.axang2q([0, 0, 1], yaw), tilt)))
                    edge.append((f'z-axis {off}deg from inverted az={az} yaw={yaw}', rq.qmul(rq.qmul(rq.axang2q([0, 0, 1], yaw), tilt), rq.axang2q([1, 0.3, 0], math.pi - 0.5))))
        for ax in ((1, 2, 3), (-3, 1, 2), (2, -1, 3)):
            edge.append((f'angle pi-0.101 about {ax}', rq.axang2q(ax, math.pi - 0.101)))
        for lab, q in edge:
            if rf.general_position(q):
                out.append((lab, q))
    # one Euler angle a small non-zero amount away from zero, the other two generic: next to the exact-zero / identity shortcuts
    # of the factor quaternions (roll, pitch, heading) the closed forms are composed from
    for small in (3e-6, 1e-4, 2e-3, 5e-3, 8e-3, 1.2e-2):
        for sgn in (1.0, -1.0):
            for pos in range(3):
                ang = [0.7, -0.4, 2.5]
                ang[pos] = sgn * small
                q = rq.rpy2q(*ang)
                if cls == 'S' or rf.general_position(q):
                    out.append((f'small {("roll", "pitch", "yaw")[pos]}={sgn * small:g}', q))
    return out


def _pose_classes(ctx, Rt, q):
    if abs(abs(Rt[2, 2]) - 1) < 1e-12:
        ctx.cls('pose:level' if Rt[2, 2] > 0 else 'pose:inverted')
    if max(abs(Rt[2, 0]), abs(Rt[2, 1]), abs(Rt[0, 2]), abs(Rt[1, 2])) > 1 - 1e-12:
        ctx.cls('pose:vertical')
    if abs(q[0]) < 1e-12:
        ctx.cls('pose:half-turn')


def _judge(ctx, est, out, g, m, a, mg, sa, sm, tol, site, key):
    # every exit of every estimator returns a plain numpy.ndarray (an ndarray SUBCLASS such as ahrs.Quaternion would change what *, +, - and @
    # mean for the caller that composes the result with plain arrays)
    if isinstance(out, np.ndarray) and type(out) is not np.ndarray and est.name != 'AQUA.estimate[acc-only]':      # (that one exit returns a Quaternion object on the unchanged tree: observation 7.7, not judged)
        ctx.fail(site + ' [returns a plain numpy.ndarray]', key, type(out).__name__, 'numpy.ndarray')
    Ro = est.to_matrix(out)
    ctx.evals += 1
    if Ro is None:
        ctx.fail(site, key, out, 'a valid attitude', tol)
        return
    M = Ro if est.direction == 'fwd' else Ro.T
    e = float(np.abs(M @ g - a / sa).max())
    if not est.tilt_only:
        e = max(e, float(np.abs(M @ m - mg / sm).max()))
    ctx.track(f'{est.cls}:{est.name}', e)
    if not e <= tol:
        ctx.fail(site, key, out, {'residual': e}, tol)


def _decoy(ename):
    """Use ANOTHER configuration of the same estimator class (other references, declination, frame, weights, method ...) on other data.
    An estimator must not be influenced by what other instances of its class did before (state cached per class or module)."""
    from ahrs import filters as F
    a = np.array([0.3, -0.2, 0.9]) * 9.0
    m = np.array([0.6, 0.5, -0.4]) * 30.0
    d = 25.0
    v2 = np.array([rf.cd(35.0) * rf.cd(d), rf.cd(35.0) * rf.sd(d), rf.sd(35.0)])
    try:
        if ename.startswith('TRIAD'):
            F.TRIAD(a, m, v1=np.array([0.1, -0.2, 0.97]), v2=v2, frame='NED').A
            F.TRIAD(a, m, v1=np.array([0.0, 0.0, -1.0]), v2=np.array([0.2, 0.9, -0.3]), frame='ENU', representation='quaternion').A
        elif ename.startswith('Davenport'):
            F.Davenport(a, m, magnetic_dip=-20.0, weights=np.array([1.0, 3.0])).Q
        elif ename.startswith('QUEST'):
            F.QUEST(a, m, magnetic_dip=-20.0, weights=np.array([0.2, 0.8])).Q
        elif ename.startswith('FLAE'):
            for meth in ('eig', 'symbolic', 'newton'):
                F.FLAE(a, m, method=meth, magnetic_dip=-20.0, weights=np.array([1.0, 3.0])).Q
        elif ename.startswith('OLEQ'):
            F.OLEQ(a, m, magnetic_ref=v2.copy(), frame='NED', weights=np.array([1.0, 3.0])).Q
            F.OLEQ(a, m, magnetic_ref=-20.0, frame='ENU').Q
        elif ename.startswith('FQA'):
            F.FQA(a, m, mag_ref=v2.copy()).Q
        elif ename.startswith('Tilt'):
            for rep in ('quaternion', 'rotmat', 'angles'):
                F.Tilt(a, m, representation=rep).Q
        elif ename.startswith('SAAM'):
            F.SAAM(a, m, representation='rotmat').A
        elif ename.startswith('FAMC'):
            F.FAMC(a, m).Q
        elif ename.startswith('AQUA'):
            F.AQUA(frame='ENU', alpha=0.3, adaptive=True).estimate(a, m)
    except Exception:
        pass


def job_est(ctx, ename, k, lo, hi):
    est = [e for e in rf.registry() if e.name == ename][0]
    atts = attitudes(est.cls, k)[lo:hi]
    dips = DIPS_T if ctx.thorough else DIPS_Q
    scal = SCAL_T if ctx.thorough else SCAL_Q
    if est.tilt_only:
        dips = dips[:1]
    extra_dip = None
    if est.seeded and not ctx.thorough:
        extra_dip = -80.0          # slowest contraction of OLEQ's iteration; only every 6th attitude in the quick tier
    tol0 = TOL[est.cls]
    real_random = np.random.random
    for ai, (lab, q) in enumerate(atts):
        Rt = rq.R(q)
        _pose_classes(ctx, Rt, q)
        for frame in est.frames:
            for dip in (dips + [extra_dip] if (extra_dip is not None and (lo + ai) % 6 == 0) else dips):
                _decoy(ename)
                g, m = est.refs(dip, frame)
                if abs(float(g @ m)) > 0.9999:
                    continue                # collinear references (OLEQ's NED magnetic reference at 0 is vertical): excluded by the statement
                for sa, sm in scal:
                    a, mg = est.measurements(Rt, dip, frame, sa, sm)
                    # estimators that weight the raw (unnormalised) vectors lose digits in proportion to the magnitude ratio
                    tol = tol0 if max(sa / sm, sm / sa) <= 1e2 else max(tol0, 1e-6)
                    if est.seeded:
                        # OLEQ iterates q <- R q until successive iterates differ by < 1e-8; the contraction ratio is
                        # rho = (0.5 + |cos(angle between references)|)/1.5, so the remaining error is <= 1e-8 rho/(1-rho); x10 margin
                        rho = (0.5 + abs(float(g @ m))) / 1.5
                        tol = max(tol, 1e-7 * rho / (1.0 - rho))
                    key = f'est={ename} att={lab} frame={frame} dip={dip:g} scale=({sa:g},{sm:g})'
                    entries = [('single', est.single)]
                    if est.estimate is not None:
                        entries.append(('estimate', est.estimate))
                    starts = OLEQ_STARTS[(k % 2)::2] if est.seeded else [None]
                    for st_i, st in enumerate(starts):
                        for en, fn in entries:
                            if st is not None:
                                np.random.random = lambda n=4, st=st: st.copy()
                            try:
                                out = fn(a.copy(), mg.copy(), dip, frame)
                            except Exception as ex:
                                ctx.evals += 1
                                ctx.fail(f'{ename}.{en}: raises', key, f'{type(ex).__name__}: {ex}'[:160], 'an attitude')
                                continue
                            finally:
                                np.random.random = real_random
                            kk = key if st is None else f'{key} start#{(k % 2) + 2 * st_i}'
                            _judge(ctx, est, out, g, m, a, mg, sa, sm, tol, f'{ename}.{en}: maps references onto measurements', kk)
                    if abs(abs(q[0]) - 1) > 1e-12:
                        ctx.seen((ename, lab, frame, dip, sa, sm))
                    ctx.cls('tilt-only' if est.tilt_only else est.cls)
    # the N-sample entry point: the whole chunk of attitudes as ONE record (and reversed), every row judged like a single call
    if est.batch is not None and atts:
        for frame in est.frames:
            for dip in dips[:2]:
                g, m = est.refs(dip, frame)
                if abs(float(g @ m)) > 0.9999:
                    continue
                sa, sm = scal[-1]
                for order_name, seq in [('forward', atts), ('reversed', atts[::-1])] + [(f'first {nn} rows', atts[:nn]) for nn in (1, 2, 3, 4, 5) if len(atts) > nn] + \
                                       [(f'last {nn} rows', atts[-nn:]) for nn in (2, 3, 4) if len(atts) > nn]:
                    meas = [est.measurements(rq.R(q), dip, frame, sa, sm) for _, q in seq]
                    Acc = np.array([x[0] for x in meas]); Mag = np.array([x[1] for x in meas])
                    if est.seeded:
                        np.random.random = lambda n=4: OLEQ_STARTS[0].copy()
                    try:
                        out = est.batch(Acc.copy(), None if est.tilt_only else Mag.copy(), dip, frame)
                    except Exception as ex:
                        ctx.evals += 1
                        ctx.fail(f'{ename}.batch: raises', f'est={ename} frame={frame} dip={dip:g} rows={order_name}', f'{type(ex).__name__}: {ex}'[:160], 'N attitudes')
                        continue
                    finally:
                        np.random.random = real_random
                    out = list(out) if len(out) == len(seq) else [None] * len(seq)
                    tolb = tol0 if max(sa / sm, sm / sa) <= 1e2 else max(tol0, 1e-6)
                    if est.seeded:
                        rho = (0.5 + abs(float(g @ m))) / 1.5
                        tolb = max(tolb, 1e-7 * rho / (1.0 - rho))
                    for ri_, ((lab, q), o) in enumerate(zip(seq, out)):
                        a_, m_ = meas[ri_]
                        _judge(ctx, est, o if o is not None else np.zeros(1), g, m, a_, m_, sa, sm, tolb, f'{ename}.batch: row maps references onto measurements',
                               f'est={ename} att={lab} frame={frame} dip={dip:g} scale=({sa:g},{sm:g}) row={ri_} rows={order_name}')
                    ctx.cls('batch-rows')
                # rows of ONE record with magnitudes that differ from row to row (the first row of unit length): every row still maps the references
                # onto its own measurement directions (no record-wide shortcut decided on the first row)
                seq = atts[:8]
                if len(seq) >= 3:
                    for pat_name, SA, SM in (('unit first row', [1.0, 9.81, 0.5, 1.0, 3.0, 0.02, 9.81, 1.0], [1.0, 45.0, 1.0, 0.3, 45.0, 2.0, 1e-3, 45.0]),
                                             ('unit first acc only', [1.0, 2.0, 9.81, 0.7, 1.0, 5.0, 0.1, 9.81], [45.0, 1.0, 30.0, 45.0, 0.5, 1.0, 45.0, 2.0]),
                                             ('unit first mag only', [9.81, 1.0, 0.3, 9.81, 2.0, 1.0, 4.0, 0.5], [1.0, 45.0, 0.2, 1.0, 45.0, 7.0, 1.0, 45.0])):
                        meas = [est.measurements(rq.R(q), dip, frame, SA[i_], SM[i_]) for i_, (_, q) in enumerate(seq)]
                        Acc = np.array([x[0] for x in meas]); Mag = np.array([x[1] for x in meas])
                        if est.seeded:
                            np.random.random = lambda n=4: OLEQ_STARTS[0].copy()
                        try:
                            out = est.batch(Acc.copy(), None if est.tilt_only else Mag.copy(), dip, frame)
                        except Exception as ex:
                            ctx.evals += 1
                            ctx.fail(f'{ename}.batch: raises', f'est={ename} frame={frame} dip={dip:g} rows with per-row magnitudes ({pat_name})', f'{type(ex).__name__}: {ex}'[:160], 'N attitudes')
                            continue
                        finally:
                            np.random.random = real_random
                        out = list(out) if len(out) == len(seq) else [None] * len(seq)
                        tolb = max(tol0, 1e-6)
                        if est.seeded:
                            rho = (0.5 + abs(float(g @ m))) / 1.5
                            tolb = max(tolb, 1e-7 * rho / (1.0 - rho))
                        for ri_, ((lab, q), o) in enumerate(zip(seq, out)):
                            a_, m_ = meas[ri_]
                            _judge(ctx, est, o if o is not None else np.zeros(1), g, m, a_, m_, SA[ri_], SM[ri_], tolb, f'{ename}.batch: row maps references onto measurements whatever the magnitudes of the OTHER rows',
                                   f'est={ename} att={lab} frame={frame} dip={dip:g} row={ri_} per-row magnitudes ({pat_name})')
                    ctx.cls('batch-rows:per-row-magnitudes')
    # integer-typed samples (raw sensor counts): the same attitudes with the measurements rounded to integers at a known scale,
    # as int64 / int16 arrays and nested lists of Python ints, through the N-sample and the one-sample entry points
    if atts:
        for frame in est.frames:
            dip = dips[-1]
            g, m = est.refs(dip, frame)
            if abs(float(g @ m)) > 0.9999:
                continue
            sub = atts[::4]
            for dtn, scale in (('int64', 1e6), ('int16', 2e4), ('list', 1e6)):
                meas = [est.measurements(rq.R(q), dip, frame, scale, scale) for _, q in sub]
                Acc = np.rint(np.array([x[0] for x in meas])); Mag = np.rint(np.array([x[1] for x in meas]))
                conv = (lambda X: [[int(v) for v in r] for r in X]) if dtn == 'list' else (lambda X: X.astype(dtn))
                conv1 = (lambda x: [int(v) for v in x]) if dtn == 'list' else (lambda x: x.astype(dtn))
                tol_i = max(tol0, 100.0 / scale)
                if est.seeded:
                    np.random.random = lambda n=4: OLEQ_STARTS[0].copy()
                try:
                    runs = []
                    if est.batch is not None:
                        try:
                            ob = est.batch(conv(Acc), None if est.tilt_only else conv(Mag), dip, frame)
                            runs.append(('batch', list(ob) if len(ob) == len(sub) else [None] * len(sub)))
                        except TypeError:
                            ctx.outcome('int-refused')
                        except Exception as ex:
                            ctx.evals += 1
                            ctx.fail(f'{ename}.batch: raises on integer-typed samples', f'est={ename} frame={frame} dtype={dtn}', f'{type(ex).__name__}: {ex}'[:160], 'N attitudes')
                    singles = []
                    for ri_ in range(0, len(sub), 3):
                        try:
                            singles.append((ri_, est.single(conv1(Acc[ri_]), None if est.tilt_only else conv1(Mag[ri_]), dip, frame)))
                        except TypeError:
                            ctx.outcome('int-refused')
                        except Exception as ex:
                            ctx.evals += 1
                            ctx.fail(f'{ename}.single: raises on integer-typed samples', f'est={ename} att={sub[ri_][0]} frame={frame} dtype={dtn}', f'{type(ex).__name__}: {ex}'[:160], 'an attitude')
                finally:
                    np.random.random = real_random
                for en, outs in runs:
                    for ri_, ((lab, q), o) in enumerate(zip(sub, outs)):
                        _judge(ctx, est, o if o is not None else np.zeros(1), g, m, Acc[ri_], Mag[ri_], float(np.linalg.norm(Acc[ri_])), float(np.linalg.norm(Mag[ri_])), tol_i,
                               f'{ename}.{en}: integer-typed samples map references onto measurements', f'est={ename} att={lab} frame={frame} dip={dip:g} dtype={dtn}')
                for ri_, o in singles:
                    _judge(ctx, est, o, g, m, Acc[ri_], Mag[ri_], float(np.linalg.norm(Acc[ri_])), float(np.linalg.norm(Mag[ri_])), tol_i,
                           f'{ename}.single: integer-typed samples map references onto measurements', f'est={ename} att={sub[ri_][0]} frame={frame} dip={dip:g} dtype={dtn}')
                ctx.cls('int-samples')
    if atts:
        lab, q = atts[0]
        a, mg = est.measurements(rq.R(q), dips[0], est.frames[0], *scal[-1])
        ctx.sample({'estimator': ename, 'attitude': lab, 'q': q.tolist(), 'acc': a.tolist(), 'mag': mg.tolist(), 'dip': dips[0], 'frame': est.frames[0]})


WEIGHTS = [(1.0, 1.0), (2.0, 1.0), (0.3, 0.2), (0.25, 0.75), (5.0, 0.1), (0.5, 0.5)]


def job_weights(ctx, k):
    """The `weights` option of the Wahba-type estimators (Davenport, QUEST, FLAE with each method, OLEQ): with exact, consistent measurements
    every pair of positive weights, normalised to unit sum or not, given as ndarray or list, recovers the attitude (batch, one sample, estimate())."""
    from ahrs import filters as F
    reg = {e.name: e for e in rf.registry()}
    atts = [a for a in attitudes('Gp', k)][::9]
    real_random = np.random.random
    makers = [('Davenport', 'Davenport', lambda a, m, dip, frame, w: F.Davenport(a, m, magnetic_dip=float(dip), weights=w).Q, lambda dip, frame, w: F.Davenport(magnetic_dip=float(dip), weights=w)),
              ('QUEST', 'QUEST', lambda a, m, dip, frame, w: F.QUEST(a, m, magnetic_dip=float(dip), weights=w).Q, lambda dip, frame, w: F.QUEST(magnetic_dip=float(dip), weights=w)),
              ('OLEQ', 'OLEQ', lambda a, m, dip, frame, w: F.OLEQ(a, m, magnetic_ref=float(dip), frame=frame, weights=w).Q, lambda dip, frame, w: F.OLEQ(magnetic_ref=float(dip), frame=frame, weights=w))]
    for meth in ('eig', 'symbolic', 'newton'):
        makers.append((f'FLAE[{meth}]', f'FLAE[{meth}]', lambda a, m, dip, frame, w, meth=meth: F.FLAE(a, m, method=meth, magnetic_dip=float(dip), weights=w).Q,
                       lambda dip, frame, w, meth=meth: (F.FLAE(magnetic_dip=float(dip), weights=w), meth)))
    for name, ename, build, mk_est in makers:
        est = reg[ename]
        for frame in est.frames[:1]:
            for dip in (-45.0, 60.0):
                g, m = est.refs(dip, frame)
                meas = [est.measurements(rq.R(q), dip, frame, 9.81, 45.0) for _, q in atts]
                Acc = np.array([x[0] for x in meas]); Mag = np.array([x[1] for x in meas])
                for wi, w in enumerate(WEIGHTS):
                    for cn, wc in (('ndarray', lambda: np.array(w)), ('list', lambda: list(w))):
                        key0 = f'est={name} frame={frame} dip={dip:g} weights={w} as {cn}'
                        tol = 1e-5 if est.seeded else 1e-6
                        if est.seeded:
                            np.random.random = lambda n=4: OLEQ_STARTS[0].copy()
                        try:
                            try:
                                out = build(Acc.copy(), Mag.copy(), dip, frame, wc())
                            except (TypeError, ValueError, AttributeError) as ex:
                                if cn == 'list':
                                    ctx.outcome(('weights-container-refused', name)); continue
                                ctx.evals += 1
                                ctx.fail(f'{name}(weights=): batch raises', key0, f'{type(ex).__name__}: {ex}'[:160], 'N attitudes'); continue
                            out = list(out) if len(out) == len(atts) else [None] * len(atts)
                            for ri_, ((lab, q), o) in enumerate(zip(atts, out)):
                                _judge(ctx, est, o if o is not None else np.zeros(1), g, m, meas[ri_][0], meas[ri_][1], 9.81, 45.0, tol, f'{name}(weights=).batch: row maps references onto measurements', f'{key0} att={lab}')
                            for ri_ in range(0, len(atts), 4):
                                o1 = build(meas[ri_][0].copy(), meas[ri_][1].copy(), dip, frame, wc())
                                _judge(ctx, est, o1, g, m, meas[ri_][0], meas[ri_][1], 9.81, 45.0, tol, f'{name}(weights=) one sample: maps references onto measurements', f'{key0} att={atts[ri_][0]}')
                                obj = mk_est(dip, frame, wc())
                                o2 = obj[0].estimate(meas[ri_][0].copy(), meas[ri_][1].copy(), method=obj[1]) if isinstance(obj, tuple) else obj.estimate(meas[ri_][0].copy(), meas[ri_][1].copy())
                                _judge(ctx, est, o2, g, m, meas[ri_][0], meas[ri_][1], 9.81, 45.0, tol, f'{name}(weights=).estimate: maps references onto measurements', f'{key0} att={atts[ri_][0]}')
                        except AttributeError as ex:
                            if cn == 'list':
                                ctx.outcome(('weights-container-refused', name))
                            else:
                                ctx.evals += 1
                                ctx.fail(f'{name}(weights=): raises', key0, f'{type(ex).__name__}: {ex}'[:160], 'attitudes')
                        except Exception as ex:
                            ctx.evals += 1
                            ctx.fail(f'{name}(weights=): raises', key0, f'{type(ex).__name__}: {ex}'[:160], 'attitudes')
                        finally:
                            np.random.random = real_random
                        ctx.seen(('weights', name, frame, dip, wi, cn))
                        ctx.cls('weights-option')
    ctx.sample({'weights': WEIGHTS})


def job_default_refs(ctx, k):
    """Reference vectors OMITTED: an estimator that is given no reference uses the default it reports as its own attribute; its answers are
    those of the same estimator given that vector explicitly, and they map those references onto the measurements built from them."""
    from ahrs import filters as F
    atts = [a for a in attitudes('Gp', k)][::11]
    for frame in ('NED', 'ENU'):
        t0 = F.TRIAD(frame=frame)
        v1, v2 = np.asarray(t0.v1, float), np.asarray(t0.v2, float)
        u1, u2 = v1 / np.linalg.norm(v1), v2 / np.linalg.norm(v2)
        ctx.close([float(np.linalg.norm(v1)), float(np.linalg.norm(v2))], [1.0, 1.0], 1e-12, 'TRIAD with references omitted: the default references it reports are unit vectors', f'frame={frame}')
        for lab, q in atts:
            Rt = rq.R(q)
            a = Rt @ u1 * 9.81; m = Rt @ u2 * 45.0                      # TRIAD: A v = w  (direction "fwd")
            key = f'TRIAD frame={frame} att={lab}'
            for rep in ('rotmat', 'quaternion'):
                try:
                    d_one = np.asarray(F.TRIAD(a.copy(), m.copy(), frame=frame, representation=rep).A, float)
                    e_one = np.asarray(F.TRIAD(a.copy(), m.copy(), v1=v1.copy(), v2=v2.copy(), frame=frame, representation=rep).A, float)
                    d_est = np.asarray(F.TRIAD(frame=frame).estimate(a.copy(), m.copy(), representation=rep), float)
                    d_bat = np.asarray(F.TRIAD(np.array([a, a]), np.array([m, m]), frame=frame, representation=rep).A, float)[1]
                except Exception as ex:
                    ctx.fail('TRIAD with references omitted raises', key, f'{type(ex).__name__}: {ex}'[:160], 'an attitude'); continue
                for nm, o in (('one sample', d_one), ('estimate()', d_est), ('N samples', d_bat)):
                    same = o.shape == e_one.shape and (float(np.abs(o - e_one).max()) <= 1e-12 or (rep == 'quaternion' and float(np.abs(o + e_one).max()) <= 1e-12))
                    ctx.expect(same, f'TRIAD[{rep}] with v1, v2 omitted = TRIAD given the default vectors it reports', f'{key} route={nm}', o, e_one, 1e-12)
                    Ro = o if rep == 'rotmat' else rq.R(rq.qunit(o))
                    good = rq.so3_defect(Ro) <= 1e-9 and float(np.abs(Ro @ u1 - a / 9.81).max()) <= 1e-6 and float(np.abs(Ro @ u2 - m / 45.0).max()) <= 1e-6
                    ctx.expect(good, f'TRIAD[{rep}] with v1, v2 omitted: a proper rotation that maps its default references onto the measurements', f'{key} route={nm}', o, 'A v = w', 1e-6)
            ctx.seen(('default-refs', 'TRIAD', frame, lab))
    # TRIAD: the public reference attributes v1 / v2 assigned on a LIVE object (after it has estimated with other references): the object follows
    # its current attributes - the answer of a fresh object built with those references
    vA1, vA2 = np.array([0.0, 0.0, 1.0]), np.array([rf.cd(60.0), 0.0, rf.sd(60.0)])
    vB1, vB2 = np.array([0.0, 0.0, -1.0]), np.array([0.0, rf.cd(-35.0), -rf.sd(-35.0)])
    for lab, q in atts[:6]:
        Rt = rq.R(q)
        a = Rt @ vB1 * 9.81; m = Rt @ vB2 * 45.0
        for rep in ('rotmat', 'quaternion'):
            for used_first in (True, False):
                key = f'TRIAD att={lab} representation={rep} estimated with other references first={used_first}'
                try:
                    t = F.TRIAD(v1=vA1.copy(), v2=vA2.copy())
                    if used_first:
                        t.estimate((Rt @ vA1 * 9.81).copy(), (Rt @ vA2 * 45.0).copy(), representation=rep)
                    t.v1, t.v2 = vB1.copy(), vB2.copy()
                    got = np.asarray(t.estimate(a.copy(), m.copy(), representation=rep), float)
                    exp = np.asarray(F.TRIAD(v1=vB1.copy(), v2=vB2.copy()).estimate(a.copy(), m.copy(), representation=rep), float)
                except Exception as ex:
                    ctx.fail('TRIAD with v1 / v2 assigned on the object raises', key, f'{type(ex).__name__}: {ex}'[:160], 'an attitude'); continue
                ctx.close(got, exp, 1e-12, 'TRIAD.estimate follows the v1 / v2 currently assigned on the object (= a fresh object built with them)', key)
                Ro = got if rep == 'rotmat' else rq.R(rq.qunit(got))
                ctx.expect(float(np.abs(Ro @ vB1 - a / 9.81).max()) <= 1e-9 and float(np.abs(Ro @ vB2 - m / 45.0).max()) <= 1e-9, 'TRIAD with re-assigned references maps THOSE references onto the measurements', key, got, 'A v = w', 1e-9)
    ctx.cls('references-reassigned')
    # FQA: magnetic reference omitted
    f0 = F.FQA()
    mr = np.asarray(f0.m_ref, float)
    for lab, q in atts:
        est = [e for e in rf.registry() if e.name == 'FQA'][0]
        g, _m = est.refs(60.0, 'NED')
        mu = mr / np.linalg.norm(mr)
        Rt = rq.R(q)
        M = Rt if est.direction == 'fwd' else Rt.T
        a = M @ g * 9.81; m = M @ mu * 45.0
        key = f'FQA att={lab}'
        try:
            d_one = np.asarray(F.FQA(a.copy(), m.copy()).Q, float); e_one = np.asarray(F.FQA(a.copy(), m.copy(), mag_ref=mr.copy()).Q, float)
            d_est = np.asarray(F.FQA().estimate(a.copy(), m.copy()), float)
        except Exception as ex:
            ctx.fail('FQA with the reference omitted raises', key, f'{type(ex).__name__}: {ex}'[:160], 'an attitude'); continue
        for nm, o in (('one sample', d_one), ('estimate()', d_est)):
            same = o.shape == e_one.shape and min(float(np.abs(o - e_one).max()), float(np.abs(o + e_one).max())) <= 1e-12
            ctx.expect(same, 'FQA with mag_ref omitted = FQA given the default vector it reports', f'{key} route={nm}', o, e_one, 1e-12)
    ctx.cls('default-references')
    ctx.sample({'default_references': {'TRIAD.v1': np.asarray(F.TRIAD().v1).tolist(), 'TRIAD.v2': np.asarray(F.TRIAD().v2).tolist()}})


def job_option_spellings(ctx, k):
    """Option strings are matched case-insensitively by every validator of these entry points (frame.upper(), representation.lower()).
    A spelling that the entry point ACCEPTS selects the same frame / representation as the canonical spelling: the answers are equal.
    (A spelling that is refused with ValueError is a refusal and is not judged here.)"""
    from ahrs import filters as F
    from ahrs.common import orientation as O
    atts = [a for a in attitudes('Gp', k)][::17][:8]
    dip = 60.0

    def spell(s):
        return [s.lower(), s.capitalize(), s.upper()] if s.upper() in ('NED', 'ENU') else [s.upper(), s.capitalize()]

    def oleq(a, m, fr):
        real_random = np.random.random
        np.random.random = lambda *args, **kw: OLEQ_STARTS[0].copy()
        try:
            return F.OLEQ(a, m, magnetic_ref=dip, frame=fr).Q
        finally:
            np.random.random = real_random
    entries = [('ecompass', ('rotmat', 'quaternion', 'rpy', 'axisangle'), lambda a, m, fr, rep: O.ecompass(a, m, frame=fr, representation=rep)),
               ('am2DCM', (None,), lambda a, m, fr, rep: O.am2DCM(a, m, frame=fr)),
               ('am2q', (None,), lambda a, m, fr, rep: O.am2q(a, m, frame=fr)),
               ('TRIAD(one sample)', ('rotmat', 'quaternion'), lambda a, m, fr, rep: F.TRIAD(a, m, frame=fr, representation=rep).A),
               ('TRIAD(N samples)', ('rotmat', 'quaternion'), lambda a, m, fr, rep: F.TRIAD(np.array([a, a]), np.array([m, m]), frame=fr, representation=rep).A),
               ('TRIAD.estimate', ('rotmat', 'quaternion'), lambda a, m, fr, rep: F.TRIAD(frame=fr).estimate(a, m, representation=rep)),
               ('OLEQ', (None,), lambda a, m, fr, rep: oleq(a, m, fr)),
               ('AQUA(acc, mag)', (None,), lambda a, m, fr, rep: F.AQUA(acc=a, mag=m, frame=fr).Q)]

    def flat(o):
        if isinstance(o, tuple):
            return np.concatenate([np.ravel(np.asarray(x, float)) for x in o])
        return np.ravel(np.asarray(o, float))
    for lab, q in atts:
        Rt = rq.R(q)
        a = Rt @ np.array([0.0, 0.0, 1.0]) * 9.81
        m = Rt @ np.array([rf.cd(dip), 0.0, rf.sd(dip)]) * 45.0
        for name, reps, fn in entries:
            for frame in ('NED', 'ENU'):
                for rep in reps:
                    try:
                        ref = flat(fn(a.copy(), m.copy(), frame, rep))
                    except Exception as ex:
                        ctx.fail(f'{name}: raises on canonical options', f'att={lab} frame={frame} representation={rep}', f'{type(ex).__name__}: {ex}'[:160], 'an attitude'); continue
                    variants = [(fs, rep) for fs in spell(frame) if fs != frame]
                    if rep is not None:
                        variants += [(frame, rs) for rs in spell(rep)] + [(frame.lower(), rep.capitalize())]
                    for fs, rs in variants:
                        ctx.evals += 1
                        try:
                            out = flat(fn(a.copy(), m.copy(), fs, rs))
                        except (ValueError, TypeError):
                            ctx.cls('spelling-refused'); continue           # refusal: not judged
                        except Exception as ex:
                            ctx.fail(f'{name}: an accepted option spelling crashes', f'att={lab} frame={fs!r} representation={rs!r}', f'{type(ex).__name__}: {ex}'[:160], 'the canonical answer'); continue
                        same = out.shape == ref.shape and float(np.abs(out - ref).max()) <= 1e-12
                        ctx.expect(same, f'{name}: an accepted spelling of frame / representation selects the same option as the canonical spelling',
                                   f'att={lab} frame={fs!r} (canonical {frame!r}) representation={rs!r} (canonical {rep!r})', out, ref, 1e-12)
                        ctx.seen(('spelling', name, lab, fs, rs))
    ctx.cls('option-spellings')


def run(ctx):
    A.selftest()
    k = A.seed_k(ctx.seed)
    ks = [k, (k + 3) % 8] if ctx.thorough else [k]
    jobs = []
    for e in rf.registry():
        for kk in ks:
            n = len(attitudes(e.cls, kk))
            parts = 6 if e.name in ('OLEQ', 'FQA', 'QUEST') or ctx.thorough else 3
            for lo, hi in core.chunks(n, parts):
                jobs.append(('job_est', (e.name, kk, lo, hi)))
    for kk in ks:
        jobs.append(('job_weights', (kk,)))
        jobs.append(('job_default_refs', (kk,)))
        jobs.append(('job_option_spellings', (kk,)))
    core.run_jobs(ctx, __name__, jobs)
    ctx.notes['estimator_entries'] = [e.name for e in rf.registry()]
    ctx.notes['class_sizes'] = {c: len(attitudes(c, k)) for c in ('S', 'Gp')}
