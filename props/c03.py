"""C03 — every estimator always returns valid attitudes, one per input sample (safety invariant over all short histories).

Per estimator configuration: (i) all constant histories of length 2 and 3 over DIR3 x DIR3 (every exact canonical pose and every
pairing of lattice directions at least 1 degree from parallel, physically consistent or not) x magnitude pairs;
(ii) all length-3 histories over a 6-pose alphabet (6^3 = 216: level -> inverted -> vertical jumps) x 3 gyro vectors;
(iii) single-sample calls.  Invariant checked on every emitted row.
"""
import itertools, math
import numpy as np
from mc import core, alphabet as A
from mc.ref import quat as rq, filters as rf, recursive as rr

PID = 'C03'
LEVEL = 'model_checking'
RULE = ('states = (estimator configuration, history prefix) reached; transitions = samples consumed by the real estimator; invariant = one finite real unit '
        'attitude per sample, evaluated on every emitted row; a history is distinct by (configuration, sample word, magnitudes) and non-trivial when acc is not the +z axis')
ASSUMPTIONS = ['unit norm within 1e-9 for quaternions, SO(3) membership within 1e-9 for matrices, finite for angle triples',
               'acc and mag at least 1 degree from parallel, all samples non-zero (as in the statement)',
               'bounded to histories of length <= 3 over the 26 lattice directions / 6 poses; magnitudes 1e-3 ... 1e3; plus sustained turns of 700 (thorough: 1500) samples about 4 axes at 3 (rate, sampling frequency) pairs',
               'default magnetic references are never used: every estimator gets an explicit dip / reference']
REQUIRED_CLASSES = ['float32', 'zero-rate', 'rate-ladder', 'containers', 'apriori-containers', 'single-frame', 'recursive', 'pose:level', 'pose:inverted', 'pose:vertical', 'history:jump', 'history:sustained-turn', 'frame-spellings']
MAG_Q = [(9.81, 45.0), (1.0, 1.0)]
MAG_T = [(sa, sm) for sa in (1e-3, 9.81, 1e3) for sm in (1e-3, 45.0, 1e3)]
GYR = [np.array([0.01, -0.02, 0.03]), np.array([1.0, -2.0, 0.5]), np.array([0.0, 0.0, 1e-3])]


def dir_pairs():
    D = A.DIR3()
    out = []
    for i, a in enumerate(D):
        for j, m in enumerate(D):
            c = abs(float(a @ m))
            if c <= math.cos(math.radians(1.0)):
                out.append((i, j))
    return out


def poses6():
    qs = [np.array([1.0, 0, 0, 0]), np.array([0.0, 1.0, 0, 0]), rq.axang2q([0, 1, 0], math.pi / 2), rq.axang2q([1, 0, 0], -math.pi / 2),
          rq.qunit([0.3, -0.5, 0.4, 0.7]), rq.qunit([0.6, 0.2, -0.7, 0.3])]
    g = np.array([0.0, 0.0, 1.0]); m = np.array([math.cos(1.0), 0.0, math.sin(1.0)])
    return [(rq.R(q).T @ g, rq.R(q).T @ m) for q in qs]


def _valid_rows(out, kind, n, tol=1e-9):
    """-> (ok, reason)"""
    o = np.asarray(out)
    if np.iscomplexobj(o) or o.dtype.kind not in 'fiu':
        return False, f'dtype {o.dtype}'
    shape1 = {'q': (4,), 'R': (3, 3), 'angles': (3,)}[kind]
    if o.shape == shape1 and n == 1:
        o = o[None]
    if o.shape != (n,) + shape1:
        return False, f'shape {o.shape} for {n} samples'
    if not np.all(np.isfinite(o)):
        return False, f'non-finite rows {np.nonzero(~np.isfinite(o.reshape(n, -1)).all(axis=1))[0][:5].tolist()}'
    if kind == 'q':
        d = np.abs(np.linalg.norm(o, axis=1) - 1.0)
        if d.max() > tol:
            return False, f'norm off by {d.max():.3g} at row {int(d.argmax())}'
    if kind == 'R':
        d = max(rq.so3_defect(x) for x in o)
        if d > tol:
            return False, f'SO(3) defect {d:.3g}'
    return True, ''


def _pose_cls(ctx, a):
    a = a / np.linalg.norm(a)
    if abs(a[2] - 1) < 1e-12:
        ctx.cls('pose:level')
    elif abs(a[2] + 1) < 1e-12:
        ctx.cls('pose:inverted')
    elif abs(a[2]) < 1e-12:
        ctx.cls('pose:vertical')


def job_single(ctx, ename):
    est = [e for e in rf.registry() if e.name == ename][0]
    D = A.DIR3()
    mags = MAG_T if ctx.thorough else MAG_Q
    P6 = poses6()
    for frame in est.frames:
        dip = 60.0
        pairs = [(i, 0) for i in range(len(D))] if est.tilt_only else dir_pairs()
        for (i, j) in pairs:
            _pose_cls(ctx, D[i])
            for sa, sm in mags:
                a1, m1 = D[i] * sa, D[j] * sm
                for n in (1, 2, 3):
                    key = f'est={ename} frame={frame} pair={i}-{j} mags=({sa:g},{sm:g}) N={n}'
                    if n == 1:
                        calls = [('single', lambda: est.single(a1.copy(), None if est.tilt_only else m1.copy(), dip, frame))]
                        if est.estimate is not None:
                            calls.append(('estimate', lambda: est.estimate(a1.copy(), None if est.tilt_only else m1.copy(), dip, frame)))
                    elif est.batch is not None:
                        calls = [('batch', lambda: est.batch(np.tile(a1, (n, 1)), None if est.tilt_only else np.tile(m1, (n, 1)), dip, frame))]
                    else:
                        calls = []
                    for en, fn in calls:
                        ctx.evals += 1
                        ctx.transitions += n
                        try:
                            np.random.seed(1)
                            out = fn()
                        except Exception as ex:
                            ctx.fail(f'{ename}.{en}: raises', key, f'{type(ex).__name__}: {ex}'[:120], 'valid attitudes')
                            continue
                        ok, why = _valid_rows(out, est.out, n)
                        if not ok:
                            ctx.fail(f'{ename}.{en}: one valid attitude per sample', key, why, 'finite real unit rows')
                        elif en == 'batch' and n == 2 and (i * 31 + j) % 7 == 0 and (sa, sm) == mags[0]:
                            # the same history in single precision (sensor drivers commonly deliver float32); judged only where double precision is valid
                            ctx.evals += 1
                            try:
                                np.random.seed(1)
                                o32 = est.batch(np.tile(a1, (n, 1)).astype(np.float32), None if est.tilt_only else np.tile(m1, (n, 1)).astype(np.float32), dip, frame)
                                ok32, why32 = _valid_rows(np.asarray(o32, float) if not np.iscomplexobj(o32) else o32, est.out, n, tol=1e-5)
                                if not ok32:
                                    ctx.fail(f'{ename}.batch[float32 input]: one valid attitude per sample', key, why32, 'finite real unit rows (1e-5)')
                            except Exception as ex:
                                ctx.fail(f'{ename}.batch[float32 input]: raises', key, f'{type(ex).__name__}: {ex}'[:120], 'valid attitudes')
                            ctx.cls('float32')
                ctx.seen((ename, frame, i, j, sa, sm))
                ctx.cls('single-frame')
        # (ii) jump histories (batch entry only)
        if est.batch is not None:
            for w in itertools.product(range(6), repeat=3):
                acc = np.array([P6[k][0] for k in w]) * 9.81; mag = np.array([P6[k][1] for k in w]) * 45.0
                key = f'est={ename} frame={frame} poses={"".join(map(str, w))}'
                ctx.evals += 1
                ctx.transitions += 3
                try:
                    np.random.seed(1)
                    out = est.batch(acc, None if est.tilt_only else mag, dip, frame)
                    ok, why = _valid_rows(out, est.out, 3)
                    if not ok:
                        ctx.fail(f'{ename}.batch: one valid attitude per sample (pose jumps)', key, why, 'finite real unit rows')
                except Exception as ex:
                    ctx.fail(f'{ename}.batch: raises (pose jumps)', key, f'{type(ex).__name__}: {ex}'[:120], 'valid attitudes')
                ctx.cls('history:jump')
                ctx.seen((ename, frame, w))
    ctx.states += len(pairs) * len(mags) * 3
    ctx.traces += ctx.evals
    ctx.sample({'estimator': ename, 'acc': (D[3] * 9.81).tolist(), 'mag': (D[20] * 45).tolist(), 'N': 3})


def job_recursive(ctx, key, ci):
    r = rr.by_key(key)
    cfg = r.cfgs[ci]
    D = A.DIR3()
    mags = MAG_T if ctx.thorough else MAG_Q
    P6 = poses6()
    pairs = dir_pairs() if r.has_mag else [(i, 0) for i in range(len(D))]
    if r.cls_name == 'AngularRate':
        pairs = [(i, 0) for i in range(len(D))]
    for (i, j) in pairs:
        _pose_cls(ctx, D[i])
        for sa, sm in mags:
            for n in (2, 3):
                if r.cls_name == 'AngularRate':
                    g = np.tile(D[i] * sa, (n, 1))
                else:
                    g = np.tile(GYR[0], (n, 1))
                acc = np.tile(D[i] * sa, (n, 1)); mag = np.tile(D[j] * sm, (n, 1))
                k = f'filter={key} cfg#{ci} pair={i}-{j} mags=({sa:g},{sm:g}) N={n}'
                ctx.evals += 1
                ctx.transitions += n
                try:
                    np.random.seed(1)
                    out = r.output(r.batch(g, acc, mag, cfg))
                    ok, why = _valid_rows(out, 'q', n)
                    if not ok:
                        ctx.fail(f'{key}: one valid attitude per sample', k, why, 'finite real unit rows')
                    elif n == 3 and (i * 31 + j) % 7 == 0 and (sa, sm) == mags[0]:
                        ctx.evals += 1
                        try:
                            np.random.seed(1)
                            inst32 = r.klass()(**r.batch_args(g.astype(np.float32), acc.astype(np.float32), mag.astype(np.float32) if r.has_mag else None), **cfg)
                            ok32, why32 = _valid_rows(np.asarray(r.output(inst32), float), 'q', n, tol=1e-5)
                            if not ok32:
                                ctx.fail(f'{key}: one valid attitude per sample (float32 input)', k, why32, 'finite real unit rows (1e-5)')
                        except Exception as ex2:
                            ctx.fail(f'{key}: raises (float32 input)', k, f'{type(ex2).__name__}: {ex2}'[:120], 'valid attitudes')
                        ctx.cls('float32')
                except Exception as ex:
                    ctx.fail(f'{key}: raises', k, f'{type(ex).__name__}: {ex}'[:120], 'valid attitudes')
            ctx.seen((key, ci, i, j, sa, sm))
            ctx.cls('recursive')
    # the sample-by-sample entry point on a data-less instance (the documented streaming use), level start, all 36 two-pose words
    if r.step_fn is not None:
        for w in itertools.product(range(6), repeat=2):
            kk = f'filter={key} cfg#{ci} stream poses={w[0]}{w[1]}'
            ctx.evals += 1
            try:
                np.random.seed(1)
                inst = r.fresh(cfg)
                q = np.array([1.0, 0.0, 0.0, 0.0])
                rows = []
                for pz in w:
                    q = r.step(inst, q, GYR[0], P6[pz][0] * 9.81, P6[pz][1] * 45.0 if r.has_mag else None)
                    rows.append(np.array(q, float))
                    ctx.transitions += 1
                ok, why = _valid_rows(np.array(rows), 'q', 2)
                if not ok:
                    ctx.fail(f'{key}: streaming update returns one valid attitude per sample', kk, why, 'finite real unit rows')
            except Exception as ex:
                ctx.fail(f'{key}: streaming update raises', kk, f'{type(ex).__name__}: {ex}'[:120], 'valid attitudes')
            ctx.cls('streaming')
    for w in itertools.product(range(6), repeat=3):
        for gi, gv in enumerate(GYR):
            acc = np.array([P6[k][0] for k in w]) * 9.81; mag = np.array([P6[k][1] for k in w]) * 45.0
            g = np.tile(gv, (3, 1))
            k = f'filter={key} cfg#{ci} poses={"".join(map(str, w))} gyr#{gi}'
            ctx.evals += 1
            ctx.transitions += 3
            try:
                np.random.seed(1)
                out = r.output(r.batch(g, acc, mag, cfg))
                ok, why = _valid_rows(out, 'q', 3)
                if not ok:
                    ctx.fail(f'{key}: one valid attitude per sample (pose jumps)', k, why, 'finite real unit rows')
            except Exception as ex:
                ctx.fail(f'{key}: raises (pose jumps)', k, f'{type(ex).__name__}: {ex}'[:120], 'valid attitudes')
            ctx.cls('history:jump')
            ctx.seen((key, ci, w, gi))
    # other representations of AngularRate / Complementary
    ctx.states += len(pairs) * len(mags) * 2 + 216 * 3
    ctx.traces += ctx.evals
    ctx.sample({'filter': key, 'cfg': {k: (v.tolist() if hasattr(v, 'tolist') else v) for k, v in cfg.items()}, 'history': 'poses=025 gyr#1'})


GYR_LADDER = [1e-15, 1e-12, 1e-9, 1e-8, 3e-8, 1e-7, 1e-6, 1e-4, 1.0, 30.0]
GYR_DIRS = [np.array([0.0, 0.0, 1.0]), np.array([1.0, 0.0, 0.0]), np.array([0.3, -0.5, 0.4]) / math.sqrt(0.5)]
CONTAINERS = [('list', lambda a: [float(x) for x in a]), ('tuple', lambda a: tuple(float(x) for x in a)), ('float32', lambda a: np.asarray(a, np.float32)),
              ('int-list', None)]


def job_gyro_ladder(ctx, key, ci):
    """Angular rates over many decades (next to the exact-zero shortcuts of the propagation steps), batch and streaming entry points;
    and the streaming entry point fed plain Python sequences / single-precision samples."""
    r = rr.by_key(key)
    cfg = r.cfgs[ci]
    P6 = poses6()
    for mi, gm in enumerate(GYR_LADDER):
        for di, gd in enumerate(GYR_DIRS):
            for pz in (0, 4, 5):
                gv = gd * gm
                acc = np.tile(P6[pz][0] * 9.81, (3, 1)); mag = np.tile(P6[pz][1] * 45.0, (3, 1)); g = np.tile(gv, (3, 1))
                k = f'filter={key} cfg#{ci} rate={gm:g} dir#{di} pose#{pz}'
                ctx.evals += 1
                ctx.transitions += 3
                try:
                    np.random.seed(1)
                    out = r.output(r.batch(g, acc, mag, cfg))
                    ok, why = _valid_rows(out, 'q', 3)
                    if not ok:
                        ctx.fail(f'{key}: one valid attitude per sample (rate ladder)', k, why, 'finite real unit rows')
                except Exception as ex:
                    ctx.fail(f'{key}: raises (rate ladder)', k, f'{type(ex).__name__}: {ex}'[:120], 'valid attitudes')
                if r.step_fn is not None:
                    ctx.evals += 1
                    try:
                        np.random.seed(1)
                        inst = r.fresh(cfg)
                        q = np.array([1.0, 0.0, 0.0, 0.0])
                        rows = []
                        for _ in range(2):
                            q = r.step(inst, q, gv, P6[pz][0] * 9.81, P6[pz][1] * 45.0 if r.has_mag else None)
                            rows.append(np.array(q, float)); ctx.transitions += 1
                        ok, why = _valid_rows(np.array(rows), 'q', 2)
                        if not ok:
                            ctx.fail(f'{key}: streaming update returns one valid attitude per sample (rate ladder)', k, why, 'finite real unit rows')
                    except Exception as ex:
                        ctx.fail(f'{key}: streaming update raises (rate ladder)', k, f'{type(ex).__name__}: {ex}'[:120], 'valid attitudes')
                ctx.seen((key, ci, 'rate', mi, di, pz))
        ctx.cls('rate-ladder')
    # a gyroscope that reads EXACTLY zero on some or all samples (a sensor at rest on an ideal gyro; -0.0 included) while acc / mag are valid
    for zn, zrows in (('middle row', (1,)), ('last row', (2,)), ('rows 1-2', (1, 2)), ('all rows', (0, 1, 2)), ('row 1 = -0.0', (1,))):
        for pz in (0, 4, 5):
            g = np.tile(GYR[1], (3, 1))
            for t_ in zrows:
                g[t_] = -0.0 if '-0.0' in zn else 0.0
            acc = np.tile(P6[pz][0] * 9.81, (3, 1)); mag = np.tile(P6[pz][1] * 45.0, (3, 1))
            k = f'filter={key} cfg#{ci} zero-rate {zn} pose#{pz}'
            ctx.evals += 1
            ctx.transitions += 3
            try:
                np.random.seed(1)
                out = r.output(r.batch(g, acc, mag, cfg))
                ok, why = _valid_rows(out, 'q', 3)
                if not ok:
                    ctx.fail(f'{key}: one valid attitude per sample (exactly zero angular rate on some samples)', k, why, 'finite real unit rows')
            except Exception as ex:
                ctx.fail(f'{key}: raises (exactly zero angular rate on some samples)', k, f'{type(ex).__name__}: {ex}'[:120], 'valid attitudes')
            if r.step_fn is not None:
                ctx.evals += 1
                try:
                    np.random.seed(1)
                    inst = r.fresh(cfg)
                    q = np.array([1.0, 0.0, 0.0, 0.0]); rows = []
                    for t_ in range(3):
                        q = r.step(inst, q, g[t_], acc[t_], mag[t_] if r.has_mag else None)
                        rows.append(np.array(q, float)); ctx.transitions += 1
                    ok, why = _valid_rows(np.array(rows), 'q', 3)
                    if not ok:
                        ctx.fail(f'{key}: streaming update returns one valid attitude per sample (exactly zero angular rate)', k, why, 'finite real unit rows')
                except Exception as ex:
                    ctx.fail(f'{key}: streaming update raises (exactly zero angular rate)', k, f'{type(ex).__name__}: {ex}'[:120], 'valid attitudes')
        ctx.cls('zero-rate')
    # the same streaming step with the samples in other containers (values unchanged)
    if r.step_fn is not None:
        for cn, conv in CONTAINERS:
            for pz in (0, 4, 5):
                a = P6[pz][0] * 9.81; m = P6[pz][1] * 45.0; gv = GYR[1]
                if cn == 'int-list':
                    a = np.rint(a * 100); m = np.rint(m * 100); gv = np.array([1.0, -2.0, 1.0])
                    cv = lambda x: [int(v) for v in x]
                else:
                    cv = conv
                k = f'filter={key} cfg#{ci} stream container={cn} pose#{pz}'
                ctx.evals += 1
                try:
                    np.random.seed(1)
                    ref_inst = r.fresh(cfg)
                    q_ref = np.array(r.step(ref_inst, np.array([1.0, 0, 0, 0]), gv, a, m if r.has_mag else None), float)
                except Exception:
                    continue                                     # judged by the ndarray checks above
                try:
                    np.random.seed(1)
                    inst = r.fresh(cfg)
                    q = np.array([1.0, 0.0, 0.0, 0.0])
                    rows = []
                    for _ in range(2):
                        q = np.asarray(r.step_fn(inst, q, cv(gv), cv(a), cv(m) if r.has_mag else None))
                        rows.append(np.array(q, float)); ctx.transitions += 1
                    ok, why = _valid_rows(np.array(rows), 'q', 2, tol=1e-5 if cn == 'float32' else 1e-9)
                    if not ok:
                        ctx.fail(f'{key}: streaming update with {cn} samples returns one valid attitude per sample', k, why, 'finite real unit rows')
                    elif cn != 'float32' and rq.qangle(rq.qunit(rows[0]), q_ref) > 1e-9:
                        # (single precision is judged for validity only: a normalised-gradient filter at its exact equilibrium steps by gain*dt on rounding residue)
                        ctx.fail(f'{key}: streaming update with {cn} samples = the answer for the same values as float64 arrays', k, rows[0], q_ref, 1e-9)
                except TypeError as ex:
                    if cn != 'int-list':                         # integer samples: a TypeError (casting) is a refusal, not judged
                        ctx.fail(f'{key}: streaming update raises with {cn} samples', k, f'{type(ex).__name__}: {ex}'[:120], 'valid attitudes')
                    else:
                        ctx.outcome('int-refused')
                except Exception as ex:
                    ctx.fail(f'{key}: streaming update raises with {cn} samples', k, f'{type(ex).__name__}: {ex}'[:120], 'valid attitudes')
                ctx.seen((key, ci, 'container', cn, pz))
            ctx.cls('containers')
    # the a-priori / initial attitude in other containers and numeric types (values unchanged): integer spellings of exact versors,
    # single precision, lists, tuples, ahrs.Quaternion objects -- streaming a-priori and the batch constructor's q0
    from ahrs import Quaternion as _Q
    exact = [np.array([1.0, 0.0, 0.0, 0.0]), np.array([0.0, 1.0, 0.0, 0.0]), np.array([0.0, 0.0, 0.0, -1.0])]
    generic = [rq.qunit(np.array([0.6, 0.2, -0.7, 0.3]))]
    qcar = [('int list', lambda v: [int(x) for x in v], True), ('int64 array', lambda v: v.astype(np.int64), True), ('float32 array', lambda v: v.astype(np.float32), False),
            ('list', lambda v: [float(x) for x in v], False), ('tuple', lambda v: tuple(float(x) for x in v), False), ('Quaternion object', lambda v: _Q(v.copy()), False),
            ('Quaternion.copy()', lambda v: _Q(v.copy()).copy(), False)]
    a3 = np.tile(P6[4][0] * 9.81, (3, 1)); m3 = np.tile(P6[4][1] * 45.0, (3, 1)); g3 = np.tile(GYR[1], (3, 1))
    for qv in (exact + generic if not key.startswith('UKF') else []):      # (UKF: a start far from the sensed attitude runs into its recorded Cholesky finding)
        is_exact = bool(np.array_equal(qv, np.rint(qv)))
        for cn, conv, need_exact in qcar:
            if need_exact and not is_exact:
                continue
            k = f'filter={key} cfg#{ci} a-priori={qv.tolist()} as {cn}'
            if r.step_fn is not None:
                ctx.evals += 1
                try:
                    np.random.seed(1)
                    inst = r.fresh(cfg)
                    q = r.step_fn(inst, conv(qv), GYR[1].copy(), a3[0].copy(), m3[0].copy() if r.has_mag else None)
                    q2 = r.step_fn(inst, q, GYR[1].copy(), a3[0].copy(), m3[0].copy() if r.has_mag else None)
                    ok, why = _valid_rows(np.array([np.array(q, float), np.array(q2, float)]), 'q', 2, tol=1e-5 if cn.startswith('float32') else 1e-9)
                    if not ok:
                        ctx.fail(f'{key}: streaming update with the a-priori in another container returns valid attitudes', k, why, 'finite real unit rows')
                except (TypeError, AttributeError):
                    ctx.outcome(('apriori-refused', key, cn))
                except Exception as ex:
                    ctx.fail(f'{key}: streaming update raises for an a-priori in another container', k, f'{type(ex).__name__}: {ex}'[:120], 'valid attitudes')
            if r.q0_key == 'q0':
                ctx.evals += 1
                try:
                    np.random.seed(1)
                    kw = dict(cfg); kw['q0'] = conv(qv)
                    inst = r.klass()(**r.batch_args(g3.copy(), a3.copy(), m3.copy() if r.has_mag else None), **kw)
                    out = np.asarray(r.output(inst))
                    ok, why = _valid_rows(out, 'q', 3, tol=1e-5 if cn.startswith('float32') else 1e-9)
                    if ok and out.dtype != np.float64:
                        ok, why = False, f'dtype {out.dtype}'
                    if not ok:
                        ctx.fail(f'{key}: batch run with q0 in another container / numeric type returns valid float64 attitudes', k, why, 'finite real unit float64 rows')
                except (TypeError, AttributeError):
                    ctx.outcome(('q0-refused', key, cn))
                except Exception as ex:
                    ctx.fail(f'{key}: batch run raises for q0 in another container / numeric type', k, f'{type(ex).__name__}: {ex}'[:120], 'valid attitudes')
            ctx.seen((key, ci, 'apriori', cn, tuple(qv)))
    ctx.cls('apriori-containers')
    ctx.states += len(GYR_LADDER) * 9
    ctx.traces += ctx.evals
    ctx.sample({'filter': key, 'rates': GYR_LADDER, 'containers': [c[0] for c in CONTAINERS]})


def job_sustained_turn(ctx, which):
    """Long histories: a sustained turn of several revolutions (angle histories beyond +-pi and +-2 pi) about an axis, turntable-consistent
    or constant accelerometer / magnetometer samples, through every recursive filter (first configuration) and through the configurations of
    Complementary (gain 1.0 = documented gyro-only setting, 0.98) and AngularRate (every method) that keep an unwrapped angle history."""
    from ahrs import filters as F
    N = 700 if not ctx.thorough else 1500
    g0 = np.array([0.0, 0.0, 1.0]); m0 = np.array([math.cos(1.0), 0.0, math.sin(1.0)])
    extra = [('AngularRate[integration]', False, lambda g, a, m, f: F.AngularRate(gyr=g, method='integration', frequency=f).Q),
             ('AngularRate[closed]', False, lambda g, a, m, f: F.AngularRate(gyr=g, method='closed', frequency=f).Q),
             ('AngularRate[series,2]', False, lambda g, a, m, f: F.AngularRate(gyr=g, method='series', order=2, frequency=f).Q),
             ('Complementary[gain=1] IMU', False, lambda g, a, m, f: F.Complementary(gyr=g, acc=a, gain=1.0, frequency=f).Q),
             ('Complementary[gain=1] MARG', True, lambda g, a, m, f: F.Complementary(gyr=g, acc=a, mag=m, gain=1.0, frequency=f).Q),
             ('Complementary[gain=0.98] MARG', True, lambda g, a, m, f: F.Complementary(gyr=g, acc=a, mag=m, gain=0.98, frequency=f).Q),
             ('Complementary[gain=0.98] IMU', False, lambda g, a, m, f: F.Complementary(gyr=g, acc=a, gain=0.98, frequency=f).Q)]
    for gain_ in (0.0, 0.1, 0.5, 0.9):              # every valid gain over a record of several hundred samples (0: the estimate is the acc / mag fix of each sample)
        extra.append((f'Complementary[gain={gain_:g}] MARG', True, lambda g, a, m, f, gain_=gain_: F.Complementary(gyr=g, acc=a, mag=m, gain=gain_, frequency=f).Q))
        extra.append((f'Complementary[gain={gain_:g}] IMU', False, lambda g, a, m, f, gain_=gain_: F.Complementary(gyr=g, acc=a, gain=gain_, frequency=f).Q))
    for r in rr.registry():
        extra.append((f'{r.key} cfg#0', r.has_mag, lambda g, a, m, f, r=r: r.output(r.batch(g, a, m, dict(r.cfgs[0], frequency=f)))))
    for axn, ax in (('z', np.array([0.0, 0.0, 1.0])), ('x', np.array([1.0, 0.0, 0.0])), ('y', np.array([0.0, 1.0, 0.0])), ('generic', np.array([0.3, -0.5, 0.4]) / math.sqrt(0.5))):
        if axn != which:
            continue
        for rate, freq in ((2.0, 100.0), (-3.0, 100.0), (2.0, 10.0)):
            n = N if freq == 100.0 else max(60, N // 8)
            ang = rate / freq * np.arange(n)
            gyr = np.tile(ax * rate, (n, 1))
            for data in ('turntable', 'constant'):
                if data == 'turntable':
                    Rs = [rq.R(rq.axang2q(ax, t_)) for t_ in ang]
                    acc = np.array([R_.T @ g0 for R_ in Rs]) * 9.81; mag = np.array([R_.T @ m0 for R_ in Rs]) * 45.0
                else:
                    acc = np.tile(g0 * 9.81, (n, 1)); mag = np.tile(m0 * 45.0, (n, 1))
                for nm, has_mag, fn in extra:
                    key = f'{nm} axis={axn} rate={rate:g} rad/s f={freq:g} Hz N={n} ({abs(rate) * n / freq / (2 * math.pi):.1f} turns) data={data}'
                    ctx.evals += 1
                    ctx.transitions += n
                    try:
                        np.random.seed(1)
                        out = np.asarray(fn(gyr.copy(), acc.copy(), mag.copy() if has_mag else None, freq))
                        ok, why = _valid_rows(out, 'q', n)
                        if not ok:
                            ctx.fail(f'{nm}: one valid attitude per sample over a sustained turn of several revolutions', key, why, 'finite real unit rows')
                    except Exception as ex:
                        ctx.fail(f'{nm}: raises on a sustained turn of several revolutions', key, f'{type(ex).__name__}: {ex}'[:140], 'valid attitudes')
                    ctx.seen(('turn', nm, axn, rate, freq, data))
    ctx.cls('history:sustained-turn')
    ctx.states += 1


def job_frame_spellings(ctx):
    """Both local frames, however the frame name is spelled: the classes validate `frame` case-insensitively, so 'ned' / 'Enu' are settings
    they accept.  A spelling that a class accepts in one cell of (sensors, a-priori given | omitted, batch | one sample) is accepted in every
    cell and gives valid attitudes there (a spelling refused by EVERY cell of the class is a refusal and not judged)."""
    from ahrs import filters as F
    P6 = poses6()
    acc = np.array([P6[4][0], P6[5][0], P6[4][0]]) * 9.81; mag = np.array([P6[4][1], P6[5][1], P6[4][1]]) * 45.0
    gyr = np.tile(GYR[0], (3, 1))
    q0 = rq.qunit([0.8, 0.1, -0.3, 0.2])
    classes = {
        'EKF': [('IMU, q0 omitted', lambda fr: F.EKF(gyr=gyr.copy(), acc=acc.copy(), frame=fr).Q), ('IMU, q0 given', lambda fr: F.EKF(gyr=gyr.copy(), acc=acc.copy(), frame=fr, q0=q0.copy()).Q),
                ('MARG, q0 omitted', lambda fr: F.EKF(gyr=gyr.copy(), acc=acc.copy(), mag=mag.copy(), frame=fr, magnetic_ref=60.0).Q),
                ('MARG, q0 given', lambda fr: F.EKF(gyr=gyr.copy(), acc=acc.copy(), mag=mag.copy(), frame=fr, magnetic_ref=60.0, q0=q0.copy()).Q),
                ('MARG, streaming', lambda fr: np.array([F.EKF(frame=fr, magnetic_ref=60.0).update(q0.copy(), gyr[0], acc[0], mag[0]) for _ in range(3)]))],
        'ROLEQ': [('q0 omitted', lambda fr: F.ROLEQ(gyr=gyr.copy(), acc=acc.copy(), mag=mag.copy(), frame=fr, magnetic_ref=60.0).Q),
                  ('q0 given', lambda fr: F.ROLEQ(gyr=gyr.copy(), acc=acc.copy(), mag=mag.copy(), frame=fr, magnetic_ref=60.0, q0=q0.copy()).Q)],
        'OLEQ': [('N samples', lambda fr: F.OLEQ(acc=acc.copy(), mag=mag.copy(), frame=fr, magnetic_ref=60.0).Q),
                 ('one sample', lambda fr: np.tile(F.OLEQ(acc=acc[0].copy(), mag=mag[0].copy(), frame=fr, magnetic_ref=60.0).Q, (3, 1)))],
        'TRIAD': [('N samples', lambda fr: F.TRIAD(acc.copy(), mag.copy(), frame=fr, representation='quaternion').A),
                  ('one sample', lambda fr: np.tile(F.TRIAD(acc[0].copy(), mag[0].copy(), frame=fr, representation='quaternion').A, (3, 1)))],
        'AQUA': [('MARG', lambda fr: F.AQUA(gyr=gyr.copy(), acc=acc.copy(), mag=mag.copy(), frame=fr).Q), ('IMU', lambda fr: F.AQUA(gyr=gyr.copy(), acc=acc.copy(), frame=fr).Q),
                 ('acc + mag', lambda fr: F.AQUA(acc=acc.copy(), mag=mag.copy(), frame=fr).Q)]}
    for cname, cells in classes.items():
        for sp in ('NED', 'ENU', 'ned', 'enu', 'Ned', 'Enu', 'nED'):
            res = {}
            for cell, fn in cells:
                ctx.evals += 1
                ctx.transitions += 3
                try:
                    np.random.seed(1)
                    out = np.asarray(fn(sp))
                    res[cell] = ('ok',) + _valid_rows(out, 'q', 3)
                except ValueError as ex:
                    res[cell] = ('refused', str(ex)[:100])
                except Exception as ex:
                    res[cell] = ('raises', f'{type(ex).__name__}: {ex}'[:120])
            if all(v[0] == 'refused' for v in res.values()):
                ctx.outcome(('frame-spelling-refused', cname, sp)); continue
            for cell, v in res.items():
                good = v[0] == 'ok' and v[1]
                ctx.expect(good, f'{cname}: a frame spelling the class accepts gives valid attitudes in every cell (sensors, a-priori, batch / one sample)',
                           f'frame={sp!r} cell={cell}', list(v), {c: r_[0] for c, r_ in res.items()})
            ctx.seen(('frame-spelling', cname, sp))
    ctx.cls('frame-spellings')
    ctx.states += 1


def run(ctx):
    # helper functions of ahrs.common.orientation (ecompass, am2DCM, am2q, acc2q) are not filters the package exports: C04 covers them
    helpers = ('ecompass', 'am2DCM', 'am2q', 'acc2q')
    jobs = [('job_single', (e.name,)) for e in rf.registry() if not e.name.startswith(helpers)]
    for r in rr.registry():
        for ci in range(len(r.cfgs)):
            jobs.append(('job_recursive', (r.key, ci)))
            jobs.append(('job_gyro_ladder', (r.key, ci)))
    jobs += [('job_sustained_turn', (w,)) for w in ('z', 'x', 'y', 'generic')] + [('job_frame_spellings', ())]
    core.run_jobs(ctx, __name__, jobs)
    ctx.notes['configurations'] = len(jobs)
