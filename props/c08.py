"""C08 — gyro integration is exact for constant rates, of the stated order otherwise.

Grid: initial attitude q0 x rate axis x |w| x dt (x step count x series order); one job = one (q0, axis) pair.
(i)   closed form: `AngularRate.update(method='closed')` chained n = 1..N times and the batch constructor
      (explicit Dt, and frequency = 1/dt) against  q0 (x) axis-angle(w, n |w| dt)  at EVERY step count n <= N.
(ii)  series orders 0..6, one step and a short batch: equal to the documented truncated exponential (reference
      model built from scalar cos/sin series), error vs the exact step <= theta^(k+1), non-increasing in the order.
(iii) null-accelerometer dead reckoning: Madgwick / Mahony / AQUA `updateIMU` (single steps chained 10 deep on one
      filter object, and the batch constructors with Dt / frequency), `EKF.f`, `ROLEQ.attitude_propagation`
      = normalised first-order step  q + 1/2 q (x) (0,w) dt ; AQUA in its conjugate convention; w = 0 included.
(iv)  `QuaternionArray.angular_velocities(dt)` of a constant-rate sequence = (2/dt) sin(theta/2) axis, of a sequence
      whose rate switches axis half-way = the same piecewise; re-integrating the recovered rates (chained update and
      the batch constructor, documented convention Q[t] = update(Q[t-1], gyr[t])) reproduces the sequence within
      sum(theta - 2 sin(theta/2)) (1 + 1e-2).
(v)   vectorised `method='integration'` for single-axis rates (+-x, +-y, +-z), where cumulative Euler angles are exact.
"""
import math
import numpy as np
from mc import core, alphabet as A
from mc.ref import quat as rq
from mc.ref import integ as ri

PID = 'C08'
LEVEL = 'exploration'
RULE = ('one case = (law, q0, rate axis, |w|, dt [, series order]) executed on the real code; chains are judged at every '
        'step count 1..N (each step is one evaluation), only the first failing step count of a chain is recorded; '
        'a case is non-trivial when the rate is non-zero; distinct by (law, q0, axis, |w|, dt, order)')
ORDERS = list(range(7))
TOL_STEP = 1e-14          # closed form: allowed deviation per accumulated step, tol(n) = (n+4) * TOL_STEP
TOL_SERIES = 1e-13        # floor of the three series sites
TOL_DR = 1e-12            # dead-reckoning step (design value)
TOL_W = 1e-12             # angular_velocities: allowed absolute error = TOL_W * 2/dt  [rad/s]
ASSUMPTIONS = [
    'unit initial attitudes, constant body-frame rates w = |w| axis with |w| in [1e-2, 10] rad/s, dt in [1e-3, 5e-2] s '
    '(theta = |w| dt from 1e-5 to 0.5 rad), explicit dt / Dt / frequency arguments everywhere (the import-time WMM object '
    'and default Dt = 0.01 play no role)',
    'attitudes are compared up to the common sign of the quaternion (the statement is about attitudes); max-abs component',
    'closed form, step count n: tol (n+4)*1e-14 (design: n*1e-14); rounding of one step is <= ~4 ulp and accumulates at '
    'most linearly; worst observed (thorough grid, see worst_observed closed.*): 4.4e-16 at n = 1, 2.4e-14 at n = 600 with '
    'a total angle of 300 rad, where the rounding of n*theta inside the reference dominates; observed/tol <= 0.009 at '
    'every n; the smallest mutation (wrong half angle at theta = 1e-5) moves one step by 2.5e-6',
    'series: the reference is q (x) normalise(sum_{j<=k} (dt/2 (0,w))^j / j!) — the formula in the docstring of '
    'AngularRate.update, evaluated with scalar cos/sin partial sums; floor 1e-13 (observed <= 3.4e-16 for orders 0,1 on the unchanged tree and for all orders once S**i is a matrix power); '
    'order bound with constant 1: err_k <= theta^(k+1) + 1e-13 (the ideal normalised truncation has err_k <= '
    '(theta/2)^(k+1), e.g. theta^3/24 for k = 1, theta^3/48 for k = 2, theta^5/960 for k = 3); '
    'monotonicity err_k <= err_(k-1) + 1e-13; the reference model itself is asserted to satisfy both on every grid point',
    'dead reckoning: 1e-12 absolute (design); observed <= 5e-16. EKF.f is documented un-normalised and is normalised '
    'before the comparison. A gyro sample that is exactly zero must leave the attitude unchanged (the first-order step '
    'with w = 0). Filter objects are reused along a chain (no hidden state may leak when the accelerometer is null)',
    'angular_velocities: absolute tolerance 1e-12 * 2/dt rad/s (bilinear form of unit quaternions scaled by 2/dt; the '
    'input rows come from the reference model at total angles up to 150 rad, whose own rounding gives the observed '
    'worst 7.2e-15 * 2/dt, observed/tol <= 0.0072); a sign slip or lost factor moves the result by >= 1e-2 rad/s',
    're-integration: rotation angle between row i and the original row i <= sum_{j<=i} (theta_j - 2 sin(theta_j/2)) '
    '* (1 + 1e-2) + (i+1) * 1e-13  (the chord rate (2/dt) sin(theta/2) under-rotates each step by ~theta^3/24; for a '
    'constant rate the deviation IS this analytic deficit, so observed/budget = 1/1.01 by construction, not noise)',
    "method='integration' (cumulative Euler angles, ignores q0 by construction) is judged only for rates along one body "
    'axis, from the identity, row i = axis-angle((i+1) theta); tol 1e-13 + (i+1) * max(1, (i+1) theta) * 2e-15 (the '
    'running sum of i terms carries up to i roundings relative to its own size; observed/tol <= 0.0063)',
    'non-constant rates, non-unit attitudes, representation=rotmat/angles and the MARG/accelerometer-present branches '
    'are out of scope',
]
REQUIRED_CLASSES = ['varying-rates', 'representations', 'dr:configured-step', 'dr:dt-types', 'dr:batch-no-q0', 'closed:chain', 'closed:batch(Dt)', 'closed:batch(frequency)', 'closed:total-angle>2pi',
                    'closed:q0-negative-scalar', 'closed:theta>=0.1', 'closed:theta<=1e-4',
                    'series:order0', 'series:order1', 'series:order2', 'series:order3', 'series:order4', 'series:order5',
                    'series:order6', 'series:batch', 'dr:Madgwick', 'dr:Mahony', 'dr:AQUA', 'dr:EKF.f', 'dr:ROLEQ',
                    'dr:zero-rate', 'dr:batch', 'angvel:constant', 'angvel:switching-axis', 'angvel:reintegrated',
                    'integration:single-axis']


# ---------------------------------------------------------------------------------------------- the bounded space
def _rates(ctx):
    return [1e-2, 3e-2, 1e-1, 0.3, 1.0, 3.0, 10.0] if ctx.thorough else [1e-2, 1e-1, 1.0, 10.0]


def _dts(ctx):
    # (steps that are not a whole number of microseconds / of any decimal grid are steps too: 1/300 s, 0.0123456789 s, 1/30 s)
    return [1e-3, 2e-3, 1.0 / 300.0, 1e-2, 0.0123456789, 2e-2, 1.0 / 30.0, 5e-2] if ctx.thorough else [1e-3, 1.0 / 300.0, 1e-2, 0.0123456789, 5e-2]


def _nmax(ctx):
    return 600 if ctx.thorough else 300


def _q0s(ctx):
    r = math.sqrt(0.5)
    out = [('I', np.array([1.0, 0, 0, 0])), ('h', np.array([0.5, -0.5, 0.5, 0.5])),
           ('x180', np.array([0.0, 1, 0, 0])), ('z-90', np.array([r, 0, 0, -r]))]
    ks = range(len(A.MENU)) if ctx.thorough else [A.seed_k(ctx.seed)]
    for k in ks:
        out.append((f'menu{k}', A.MENU[k].copy()))
        p = rq.qmul(A.MENU[k], np.array([0.5, 0.5, 0.5, -0.5]))          # generic components, scalar part made negative
        out.append((f'negcoset{k}', -p if p[0] > 0 else p))
    return out


def _axes(ctx):
    base = [(f'a{i}({v[0]:g},{v[1]:g},{v[2]:g})', v / math.sqrt(float(v @ v))) for i, v in enumerate(A.AXES())]
    if ctx.thorough:
        base += [('-' + n, -v) for n, v in base[-4:]]          # the four generic axes also reversed
    return base


def _lib():
    from ahrs.filters import AngularRate, Madgwick, Mahony, AQUA, EKF, ROLEQ
    from ahrs import QuaternionArray
    return AngularRate, Madgwick, Mahony, AQUA, EKF, ROLEQ, QuaternionArray


def _arr(x):
    """Plain ndarray view of whatever the library returned (Quaternion / QuaternionArray / ndarray)."""
    try:
        return np.array(x, dtype=None)
    except Exception:
        return np.array(float('nan'))


def _rowdist(Q, R):
    """Per-row sign-agnostic max-abs distance; inf rows for garbage."""
    Q = _arr(Q)
    if Q.shape != R.shape or np.iscomplexobj(Q) or Q.dtype.kind not in 'fiu':
        return np.full(len(R), np.inf)
    Q = Q.astype(float)
    d = np.minimum(np.abs(Q - R).max(axis=1), np.abs(Q + R).max(axis=1))
    d[~np.isfinite(d)] = np.inf
    return d


def _judge_rows(ctx, d, tol, site, key, track, first_row=0):
    """d[i] <= tol[i] for every row; counts len(d) evaluations, records the first failing row only."""
    ctx.tick(len(d))
    with np.errstate(all='ignore'):
        ratio = d / tol
    ctx.track(track, float(np.max(d)) if np.all(np.isfinite(d)) else float('inf'))
    ctx.track(track + '/tol', float(np.max(ratio)) if np.all(np.isfinite(ratio)) else float('inf'))
    bad = np.nonzero(~(d <= tol))[0]
    if len(bad):
        i = int(bad[0])
        ctx.fail(site, f'{key} n={i + first_row}', {'deviation': float(d[i]), 'failing_step_counts': int(len(bad))},
                 'deviation <= tol', float(tol[i]))
        return False
    return True


def _case(qn, an, rate, dt):
    return f'q0={qn} axis={an} rate={rate:g} dt={dt:g}'


# ---------------------------------------------------------------------------------------------- (i) closed form
def job_closed(ctx, iq, ia):
    AngularRate = _lib()[0]
    qn, q0 = _q0s(ctx)[iq]
    an, ax = _axes(ctx)[ia]
    N = _nmax(ctx)
    ar = AngularRate()
    steps = np.arange(1, N + 1)
    for rate in _rates(ctx):
        for dt in _dts(ctx):
            w = rate * ax
            theta = rate * dt
            key = _case(qn, an, rate, dt)
            ref = ri.exact_seq(q0, w, dt, N)                         # rows 0..N
            # chained single updates, explicit dt
            Q = np.full((N + 1, 4), np.nan)
            Q[0] = q0
            q = q0.copy()
            for i in range(1, N + 1):
                q = _arr(ar.update(q.copy(), w.copy(), method='closed', dt=dt))
                if q.shape != (4,):
                    break
                Q[i] = q
            ctx.traces += 1
            _judge_rows(ctx, _rowdist(Q[1:], ref[1:]), (steps + 4) * TOL_STEP,
                        "AngularRate.update('closed') chained n times = q0 (x) axis-angle(w n dt)", key, 'closed.chain',
                        first_row=1)
            nrm = np.abs(np.sqrt((Q * Q).sum(axis=1)) - 1.0)
            ctx.expect(bool(np.all(nrm <= 1e-12)), "AngularRate.update('closed') returns unit quaternions", key,
                       float(np.nanmax(nrm)) if np.isfinite(nrm).any() else 'nan', 0, 1e-12)
            ctx.cls('closed:chain')
            # batch constructor, explicit Dt: N+1 samples -> rows 0..N (sample 0 is not integrated, Q[0] = q0)
            G = np.tile(w, (N + 1, 1))
            B = _arr(AngularRate(gyr=G.copy(), q0=q0.copy(), Dt=dt).Q)
            ctx.traces += 1
            _judge_rows(ctx, _rowdist(B, ref), (np.arange(N + 1) + 4) * TOL_STEP,
                        'AngularRate(gyr, q0, Dt).Q row n = q0 (x) axis-angle(w n dt)', key, 'closed.batch(Dt)')
            ctx.cls('closed:batch(Dt)')
            # shortest batch (one step) and the frequency route
            B2 = _arr(AngularRate(gyr=G[:2].copy(), q0=q0.copy(), Dt=dt).Q)
            _judge_rows(ctx, _rowdist(B2, ref[:2]), np.array([4.0, 5.0]) * TOL_STEP,
                        'AngularRate(gyr, q0, Dt).Q row n = q0 (x) axis-angle(w n dt)', key + ' samples=2', 'closed.batch(Dt)')
            # every short record length (a record of exactly 3 samples is a square 3-by-3 array), and the accepted spellings of the method name
            for nn in (3, 4, 5):
                Bn = _arr(AngularRate(gyr=G[:nn].copy(), q0=q0.copy(), Dt=dt).Q)
                _judge_rows(ctx, _rowdist(Bn, ref[:nn]), (np.arange(nn) + 4) * TOL_STEP,
                            'AngularRate(gyr, q0, Dt).Q row n = q0 (x) axis-angle(w n dt)', key + f' samples={nn}', 'closed.batch(Dt)')
            for sp in ('Closed', 'CLOSED'):
                try:
                    qs = _arr(AngularRate().update(q0.copy(), w.copy(), method=sp, dt=dt))
                    Bs = _arr(AngularRate(gyr=G[:4].copy(), q0=q0.copy(), Dt=dt, method=sp).Q)
                except (ValueError, TypeError):
                    ctx.outcome(('spelling-refused', sp))
                    continue
                _judge_rows(ctx, _rowdist(np.array([q0, qs]) if qs.shape == (4,) else np.zeros((2, 1)), ref[:2]), np.array([4.0, 5.0]) * TOL_STEP,
                            f"AngularRate.update(method='{sp}') = the closed form (a spelling that is accepted selects that method)", key, 'closed.spelling', first_row=1)
                _judge_rows(ctx, _rowdist(Bs, ref[:4]), (np.arange(4) + 4) * TOL_STEP,
                            f"AngularRate(gyr, q0, Dt, method='{sp}').Q = the closed form", key, 'closed.spelling')
            M = min(N, 50)
            B3 = _arr(AngularRate(gyr=G[:M + 1].copy(), q0=q0.copy(), frequency=1.0 / dt).Q)
            _judge_rows(ctx, _rowdist(B3, ref[:M + 1]), (np.arange(M + 1) + 4) * TOL_STEP,
                        'AngularRate(gyr, q0, frequency).Q row n = q0 (x) axis-angle(w n/frequency)', key,
                        'closed.batch(frequency)')
            ctx.traces += 2
            ctx.cls('closed:batch(frequency)')
            ctx.seen(('closed', qn, an, rate, dt))
            if N * theta > 2 * math.pi:
                ctx.cls('closed:total-angle>2pi')
            if q0[0] < 0:
                ctx.cls('closed:q0-negative-scalar')
            if theta >= 0.1:
                ctx.cls('closed:theta>=0.1')
            if theta <= 1e-4:
                ctx.cls('closed:theta<=1e-4')
            ctx.outcome(('closed', tuple(np.round(Q[-1], 9))))
    ctx.sample({'law': 'closed', 'q0': q0.tolist(), 'w': (rate * ax).tolist(), 'dt': dt, 'steps': N,
                'library_last_row': Q[-1].tolist(), 'reference_last_row': ref[-1].tolist()})


# ---------------------------------------------------------------------------------------------- (ii) series
def job_series(ctx, iq, ia):
    AngularRate = _lib()[0]
    qn, q0 = _q0s(ctx)[iq]
    an, ax = _axes(ctx)[ia]
    ar = AngularRate()
    NB = 5
    for rate in _rates(ctx):
        for dt in _dts(ctx):
            w = rate * ax
            theta = rate * dt
            ex = ri.exact(q0, w, dt)
            prev = prev_ref = None
            for k in ORDERS:
                key = f'{_case(qn, an, rate, dt)} order={k}'
                got = _arr(ar.update(q0.copy(), w.copy(), method='series', order=k, dt=dt))
                ctx.traces += 1
                refk = ri.series_step(q0, w, dt, k)
                d = ri.sdist(got, refk)
                ctx.track(f'series.vs_reference.order{min(k, 2)}{"+" if k >= 2 else ""}', d)
                ctx.expect(d <= TOL_SERIES, "AngularRate.update('series', order=k) = normalised order-k truncation of exp(dt/2 Omega) q",
                           key, got, refk, TOL_SERIES)
                err = ri.sdist(got, ex)
                err_ref = ri.sdist(refk, ex)
                # the oracle itself obeys the two laws it is about to demand (guards against an unsound bound)
                assert err_ref <= theta ** (k + 1) + 1e-15, (key, err_ref)
                assert prev_ref is None or err_ref <= prev_ref + 1e-15, (key, err_ref, prev_ref)
                ctx.track(f'series.err/theta^(k+1).order{min(k, 2)}{"+" if k >= 2 else ""}', err / theta ** (k + 1) if err > TOL_SERIES else 0.0)
                ctx.expect(err <= theta ** (k + 1) + TOL_SERIES, "series order k: one-step error vs exact <= (|w| dt)^(k+1)",
                           key, err, theta ** (k + 1), TOL_SERIES)
                if prev is not None:
                    ctx.expect(err <= prev + TOL_SERIES, 'series: one-step error does not grow with the order', key,
                               {'order': k, 'error': err, 'error_of_previous_order': prev}, 'error <= previous', TOL_SERIES)
                prev, prev_ref = err, err_ref
                # short batch: method / order / Dt must reach the loop
                G = np.tile(w, (NB + 1, 1))
                B = _arr(AngularRate(gyr=G, q0=q0.copy(), Dt=dt, method='series', order=k).Q)
                ctx.traces += 1
                R = np.zeros((NB + 1, 4)); R[0] = q0
                for i in range(1, NB + 1):
                    R[i] = ri.series_step(R[i - 1], w, dt, k)
                _judge_rows(ctx, _rowdist(B, R), (np.arange(NB + 1) + 1) * TOL_SERIES,
                            "AngularRate(gyr, q0, Dt, method='series', order=k).Q = chained order-k truncation", key,
                            f'series.batch.order{min(k, 2)}{"+" if k >= 2 else ""}')
                ctx.cls(f'series:order{k}')
                ctx.cls('series:batch')
                ctx.seen(('series', qn, an, rate, dt, k))
                ctx.outcome(('series', k, tuple(np.round(got, 9)) if got.shape == (4,) else 'bad'))
    ctx.sample({'law': 'series', 'q0': q0.tolist(), 'w': w.tolist(), 'dt': dt, 'order': k, 'library': got.tolist(),
                'reference_truncation': refk.tolist(), 'exact': ex.tolist()})


# ---------------------------------------------------------------------------------------------- (iii) dead reckoning
def job_dr(ctx, iq, ia):
    AngularRate, Madgwick, Mahony, AQUA, EKF, ROLEQ, QuaternionArray = _lib()
    qn, q0 = _q0s(ctx)[iq]
    an, ax = _axes(ctx)[ia]
    Z = np.zeros(3)
    conj = lambda q: q * np.array([1.0, -1.0, -1.0, -1.0])
    madg, mah, aqua, ekf, roleq = Madgwick(), Mahony(), AQUA(), EKF(), ROLEQ()
    ekf_enu, roleq_enu = EKF(frame='ENU'), ROLEQ(frame='ENU')        # the frame option selects reference vectors; the gyroscope is a body-frame quantity

    # the same step on objects with a history: a few ordinary (non-null) updates first, so that state carried by the object
    # (e.g. Mahony's integrated gyro bias) is non-trivial when the null sample arrives
    madg2, mah2, aqua2 = Madgwick(), Mahony(), AQUA()
    gw, aw = np.array([0.3, -0.2, 0.1]), np.array([0.5, -0.3, 9.7])
    for obj in (madg2, mah2, aqua2):
        qw = np.array([1.0, 0.0, 0.0, 0.0])
        for _ in range(8):
            qw = _arr(obj.updateIMU(qw, gw.copy(), aw.copy()))

    def n_ekf(q, w, dt):
        r = _arr(ekf.f(q, w, dt))
        return r / np.sqrt((r * r).sum()) if r.shape == (4,) else r

    steppers = [
        ('Madgwick', 'Madgwick.updateIMU(q, w, acc=0, dt)', lambda q, w, dt: _arr(madg.updateIMU(q, w, Z.copy(), dt=dt))),
        ('Mahony', 'Mahony.updateIMU(q, w, acc=0, dt)', lambda q, w, dt: _arr(mah.updateIMU(q, w, Z.copy(), dt=dt))),
        ('AQUA', 'AQUA.updateIMU(q*, w, acc=0, dt)*', lambda q, w, dt: conj(_arr(aqua.updateIMU(conj(q), w, Z.copy(), dt=dt)))),
        ('Madgwick[used]', 'Madgwick.updateIMU(q, w, acc=0, dt) on a used object', lambda q, w, dt: _arr(madg2.updateIMU(q, w, Z.copy(), dt=dt))),
        ('Mahony[used]', 'Mahony.updateIMU(q, w, acc=0, dt) on a used object', lambda q, w, dt: _arr(mah2.updateIMU(q, w, Z.copy(), dt=dt))),
        ('AQUA[used]', 'AQUA.updateIMU(q*, w, acc=0, dt)* on a used object', lambda q, w, dt: conj(_arr(aqua2.updateIMU(conj(q), w, Z.copy(), dt=dt)))),
        # the MARG entry points with a null accelerometer sample (magnetometer null as well, or valid): the same dead-reckoning step over the caller's dt
        ('Madgwick.MARG[acc=0,mag=0]', 'Madgwick.updateMARG(q, w, acc=0, mag=0, dt)', lambda q, w, dt: _arr(madg.updateMARG(q, w, Z.copy(), Z.copy(), dt=dt))),
        ('Madgwick.MARG[acc=0]', 'Madgwick.updateMARG(q, w, acc=0, mag, dt)', lambda q, w, dt: _arr(madg.updateMARG(q, w, Z.copy(), np.array([20.0, -3.0, 40.0]), dt=dt))),
        ('Mahony.MARG[acc=0,mag=0]', 'Mahony.updateMARG(q, w, acc=0, mag=0, dt)', lambda q, w, dt: _arr(mah.updateMARG(q, w, Z.copy(), Z.copy(), dt=dt))),
        ('Mahony.MARG[acc=0]', 'Mahony.updateMARG(q, w, acc=0, mag, dt)', lambda q, w, dt: _arr(mah.updateMARG(q, w, Z.copy(), np.array([20.0, -3.0, 40.0]), dt=dt))),
        ('AQUA.MARG[acc=0,mag=0]', 'AQUA.updateMARG(q*, w, acc=0, mag=0, dt)*', lambda q, w, dt: conj(_arr(aqua.updateMARG(conj(q), w, Z.copy(), Z.copy(), dt=dt)))),
        ('AQUA.MARG[acc=0]', 'AQUA.updateMARG(q*, w, acc=0, mag, dt)*', lambda q, w, dt: conj(_arr(aqua.updateMARG(conj(q), w, Z.copy(), np.array([20.0, -3.0, 40.0]), dt=dt)))),
        ('EKF.f', 'normalised EKF.f(q, w, dt)', n_ekf),
        ('EKF[ENU].f', "normalised EKF(frame='ENU').f(q, w, dt)", lambda q, w, dt: (lambda r: r / np.sqrt((r * r).sum()) if r.shape == (4,) else r)(_arr(ekf_enu.f(q, w, dt)))),
        ('ROLEQ[ENU]', "ROLEQ(frame='ENU').attitude_propagation(q, w, dt)", lambda q, w, dt: _arr(roleq_enu.attitude_propagation(q, w, dt))),
        ('ROLEQ', 'ROLEQ.attitude_propagation(q, w, dt)', lambda q, w, dt: _arr(roleq.attitude_propagation(q, w, dt))),
    ]
    DEPTH, NB = 10, 6
    for rate in [0.0] + _rates(ctx):
        for dt in _dts(ctx):
            w = rate * ax
            key = _case(qn, an, rate, dt)
            for fname, call, fn in steppers:
                q = q0.copy()
                d = np.full(DEPTH, np.inf)
                for i in range(DEPTH):
                    exp = ri.first_order(q, w, dt)
                    got = fn(q.copy(), w.copy(), dt)
                    d[i] = ri.sdist(got, exp)
                    if got.shape != (4,) or not np.isfinite(d[i]):
                        break
                    q = got.astype(float)
                ctx.traces += 1
                _judge_rows(ctx, d, np.full(DEPTH, TOL_DR), f'{call} = normalised q + 1/2 q (x) (0,w) dt', key, f'dr.{fname}',
                            first_row=1)
                ctx.cls(f'dr:{fname}')
                if rate == 0.0:
                    ctx.cls('dr:zero-rate')
                else:
                    ctx.seen(('dr', fname, qn, an, rate, dt))
                ctx.outcome(('dr', fname, tuple(np.round(q, 9))))
            # results KEPT by the caller while it goes on calling (a list of predictions for several attitudes, two interleaved tracks): each is
            # still the step of ITS OWN attitude after the later calls (raw return values are kept, not copies)
            if rate > 0.0:
                starts = [q0.copy(), ri.first_order(q0, w, dt), ri.first_order(ri.first_order(q0, w, dt), -0.5 * w, dt), np.array([1.0, 0.0, 0.0, 0.0])]
                raw_steppers = [('Madgwick.updateIMU', lambda q: madg.updateIMU(q, w.copy(), Z.copy(), dt=dt), False), ('Mahony.updateIMU', lambda q: mah.updateIMU(q, w.copy(), Z.copy(), dt=dt), False),
                                ('AQUA.updateIMU', lambda q: aqua.updateIMU(conj(q), w.copy(), Z.copy(), dt=dt), True), ('EKF.f', lambda q: ekf.f(q, w.copy(), dt), False),
                                ('ROLEQ.attitude_propagation', lambda q: roleq.attitude_propagation(q, w.copy(), dt), False)]
                for fname, fn_raw, is_conj in raw_steppers:
                    kept = [fn_raw(q_.copy()) for q_ in starts]
                    for q_, r_ in zip(starts, kept):
                        got = _arr(r_)
                        if got.shape == (4,):
                            got = got / np.sqrt((got * got).sum())
                            if is_conj:
                                got = conj(got)
                        dd = ri.sdist(got, ri.first_order(q_, w, dt)) if got.shape == (4,) else np.inf
                        ctx.expect(dd <= TOL_DR, f'{fname}: a prediction kept by the caller is still the step of its own attitude after later calls on the same object', key, dd, 0.0, TOL_DR)
                ctx.cls('dr:kept-results')
            # history on one object: a call with an explicit dt, then a call WITHOUT dt -> the second call uses the configured Dt
            if rate > 0.0:
                for fname, mk, is_conj in (('Madgwick', lambda: Madgwick(Dt=0.02), False), ('Mahony', lambda: Mahony(Dt=0.02), False), ('AQUA', lambda: AQUA(Dt=0.02), True)):
                    obj = mk()
                    qq = conj(q0) if is_conj else q0.copy()
                    obj.updateIMU(qq.copy(), w.copy(), Z.copy(), dt=dt)                 # explicit dt (differs from the configured 0.02 on most grid points)
                    got = _arr(obj.updateIMU(qq.copy(), w.copy(), Z.copy()))           # no dt: configured Dt
                    if is_conj and got.shape == (4,):
                        got = conj(got)
                    dd = ri.sdist(got, ri.first_order(q0, w, 0.02)) if got.shape == (4,) else np.inf
                    ctx.expect(dd <= TOL_DR, f'{fname}.updateIMU without dt uses the configured Dt, also after a call with an explicit dt', key, dd, 0.0, TOL_DR)
                    ctx.cls('dr:dt-history')
            # the step size handed over in other numeric types (timestamps differences commonly are numpy scalars of some width)
            if rate > 0.0:
                for cn, conv in (('numpy.float64', np.float64), ('numpy.float32', np.float32), ('0-d array', lambda x: np.array(x)), ('numpy.longdouble', np.longdouble),
                                 ('0-d float32 array', lambda x: np.array(x, np.float32))):
                    dtc = conv(dt)
                    for fname, call, fn in steppers[:3]:
                        try:
                            got = fn(q0.copy(), w.copy(), dtc)
                        except TypeError:
                            ctx.outcome(('dt-type-refused', cn))
                            continue
                        dd = ri.sdist(np.asarray(got, float), ri.first_order(q0, w, float(dtc))) if np.shape(got) == (4,) else np.inf
                        ctx.expect(dd <= 1e-9, f'{call}: the step is the one for the given dt, whatever numeric type carries it', f'{key} dt-type={cn}', dd, 0.0, 1e-9)
                    ctx.cls('dr:dt-types')
            # batch constructors, null accelerometer, explicit Dt and explicit frequency
            G = np.tile(w, (NB, 1)); Zb = np.zeros((NB, 3))
            # ... without q0: a record that starts with a null accelerometer sample starts from the identity, whatever this process estimated before
            if rate > 0.0:
                decoy_acc = np.tile(np.array([0.4, -0.3, 0.85]) * 9.81, (NB, 1))
                for fname, is_conj, mk in (('Madgwick', False, Madgwick), ('Mahony', False, Mahony), ('AQUA', True, AQUA)):
                    try:
                        mk(gyr=G.copy(), acc=decoy_acc.copy())            # an unrelated, ordinary recording processed first
                        B = _arr(mk(gyr=G.copy(), acc=Zb.copy(), Dt=dt).Q)
                    except ValueError:
                        ctx.outcome(('no-q0-refused', fname))      # AQUA refuses a record without usable first accelerometer sample: not judged
                        continue
                    except Exception as ex:
                        ctx.fail(f'{fname}(gyr, acc=0, Dt) without q0 raises', key, f'{type(ex).__name__}: {ex}'[:120], 'rows')
                        continue
                    if B.shape == (NB, 4) and is_conj:
                        B = B * np.array([1.0, -1.0, -1.0, -1.0])
                    R = np.zeros((NB, 4)); R[0] = [1.0, 0.0, 0.0, 0.0]
                    ok = B.shape == (NB, 4) and B.dtype.kind == 'f' and bool(np.all(np.isfinite(B)))
                    for i in range(1, NB):
                        R[i] = ri.first_order(B[i - 1] if ok else R[i - 1], w, dt)
                    _judge_rows(ctx, _rowdist(B, R), np.full(NB, TOL_DR),
                                f'{fname}(gyr, acc=0, Dt).Q without q0 starts at the identity and advances by the normalised first-order step', key, f'dr.batch-noq0.{fname}')
                    ctx.cls('dr:batch-no-q0')
            builders = [
                ('Madgwick', False, lambda **kw: Madgwick(gyr=G.copy(), acc=Zb.copy(), q0=q0.copy(), **kw).Q),
                ('Mahony', False, lambda **kw: Mahony(gyr=G.copy(), acc=Zb.copy(), q0=q0.copy(), **kw).Q),
                ('AQUA', True, lambda **kw: AQUA(gyr=G.copy(), acc=Zb.copy(), q0=conj(q0), **kw).Q),
            ]
            for fname, is_conj, build in builders:
                for how, kw in (('Dt', {'Dt': dt}), ('frequency', {'frequency': 1.0 / dt})):
                    B = _arr(build(**kw))
                    ctx.traces += 1
                    if B.shape == (NB, 4) and is_conj:
                        B = B * np.array([1.0, -1.0, -1.0, -1.0])
                    R = np.zeros((NB, 4)); R[0] = q0
                    ok = B.shape == (NB, 4) and B.dtype.kind == 'f' and bool(np.all(np.isfinite(B)))
                    for i in range(1, NB):
                        R[i] = ri.first_order(B[i - 1] if ok else R[i - 1], w, dt)
                    _judge_rows(ctx, _rowdist(B, R), np.full(NB, TOL_DR),
                                f'{fname}(gyr, acc=0, q0, {how}).Q rows advance by the normalised first-order step', key,
                                f'dr.batch.{fname}')
                    ctx.cls('dr:batch')
    ctx.sample({'law': 'dead reckoning', 'q0': q0.tolist(), 'w': w.tolist(), 'dt': dt,
                'first_order_step_of_q0': ri.first_order(q0, w, dt).tolist(),
                'Madgwick': _arr(Madgwick().updateIMU(q0.copy(), w.copy(), Z.copy(), dt=dt)).tolist(),
                'AQUA(conj)': conj(_arr(AQUA().updateIMU(conj(q0), w.copy(), Z.copy(), dt=dt))).tolist()})


# ---------------------------------------------------------------------------------------------- (iv) angular velocities
def _reintegration_budget(thetas):
    return np.cumsum([ri.chord_deficit(t) for t in thetas]) * (1.0 + 1e-2) + (np.arange(len(thetas)) + 1) * 1e-13


def _angles(Q, R):
    Q = _arr(Q)
    if Q.shape != R.shape or Q.dtype.kind not in 'fiu' or not np.all(np.isfinite(Q)):
        return np.full(len(R), np.inf)
    return np.array([rq.qangle(rq.qunit(Q[i]), R[i]) for i in range(len(R))])


def job_angvel(ctx, iq, ia):
    AngularRate, QuaternionArray = _lib()[0], _lib()[6]
    qn, q0 = _q0s(ctx)[iq]
    axes = _axes(ctx)
    an, ax = axes[ia]
    an2, ax2 = axes[(ia + 5) % len(axes)]
    N = min(_nmax(ctx), 300)
    NS = 20                                       # switching sequence: NS/2 steps about axis, NS/2 about axis2
    ar = AngularRate()
    for rate in _rates(ctx):
        for dt in _dts(ctx):
            theta = rate * dt
            w, w2 = rate * ax, rate * ax2
            key = _case(qn, an, rate, dt)
            tolw = TOL_W * 2.0 / dt
            # constant rate
            S = ri.exact_seq(q0, w, dt, N)
            W = _arr(QuaternionArray(S.copy()).angular_velocities(float(dt)))
            ctx.traces += 1
            Wexp = np.tile(ri.angvel_const(w, dt), (N, 1))
            ok = W.shape == Wexp.shape and W.dtype.kind == 'f'
            dW = np.abs(W - Wexp).max(axis=1) if ok else np.full(N, np.inf)
            dW[~np.isfinite(dW)] = np.inf
            _judge_rows(ctx, dW, np.full(N, tolw), 'angular_velocities(dt) of a constant-rate sequence = (2/dt) sin(|w|dt/2) axis',
                        key, 'angvel.const*dt/2')
            ctx.track('angvel.abs_err*dt/2', float(dW.max()) * dt / 2.0)
            ctx.cls('angvel:constant')
            # the same sequence stored scalar-last (order='S'): same rates
            WSl = _arr(QuaternionArray(np.roll(S, -1, axis=1).copy(), order='S').angular_velocities(float(dt)))
            okS = WSl.shape == Wexp.shape and WSl.dtype.kind == 'f'
            dWS0 = np.abs(WSl - Wexp).max(axis=1) if okS else np.full(N, np.inf)
            dWS0[~np.isfinite(dWS0)] = np.inf
            _judge_rows(ctx, dWS0, np.full(N, tolw), "angular_velocities(dt) of a scalar-last (order='S') constant-rate sequence = (2/dt) sin(|w|dt/2) axis",
                        key, 'angvel.const[S]*dt/2')
            # switching axis half-way
            half = NS // 2
            S1 = ri.exact_seq(q0, w, dt, half)
            S2 = ri.exact_seq(S1[-1], w2, dt, NS - half)
            SS = np.vstack([S1, S2[1:]])
            key2 = f'{key} then axis={an2}'
            WS = _arr(QuaternionArray(SS.copy()).angular_velocities(float(dt)))
            ctx.traces += 1
            WSexp = np.vstack([np.tile(ri.angvel_const(w, dt), (half, 1)), np.tile(ri.angvel_const(w2, dt), (NS - half, 1))])
            ok2 = WS.shape == WSexp.shape and WS.dtype.kind == 'f'
            dWS = np.abs(WS - WSexp).max(axis=1) if ok2 else np.full(NS, np.inf)
            dWS[~np.isfinite(dWS)] = np.inf
            _judge_rows(ctx, dWS, np.full(NS, tolw), 'angular_velocities(dt) of a piecewise constant-rate sequence = piecewise chord rate',
                        key2, 'angvel.switch*dt/2')
            ctx.cls('angvel:switching-axis')
            # re-integration of the recovered rates (only when the recovery has the right shape)
            for name, seq, rates_rec, k_ in (('constant', S, W if ok else None, key), ('switching', SS, WS if ok2 else None, key2)):
                if rates_rec is None or not np.all(np.isfinite(rates_rec)):
                    continue
                n = len(rates_rec)
                budget = _reintegration_budget([theta] * n)
                q = seq[0].copy()
                C = np.full((n, 4), np.nan)
                for i in range(n):
                    q = _arr(ar.update(q.copy(), rates_rec[i].copy(), method='closed', dt=dt))
                    if q.shape != (4,):
                        break
                    C[i] = q
                ctx.traces += 1
                _judge_rows(ctx, _angles(C, seq[1:]), budget,
                            'recovered angular velocities re-integrated by chained update reproduce the sequence', k_,
                            f'angvel.reintegrate.{name}', first_row=1)
                # batch: documented convention Q[0] = q0, Q[t] = update(Q[t-1], gyr[t]); gyr[0] is not integrated
                G = np.vstack([np.zeros((1, 3)), rates_rec])
                B = _arr(AngularRate(gyr=G, q0=seq[0].copy(), Dt=dt).Q)
                ctx.traces += 1
                ang = _angles(B, seq) if B.shape == seq.shape else np.full(len(seq), np.inf)
                _judge_rows(ctx, ang, np.concatenate([[1e-13], budget]),
                            'recovered angular velocities re-integrated by AngularRate(gyr, q0, Dt) reproduce the sequence', k_,
                            f'angvel.reintegrate.{name}')
                ctx.cls('angvel:reintegrated')
            ctx.seen(('angvel', qn, an, rate, dt))
            ctx.outcome(('angvel', tuple(np.round(W[0], 9)) if ok else 'bad'))
    ctx.sample({'law': 'angular velocities', 'q0': q0.tolist(), 'w': w.tolist(), 'dt': dt,
                'recovered_first_row': W[0].tolist() if ok else repr(W)[:80], 'chord_rate': Wexp[0].tolist()})


# ---------------------------------------------------------------------------------------------- (v) 'integration'
def job_integration(ctx, j, sgn):
    AngularRate = _lib()[0]
    N = _nmax(ctx)
    ax = np.zeros(3); ax[j] = float(sgn)
    an = f'{"+" if sgn > 0 else "-"}{"xyz"[j]}'
    i1 = np.arange(1, N + 1)
    for rate in _rates(ctx):
        for dt in _dts(ctx):
            theta = rate * dt
            w = rate * ax
            key = _case('I', an, rate, dt)
            G = np.tile(w, (N, 1))
            Q = _arr(AngularRate(gyr=G.copy(), method='integration', Dt=dt).Q)
            ctx.traces += 1
            ref = np.array([rq.axang2q(ax, i * theta) for i in i1])
            tol = 1e-13 + i1 * np.maximum(1.0, i1 * theta) * 2e-15
            _judge_rows(ctx, _rowdist(Q, ref), tol,
                        "AngularRate(gyr, method='integration', Dt).Q row i = axis-angle((i+1) w dt) for a single-axis rate", key,
                        'integration', first_row=1)
            ctx.cls('integration:single-axis')
            ctx.seen(('integration', an, rate, dt))
    ctx.sample({'law': 'integration', 'w': w.tolist(), 'dt': dt, 'rows': N, 'library_last_row': Q[-1].tolist() if Q.ndim == 2 else repr(Q)[:80],
                'reference_last_row': ref[-1].tolist()})


# ---------------------------------------------------------------------------------------------- (vi) representations, configured step
def job_representations(ctx):
    """(1) AngularRate's three output representations describe the same attitudes, for every method: .R rows = matrices of the .Q rows,
    .W rows = angles of the .Q rows.  (2) The step a filter dead-reckons with when `dt` is NOT given per call is the one it was
    configured with, whether as `Dt=` or as `frequency=` (Madgwick, Mahony, AQUA, ROLEQ)."""
    AngularRate, Madgwick, Mahony, AQUA, EKF, ROLEQ, QuaternionArray = _lib()
    N = 8
    rates = [np.array([0.3, -0.2, 0.5]), np.array([1.5, 0.0, 0.0]), np.array([0.0, -2.0, 0.0]), np.array([0.0, 0.0, 0.7]), np.array([-0.4, 0.9, 0.2])]
    for wi, w in enumerate(rates):
        G = np.tile(w, (N, 1))
        for method, kw in (('closed', {}), ('series', {'order': 2}), ('integration', {})):
            for dt in (0.01, 0.05):
                key = f'method={method} w#{wi} dt={dt}'
                try:
                    Q = _arr(AngularRate(gyr=G.copy(), method=method, Dt=dt, **kw).Q)
                    Rm = _arr(AngularRate(gyr=G.copy(), method=method, Dt=dt, representation='rotmat', **kw).R)
                    Wm = _arr(AngularRate(gyr=G.copy(), method=method, Dt=dt, representation='angles', **kw).W)
                except Exception as ex:
                    ctx.fail('AngularRate: a representation raises', key, f'{type(ex).__name__}: {ex}'[:120], 'rows')
                    continue
                okq = Q.shape == (N, 4) and bool(np.all(np.isfinite(Q)))
                ctx.evals += 2
                if okq and Rm.shape == (N, 3, 3):
                    d = max(float(np.abs(Rm[i] - rq.R(rq.qunit(Q[i]))).max()) for i in range(N))
                    if not d <= 1e-12:
                        ctx.fail("AngularRate(representation='rotmat').R rows = the matrices of the quaternion rows", key, d, 0.0, 1e-12)
                else:
                    ctx.fail("AngularRate(representation='rotmat').R has N 3x3 rows", key, list(Rm.shape), [N, 3, 3])
                if okq and Wm.shape == (N, 3):
                    d = max(rq.qangle(rq.rpy2q(*Wm[i]), rq.qunit(Q[i])) for i in range(N))
                    if not d <= 1e-9:
                        ctx.fail("AngularRate(representation='angles').W rows = the roll-pitch-yaw angles of the quaternion rows", key, d, 0.0, 1e-9)
                else:
                    ctx.fail("AngularRate(representation='angles').W has N angle triples", key, list(Wm.shape), [N, 3])
                ctx.seen(('repr', method, wi, dt))
        ctx.cls('representations')
    # (2)
    Z = np.zeros(3)
    conj = lambda q: q * np.array([1.0, -1.0, -1.0, -1.0])
    q0 = rq.qunit(np.array([0.7, -0.2, 0.5, 0.4]))
    mref = np.array([20.0, 3.0, 41.0])
    makers = [('Madgwick', False, lambda **k_: Madgwick(**k_), lambda f, q, w: f.updateIMU(q, w, Z.copy())),
              ('Mahony', False, lambda **k_: Mahony(**k_), lambda f, q, w: f.updateIMU(q, w, Z.copy())),
              ('AQUA', True, lambda **k_: AQUA(**k_), lambda f, q, w: f.updateIMU(q, w, Z.copy())),
              ('ROLEQ', False, lambda **k_: ROLEQ(**k_), lambda f, q, w: f.update(q, w, Z.copy(), mref.copy()))]
    for w in (np.array([0.3, -0.2, 0.5]), np.array([3.0, 1.0, -2.0])):
        for dt in (0.002, 0.02, 0.05):
            for fname, is_conj, mk, step in makers:
                for how, kw in (('Dt', {'Dt': dt}), ('frequency', {'frequency': 1.0 / dt}), ('frequency and Dt', {'frequency': 1.0 / dt, 'Dt': dt})):
                    key = f'{fname}({how}) w={w.tolist()} dt={dt}'
                    ctx.evals += 1
                    try:
                        f = mk(**kw)
                        qq = conj(q0) if is_conj else q0.copy()
                        got = _arr(step(f, qq.copy(), w.copy()))
                        if is_conj and got.shape == (4,):
                            got = conj(got)
                        dd = ri.sdist(got, ri.first_order(q0, w, dt)) if got.shape == (4,) else np.inf
                    except Exception as ex:
                        ctx.fail(f'{fname}: dead-reckoning step with the configured step size raises', key, f'{type(ex).__name__}: {ex}'[:120], 'a quaternion')
                        continue
                    if not dd <= TOL_DR:
                        ctx.fail(f'{fname}: without a per-call dt the dead-reckoning step uses the step configured as Dt= / frequency=', key, dd, 0.0, TOL_DR)
            ctx.cls('dr:configured-step')
    # (4) records whose rate CHANGES from sample to sample, with pauses (rows that are exactly zero): closed form row by row, and the
    #     dead-reckoning batch constructors (null accelerometer) advancing by the first-order step of THEIR OWN row's rate
    q0v = rq.qunit(np.array([0.7, -0.2, 0.5, 0.4]))
    w1, w2 = np.array([0.8, -0.5, 0.3]), np.array([-0.2, 0.9, 0.4])
    Gv = np.array([w1, w1, 2.0 * w1, -w1, np.zeros(3), np.zeros(3), -0.0 * w1, w2, 0.5 * w2, w2 + w1, np.zeros(3), w1])
    for dt in (0.01, 0.05):
        ref = [q0v]
        for t in range(1, len(Gv)):
            n_ = float(np.linalg.norm(Gv[t]))
            ref.append(ref[-1] if n_ == 0 else rq.qunit(rq.qmul(ref[-1], rq.axang2q(Gv[t] / n_, n_ * dt))))
        ref = np.array(ref)
        for method, kw, tol in (('closed', {}, 1e-13), ('series', {'order': 6}, 1e-11)):
            key = f'varying rates with pauses method={method} dt={dt}'
            ctx.evals += 1
            try:
                B = _arr(AngularRate(gyr=Gv.copy(), q0=q0v.copy(), Dt=dt, method=method, **kw).Q)
                _judge_rows(ctx, _rowdist(B, ref), np.full(len(Gv), tol), 'AngularRate(gyr, q0, Dt).Q row n = row n-1 (x) axis-angle(w_n dt), rates changing per sample, pauses held', key, 'closed.varying')
                ar_ = AngularRate(); q = q0v.copy(); rows = [q.copy()]
                for t in range(1, len(Gv)):
                    q = _arr(ar_.update(q.copy(), Gv[t].copy(), method=method, dt=dt, **kw)); rows.append(q)
                _judge_rows(ctx, _rowdist(np.array(rows), ref), np.full(len(Gv), tol), 'AngularRate.update chained over changing rates and pauses', key, 'closed.varying')
            except Exception as ex:
                ctx.fail('AngularRate on a record with changing rates and pauses raises', key, f'{type(ex).__name__}: {ex}'[:120], 'rows')
        Zb = np.zeros((len(Gv), 3))
        for fname, is_conj, build in (('Madgwick', False, lambda: Madgwick(gyr=Gv.copy(), acc=Zb.copy(), q0=q0v.copy(), Dt=dt).Q), ('Mahony', False, lambda: Mahony(gyr=Gv.copy(), acc=Zb.copy(), q0=q0v.copy(), Dt=dt).Q),
                                      ('AQUA', True, lambda: AQUA(gyr=Gv.copy(), acc=Zb.copy(), q0=conj(q0v), Dt=dt).Q)):
            key = f'{fname} batch, null accelerometer, rates changing per sample dt={dt}'
            ctx.evals += 1
            try:
                B = _arr(build())
                if is_conj and B.shape == (len(Gv), 4):
                    B = B * np.array([1.0, -1.0, -1.0, -1.0])
                R_ = np.zeros((len(Gv), 4)); R_[0] = q0v
                ok = B.shape == (len(Gv), 4) and bool(np.all(np.isfinite(B)))
                for i in range(1, len(Gv)):
                    R_[i] = ri.first_order(B[i - 1] if ok else R_[i - 1], Gv[i], dt)
                _judge_rows(ctx, _rowdist(B, R_), np.full(len(Gv), TOL_DR), f'{fname}(gyr, acc=0, q0, Dt).Q row n = first-order step of row n-1 with the rate of sample n (rates changing per sample)', key, f'dr.varying.{fname}')
            except Exception as ex:
                ctx.fail(f'{fname} batch with changing rates raises', key, f'{type(ex).__name__}: {ex}'[:120], 'rows')
        ctx.cls('varying-rates')
    # (3) the user loop: whatever the update returns is fed back as it is, every returned attitude is KEPT; judged after the loop
    from ahrs import Quaternion
    for w in (np.array([0.3, -0.2, 0.5]), np.array([3.0, 1.0, -2.0])):
        dt = 0.02
        for fname, is_conj, mk, step in makers[:3]:
            for start in ('ndarray', 'Quaternion object'):
                key = f'{fname} loop feeding back the returned object, start as {start}, w={w.tolist()}'
                ctx.evals += 1
                try:
                    f = mk(Dt=dt)
                    s0 = conj(q0) if is_conj else q0.copy()
                    q = Quaternion(s0.copy()) if start == 'Quaternion object' else s0.copy()
                    first_obj = q
                    kept = [q]
                    for _ in range(12):
                        q = step(f, q, w.copy())
                        kept.append(q)
                except TypeError:
                    ctx.outcome(('object-refused', fname, start)); continue
                except Exception as ex:
                    ctx.fail(f'{fname}: loop raises', key, f'{type(ex).__name__}: {ex}'[:120], 'attitudes'); continue
                ok = np.array_equal(np.asarray(first_obj, float), s0)
                worst = 0.0
                for i in range(len(kept) - 1):
                    a_, b_ = _arr(kept[i]), _arr(kept[i + 1])
                    if is_conj:
                        a_, b_ = conj(a_), conj(b_)
                    worst = max(worst, ri.sdist(b_, ri.first_order(a_, w, dt)))
                if not (ok and worst <= TOL_DR):
                    ctx.fail(f'{fname}: every kept attitude of the loop q = update(q, ...) is the first-order step of the one kept before it (and the start is left as it was)', key,
                             {'start_unchanged': bool(ok), 'worst_step_defect': worst}, 0.0, TOL_DR)
            ctx.cls('dr:kept-results')
    ctx.sample({'representations': ['quaternion', 'rotmat', 'angles'], 'configured_step': ['Dt', 'frequency']})



def run(ctx):
    nq, na = len(_q0s(ctx)), len(_axes(ctx))
    jobs = []
    for iq in range(nq):
        for ia in range(na):
            jobs.append(('job_closed', (iq, ia)))
    for iq in range(nq):
        for ia in range(na):
            jobs.append(('job_series', (iq, ia)))
            jobs.append(('job_dr', (iq, ia)))
            jobs.append(('job_angvel', (iq, ia)))
    for j in range(3):
        for s in (1, -1):
            jobs.append(('job_integration', (j, s)))
    jobs.append(('job_representations', ()))
    core.run_jobs(ctx, __name__, jobs)
    ctx.transitions = ctx.traces
    ctx.max_depth = _nmax(ctx)
    ctx.notes['grid'] = {'q0': [n for n, _ in _q0s(ctx)], 'axes': na, 'rates': _rates(ctx), 'dts': _dts(ctx),
                         'max_steps': _nmax(ctx), 'orders': ORDERS}
