"""C06 — batch run equals sample-by-sample streaming; filters deterministic and isolated.

(a) batch vs stream over all 81 length-5 histories of a 3-symbol sample alphabet (+ two long mixed histories), two configurations;
(b) repeatability: every batch run three times, bit-identical (global NumPy RNG re-seeded for the estimator that draws from it);
(c) isolation: ALL interleavings of two live instances with three pending updates each and one batch construction of a third
    filter placed at every position (140 schedules per pair, every unordered pair of filter entries); each instance's outputs
    must be bit-identical to its solo run.  No threads: a schedule is the order in which the harness calls the real methods,
    which is exactly the order in which hidden shared state would be touched.
"""
import itertools, math
import numpy as np
from mc import core
from mc.ref import quat as rq, recursive as rr

PID = 'C06'
LEVEL = 'model_checking'
RULE = ('states = distinct schedule prefixes (sequences of update / construction events on live filter objects); transitions = events executed '
        'on the real objects; every complete schedule is compared with the solo runs of its instances; batch-vs-stream cases are distinct by '
        '(filter entry, configuration, history)')
ASSUMPTIONS = ['batch vs stream: max-abs difference <= 1e-12 (a batch constructor may re-wrap rows, which moves 1 ulp); repeatability and isolation: bit-identity',
               'the streaming instance is created without data but with the same effective configuration and started from the first row of the batch run',
               'Madgwick\'s default gain depends on whether magnetometer data was given to the constructor (documented default); both runs get the same explicit gain',
               'bounded: histories of length 5 over 3 sample symbols, 2 live instances x 3 updates + 1 construction event']
REQUIRED_CLASSES = ['given-q0', 'refused-calls', 'record-dtypes', 'dt-per-call', 'stream:carriers', 'batch=stream', 'repeat', 'schedule', 'shared-weights', 'param-pair']

S = [  # (gyr, acc, mag) sample symbols
    (np.array([0.01, -0.02, 0.03]), np.array([0.1, 0.2, 9.7]), np.array([22.0, 1.0, 40.0])),
    (np.array([0.5, 0.1, -0.3]), np.array([3.0, -2.0, 8.5]), np.array([10.0, -20.0, 35.0])),
    (np.array([-1.2, 0.8, 0.4]), np.array([-4.0, 5.0, 6.0]), np.array([-15.0, 12.0, 38.0])),
]


def history(word):
    g = np.array([S[i][0] for i in word]); a = np.array([S[i][1] for i in word]); m = np.array([S[i][2] for i in word])
    return g, a, m


def long_history(kind, n=40):
    t = np.arange(n)
    if kind == 0:
        g = np.c_[0.3 * np.sin(0.3 * t), 0.2 * np.cos(0.2 * t), 0.1 + 0 * t]
    else:
        g = np.c_[1.5 * np.cos(0.7 * t), -0.9 * np.sin(0.4 * t), 0.8 * np.sin(0.1 * t + 1)]
    q = np.array([1.0, 0, 0, 0]); A = []; M = []
    for i in range(n):
        q = rq.qunit(rq.qmul(q, np.array([1.0, *(0.5 * 0.02 * g[i])])))
        Rm = rq.R(q)
        A.append(Rm.T @ np.array([0, 0, 9.81]) + 0.05 * np.array([math.sin(i), math.cos(2 * i), math.sin(3 * i)]))
        M.append(Rm.T @ np.array([20.0, 0, 43.0]) + 0.3 * np.array([math.cos(i), math.sin(2 * i), math.cos(3 * i)]))
    return g, np.array(A), np.array(M)


def _seed(r):
    if r.seeded:
        np.random.seed(12345)


def job_batch_stream(ctx, key):
    r = rr.by_key(key)
    words = [(0,) + w for w in itertools.product(range(3), repeat=4)]
    # every short record length as well (2, 3, 4 samples: a 3-sample record is a square 3-by-3 array per sensor)
    words += [(0,) + w for L in (1, 2, 3) for w in itertools.product(range(3), repeat=L)]
    hists = [('word=' + ''.join(map(str, w)), history(w)) for w in words] + [(f'long#{k}', long_history(k)) for k in (0, 1)]
    # histories containing dropout samples (all-zero magnetometer / accelerometer rows): where the batch run accepts the record, streaming must agree
    for dn, rows_m, rows_a, rows_g in (('mag-dropout', (7, 20, 21), (), ()), ('acc-dropout', (), (9, 30), ()), ('both', (12,), (12, 25), ()),
                                       ('gyr-zero dropout', (), (), (6, 20, 21, 30, 39)), ('gyr-zero and acc dropout', (), (9,), (9, 10))):
        g_, a_, m_ = long_history(0)
        g_ = g_.copy(); a_ = a_.copy(); m_ = m_.copy()
        for t in rows_m:
            m_[t] = 0.0
        for t in rows_a:
            a_[t] = 0.0
        for t in rows_g:
            g_[t] = 0.0                 # the gyroscope reads exactly zero (a pause): the attitude is held / only corrected
        hists.append((f'long#0+{dn}', (g_, a_, m_)))
    for ci, cfg in enumerate(r.cfgs):
        for hn, (g, a, m) in hists:
            kk = f'filter={key} cfg#{ci} {hn}'
            try:
                _seed(r)
                b1 = r.output(r.batch(g, a, m, cfg))
                _seed(r)
                b2 = r.output(r.batch(g, a, m, cfg))
                _seed(r)
                b3 = r.output(r.batch(g, a, m, cfg))
            except ValueError as ex:
                if 'dropout' in hn or hn.endswith('+both'):
                    ctx.cls('dropout-history:batch refuses')       # a refusal of a record with null samples is C13's business
                    continue
                ctx.evals += 1
                ctx.fail(f'{key}: batch run raises', kk, f'{type(ex).__name__}: {ex}'[:200], 'N attitudes')
                continue
            except Exception as ex:
                ctx.evals += 1
                ctx.fail(f'{key}: batch run raises', kk, f'{type(ex).__name__}: {ex}'[:200], 'N attitudes')
                continue
            if ('dropout' in hn or hn.endswith('+both')) and not np.all(np.isfinite(b1)):
                ctx.cls('dropout-history:batch not finite')
                continue
            ctx.expect(b1.tobytes() == b2.tobytes() == b3.tobytes() and b1.shape[0] == len(g), f'{key}: three batch runs are bit-identical', kk, None, 'identical bytes')
            ctx.cls('repeat')
            ctx.traces += 3
            if r.step_fn is None:
                continue
            try:
                inst = r.fresh(cfg)
                q = b1[0].copy()
                rows = [q.copy()]
                for t in range(1, len(g)):
                    q = r.step(inst, q, g[t], a[t], m[t] if r.has_mag else None)
                    rows.append(np.array(q, float))
                    ctx.transitions += 1
                st = np.array(rows)
            except Exception as ex:
                ctx.evals += 1
                ctx.fail(f'{key}: streaming run raises', kk, f'{type(ex).__name__}: {ex}'[:200], 'N attitudes')
                continue
            ctx.close(st, b1, 1e-12, f'{key}: batch = stream', kk, track=f'batch-stream:{key}')
            # the streaming run itself is repeatable
            inst2 = r.fresh(cfg); q = b1[0].copy(); rows2 = [q.copy()]
            for t in range(1, len(g)):
                q = r.step(inst2, q, g[t], a[t], m[t] if r.has_mag else None)
                rows2.append(np.array(q, float))
            ctx.expect(np.array(rows2).tobytes() == st.tobytes(), f'{key}: two streaming runs are bit-identical', kk, None, 'identical bytes')
            # the user loop `q = f.update(q, ...)`: whatever object the update returns is handed back as it is (and, as a variant, wrapped
            # in an ahrs.Quaternion / copied by numpy) instead of being converted to a fresh float array by the harness
            if hn.startswith('long') or hn in ('word=01210', 'word=02121'):
                for carrier in ('as returned', 'Quaternion(q)', 'Quaternion(q).copy()'):
                    try:
                        from ahrs import Quaternion as _Qn
                        inst3 = r.fresh(cfg); q = b1[0].copy(); rows3 = [np.array(q, float)]
                        for t in range(1, len(g)):
                            qi = q if carrier == 'as returned' else (_Qn(np.array(q, float), versor=False) if carrier == 'Quaternion(q)' else _Qn(np.array(q, float), versor=False).copy())
                            q = r.step_fn(inst3, qi, g[t].copy(), a[t].copy(), m[t].copy() if r.has_mag else None)
                            rows3.append(np.array(q, float))
                    except TypeError:
                        if carrier == 'as returned':
                            ctx.fail(f'{key}: streaming run raises', kk + f' a-priori {carrier}', 'TypeError', 'N attitudes')
                        else:
                            ctx.outcome(('carrier-refused', key, carrier))
                        continue
                    except Exception as ex:
                        ctx.fail(f'{key}: streaming run raises', kk + f' a-priori {carrier}', f'{type(ex).__name__}: {ex}'[:200], 'N attitudes')
                        continue
                    ctx.close(np.array(rows3), b1, 1e-12, f'{key}: batch = stream (a-priori handed back {carrier})', kk)
                    ctx.cls('stream:carriers')
            if hn in ('long#1', 'word=02121') and r.q0_key == 'q0':
                # the initial attitude GIVEN (q0=): the batch run starts exactly there, and equals the stream started there
                q0g = rq.qunit(np.array([0.5, 0.5, -0.5, 0.5]) + 0.1 * np.array([0.3, -0.2, 0.1, 0.4]))
                try:
                    _seed(r)
                    bq0 = np.asarray(r.output(r.batch(g, a, m, cfg, q0=q0g.copy())), float)
                    ctx.close(bq0[0], q0g, 1e-15, f'{key}: a batch run given q0 starts at q0 (row 0)', kk)
                    instq = r.fresh(cfg); q = q0g.copy(); rowsq = [q.copy()]
                    for t in range(1, len(g)):
                        q = r.step(instq, q, g[t], a[t], m[t] if r.has_mag else None)
                        rowsq.append(np.array(q, float))
                    ctx.close(np.array(rowsq), bq0, 1e-12, f'{key}: batch(q0) = stream started from q0', kk)
                    ctx.cls('given-q0')
                except Exception as ex:
                    ctx.fail(f'{key}: run with a given q0 raises', kk, f'{type(ex).__name__}: {ex}'[:200], 'N attitudes')
            if hn in ('long#0', 'word=01210'):
                # (a) two runs started from ONE caller-owned Quaternion object: the object is left as it was, the second run equals the first
                try:
                    from ahrs import Quaternion as _Qn2
                    q_start = _Qn2(b1[0].copy(), versor=False); q_keep = np.asarray(q_start, float).copy()
                    runs = []
                    for _rep in range(2):
                        inst4 = r.fresh(cfg); q = q_start; rows4 = []
                        for t in range(1, len(g)):
                            q = r.step_fn(inst4, q, g[t].copy(), a[t].copy(), m[t].copy() if r.has_mag else None)
                            rows4.append(np.array(q, float))
                        runs.append(np.array(rows4))
                    ctx.expect(np.array_equal(np.asarray(q_start, float), q_keep), f"{key}: a streaming run leaves the caller's start Quaternion object as it was", kk, np.asarray(q_start, float), q_keep)
                    ctx.expect(runs[0].tobytes() == runs[1].tobytes(), f'{key}: two streaming runs started from the same Quaternion object are bit-identical', kk, None, 'identical bytes')
                    ctx.close(runs[0], b1[1:], 1e-12, f'{key}: batch = stream (started from a caller-owned Quaternion object)', kk)
                except TypeError:
                    ctx.outcome(('carrier-refused', key, 'start object'))
                except Exception as ex:
                    ctx.fail(f'{key}: streaming run raises', kk + ' start object', f'{type(ex).__name__}: {ex}'[:200], 'N attitudes')
                # (b) the same record held in single precision / as integers (a logger's native types): batch rows are float64 and equal the stream
                for dtn, conv in (('float32', lambda x: x.astype(np.float32)), ('int64 (milli-units)', lambda x: np.rint(x * 1000.0).astype(np.int64))):
                    try:
                        gd, ad, md = conv(g), conv(a), conv(m)
                        if dtn.startswith('int'):
                            gd = np.rint(g * 1000.0) / 1000.0            # gyroscope stays float (rates are small numbers)
                        _seed(r)
                        inst_b = r.klass()(**r.batch_args(gd, ad, md if r.has_mag else None), **cfg)
                        bd = np.asarray(r.output(inst_b))
                    except (TypeError, ValueError):
                        ctx.outcome(('dtype-record-refused', key, dtn)); continue
                    except Exception as ex:
                        ctx.fail(f'{key}: batch run on a {dtn} record raises', kk, f'{type(ex).__name__}: {ex}'[:200], 'N attitudes'); continue
                    ctx.expect(bd.dtype == np.float64, f'{key}: the attitudes of a batch run are float64 whatever the dtype of the record', kk + f' record dtype={dtn}', str(bd.dtype), 'float64')
                    try:
                        inst5 = r.fresh(cfg); q = np.array(bd[0], float); rows5 = [q.copy()]
                        for t in range(1, len(g)):
                            q = np.array(r.step_fn(inst5, q, gd[t].copy(), ad[t].copy(), md[t].copy() if r.has_mag else None), float)
                            rows5.append(q)
                        ctx.close(np.array(rows5), np.asarray(bd, float), 1e-9, f'{key}: batch = stream on a record held in another dtype', kk + f' record dtype={dtn}')
                    except (TypeError, ValueError):
                        ctx.outcome(('dtype-sample-refused', key, dtn))
                    except Exception as ex:
                        ctx.fail(f'{key}: streaming run on {dtn} samples raises', kk, f'{type(ex).__name__}: {ex}'[:200], 'N attitudes')
                ctx.cls('record-dtypes')
            ctx.cls('batch=stream')
            ctx.seen((key, ci, hn))
            ctx.states += len(g)
            ctx.traces += 2
    ctx.sample({'filter': key, 'history': 'word=01210', 'samples': [[v.tolist() for v in S[i]] for i in (0, 1, 2, 1, 0)]})


UPD_A = [1, 2, 1]
UPD_B = [2, 1, 0]


def _solo(r, cfg, upd, q0):
    inst = r.fresh(cfg)
    q = q0.copy(); out = []
    for s in upd:
        q = r.step(inst, q, S[s][0], S[s][1], S[s][2] if r.has_mag else None)
        out.append(np.array(q, float).tobytes())
    return out


def job_interleave(ctx, keys, ia, ib):
    """All 20 x 7 schedules of (A: 3 updates, B: 3 updates, C: one batch construction)."""
    allr = {r.key: r for r in rr.registry()}
    ra, rb = allr[keys[ia]], allr[keys[ib]]
    ckeys = sorted(allr)
    rc = allr[ckeys[(ia * 7 + ib * 3) % len(ckeys)]]
    q0a = rq.qunit([0.9, 0.1, -0.2, 0.3]); q0b = rq.qunit([0.7, -0.4, 0.5, 0.1])
    cfga, cfgb = ra.cfgs[0], rb.cfgs[-1]
    solo_a = _solo(ra, cfga, UPD_A, q0a)
    solo_b = _solo(rb, cfgb, UPD_B, q0b)
    gC, aC, mC = history((0, 1, 2, 1))
    prefixes = set()
    for order in itertools.combinations(range(6), 3):          # positions of A's updates among the 6 update slots
        seq = ['B'] * 6
        for p in order:
            seq[p] = 'A'
        for cpos in range(7):
            events = seq[:cpos] + ['C'] + seq[cpos:]
            np.random.seed(11)
            A = ra.fresh(cfga); B = rb.fresh(cfgb)
            qa, qb = q0a.copy(), q0b.copy()
            na = nb = 0
            out_a, out_b = [], []
            try:
                for e in events:
                    if e == 'A':
                        s = UPD_A[na]; na += 1
                        qa = ra.step(A, qa, S[s][0], S[s][1], S[s][2] if ra.has_mag else None); out_a.append(np.array(qa, float).tobytes())
                    elif e == 'B':
                        s = UPD_B[nb]; nb += 1
                        qb = rb.step(B, qb, S[s][0], S[s][1], S[s][2] if rb.has_mag else None); out_b.append(np.array(qb, float).tobytes())
                    else:
                        rc.output(rc.batch(gC, aC, mC, rc.cfgs[0]))
                    ctx.transitions += 1
            except Exception as ex:
                ctx.evals += 1
                ctx.fail('isolation: schedule raises', f'A={ra.key} B={rb.key} C={rc.key} schedule={"".join(events)}', f'{type(ex).__name__}: {ex}'[:200], 'completes')
                continue
            sched = ''.join(events)
            for i in range(1, len(events) + 1):
                prefixes.add(sched[:i])
            ctx.expect(out_a == solo_a, 'isolation: instance output equals its solo run (bit-identical)', f'inst={ra.key} other={rb.key} C={rc.key} schedule={sched}', None, 'identical bytes')
            ctx.expect(out_b == solo_b, 'isolation: instance output equals its solo run (bit-identical)', f'inst={rb.key} other={ra.key} C={rc.key} schedule={sched}', None, 'identical bytes')
            ctx.cls('schedule')
            ctx.traces += 1
            ctx.seen((ra.key, rb.key, sched))
    ctx.states += len(prefixes) + 1
    ctx.max_depth = 7
    ctx.sample({'A': ra.key, 'B': rb.key, 'C(batch construction)': rc.key, 'schedule': 'ABCABAB', 'A_updates': UPD_A, 'B_updates': UPD_B})


def job_shared_weights(ctx):
    """Two estimators built from one caller-owned weights array, calls interleaved."""
    from ahrs import filters as F
    a1, m1 = S[1][1], S[1][2]; a2, m2 = S[2][1], S[2][2]
    for name, mk in (('FLAE', lambda w: F.FLAE(weights=w, magnetic_dip=60.0)), ('OLEQ', lambda w: F.OLEQ(weights=w, magnetic_ref=60.0)),
                     ('QUEST', lambda w: F.QUEST(weights=w, magnetic_dip=60.0)), ('Davenport', lambda w: F.Davenport(weights=w, magnetic_dip=60.0)),
                     ('ROLEQ', lambda w: F.ROLEQ(weights=w, magnetic_ref=60.0))):
        def run(shared):
            w1 = np.array([1.0, 2.0]); w2 = w1 if shared else np.array([1.0, 2.0])
            np.random.seed(5)
            e1 = mk(w1); e2 = mk(w2)
            outs = []
            if name == 'ROLEQ':
                q = rq.qunit([0.9, 0.1, -0.2, 0.3])
                for est, (g, a, m) in ((e1, S[1]), (e2, S[2]), (e1, S[2]), (e2, S[1])):
                    outs.append(np.asarray(est.update(q.copy(), g.copy(), a.copy(), m.copy())).tobytes())
            else:
                for est, (a, m) in ((e1, (a1, m1)), (e2, (a2, m2)), (e1, (a2, m2)), (e2, (a1, m1))):
                    np.random.seed(6)
                    outs.append(np.asarray(est.estimate(a.copy(), m.copy())).tobytes())
            return outs
        try:
            ctx.expect(run(True) == run(False), f'{name}: instances sharing a caller-owned weights array behave like instances with private copies', 'weights=[1,2]', None, 'identical bytes')
        except Exception as ex:
            ctx.evals += 1
            ctx.fail(f'{name}: shared weights run raises', 'weights=[1,2]', f'{type(ex).__name__}: {ex}'[:200], 'completes')
        ctx.cls('shared-weights'); ctx.seen(('w', name)); ctx.traces += 2
    ctx.sample({'shared_weights': [1.0, 2.0]})


def _variants(r):
    """One-parameter variations of a filter's base configuration (arrays are caller-owned objects, reused on purpose)."""
    c = r.cls_name
    V = []
    if c == 'Madgwick':
        V = [dict(gain=0.1), dict(frequency=50.0), dict(Dt=0.02), dict(gain_imu=0.05, gain_marg=0.06)]
    elif c == 'Mahony':
        V = [dict(k_P=2.0), dict(k_I=0.1), dict(frequency=50.0), dict(b0=np.array([0.01, -0.02, 0.005])), dict(Dt=0.02)]
    elif c == 'EKF':
        V = [dict(frequency=50.0), dict(noises=[0.1**2, 0.3**2, 0.5**2]), dict(P=np.identity(4) * 0.5), dict(var_acc=0.2), dict(var_gyr=0.05), dict(Dt=0.02), dict(Dt=0.02, frequency=25.0)]
        if r.has_mag:
            V += [dict(magnetic_ref=40.0), dict(var_mag=0.3), dict(magnetic_ref=np.array([0.5, 0.1, 0.8]))]
    elif c == 'UKF':
        V = [dict(alpha=1e-2), dict(beta=0.0), dict(kappa=1.0), dict(frequency=50.0), dict(P=np.eye(4) * 0.02), dict(process_noise_covariance=np.eye(4) * 1e-3),
             dict(measurement_noise_covariance=np.eye(3) * 0.1), dict(beta=0.0, P=np.eye(4) * 0.02), dict(Dt=0.02)]
    elif c == 'AQUA':
        V = [dict(alpha=0.05), dict(beta=0.05), dict(threshold=0.5), dict(adaptive=True), dict(frequency=50.0), dict(adaptive=True, threshold=0.5), dict(Dt=0.02)]
    elif c == 'Fourati':
        V = [dict(gain=0.5), dict(magnetic_dip=30.0), dict(frequency=50.0), dict(Dt=0.02), dict(Dt=0.02, frequency=25.0)]
    elif c == 'ROLEQ':
        V = [dict(weights=np.array([1.0, 2.0])), dict(magnetic_ref=30.0), dict(frequency=50.0), dict(magnetic_ref=np.array([0.5, 0.1, 0.8])), dict(Dt=0.02)]
    elif c == 'AngularRate':
        V = [dict(frequency=50.0), dict(Dt=0.02)] + ([dict(order=2), dict(order=4)] if r.arch == 'series' else [])
    elif c == 'FKF':
        V = [dict(sigma_g=0.05), dict(sigma_a=0.05), dict(sigma_m=0.05), dict(Pk=0.5), dict(frequency=50.0)]
    elif c == 'Complementary':
        V = [dict(gain=0.5), dict(frequency=50.0), dict(w0=np.array([0.1, -0.2, 0.3]))]
    return V


def _run_cfg(key, cfg):
    """batch run + streaming run of one configuration -> bytes (executed in whatever process calls it)."""
    r = rr.by_key(key)
    g, a, m = history((0, 1, 2, 1, 0, 2))
    np.random.seed(21)
    out = [r.output(r.batch(g, a, m, cfg)).tobytes()]
    if r.step_fn is not None:
        inst = r.fresh(cfg)
        q = rq.qunit([0.9, 0.1, -0.2, 0.3])
        for t in range(1, len(g)):
            q = r.step(inst, q, g[t], a[t], m[t] if r.has_mag else None)
            out.append(np.array(q, float).tobytes())
    return out


def _seq(key, cfgs):
    return [_run_cfg(key, c) for c in cfgs]


def _step_with_dt(r, inst, q, g, a, m, dt):
    """One streaming step with the step size given PER CALL (keyword dt); None when the update method has no such keyword."""
    import inspect
    if r.cls_name == 'AngularRate':
        return None
    name = 'update' if not hasattr(inst, 'updateIMU') else ('updateMARG' if r.has_mag else 'updateIMU')
    fn = getattr(inst, name, None)
    if fn is None or 'dt' not in inspect.signature(fn).parameters:
        return None
    args = (q, g, a, m) if (r.has_mag and name != 'updateIMU') else (q, g, a)
    return fn(*args, dt=dt)


def job_dt_per_call(ctx, key):
    """batch(frequency=50) = streaming on an object built with the DEFAULT frequency whose update gets dt=1/50 at every call (and = streaming on
    an object built with frequency=50): the per-call step size is honoured by every update method that offers it."""
    r = rr.by_key(key)
    if r.step_fn is None:
        return
    for ci, cfg0 in enumerate(r.cfgs):
        cfg = {k_: v for k_, v in cfg0.items() if k_ not in ('frequency', 'Dt')}
        for hn, (g, a, m) in (('word=01210', history((0, 1, 2, 1, 0))), ('long#1', long_history(1, 24))):
            kk = f'filter={key} cfg#{ci} {hn} dt=0.02 per call'
            try:
                _seed(r)
                b = r.output(r.batch(g, a, m, dict(cfg, frequency=50.0)))
                inst = r.fresh(cfg)                       # default frequency (100 Hz)
                q = b[0].copy(); rows = [q.copy()]
                for t in range(1, len(g)):
                    out = _step_with_dt(r, inst, np.array(q, float), g[t].copy(), a[t].copy(), m[t].copy() if r.has_mag else None, 0.02)
                    if out is None:
                        rows = None
                        break
                    q = np.array(out, float); rows.append(q)
            except Exception as ex:
                ctx.evals += 1
                ctx.fail(f'{key}: run with a per-call dt raises', kk, f'{type(ex).__name__}: {ex}'[:200], 'completes')
                continue
            if rows is None:
                ctx.outcome(('no-dt-keyword', key))
                continue
            ctx.close(np.array(rows), b, 1e-12, f'{key}: batch(frequency=50) = stream with dt=1/50 given at every call', kk)
            ctx.cls('dt-per-call')
            ctx.seen((key, ci, hn, 'dt'))
            ctx.traces += 2
    ctx.sample({'filter': key, 'dt_per_call': 0.02})


def job_refused_calls(ctx, key):
    """Exception safety of the streaming objects: a run in which some update calls are REFUSED (they raise: null or NaN sample, wrong shape,
    wrong length, non-numeric) in between the valid calls gives, on the valid calls, bit for bit what the run without those calls gives."""
    r = rr.by_key(key)
    if r.step_fn is None:
        return
    g, a, m = long_history(1, 18)
    # (not in the menu, because the unchanged tree is not exception-safe there -- DESIGN 7.7: a gyroscope sample of length 2 and a NaN magnetometer
    # sample given to Mahony, an accelerometer sample of shape (1,3) given to EKF)
    spoils = [('zero mag', lambda gg, aa, mm: (gg, aa, np.zeros(3))), ('zero acc', lambda gg, aa, mm: (gg, np.zeros(3), mm)), ('NaN acc', lambda gg, aa, mm: (gg, np.full(3, np.nan), mm)),
              ('mag of length 2', lambda gg, aa, mm: (gg, aa, mm[:2].copy())),
              ('acc of length 2', lambda gg, aa, mm: (gg, aa[:2].copy(), mm)), ('acc as a string', lambda gg, aa, mm: (gg, 'abc', mm)),
              ('NaN gyr', lambda gg, aa, mm: (np.full(3, np.nan), aa, mm)),
              ('NaN mag', lambda gg, aa, mm: (gg, aa, np.full(3, np.nan))), ('acc of shape (1,3)', lambda gg, aa, mm: (gg, aa[None].copy(), mm)), ('acc of shape (2,3)', lambda gg, aa, mm: (gg, np.array([aa, aa]), mm)),
              ('gyr of length 2', lambda gg, aa, mm: (gg[:2].copy(), aa, mm))]
    not_safe_on_unchanged_tree = {'Mahony': ('gyr of length 2', 'NaN mag'), 'EKF': ('acc of shape (1,3)', 'acc of shape (2,3)')}
    spoils = [sp_ for sp_ in spoils if sp_[0] not in not_safe_on_unchanged_tree.get(r.cls_name, ())]
    for ci, cfg in enumerate(r.cfgs):
        def run(spoil):
            _seed(r)
            inst = r.fresh(cfg)
            q = rq.qunit([0.9, 0.1, -0.2, 0.3]); rows = []
            refused = answered = 0
            for t in range(1, len(g)):
                if spoil is not None and t in (3, 7, 8, 15):
                    gs, as_, ms = spoil(g[t].copy(), a[t].copy(), m[t].copy())
                    try:
                        r.step_fn(inst, np.array(q, float), gs, as_, ms if r.has_mag else None)
                        answered += 1
                    except Exception:
                        refused += 1
                q = np.array(r.step_fn(inst, np.array(q, float), g[t].copy(), a[t].copy(), m[t].copy() if r.has_mag else None), float)
                rows.append(q)
            return np.array(rows), refused, answered
        try:
            base, _, _ = run(None)
        except Exception as ex:
            ctx.evals += 1
            ctx.fail(f'{key}: fault-free streaming run raises', f'filter={key} cfg#{ci}', f'{type(ex).__name__}: {ex}'[:160], 'completes')
            continue
        for sn, sp in spoils:
            if not r.has_mag and 'mag' in sn:
                continue
            kk = f'filter={key} cfg#{ci} refused calls: {sn}'
            ctx.evals += 1
            try:
                out, refused, answered = run(sp)
            except Exception as ex:
                ctx.fail(f'{key}: a valid update raises after a refused one', kk, f'{type(ex).__name__}: {ex}'[:160], 'the valid samples are processed')
                continue
            if answered or not refused:
                ctx.outcome(('spoiled-sample-answered', key, sn))       # the sample was consumed (e.g. correction skipped): not comparable
                continue
            ctx.expect(out.tobytes() == base.tobytes(), f'{key}: refused update calls leave the filter exactly as it was (valid calls answer as in the run without them)', kk,
                       float(np.abs(out - base).max()), 0.0, 0.0)
            ctx.cls('refused-calls')
            ctx.seen((key, ci, 'refused', sn))
            ctx.traces += 1
    ctx.sample({'filter': key, 'refused_call_kinds': [s_[0] for s_ in spoils]})


def job_param_pairs(ctx, key):
    """Two instances of one class that differ in ONE constructor parameter, in both creation orders, against solo runs made in
    pristine child processes (state cached at class or module level and keyed incompletely shows here)."""
    r = rr.by_key(key)
    A0 = dict(r.cfgs[0])
    pairs = []
    for v in _variants(r):
        B0 = dict(A0); B0.update(v)
        pairs.append((A0, B0, ','.join(sorted(v))))
    if r.cls_name in ('EKF', 'ROLEQ') and r.frame == 'NED':
        # both instances rely on the DEFAULT magnetic reference (computed by the package at construction): only the frame differs
        import datetime
        if datetime.datetime.now().hour != 23 or datetime.datetime.now().minute < 55:      # the default depends on today's date
            pairs.append((dict(frame='NED'), dict(frame='ENU'), 'frame(default reference)'))
            pairs.append((dict(frame='ENU'), dict(frame='NED'), 'frame(default reference, ENU first)'))
    # phase 1: the pair / solo runs, each in a forked child of THIS process, which has not run any filter yet (so every child starts
    # from a library nobody has used); phase 2 (batch = stream under the varied configuration) runs in this process afterwards
    for A0, B0, vname in pairs:
        kk = f'filter={key} varied={vname}'
        try:
            solo_a = core.in_fresh_child(_run_cfg, key, A0)
            solo_b = core.in_fresh_child(_run_cfg, key, B0)
            ab = core.in_fresh_child(_seq, key, [A0, B0, A0])
            ba = core.in_fresh_child(_seq, key, [B0, A0, B0])
        except Exception as ex:
            ctx.evals += 1
            ctx.fail(f'{key}: configuration pair run raises', kk, str(ex)[:200], 'completes')
            continue
        ctx.expect(ab == [solo_a, solo_b, solo_a], f'{key}: runs after another configuration of the same class equal the solo runs (A, B, A)', kk, None, 'identical bytes')
        ctx.expect(ba == [solo_b, solo_a, solo_b], f'{key}: runs after another configuration of the same class equal the solo runs (B, A, B)', kk, None, 'identical bytes')
        ctx.cls('param-pair')
        ctx.seen((key, vname))
        ctx.traces += 8
        ctx.transitions += 8 * 6
        ctx.states += 8
    for A0, B0, vname in pairs:
        kk = f'filter={key} varied={vname}'
        if r.step_fn is not None:
            # batch = stream under the varied configuration too (an option honoured by one path and ignored by the other shows here)
            g_, a_, m_ = history((0, 1, 2, 1, 0, 2, 2, 1))
            try:
                np.random.seed(12345)
                bq = r.output(r.batch(g_, a_, m_, B0))
                inst = r.fresh(B0)
                q = bq[0].copy(); rows = [q.copy()]
                for t in range(1, len(g_)):
                    q = r.step(inst, q, g_[t], a_[t], m_[t] if r.has_mag else None)
                    rows.append(np.array(q, float))
                ctx.close(np.array(rows), bq, 1e-12, f'{key}: batch = stream', kk + ' word=01210221')
            except Exception as ex:
                ctx.evals += 1
                ctx.fail(f'{key}: batch/stream run raises', kk, f'{type(ex).__name__}: {ex}'[:200], 'completes')
    ctx.sample({'filter': key, 'base': {k: (x.tolist() if hasattr(x, 'tolist') else x) for k, x in r.cfgs[0].items()}, 'varied': [p[2] for p in pairs]})


QUICK_KEYS = ['Madgwick-MARG', 'Mahony-MARG', 'EKF-MARG', 'EKF-IMU-ENU', 'UKF-IMU', 'AQUA-MARG', 'Fourati-MARG', 'ROLEQ-MARG', 'AngularRate-series', 'Mahony-IMU']


def run(ctx):
    regs = rr.registry()
    jobs = [('job_batch_stream', (r.key,)) for r in regs]
    keys = [r.key for r in regs if r.step_fn is not None] if ctx.thorough else QUICK_KEYS
    for i in range(len(keys)):
        for j in range(i, len(keys)):
            jobs.append(('job_interleave', (keys, i, j)))
    jobs.append(('job_shared_weights', ()))
    jobs += [('job_param_pairs', (r.key,)) for r in regs]
    jobs += [('job_dt_per_call', (r.key,)) for r in regs]
    jobs += [('job_refused_calls', (r.key,)) for r in regs]
    core.run_jobs(ctx, __name__, jobs)
    ctx.notes['interleaved_filter_entries'] = keys
    ctx.notes['schedules_per_pair'] = 140
