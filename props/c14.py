"""C14 — WMM output equals the spherical-harmonic synthesis of the shipped coefficients.

Every date of the tenth-of-a-year grid 2015.0 ... 2030.0 (the complete date space the model distinguishes)
x the designed PLACES lattice (both poles, +-89.999, +-1e-9, equator, +-180, heights -1 ... 850 km) is
evaluated through ``WMM.magnetic_field(lat, lon, h, date=d)`` and X, Y, Z are compared with the
independent evaluator ``mc/ref/wmm.py`` which reads the same three WMM.COF files.

(a) job_grid : date given as float, all 560 places.
(b) job_forms: the same grid date given as ``datetime.date`` (first calendar day of the grid tenth) and, for
               whole years, as ``int``; 56 places.
(c) job_dense: (thorough only) a 5 deg x 20 deg x 4-height lattice at the six dates next to the epoch seams
               and the three mid-epoch dates — lattice points where nothing cancels by symmetry.
(d) job_selftest: the reference evaluator against closed forms and the 124 published check points.
"""
import math
import datetime
import numpy as np
from mc import core
from mc.ref import wmm as rw

PID = 'C14'
LEVEL = 'exploration'
TOL = 2e-4          # nT
RULE = ('cases = (date form, grid date, latitude, longitude, height); the date axis (151 tenth-of-a-year grid dates '
        '2015.0..2030.0) is enumerated completely in the thorough tier, the place axes are the designed finite lattice; '
        'every case is one call of WMM.magnetic_field with an explicit date on the real code, judged component-wise '
        '(X, Y, Z) against mc/ref/wmm.py; a case is distinct by (form, date, place) and all are non-trivial (no two '
        'cases share date and place; at the poles the longitude still rotates X and Y)')
ASSUMPTIONS = [
    'tolerance 2e-4 nT absolute on each of X, Y, Z (fields up to 6.7e4 nT, i.e. 3e-9 relative). Worst observed on the '
    'unchanged tree over the whole thorough space: 1.5e-6 nT (Z), so the tolerance is 133 x the observed worst (DESIGN.md '
    'proposed 1e-4 from a smaller design-time grid; raised to honour the >= 100 x rule). Of the 1.5e-6, 1.2e-6 is the '
    'ellipsoid: the package derives the flattening from a polar radius rounded to 0.1 mm, the reference uses the defining '
    '1/f = 298.257223563 (with the rounded radius in the reference the residual is 2e-7 nT = rounding noise of the '
    'recursions). Realistic mutations (sign, index, multiplier, seam, secular term) move the field by 1e-1 ... 1e4 nT; '
    'the smallest conceivable one (an error confined to one degree-12 coefficient of 0.1 nT) by > 1e-2 nT',
    'the reference is pinned independently of the package on every run: Schmidt functions against closed forms (n <= 3), '
    'dP against central differences, sum_m (P_n^m)^2 = 1 for all n, and the 124 published check points shipped with the '
    'three models reproduced to their printing precision (<= 0.05 nT)',
    'dates are always passed explicitly (the default date and date=None belong to C15); one WMM object is reused per job, '
    'independence from call history is C15',
    'datetime.date inputs are restricted to the first calendar day of each grid tenth, where every reasonable '
    'date -> decimal-year convention rounds to the same grid value and selects the same coefficient file; calendar days '
    'next to a rounding boundary or next to 1 January (where year + yday/365 of the package and year + (yday-1)/N differ in '
    'the grid value / file) are judged in job_offgrid: the file is the one whose epoch contains the date itself, the secular variation is advanced to the nearest tenth',
    'NED frame only (the property names north, east, down); ENU is C15',
    'heights are ellipsoidal heights in km, latitudes geodetic degrees; Python floats are passed (never arrays)',
    'quick tier: 23-24 grid dates (both epoch seams +- one step, first/last dates, mid-epochs, and 8-9 seed-selected others: '
    'seed s takes the remaining dates with index = s mod 15); thorough: all 151 for every seed',
]
REQUIRED_CLASSES = ['pole:height-ladder', 'form:after-refused-date', 'form:number-types', 'form:reused-arrays', 'epoch:WMM2015', 'epoch:WMM2020', 'epoch:WMM2025', 'seam:2020.0', 'seam:2025.0', 'seam:last-before',
                    'end:2030.0', 'pole:north', 'pole:south', 'near-pole', 'equator', 'lat:+-1e-9', 'lon:+-180',
                    'height:-1', 'height:850', 'form:float', 'form:int', 'form:date', 'ref:selftest']

LATS = [-90.0, -89.999, -80.0, -55.001, -30.0, -1e-9, 0.0, 1e-9, 10.0, 45.0, 55.001, 80.0, 89.999, 90.0]
LONS = [-180.0, -120.0, -1.0, 0.0, 1e-9, 45.0, 120.0, 180.0]
HEIGHTS = [-1.0, 0.0, 10.0, 100.0, 850.0]
NDATES = 151
SEAMS = [0, 1, 48, 49, 50, 51, 98, 99, 100, 101, 149, 150]          # 2015.0 .1 | 2019.8 .9 2020.0 .1 | 2024.8 .9 2025.0 .1 | 2029.9 2030.0
MIDS = [25, 75, 125]
DENSE_DATES = [49, 50, 99, 100, 149, 150, 25, 75, 125]


def grid(i):
    """i-th grid date as the float nearest to the decimal literal 2015.0 + i/10."""
    return round(2015 + i / 10.0, 1)


def places(kind):
    if kind == 'full':
        return [(la, lo, h) for la in LATS for lo in LONS for h in HEIGHTS]
    if kind == 'forms':
        return [(la, lo, h) for la in LATS for lo in (-120.0, 45.0) for h in (0.0, 100.0)]
    if kind == 'dense':
        return [(float(la), float(lo), h) for la in range(-90, 91, 5) for lo in range(-180, 181, 20)
                for h in (-1.0, 0.0, 425.0, 850.0)]
    raise ValueError(kind)


def quick_dates(seed):
    fixed = sorted(set(SEAMS + MIDS))
    rest = [i for i in range(NDATES) if i not in fixed]
    return sorted(fixed + [i for i in rest if i % 15 == seed % 15])


def _new_wmm(date):
    from ahrs.utils.wmm import WMM
    return WMM(date=date)          # explicit date: the constructor default is today's date


def _classes(ctx, form, i, lat, lon, h, name):
    ctx.cls('epoch:' + name)
    ctx.cls('form:' + form)
    if i in (50, 100):
        ctx.cls(f'seam:{grid(i):.1f}')
    if i in (49, 99):
        ctx.cls('seam:last-before')
    if i == 150:
        ctx.cls('end:2030.0')
    if abs(lat) == 90.0:
        ctx.cls('pole:north' if lat > 0 else 'pole:south')
    elif abs(lat) > 89.0:
        ctx.cls('near-pole')
    elif lat == 0.0:
        ctx.cls('equator')
    elif abs(lat) < 1e-6:
        ctx.cls('lat:+-1e-9')
    if abs(lon) == 180.0:
        ctx.cls('lon:+-180')
    if h < 0:
        ctx.cls('height:-1')
    if h == 850.0:
        ctx.cls('height:850')


def _judge(ctx, holder, form, i, darg, dkey, P, B):
    """All places P (with reference bases B) at one date given in one form."""
    name, g, h = rw.coefficients(grid(i) if i is not None else darg)
    epoch = rw.load(name)['epoch']
    site0 = f'WMM.magnetic_field(date={form})'
    for (lat, lon, hk), (WG, WH) in zip(P, B):
        key = f'date={dkey} lat={lat!r} lon={lon!r} h={hk!r}'
        exp = WG @ g + WH @ h
        w = holder[0]
        try:
            w.magnetic_field(lat, lon, hk, date=darg)
            obs = [w.X, w.Y, w.Z]
            got_epoch = getattr(w, 'epoch', None)
        except Exception as ex:
            ctx.tick()
            ctx.fail(f'{site0} returns a field for every grid date and place', key, f'{type(ex).__name__}: {ex}',
                     exp, None)
            holder[0] = _new_wmm(2020.0)
            continue
        ctx.traces += 1
        ctx.expect(got_epoch == epoch, f'{site0} loads the coefficient file of the epoch containing the date', key,
                   got_epoch, epoch)
        for c, cname in enumerate(('X (north)', 'Y (east)', 'Z (down)')):
            try:
                v = float(obs[c])
            except Exception:
                v = float('nan')
            d = abs(v - exp[c])
            ctx.track(f'{form}.d{cname[0]}_nT', d)
            if abs(lat) == 90.0:
                ctx.track(f'pole.d{cname[0]}_nT', d)
            ctx.expect(d <= TOL, f'{site0} {cname} = degree-12 synthesis of the shipped COF', key, obs[c], exp[c], TOL)
        # the same numbers through the two read-out properties of the (re-used) object: they describe the LAST evaluation
        try:
            el = w.magnetic_elements
            gv = np.asarray(w.geodetic_vector, float)
            pv = np.array([float(el['X']), float(el['Y']), float(el['Z'])])
        except Exception as ex:
            ctx.tick()
            ctx.fail(f'{site0}: magnetic_elements / geodetic_vector can be read', key, f'{type(ex).__name__}: {ex}'[:120], exp)
        else:
            ctx.expect(float(np.abs(pv - exp).max()) <= TOL, f'{site0}: magnetic_elements X, Y, Z = degree-12 synthesis (object re-used for many evaluations)', key, pv, exp, TOL)
            ctx.expect(gv.shape == (3,) and float(np.abs(gv - exp).max()) <= TOL, f'{site0}: geodetic_vector = degree-12 synthesis (object re-used for many evaluations)', key, gv, exp, TOL)
        ctx.seen((form, i if i is not None else dkey, lat, lon, hk))
        _classes(ctx, form, i, lat, lon, hk, name)
        ctx.outcome(tuple(round(float(x), 3) if x is not None else None for x in obs))


def job_grid(ctx, idx):
    P = places('full')
    B = [rw.basis(*p) for p in P]
    holder = [_new_wmm(2020.0)]
    for i in idx:
        d = grid(i)
        _judge(ctx, holder, 'float', i, d, f'{d:.1f}', P, B)
    ctx.sample({'form': 'float', 'date': grid(idx[0]), 'place': list(P[len(P) // 2]),
                'XYZ_ref_nT': rw.field(*P[len(P) // 2], grid(idx[0])).tolist()})


def job_forms(ctx, idx):
    P = places('forms')
    B = [rw.basis(*p) for p in P]
    holder = [_new_wmm(2020.0)]
    for i in idx:
        year, k = 2015 + i // 10, i % 10
        day = rw.first_day_of_tenth(year, k)
        # the reference's own reading of that calendar day must be the grid date (construction check, not a verdict)
        assert rw.grid_date(day) == grid(i) and rw.model_for(rw.decimal_year(day)) == rw.model_for(grid(i)), (day, i)
        _judge(ctx, holder, 'date', i, day, f'date({day.year},{day.month},{day.day})~{grid(i):.1f}', P, B)
        if k == 0:
            _judge(ctx, holder, 'int', i, year, f'int({year})', P, B)
    i = idx[0]
    ctx.sample({'form': 'date', 'date': str(rw.first_day_of_tenth(2015 + i // 10, i % 10)), 'grid': grid(i), 'place': list(P[0])})


OFFGRID = [2019.949, 2019.951, 2019.96, 2019.999, 2020.04, 2020.051, 2024.951, 2024.97, 2024.999, 2025.049, 2017.26, 2022.449, 2022.451, 2029.96]
OFFGRID_DAYS = [(2019, 12, 20), (2019, 12, 31), (2020, 1, 1), (2024, 12, 20), (2024, 12, 31), (2025, 1, 1), (2022, 6, 14), (2016, 2, 29)]


def job_offgrid(ctx):
    """Dates between grid points: the model FILE is the one whose epoch contains the date itself (WMM2015 before 2020.0 ...), the secular
    variation is advanced to the nearest grid tenth.  Dates within 0.05 of an epoch seam separate the two roundings."""
    P = places('forms')
    B = [rw.basis(*p) for p in P]
    holder = [_new_wmm(2020.0)]
    for d in OFFGRID:
        _judge(ctx, holder, 'float-offgrid', None, d, f'{d!r}', P, B)
        ctx.cls('offgrid')
    for y, mth, dd in OFFGRID_DAYS:
        day = datetime.date(y, mth, dd)
        _judge(ctx, holder, 'date-offgrid', None, day, f'date({y},{mth},{dd})', P, B)
        ctx.cls('offgrid')
    # the constructor route: WMM(date, latitude, longitude, height) answers for the date it was GIVEN
    from ahrs.utils.wmm import WMM
    for d in (2015.0, 2017.3, 2019.9, 2020.0, 2023.7, 2025.0, 2028.2, datetime.date(2017, 5, 12), datetime.date(2024, 12, 31)):
        name, g, h = rw.coefficients(d)
        for (lat, lon, hk), (WG, WH) in list(zip(P, B))[::5]:
            key = f'ctor date={d!r} lat={lat!r} lon={lon!r} h={hk!r}'
            exp = WG @ g + WH @ h
            try:
                w = WMM(date=d, latitude=float(lat), longitude=float(lon), height=float(hk))
                obs = np.array([w.X, w.Y, w.Z], float)
            except Exception as ex:
                ctx.evals += 1
                ctx.fail('WMM(date, lat, lon, h) returns a field', key, f'{type(ex).__name__}: {ex}'[:160], exp)
                continue
            ctx.close(obs, exp, TOL, 'WMM(date, lat, lon, h): X, Y, Z = degree-12 synthesis for the date given to the constructor', key)
            ctx.seen(('ctor', repr(d), lat, lon, hk))
            ctx.cls('form:constructor')
    # the place given in other numeric types (whole degrees and kilometres written as Python ints, numpy integers, single precision)
    IP = [(80, 0, 100), (10, -20, 1), (48, 11, 0), (-33, 151, 0), (0, 0, 0), (-90, 0, 0), (90, 180, 5), (-45, -120, 850)]
    carriers = [('int', int), ('numpy.int64', np.int64), ('numpy.int32', np.int32), ('numpy.float32', np.float32), ('numpy.float64', np.float64)]
    for d in (2020.0, 2023.7, 2017):
        name, g, h = rw.coefficients(d)
        for (lat, lon, hk) in IP:
            WG, WH = rw.basis(float(lat), float(lon), float(hk))
            exp = WG @ g + WH @ h
            for cn, cv in carriers:
                for how in ('magnetic_field', 'constructor', 'magnetic_field, height omitted'):
                    if how.endswith('omitted') and hk != 0:
                        continue
                    key = f'{how} date={d!r} lat={lat} lon={lon} h={hk} numbers as {cn}'
                    try:
                        if how == 'constructor':
                            w = WMM(date=d, latitude=cv(lat), longitude=cv(lon), height=cv(hk))
                        else:
                            w = WMM(date=2021.5)
                            if how.endswith('omitted'):
                                w.magnetic_field(cv(lat), cv(lon), date=d)
                            else:
                                w.magnetic_field(cv(lat), cv(lon), cv(hk), date=d)
                        obs = np.array([w.X, w.Y, w.Z], float)
                    except TypeError:
                        ctx.outcome(('number-type-refused', cn, how))
                        continue
                    except Exception as ex:
                        ctx.evals += 1
                        ctx.fail('WMM with the place in another numeric type returns a field', key, f'{type(ex).__name__}: {ex}'[:160], exp)
                        continue
                    ctx.close(obs, exp, 1.0 if cn == 'numpy.float32' else TOL, 'WMM: X, Y, Z do not depend on the numeric type carrying latitude, longitude and height', key)
                    ctx.seen(('numtype', repr(d), lat, lon, hk, cn, how))
                    ctx.cls('form:number-types')
    # a query REFUSED for its date, between two valid queries on the same object: the object goes on answering for valid dates, and a
    # following date=None query (= keep the current date) answers for the last ACCEPTED date
    for (lat, lon, hk) in IP[:4]:
        WG, WH = rw.basis(float(lat), float(lon), float(hk))
        for d in (2022.3, 2017.45, 2026.0):
            name, g, h = rw.coefficients(d)
            exp = WG @ g + WH @ h
            for bad in (2012.5, float('nan'), datetime.date(2010, 1, 1), 'abc', -1):
                key = f'date={d!r} then refused date={bad!r} lat={lat} lon={lon} h={hk}'
                try:
                    w = WMM(date=2021.5)
                    w.magnetic_field(float(lat), float(lon), float(hk), date=d)
                    try:
                        w.magnetic_field(float(lat), float(lon), float(hk), date=bad)
                        ctx.outcome(('bad-date-answered', repr(bad))); continue
                    except (ValueError, TypeError):
                        pass
                    w.magnetic_field(float(lat), float(lon), float(hk), date=None)
                    o1 = np.array([w.X, w.Y, w.Z], float)
                    w.magnetic_field(float(lat), float(lon), float(hk), date=d)
                    o2 = np.array([w.X, w.Y, w.Z], float)
                except Exception as ex:
                    ctx.evals += 1
                    ctx.fail('WMM: valid queries after a refused one raise', key, f'{type(ex).__name__}: {ex}'[:160], exp); continue
                ctx.close(o1, exp, TOL, 'WMM: date=None after a refused date answers for the last accepted date', key)
                ctx.close(o2, exp, TOL, 'WMM: the same valid query after a refused one gives the synthesis of the shipped COF', key)
            ctx.cls('form:after-refused-date')
    # the place held in caller-owned 0-d / one-element arrays that are re-used for a sweep over dates and heights: the arrays stay what they were
    # and every evaluation answers for the degrees they hold
    for (lat, lon, hk) in IP[:5]:
        la, lo, hh = np.array(float(lat)), np.array(float(lon)), np.array(float(hk))
        pos = np.array([[float(lat), float(lon), float(hk)]])
        for how, args in (('0-d arrays', lambda: (la, lo, hh)), ('views of one array', lambda: (pos[0, 0], pos[0, 1], pos[0, 2])), ('one-element views', lambda: (pos[0, 0:1].reshape(()), pos[0, 1:2].reshape(()), pos[0, 2:3].reshape(())))):
            w = WMM(date=2021.5)
            for step, d in enumerate((2020.0, 2023.7, 2017, 2020.0)):
                name, g, h = rw.coefficients(d)
                WG, WH = rw.basis(float(lat), float(lon), float(hk))
                exp = WG @ g + WH @ h
                key = f'sweep step#{step} date={d!r} lat={lat} lon={lon} h={hk} place as {how}'
                try:
                    a_ = args()
                    w.magnetic_field(a_[0], a_[1], a_[2], date=d)
                    obs = np.array([w.X, w.Y, w.Z], float)
                except TypeError:
                    ctx.outcome(('array-place-refused', how)); break
                except Exception as ex:
                    ctx.evals += 1
                    ctx.fail('WMM with the place in re-used arrays returns a field', key, f'{type(ex).__name__}: {ex}'[:160], exp); break
                ctx.close(obs, exp, TOL, 'WMM: a sweep that re-uses the same place arrays answers for the degrees they hold at every step', key)
                ctx.expect(float(la) == float(lat) and float(lo) == float(lon) and float(hh) == float(hk) and pos.tolist() == [[float(lat), float(lon), float(hk)]],
                           "WMM.magnetic_field leaves the caller's place arrays as they were", key, [float(la), float(lo), float(hh), pos.tolist()], [lat, lon, hk])
            ctx.cls('form:reused-arrays')
    ctx.sample({'form': 'float-offgrid', 'dates': OFFGRID})


def job_dense(ctx, i, lo, hi):
    P = places('dense')[lo:hi]
    B = [rw.basis(*p) for p in P]
    holder = [_new_wmm(2020.0)]
    d = grid(i)
    _judge(ctx, holder, 'float', i, d, f'{d:.1f}', P, B)
    ctx.cls('dense', len(P))


def job_pole_heights(ctx, lo, hi):
    """Both poles over a dense height ladder (every metre from 0 to 1 km, every km up to 850 km): at latitude +-90 the geocentric
    conversion sits on the edge of the arcsin / arccos domain, where one rounding of z/r decides between a value and NaN."""
    hs = [j / 1000.0 for j in range(0, 1001)] + [float(j) for j in range(2, 851)]
    P = []
    for hk in hs[lo:hi]:
        P.append((90.0, 0.0, hk)); P.append((-90.0, 137.0, hk))
    B = [rw.basis(*p) for p in P]
    holder = [_new_wmm(2020.0)]
    d = grid(75)
    _judge(ctx, holder, 'float', 75, d, f'{d:.1f}', P, B)
    ctx.cls('pole:height-ladder', len(P))


def job_selftest(ctx):
    """Trusted-base self-test of the reference (does not touch ahrs/utils/wmm.py)."""
    try:
        out = rw.selftest()
    except AssertionError as ex:
        ctx.notes['harness_error'] = True
        ctx.fail('harness: reference evaluator self-test', 'ref.wmm', repr(ex.args), 'closed forms / published values')
        return
    for k, v in out.items():
        ctx.track('ref.' + k, v)
    ctx.tick(out['published_rows'])
    ctx.cls('ref:selftest', out['published_rows'])
    # grid construction: 151 distinct floats, ends and seams exactly representable comparisons
    G = [grid(i) for i in range(NDATES)]
    assert len(set(G)) == NDATES and G[0] == 2015.0 and G[50] == 2020.0 and G[100] == 2025.0 and G[150] == 2030.0
    assert G[49] < 2020.0 and G[99] < 2025.0 and all(float(f'{x:.1f}') == x for x in G)
    ctx.sample({'ref_selftest': out})


def run(ctx):
    idx = list(range(NDATES)) if ctx.thorough else quick_dates(ctx.seed)
    jobs = [('job_selftest', ()), ('job_offgrid', ())]
    for lo, hi in core.chunks(len(idx), 48 if ctx.thorough else 24):
        jobs.append(('job_grid', (idx[lo:hi],)))
    # the forms job always contains every whole year among its dates (int form) in thorough; in quick the whole years
    # present in the selection plus 2015, 2020, 2025, 2030 (in SEAMS)
    for lo, hi in core.chunks(len(idx), 16 if ctx.thorough else 8):
        jobs.append(('job_forms', (idx[lo:hi],)))
    if ctx.thorough:
        n = len(places('dense'))
        for i in DENSE_DATES:
            for lo, hi in core.chunks(n, 4):
                jobs.append(('job_dense', (i, lo, hi)))
    for lo, hi in core.chunks(1001 + 849, 8):
        jobs.append(('job_pole_heights', (lo, hi)))
    core.run_jobs(ctx, __name__, jobs)
    ctx.notes['grid_dates'] = len(idx)
    ctx.notes['grid_date_list'] = [grid(i) for i in idx]
    ctx.notes['places'] = {'full': len(places('full')), 'forms': len(places('forms')),
                           'dense': len(places('dense')) if ctx.thorough else 0}
