"""C07 — array (vectorised) entry points equal the scalar entry points row by row.

Rows are independent, so one batch over the whole alphabet, its row-reversed copy and every one-row batch are jointly
exhaustive per row.  Differential oracle: the N-row result, row i, equals the single-item result on row i.
"""
import math, itertools
import numpy as np
from mc import core, alphabet as A
from mc.ref import quat as rq, filters as rf
from props import c04, c10

PID = 'C07'
LEVEL = 'exploration'
RULE = ('every row of the alphabet is pushed through the N-row entry point (whole batch, reversed batch, one-row batch) and through the '
        'single-item entry point; distinct by (operation, row id); non-trivial when the row is not the identity rotation')
ASSUMPTIONS = ['differential tolerance 1e-12 max-abs (bit-identity is not demanded: vectorised NumPy kernels may round differently from scalar ones)',
               'estimator outputs are compared as attitudes: quaternions up to a global sign, angle triples modulo 2 pi (a heading of +pi and -pi is the same row)',
               'rows on which the single-item operation itself yields NaN or raises (closed-form DCM->quaternion methods at half-turns) are compared '
               'at function level with NaN == NaN and are left out of QuaternionArray(DCM=...), whose constructor refuses NaN rows',
               'OLEQ: np.random.random is an owned seam returning one fixed start vector, so batch and single runs see the same environment',
               'identity_deviation / angular_distance are documented for 3x3 input only and are outside this property']
REQUIRED_CLASSES = ['twin:to_DCM', 'twin:from_rpy', 'twin:from_DCM', 'func:hughes', 'func:chiaverini', 'metric', 'estimator', 'row:half-turn', 'row:near-identity']
TOL = 1e-12


def quat_rows(k):
    rows = [(f'G48[{i}]', q) for i, q in enumerate(A.G48())]
    rows += [(f'G120[{i}]', q) for i, q in enumerate(A.G120())]
    rows += [(f'Gc120k{k}[{i}]', q) for i, q in enumerate(A.Gc(A.G120(), k))]
    for ia, ax in enumerate(A.AXES()):
        for ig, ang in enumerate(A.ANG()):
            rows.append((f'axis{ia}/ang{ig}={ang:.13g}', rq.axang2q(ax, ang)))
    return rows


def _row_classes(ctx, q):
    if abs(q[0]) < 1e-9:
        ctx.cls('row:half-turn')
    if 0 < 1 - abs(q[0]) < 1e-6:
        ctx.cls('row:near-identity')


def _eq(a, b, tol=TOL):
    a = np.asarray(a); b = np.asarray(b)
    if a.shape != b.shape:
        return False
    if np.iscomplexobj(a) or np.iscomplexobj(b):
        return False
    na, nb = np.isnan(a.astype(float)), np.isnan(b.astype(float))
    if not np.array_equal(na, nb):
        return False
    if na.all():
        return True
    return bool(np.abs(a.astype(float)[~na] - b.astype(float)[~nb]).max() <= tol)


def _wrap_eq(a, b, tol):
    a = np.asarray(a, float); b = np.asarray(b, float)
    if a.shape != b.shape or not (np.all(np.isfinite(a)) and np.all(np.isfinite(b))):
        return False
    d = (a - b + math.pi) % (2 * math.pi) - math.pi
    return bool(np.abs(d).max() <= tol)


def _cmp_batch(ctx, site, labels, batch_fn, single_fn, cls, tol=TOL, signfree=False, wrap=False):
    """batch_fn(idx list) -> array of rows for those indices; single_fn(i) -> row i."""
    n = len(labels)
    singles = []
    for i in range(n):
        try:
            singles.append(np.asarray(single_fn(i)))
        except Exception as ex:
            singles.append(ex)
    def compare(rows_idx, out, how):
        for pos, i in enumerate(rows_idx):
            s = singles[i]
            ctx.evals += 1
            if isinstance(s, Exception):
                continue
            o = np.asarray(out[pos])
            ok = _eq(o, s, tol) or (signfree and _eq(-o, s, tol)) or (wrap and _wrap_eq(o, s, tol))
            if not ok:
                ctx.fail(site, f'row={labels[i]} via={how}', o, s, tol)
    plans = [('whole-batch', list(range(n))), ('reversed-batch', list(range(n - 1, -1, -1)))]
    # short batches of every small size (2, 3, 4, 5 rows: a 3- or 4-row batch of 3- or 4-vectors / 3x3 matrices is a square block whose
    # axes a vectorised path can mix up), taken at two places of the alphabet
    for nn in (2, 3, 4, 5):
        if n >= nn + 2:
            plans.append((f'first-{nn}-rows', list(range(nn))))
            mid = max(0, min(n - nn, n // 2))
            plans.append((f'{nn}-rows-from-{mid}', list(range(mid, mid + nn))))
    for how, idx in plans:
        try:
            out = batch_fn(idx)
        except Exception as ex:
            ctx.evals += 1
            ctx.fail(site + ' (N-row entry point raises)', f'rows={how}', f'{type(ex).__name__}: {ex}'[:200], 'N rows')
            continue
        if len(out) != len(idx):
            ctx.fail(site + ' (row count)', f'rows={how}', len(out), len(idx))
            continue
        compare(idx, out, how)
    for i in range(n):
        if isinstance(singles[i], Exception):
            continue
        try:
            out = batch_fn([i])
            compare([i], out, 'one-row-batch')
        except Exception as ex:
            ctx.evals += 1
            ctx.fail(site + ' (one-row batch raises)', f'row={labels[i]}', f'{type(ex).__name__}: {ex}'[:200], '1 row')
        ctx.cls(cls)
        ctx.seen((site, labels[i]))


def job_twins(ctx, k):
    from ahrs import Quaternion, QuaternionArray, DCM
    from ahrs.common import orientation as O
    rows = quat_rows(k)
    labels = [r[0] for r in rows]
    Q = np.array([r[1] for r in rows])
    for q in Q:
        _row_classes(ctx, q)
    _cmp_batch(ctx, 'QuaternionArray.to_DCM row = Quaternion.to_DCM', labels,
               lambda idx: np.asarray(QuaternionArray(Q[idx].copy()).to_DCM()), lambda i: Quaternion(Q[i].copy()).to_DCM(), 'twin:to_DCM')
    _cmp_batch(ctx, 'QuaternionArray.conjugate row = Quaternion.conjugate', labels,
               lambda idx: np.asarray(QuaternionArray(Q[idx].copy()).conjugate()), lambda i: Quaternion(Q[i].copy()).conjugate, 'twin:conjugate')
    _cmp_batch(ctx, 'QuaternionArray.conj row = Quaternion.conj', labels,
               lambda idx: np.asarray(QuaternionArray(Q[idx].copy()).conj()), lambda i: Quaternion(Q[i].copy()).conj, 'twin:conjugate')
    _cmp_batch(ctx, 'QuaternionArray.to_angles row = Quaternion.to_angles', labels,
               lambda idx: np.asarray(QuaternionArray(Q[idx].copy()).to_angles()), lambda i: Quaternion(Q[i].copy()).to_angles(), 'twin:to_angles')
    _cmp_batch(ctx, 'QuaternionArray rows = Quaternion (construction, w/x/y/z)', labels,
               lambda idx: np.c_[QuaternionArray((3.0 * Q[idx]).copy()).w, QuaternionArray((3.0 * Q[idx]).copy()).v],
               lambda i: np.asarray(Quaternion((3.0 * Q[i]).copy())), 'twin:construct')
    for ver in (1, 2):
        _cmp_batch(ctx, f'q2R(version={ver}) batch row = single', labels,
                   lambda idx: np.asarray(O.q2R(Q[idx].copy(), ver)), lambda i: O.q2R(Q[i].copy(), ver), 'func:q2R')
        # rows that are not unit quaternions (raw integration output, scaled rows): the N-row path normalises like the one-item path, for both versions
        scl = np.array([3.0, 0.25, 1.0, 17.0, 0.9])
        Qn = Q * scl[np.arange(len(Q)) % len(scl)][:, None]
        _cmp_batch(ctx, f'q2R(version={ver}) batch row = single (non-unit rows)', labels,
                   lambda idx: np.asarray(O.q2R(Qn[idx].copy(), ver)), lambda i: O.q2R(Qn[i].copy(), ver), 'func:q2R')
    _cmp_batch(ctx, 'DCM.from_quaternion batch row = single (non-unit rows)', labels,
               lambda idx: np.asarray(DCM().from_quaternion(Qn[idx].copy())), lambda i: DCM().from_quaternion(Qn[i].copy()), 'func:from_quaternion')
    _cmp_batch(ctx, 'DCM.from_quaternion batch row = single', labels,
               lambda idx: np.asarray(DCM().from_quaternion(Q[idx].copy())), lambda i: DCM().from_quaternion(Q[i].copy()), 'func:from_quaternion')
    # Quaternion.rotate on a 3-by-N block of column vectors: column j = rotate(column j), for every small N (N = 3 is a square block)
    vecs = np.array([[1.0, 2.0, -3.0], [0.5, -0.25, 4.0], [-2.0, 1.5, 0.75], [3.0, 0.0, -1.0], [0.1, 0.9, -0.4], [7.0, -8.0, 9.0]]).T
    for i in range(0, len(rows), 7):
        Qi = Quaternion(Q[i].copy())
        singles = [np.asarray(Qi.rotate(vecs[:, j].copy())) for j in range(vecs.shape[1])]
        for nb in (1, 2, 3, 4, 5, 6):
            for off in (0, 1):
                if off + nb > vecs.shape[1]:
                    continue
                ctx.evals += 1
                try:
                    blk = np.asarray(Qi.rotate(vecs[:, off:off + nb].copy()))
                    ok = blk.shape == (3, nb) and all(_eq(blk[:, j], singles[off + j]) for j in range(nb))
                except Exception as ex:
                    ok, blk = False, repr(ex)[:120]
                if not ok:
                    ctx.fail('Quaternion.rotate(3-by-N block): column j = rotate(column j)', f'row={labels[i]} N={nb} offset={off}', blk, [x.tolist() for x in singles[off:off + nb]], TOL)
        ctx.cls('twin:rotate-block')
    # scalar-last storage: the array class against the scalar class (same order), row by row, and against the Hamilton-ordered answers
    sub = list(range(0, len(rows), 5))
    QS = np.roll(Q[sub], -1, axis=1)
    lab_s = [labels[i] + ' order=S' for i in sub]
    _cmp_batch(ctx, "QuaternionArray(order='S').to_DCM row = Quaternion(order='S').to_DCM", lab_s,
               lambda idx: np.asarray(QuaternionArray(QS[idx].copy(), order='S').to_DCM()), lambda i: Quaternion(QS[i].copy(), order='S').to_DCM(), 'twin:order-S')
    _cmp_batch(ctx, "QuaternionArray(order='S').to_DCM row = Hamilton-ordered to_DCM", lab_s,
               lambda idx: np.asarray(QuaternionArray(QS[idx].copy(), order='S').to_DCM()), lambda i: Quaternion(Q[sub[i]].copy()).to_DCM(), 'twin:order-S')
    _cmp_batch(ctx, "QuaternionArray(order='S').conjugate row = Quaternion(order='S').conjugate", lab_s,
               lambda idx: np.asarray(QuaternionArray(QS[idx].copy(), order='S').conjugate()), lambda i: Quaternion(QS[i].copy(), order='S').conjugate, 'twin:order-S', tol=1e-15)
    _cmp_batch(ctx, "QuaternionArray(order='S').to_angles row = Hamilton-ordered to_angles", lab_s,
               lambda idx: np.asarray(QuaternionArray(QS[idx].copy(), order='S').to_angles()), lambda i: Quaternion(Q[sub[i]].copy()).to_angles(), 'twin:order-S')
    _cmp_batch(ctx, "QuaternionArray(order='S') w,x,y,z rows = Quaternion(order='S') w,x,y,z", lab_s,
               lambda idx: np.c_[QuaternionArray(QS[idx].copy(), order='S').w, QuaternionArray(QS[idx].copy(), order='S').x, QuaternionArray(QS[idx].copy(), order='S').y, QuaternionArray(QS[idx].copy(), order='S').z],
               lambda i: np.array([Quaternion(QS[i].copy(), order='S').w, Quaternion(QS[i].copy(), order='S').x, Quaternion(QS[i].copy(), order='S').y, Quaternion(QS[i].copy(), order='S').z]), 'twin:order-S', tol=1e-15)
    ctx.sample({'rows': len(rows), 'first': labels[1], 'last': labels[-1]})


def job_rpy(ctx):
    from ahrs import Quaternion, QuaternionArray
    from ahrs.common import orientation as O
    trip = [(r, p, y) for r in c10.RY for p in c10.PITCH for y in c10.RY]
    labels = [f'rpy=({r:.12g},{p:.12g},{y:.12g})' for r, p, y in trip]
    Ang = np.array(trip)
    _cmp_batch(ctx, 'QuaternionArray(rpy=) row = Quaternion(rpy=)', labels,
               lambda idx: np.asarray(QuaternionArray(rpy=Ang[idx].copy())), lambda i: np.asarray(Quaternion(rpy=Ang[i].copy())), 'twin:from_rpy')
    _cmp_batch(ctx, 'QuaternionArray(angles=) row = Quaternion(angles=)', labels,
               lambda idx: np.asarray(QuaternionArray(angles=Ang[idx].copy())), lambda i: np.asarray(Quaternion(angles=Ang[i].copy())), 'twin:from_rpy')
    _cmp_batch(ctx, 'rpy2q batch row = single', labels,
               lambda idx: np.asarray(O.rpy2q(Ang[idx].copy())).T,          # rpy2q returns the quaternions as columns (4-by-N)
               lambda i: O.rpy2q(Ang[i].copy()), 'func:rpy2q')
    ctx.sample({'rpy_rows': len(trip)})


METHODS = [('shepperd', {}), ('hughes', {}), ('chiaverini', {}), ('itzhack', {'version': 1}), ('itzhack', {'version': 2}),
           ('itzhack', {'version': 3}), ('sarabandi', {})]


def job_from_dcm(ctx, k, mi):
    from ahrs import Quaternion, QuaternionArray
    from ahrs.common import orientation as O
    rows = quat_rows(k)
    labels = [r[0] for r in rows]
    Rs = np.array([rq.R(r[1]) for r in rows])
    meth, kw = METHODS[mi]
    mn = meth + ''.join(f'[{a}={b}]' for a, b in kw.items())
    if meth in ('hughes', 'chiaverini'):
        fn = getattr(O, meth)
        _cmp_batch(ctx, f'{meth}(N x 3 x 3) row = {meth}(3 x 3)', labels, lambda idx: np.asarray(fn(Rs[idx].copy())), lambda i: fn(Rs[i].copy()), f'func:{meth}')
    # through the constructors, only rows where the single path yields a finite quaternion
    ok = []
    for i in range(len(rows)):
        try:
            s = np.asarray(Quaternion(dcm=Rs[i].copy(), method=meth, **kw))
            if np.all(np.isfinite(s)):
                ok.append(i)
        except Exception:
            pass
    sub = np.array(ok)
    _cmp_batch(ctx, f'QuaternionArray(DCM=, method={mn}) row = Quaternion(dcm=, method={mn})', [labels[i] for i in ok],
               lambda idx: np.asarray(QuaternionArray(DCM=Rs[sub[idx]].copy(), method=meth, **kw)),
               lambda i: np.asarray(Quaternion(dcm=Rs[sub[i]].copy(), method=meth, **kw)), 'twin:from_DCM', signfree=(meth == 'itzhack'))
    ctx.notes[f'from_DCM rows with finite single result [{mn}]'] = len(ok)
    if mi == 0:
        # the method argument omitted on both sides: the array constructor returns the very rows (same sign) the scalar constructor returns
        _cmp_batch(ctx, 'QuaternionArray(DCM=) row = Quaternion(dcm=) with the method omitted (same elements, same sign)', labels,
                   lambda idx: np.asarray(QuaternionArray(DCM=Rs[idx].copy())), lambda i: np.asarray(Quaternion(dcm=Rs[i].copy())), 'twin:from_DCM(default)')
        _cmp_batch(ctx, 'QuaternionArray.from_DCM row = Quaternion.from_DCM with the method omitted (same elements, same sign)', labels,
                   lambda idx: np.asarray(QuaternionArray().from_DCM(Rs[idx].copy(), inplace=False)), lambda i: np.asarray(Quaternion().from_DCM(Rs[i].copy())), 'twin:from_DCM(default)')


def job_metrics(ctx, k):
    from ahrs.utils import metrics as M
    G = A.G48()
    pairs = [(f'G48[{i}]~G48[{j}]', G[i], G[j]) for i in range(48) for j in range(48)]
    P = [np.array([1.0, 0, 0, 0]), A.MENU[k], A.G48()[30], A.Gl(A.G120(), k)[11]]
    for ip, p in enumerate(P):
        for ia, ax in enumerate(A.AXES()[::4]):
            for t in (1e-6, 1e-5, 1e-4, 2e-4, 1e-3, 5e-3, 1e-2, 0.1, 1.0, 2.0, 3.0, math.pi - 1e-3, math.pi - 1e-6, math.pi):
                pairs.append((f'p{ip}~p{ip}*d(axis{4*ia},t={t:.10g})', p, rq.qmul(p, rq.axang2q(ax, t))))
                pairs.append((f'p{ip}~-p{ip}*d(axis{4*ia},t={t:.10g})', p, -rq.qmul(p, rq.axang2q(ax, t))))
    # the metrics normalise their arguments: non-unit copies of a slice of the rows (first, second, both arguments scaled)
    for n_, (lab, p1, p2) in enumerate(list(pairs[::7])):
        s1, s2 = [(3.0, 1.0), (1.0, 0.5), (0.25, 7.0)][n_ % 3]
        pairs.append((f'{lab} scaled=({s1:g},{s2:g})', p1 * s1, p2 * s2))
    labels = [x[0] for x in pairs]
    Q1 = np.array([x[1] for x in pairs]); Q2 = np.array([x[2] for x in pairs])
    R1 = np.array([rq.R(rq.qunit(q)) for q in Q1]); R2 = np.array([rq.R(rq.qunit(q)) for q in Q2])
    for name in ('qdist', 'qeip', 'qcip', 'qad'):
        fn = getattr(M, name)
        _cmp_batch(ctx, f'metrics.{name} batch row = single', labels, lambda idx: np.asarray(fn(Q1[idx].copy(), Q2[idx].copy())),
                   lambda i: fn(Q1[i].copy(), Q2[i].copy()), 'metric', tol=1e-9)
    _cmp_batch(ctx, 'metrics.chordal batch row = single', labels, lambda idx: np.asarray(M.chordal(R1[idx].copy(), R2[idx].copy())),
               lambda i: M.chordal(R1[i].copy(), R2[i].copy()), 'metric')
    E1 = np.array([rq.axang2q([1, 2, 3], 0.3)[1:] * s for s in (-3, -1, 0, 1, 2, 3)])
    E2 = np.array([rq.axang2q([-1, 0.5, 2], 1.3)[1:] * s for s in (3, 2, 1, 0, -1, -3)])
    _cmp_batch(ctx, 'metrics.euclidean batch row = single', [f'e{i}' for i in range(6)], lambda idx: np.asarray(M.euclidean(E1[idx].copy(), E2[idx].copy())),
               lambda i: M.euclidean(E1[i].copy(), E2[i].copy()), 'metric')
    # rmse: rows with and without missing (NaN) elements, in either argument
    X = np.array([rq.axang2q([1, 2, 3], 0.3 * i) for i in range(8)]); Y = np.array([rq.axang2q([-1, 0.5, 2], 0.2 * i + 0.1) for i in range(8)])
    X[1, 2] = np.nan; Y[3, 0] = np.nan; X[5, 1] = np.nan; Y[5, 3] = np.nan
    _cmp_batch(ctx, 'metrics.rmse batch row = single', [f'row{i}' + (' (NaN element)' if i in (1, 3, 5) else '') for i in range(8)],
               lambda idx: np.asarray(M.rmse(X[idx].copy(), Y[idx].copy())), lambda i: M.rmse(X[i].copy(), Y[i].copy()), 'metric')
    ctx.sample({'metric_pairs': len(pairs), 'example': labels[-1]})


FIXED_START = np.array([0.9137, 0.1211, 0.2043, 0.3179])


def job_estimator(ctx, ename, k):
    est = [e for e in rf.registry() if e.name == ename][0]
    atts = c04.attitudes(est.cls, k)
    if est.cls == 'S':
        atts = atts[:96] + atts[96::3]
    real_random = np.random.random
    if est.seeded:
        np.random.random = lambda n=4: FIXED_START.copy()
    try:
        for frame in est.frames:
            dip = 60.0 if frame == 'NED' else -45.0
            labels = [f'{lab} frame={frame} dip={dip:g}' for lab, _ in atts]
            meas = [est.measurements(rq.R(q), dip, frame, 9.81, 45.0) for _, q in atts]
            Acc = np.array([m[0] for m in meas]); Mag = np.array([m[1] for m in meas])
            signfree = est.out == 'q'        # q and -q are the same attitude (e.g. a heading of +pi versus -pi)
            wrap = est.out == 'angles'
            bargs = (lambda idx: (Acc[idx].copy(), None)) if est.tilt_only else (lambda idx: (Acc[idx].copy(), Mag[idx].copy()))
            _cmp_batch(ctx, f'{ename}(N samples) row = {ename}(one sample)', labels,
                       lambda idx: np.asarray(est.batch(*bargs(idx), dip, frame)),
                       lambda i: np.asarray(est.single(Acc[i].copy(), None if est.tilt_only else Mag[i].copy(), dip, frame)), 'estimator', signfree=signfree, wrap=wrap)
            # a record with a NULL sample in the middle (all-zero accelerometer row / magnetometer row): where the N-sample call answers,
            # every OTHER row is still the one-sample answer for its own sample (a skipped row may not shift or re-pair the rows after it)
            sub = list(range(0, min(len(atts), 12)))
            singles_ = {}
            for i in sub:
                try:
                    singles_[i] = np.asarray(est.single(Acc[i].copy(), None if est.tilt_only else Mag[i].copy(), dip, frame))
                except Exception:
                    pass
            for nm_, zero_acc, zero_mag in (('null accelerometer row', True, False), ('null magnetometer row', False, True), ('null row (both)', True, True)):
                if est.tilt_only and zero_mag:
                    continue
                for pos in (3, 0):
                    A2 = np.insert(Acc[sub], pos, Acc[sub][pos] if not zero_acc else np.zeros(3), axis=0)
                    M2 = np.insert(Mag[sub], pos, Mag[sub][pos] if not zero_mag else np.zeros(3), axis=0)
                    ctx.evals += 1
                    try:
                        with np.errstate(all='ignore'):
                            ob = np.asarray(est.batch(A2.copy(), None if est.tilt_only else M2.copy(), dip, frame))
                    except Exception:
                        ctx.outcome(('null-row-refused', ename, nm_)); continue
                    if len(ob) != len(sub) + 1:
                        ctx.fail(f'{ename}(N samples with a {nm_}) returns one row per sample', f'frame={frame} null row at {pos}', len(ob), len(sub) + 1); continue
                    for j, i in enumerate(sub):
                        row = ob[j if j < pos else j + 1]
                        if i in singles_ and not (_eq(row, singles_[i]) or (signfree and _eq(-row, singles_[i])) or (wrap and _wrap_eq(row, singles_[i], TOL))):
                            ctx.fail(f'{ename}(N samples) row = {ename}(one sample), also in a record that contains a {nm_}', f'row={labels[i]} null row at {pos} frame={frame}', row, singles_[i], TOL)
                    ctx.cls('estimator:null-row-in-record')
            if est.estimate is not None:
                _cmp_batch(ctx, f'{ename}(N samples) row = {ename}().estimate(sample)', labels,
                           lambda idx: np.asarray(est.batch(*bargs(idx), dip, frame)),
                           lambda i: np.asarray(est.estimate(Acc[i].copy(), None if est.tilt_only else Mag[i].copy(), dip, frame)), 'estimator', signfree=signfree, wrap=wrap)
    finally:
        np.random.random = real_random
    ctx.sample({'estimator': ename, 'rows': len(atts)})


def job_options(ctx):
    """Constructor options are honoured on the one-sample path as on the N-sample path."""
    from ahrs import filters as F
    q = A.MENU[3]
    Rt = rq.R(q)
    a1 = Rt.T @ np.array([0, 0, 1.0]) * 9.81
    m1 = Rt.T @ np.array([math.cos(1.0), 0, math.sin(1.0)]) * 45
    aN, mN = np.tile(a1, (3, 1)), np.tile(m1, (3, 1))
    def refused(fn):
        try:
            fn()
            return False
        except Exception:
            return True
    for nm, fn1, fnN in (('FLAE method', lambda: F.FLAE(a1.copy(), m1.copy(), method='no-such-method'), lambda: F.FLAE(aN.copy(), mN.copy(), method='no-such-method')),
                         ('Tilt representation', lambda: F.Tilt(a1.copy(), m1.copy(), representation='no-such'), lambda: F.Tilt(aN.copy(), mN.copy(), representation='no-such')),
                         ('SAAM representation', lambda: F.SAAM(a1.copy(), m1.copy(), representation='no-such'), lambda: F.SAAM(aN.copy(), mN.copy(), representation='no-such')),
                         ('TRIAD frame', lambda: F.TRIAD(a1.copy(), m1.copy(), frame='no-such'), lambda: F.TRIAD(aN.copy(), mN.copy(), frame='no-such')),
                         ('OLEQ frame', lambda: F.OLEQ(a1.copy(), m1.copy(), frame='no-such'), lambda: F.OLEQ(aN.copy(), mN.copy(), frame='no-such'))):
        ctx.expect(refused(fn1), f'{nm}: invalid option refused on the one-sample path', 'one sample', 'accepted', 'refused')
        ctx.expect(refused(fnN), f'{nm}: invalid option refused on the N-sample path', 'N samples', 'accepted', 'refused')
        ctx.seen(('opt', nm))
    # valid options change the output kind on both paths
    for rep, shape1 in (('quaternion', (4,)), ('rotmat', (3, 3)), ('angles', (3,))):
        o1 = np.asarray(F.Tilt(a1.copy(), m1.copy(), representation=rep).Q)
        oN = np.asarray(F.Tilt(aN.copy(), mN.copy(), representation=rep).Q)
        ctx.expect(o1.shape == shape1 and oN.shape == (3,) + shape1, f'Tilt representation={rep} honoured on both paths', rep, [list(o1.shape), list(oN.shape)], list(shape1))
    for rep, attr, shape1 in (('quaternion', 'Q', (4,)), ('rotmat', 'A', (3, 3))):
        o1 = np.asarray(getattr(F.SAAM(a1.copy(), m1.copy(), representation=rep), attr))
        oN = np.asarray(getattr(F.SAAM(aN.copy(), mN.copy(), representation=rep), attr))
        ctx.expect(o1.shape == shape1 and oN.shape == (3,) + shape1, f'SAAM representation={rep} honoured on both paths', rep, [list(o1.shape), list(oN.shape)], list(shape1))
        o1 = np.asarray(F.TRIAD(a1.copy(), m1.copy(), representation=rep, v1=np.array([0, 0, 1.0]), v2=np.array([0.5, 0, 0.8])).A)
        oN = np.asarray(F.TRIAD(aN.copy(), mN.copy(), representation=rep, v1=np.array([0, 0, 1.0]), v2=np.array([0.5, 0, 0.8])).A)
        ctx.expect(o1.shape == shape1 and oN.shape == (3,) + shape1, f'TRIAD representation={rep} honoured on both paths', rep, [list(o1.shape), list(oN.shape)], list(shape1))
    for cls in (F.TRIAD, F.OLEQ):
        kw = {} if cls is F.OLEQ else {'representation': 'quaternion'}
        attr = 'Q' if cls is F.OLEQ else 'A'
        np.random.seed(3)
        ned1 = np.asarray(getattr(cls(a1.copy(), m1.copy(), frame='NED', **kw), attr)); enu1 = np.asarray(getattr(cls(a1.copy(), m1.copy(), frame='ENU', **kw), attr))
        nedN = np.asarray(getattr(cls(aN.copy(), mN.copy(), frame='NED', **kw), attr)); enuN = np.asarray(getattr(cls(aN.copy(), mN.copy(), frame='ENU', **kw), attr))
        ctx.expect(rq.qangle(rq.qunit(ned1), rq.qunit(enu1)) > 0.1 and rq.qangle(rq.qunit(nedN[0]), rq.qunit(enuN[0])) > 0.1,
                   f'{cls.__name__} frame honoured on both paths (NED and ENU answers differ)', 'frame', [ned1, enu1], 'different rotations')
    # accepted spellings of an option (the classes validate case-insensitively): N-sample rows = one-sample result, for every spelling accepted
    v1 = np.array([0, 0, 1.0]); v2 = np.array([0.5, 0, 0.8])
    cases = []
    for sp in ('quaternion', 'Quaternion', 'QUATERNION', 'rotmat', 'RotMat', 'ROTMAT'):
        cases.append((f'TRIAD representation={sp}', lambda a, m, sp=sp: F.TRIAD(a, m, v1=v1.copy(), v2=v2.copy(), representation=sp).A))
        cases.append((f'SAAM representation={sp}', lambda a, m, sp=sp: (lambda o: o.A if sp.lower() == 'rotmat' else o.Q)(F.SAAM(a, m, representation=sp))))
    for sp in ('NED', 'ned', 'Enu', 'ENU', 'enu'):
        cases.append((f'TRIAD frame={sp}', lambda a, m, sp=sp: F.TRIAD(a, m, frame=sp, representation='quaternion', v2=np.array([0.3, 0.2, 0.6])).A))
        cases.append((f'OLEQ frame={sp}', lambda a, m, sp=sp: F.OLEQ(a, m, frame=sp, magnetic_ref=60.0).Q))
    for sp in ('eig', 'EIG', 'Symbolic', 'NEWTON', 'newton'):
        cases.append((f'FLAE method={sp}', lambda a, m, sp=sp: F.FLAE(a, m, method=sp, magnetic_dip=60.0).Q))
    for rep in ('quaternion', 'rotmat', 'angles'):
        cases.append((f'Tilt representation={rep} (keyword omitted vs given)', lambda a, m, rep=rep: F.Tilt(a, m, representation=rep).Q))
        for aa in (True, False):          # the legacy keyword the constructor still reads
            cases.append((f'Tilt representation={rep} as_angles={aa}', lambda a, m, rep=rep, aa=aa: F.Tilt(a, m, representation=rep, as_angles=aa).Q))
    for aa in (True, False):
        cases.append((f'Tilt as_angles={aa}', lambda a, m, aa=aa: F.Tilt(a, m, as_angles=aa).Q))
        cases.append((f'Tilt acc only as_angles={aa}', lambda a, m, aa=aa: F.Tilt(a, as_angles=aa).Q))
    for nm, mk in cases:
        try:
            np.random.seed(9); o1 = np.asarray(mk(a1.copy(), m1.copy()))
        except Exception:
            continue                        # a spelling the class does not accept is not judged
        tl = 1e-6 if nm.startswith('OLEQ') else 1e-9       # OLEQ iterates from a random start vector to a 1e-8 stopping rule
        try:
            np.random.seed(9); oN = np.asarray(mk(aN.copy(), mN.copy()))
            np.random.seed(9); o1r = np.asarray(mk(a1.copy()[None], m1.copy()[None]))
            ok = oN.shape == (3,) + o1.shape and o1r.shape == (1,) + o1.shape and all(_eq(row, o1, tl) or _eq(-row, o1, tl) for row in list(oN) + list(o1r))
        except Exception as ex:
            ok = False; oN = repr(ex)
        ctx.expect(ok, 'an option spelling accepted on the one-sample path gives the same rows on the N-sample and one-row paths', nm, oN, o1)
        ctx.seen(('spell', nm))
    ctx.sample({'options': 'FLAE method, Tilt/SAAM/TRIAD representation, TRIAD/OLEQ frame'})


DTYPES = ['int8', 'int16', 'int32', 'int64', 'uint8', 'uint16', 'uint32', 'uint64', 'float32', 'float64', 'list']


def _as_dtype(rows, dt):
    if dt == 'list':
        return [[int(x) for x in r] for r in rows]
    return np.array(rows).astype(dt)


def _twin_dtype(ctx, site, key, ref_rows, batch_call, single_call, tol, signfree=False):
    """Integer-valued rows held in another dtype/container: both entry points answer with the float64 rows, or both refuse."""
    try:
        b = np.asarray(batch_call(), float); berr = None
    except Exception as ex:
        b, berr = None, f'{type(ex).__name__}: {ex}'[:120]
    singles = []
    for i in range(len(ref_rows)):
        try:
            singles.append(np.asarray(single_call(i), float))
        except Exception as ex:
            singles.append(f'{type(ex).__name__}: {ex}'[:120])
    ctx.tick(len(ref_rows))
    if 'float32' in key:
        tol = max(tol, 1e-3)                # single-precision samples are processed in single precision by some estimators
    s_ref = [x for x in singles if isinstance(x, str)]
    if berr is not None or s_ref:
        ctx.outcome('dtype-refused')
        if not (berr is not None and len(s_ref) == len(singles)):
            ctx.fail(site + ': one entry point refuses the data its twin accepts', key, {'N-row': berr or 'answers', 'single': s_ref[:1] or 'answers'}, 'both answer or both refuse')
        return
    for i, r in enumerate(ref_rows):
        for nm, o in (('N-row', b[i] if len(b) == len(ref_rows) else None), ('single', singles[i])):
            ok = o is not None and (_eq(o, r, tol) or (signfree and _eq(-o, r, tol)))
            if not ok:
                ctx.fail(site + ': rows in another dtype/container give the float64 rows', f'{key} row={i} via={nm}', o, r, tol)


def job_dtypes(ctx):
    from ahrs import Quaternion, QuaternionArray, DCM
    from ahrs.common import orientation as O
    from ahrs.utils import metrics as M
    QP = [[1, 2, 2, 4], [3, 0, 4, 0], [1, 1, 1, 1], [0, 0, 0, 1], [2, 1, 0, 5], [1, 0, 0, 0], [0, 3, 0, 0]]
    QN = [[1, -2, 2, -4], [-3, 0, 4, 0], [1, -1, -1, 1], [0, 0, 0, -1], [2, 1, 0, -5], [-1, 0, 0, 0], [0, -3, 0, 0]]
    for dt in DTYPES:
        for sgn, rows in (('+', QP), ('-', QN)):
            if sgn == '-' and dt.startswith('uint'):
                continue
            F64 = np.array(rows, float)
            X = _as_dtype(rows, dt)
            row = lambda i: (list(X[i]) if dt == 'list' else X[i].copy())
            whole = lambda: ([list(r) for r in X] if dt == 'list' else X.copy())
            key = f'dtype={dt} sign={sgn}'
            _twin_dtype(ctx, 'to_DCM', key, [np.asarray(Quaternion(q).to_DCM()) for q in F64], lambda: QuaternionArray(whole()).to_DCM(), lambda i: Quaternion(row(i)).to_DCM(), TOL)
            _twin_dtype(ctx, 'conjugate', key, [np.asarray(Quaternion(q).conjugate) for q in F64], lambda: QuaternionArray(whole()).conjugate(), lambda i: Quaternion(row(i)).conjugate, TOL)
            _twin_dtype(ctx, 'to_angles', key, [np.asarray(Quaternion(q).to_angles()) for q in F64], lambda: QuaternionArray(whole()).to_angles(), lambda i: Quaternion(row(i)).to_angles(), TOL)
            _twin_dtype(ctx, 'construction', key, [np.asarray(Quaternion(q)) for q in F64], lambda: QuaternionArray(whole()), lambda i: Quaternion(row(i)), TOL)
            ctx.seen(('dtype', dt, sgn)); ctx.cls('dtype:quaternion rows')
        # angle triples (whole radians) through the from-angles constructors
        AP = [[1, 0, 2], [0, 1, 3], [2, 1, 0], [3, 0, 1]]
        AF = np.array(AP, float)
        Xa = _as_dtype(AP, dt)
        rowa = lambda i: (list(Xa[i]) if dt == 'list' else Xa[i].copy())
        wholea = lambda: ([list(r) for r in Xa] if dt == 'list' else Xa.copy())
        _twin_dtype(ctx, 'from rpy', f'dtype={dt}', [np.asarray(Quaternion(rpy=a)) for a in AF], lambda: QuaternionArray(rpy=wholea()), lambda i: Quaternion(rpy=rowa(i)), TOL)
        # rotation matrices with integer entries (cube group) through the matrix-to-quaternion functions and constructors
        if not dt.startswith('uint') and dt != 'list':       # (a nested list is taken by QuaternionArray(DCM=) but not by Quaternion(dcm=): not judged)
            G = A.G48()[::5]
            Rr = [np.rint(rq.R(g)) for g in G if np.allclose(rq.R(g), np.rint(rq.R(g)))]
            RF = np.array(Rr, float)
            if dt == 'list':
                XR = [[[int(x) for x in r] for r in m] for m in Rr]
                rowR = lambda i: [list(r) for r in XR[i]]; wholeR = lambda: [[list(r) for r in m] for m in XR]
            else:
                XR = RF.astype(dt)
                rowR = lambda i: XR[i].copy(); wholeR = lambda: XR.copy()
            for meth in ('shepperd', 'hughes', 'chiaverini', 'sarabandi', 'itzhack'):
                refs = []
                ok = True
                for m in RF:
                    try:
                        refs.append(np.asarray(Quaternion(dcm=m.copy(), method=meth)))
                    except Exception:
                        ok = False
                if not ok or not all(np.all(np.isfinite(r)) for r in refs):
                    keep = None
                    continue
                _twin_dtype(ctx, f'from matrices (method={meth})', f'dtype={dt}', refs, lambda: QuaternionArray(DCM=wholeR(), method=meth), lambda i: Quaternion(dcm=rowR(i), method=meth), TOL, signfree=True)
            ctx.cls('dtype:matrices')
    ctx.sample({'dtypes': DTYPES, 'quaternion_rows': QP + QN})


def job_dtypes_estimator(ctx, ename):
    est = [e for e in rf.registry() if e.name == ename][0]
    AP = [[1, 2, 9], [3, 1, 8], [2, 5, 7], [0, 3, 9], [4, 4, 6]]
    MP = [[20, 3, 40], [22, 5, 38], [18, 9, 35], [25, 1, 30], [15, 12, 33]]
    AN = [[1, -2, 9], [-3, 1, 8], [2, 5, -7], [0, -3, 9], [-4, 4, 6]]
    MN = [[20, -3, 40], [-22, 5, 38], [18, 9, -35], [25, -1, 30], [15, -12, 33]]
    real_random = np.random.random
    if est.seeded:
        np.random.random = lambda n=4: FIXED_START.copy()
    try:
        for frame in est.frames:
            dip = 60.0 if frame == 'NED' else -45.0
            for dt in DTYPES:
                if dt == 'int8' or dt == 'float16':
                    pass
                for sgn, (a_, m_) in (('+', (AP, MP)), ('-', (AN, MN))):
                    if sgn == '-' and dt.startswith('uint'):
                        continue
                    Af, Mf = np.array(a_, float), np.array(m_, float)
                    refs = []
                    try:
                        for i in range(len(a_)):
                            refs.append(np.asarray(est.single(Af[i].copy(), None if est.tilt_only else Mf[i].copy(), dip, frame), float))
                    except Exception:
                        continue
                    if not all(np.all(np.isfinite(r)) for r in refs):
                        continue
                    Xa, Xm = _as_dtype(a_, dt), _as_dtype(m_, dt)
                    cp = (lambda x: [list(r) for r in x]) if dt == 'list' else (lambda x: x.copy())
                    cr = (lambda x, i: list(x[i])) if dt == 'list' else (lambda x, i: x[i].copy())
                    signfree = est.out == 'q'
                    tol = 1e-6 if est.seeded else TOL
                    _twin_dtype(ctx, f'{ename}', f'frame={frame} dtype={dt} sign={sgn}', refs,
                                lambda: est.batch(cp(Xa), None if est.tilt_only else cp(Xm), dip, frame),
                                lambda i: est.single(cr(Xa, i), None if est.tilt_only else cr(Xm, i), dip, frame), tol, signfree=signfree)
                    if est.estimate is not None:
                        # the third route, estimate(sample) on a data-less object, against the N-sample constructor
                        _twin_dtype(ctx, f'{ename} [N samples vs estimate()]', f'frame={frame} dtype={dt} sign={sgn}', refs,
                                    lambda: est.batch(cp(Xa), None if est.tilt_only else cp(Xm), dip, frame),
                                    lambda i: est.estimate(cr(Xa, i), None if est.tilt_only else cr(Xm, i), dip, frame), tol, signfree=signfree)
                    ctx.seen(('dtype-est', ename, frame, dt, sgn)); ctx.cls('dtype:estimator samples')
    finally:
        np.random.random = real_random
    ctx.sample({'estimator': ename, 'dtypes': DTYPES})


def job_protocol(ctx, k):
    """The array class through the Python / NumPy protocol: after each in-place method (slerp_nan, remove_jumps, rotate_by(inplace=True)) row i
    obtained by indexing, iteration, np.asarray, to_array() and the .array attribute is one and the same, and feeding it to the scalar class
    gives what the array methods give for row i.  Also: versors=False arrays against versor=False scalars; the method argument omitted."""
    from ahrs import Quaternion, QuaternionArray
    base = rq.qunit(A.MENU[k])
    rows = [rq.qmul(base, rq.axang2q(ax, 0.07 * j)) for j, ax in enumerate(A.AXES()[:10])]
    def build(kind):
        X = np.array(rows)
        if kind in ('jumps', 'nan+jumps'):
            X[3:6] *= -1.0; X[8] *= -1.0
        Qo = QuaternionArray(X)
        if kind in ('nan', 'nan+jumps'):            # gaps are written into an existing array (the route the repository's own test uses)
            Qo[2] = np.nan; Qo[6:8] = np.nan
        return Qo
    ops = [('slerp_nan()', 'nan', lambda Q: Q.slerp_nan()), ('slerp_nan()', 'nan+jumps', lambda Q: Q.slerp_nan()), ('remove_jumps()', 'jumps', lambda Q: Q.remove_jumps()),
           ('rotate_by(q, inplace=True)', 'plain', lambda Q: Q.rotate_by(rq.qunit(A.MENU[(k + 2) % 8]).copy(), inplace=True)),
           ('remove_jumps() then rotate_by(inplace=True)', 'jumps', lambda Q: (Q.remove_jumps(), Q.rotate_by(rq.qunit(A.MENU[(k + 2) % 8]).copy(), inplace=True))),
           # rows written directly into the object / into its .array (the object and .array are one memory)
           ('Q[4] = q; Q[7] = p', 'plain', lambda Q: (Q.__setitem__(4, rq.qunit(A.MENU[(k + 2) % 8]).copy()), Q.__setitem__(7, rq.qunit(A.MENU[(k + 5) % 8]).copy()))),
           ('Q.array[4] = q', 'plain', lambda Q: Q.array.__setitem__(4, rq.qunit(A.MENU[(k + 2) % 8]).copy())),
           ('Q[2:5] = rows', 'jumps', lambda Q: Q.__setitem__(slice(2, 5), np.array([rq.qunit(A.MENU[(k + j) % 8]) for j in (1, 2, 3)])))]
    for on, kind, op in ops:
        key = f'op={on} data={kind} k{k}'
        ctx.evals += 1
        try:
            Q = build(kind)
            if 'nan' not in kind:
                # the array has been USED before it is changed (conversions asked once already): what is asked afterwards describes the new rows
                Q.to_DCM(); Q.to_angles(); Q.conjugate(); Q.is_identity(); Q.average()
            op(Q)
            views = {'np.asarray(Q)': np.asarray(Q, float), 'Q.to_array()': np.asarray(Q.to_array(), float), 'Q.array': np.asarray(Q.array, float),
                     'iteration': np.array([np.asarray(r, float) for r in Q]), 'indexing': np.array([np.asarray(Q[i], float) for i in range(len(rows))]),
                     'columns w,x,y,z': np.c_[Q.w, Q.x, Q.y, Q.z]}
        except Exception as ex:
            ctx.fail('in-place method then reading the rows raises', key, repr(ex)[:160], 'rows')
            continue
        ref = views['Q.to_array()']
        for vn, V in views.items():
            same = V.shape == ref.shape and bool(np.array_equal(np.isnan(V), np.isnan(ref))) and bool(np.allclose(np.nan_to_num(V), np.nan_to_num(ref), rtol=0, atol=0))
            ctx.expect(same, 'after an in-place method every way of reading row i gives the same row', f'{key} via={vn}', V, ref)
        if not np.isnan(ref).any() and np.allclose(np.linalg.norm(ref, axis=1), 1.0, atol=1e-9):
            try:
                Rb = np.asarray(Q.to_DCM())
                Ab = np.asarray(Q.to_angles(), float); Cb = np.asarray(Q.conjugate(), float)
                for i in range(len(rows)):
                    qi_ = Quaternion(np.asarray(Q[i], float))
                    ctx.close(np.asarray(qi_.to_DCM()), Rb[i], TOL, 'after an in-place method Quaternion(Q[i]).to_DCM() = Q.to_DCM()[i]', f'{key} row={i}')
                    ctx.close(np.asarray(qi_.to_angles(), float), Ab[i], 1e-12, 'after an in-place method / a row write Quaternion(Q[i]).to_angles() = Q.to_angles()[i]', f'{key} row={i}')
                    ctx.close(np.asarray(qi_.conjugate, float), Cb[i], TOL, 'after an in-place method / a row write Quaternion(Q[i]).conjugate = Q.conjugate()[i]', f'{key} row={i}')
            except Exception as ex:
                ctx.fail('after an in-place method the twin conversion raises', key, repr(ex)[:160], 'matrices')
        ctx.cls('protocol:in-place')
    # versors=False arrays against versor=False scalars (non-unit rows keep their norm through conjugation and the accessors)
    N_ = np.array(rows[:6]) * np.array([2.0, 0.5, 5.7, 1.0, 0.25, 3.0])[:, None]
    for order in ('H', 'S'):
        X = N_ if order == 'H' else np.roll(N_, -1, axis=1)
        QA = QuaternionArray(X.copy(), versors=False, order=order)
        for nm, arr_fn, one_fn in (('conjugate', lambda: np.asarray(QA.conjugate(), float), lambda i: np.asarray(Quaternion(X[i].copy(), versor=False, order=order).conjugate, float)),
                                   ('conj', lambda: np.asarray(QA.conj(), float), lambda i: np.asarray(Quaternion(X[i].copy(), versor=False, order=order).conj, float)),
                                   ('w,x,y,z', lambda: np.c_[QA.w, QA.x, QA.y, QA.z], lambda i: np.array([getattr(Quaternion(X[i].copy(), versor=False, order=order), c) for c in 'wxyz'], float)),
                                   ('v', lambda: np.asarray(QA.v, float), lambda i: np.asarray(Quaternion(X[i].copy(), versor=False, order=order).v, float)),
                                   ('to_array', lambda: np.asarray(QA.to_array(), float), lambda i: np.asarray(Quaternion(X[i].copy(), versor=False, order=order).to_array(), float)),
                                   ('to_angles', lambda: np.nan_to_num(np.asarray(QA.to_angles(), float), nan=77.0), lambda i: np.nan_to_num(np.asarray(Quaternion(X[i].copy(), versor=False, order=order).to_angles(), float), nan=77.0)),
                                   ('is_pure/is_real/is_versor/is_identity', lambda: np.c_[QA.is_pure(), QA.is_real(), QA.is_versor(), QA.is_identity()].astype(float),
                                    lambda i: np.array([getattr(Quaternion(X[i].copy(), versor=False, order=order), c)() for c in ('is_pure', 'is_real', 'is_versor', 'is_identity')], float))):
            try:
                with np.errstate(all='ignore'):
                    Bv = arr_fn()
                for i in range(len(X)):
                    with np.errstate(all='ignore'):
                        one_i = one_fn(i)
                    ctx.close(Bv[i], one_i, 1e-14, f'versors=False: QuaternionArray.{nm} row = Quaternion(versor=False).{nm} (non-unit rows keep their norm)', f'order={order} row={i} k{k}')
            except Exception as ex:
                ctx.fail(f'versors=False: {nm} raises', f'order={order} k{k}', repr(ex)[:160], 'rows')
        ctx.cls('protocol:versors=False')
    ctx.sample({'protocol_ops': [o[0] for o in ops]})


def job_helpers(ctx, k):
    """Public per-sample helpers of the recursive filters that exist for one sample and for N samples: Complementary.am_estimation
    (the only on-line route of that filter), with and without magnetometer."""
    from ahrs import filters as F
    atts = c04.attitudes('Gp', k)[::5]
    g = np.array([0.0, 0.0, 1.0]); m = np.array([math.cos(1.0), 0.0, math.sin(1.0)])
    Acc = np.array([rq.R(q).T @ g * 9.81 for _, q in atts]); Mag = np.array([rq.R(q).T @ m * 45.0 for _, q in atts])
    labels = [lab for lab, _ in atts]
    f = F.Complementary()
    _cmp_batch(ctx, 'Complementary.am_estimation(N samples) row = am_estimation(one sample) [acc, mag]', labels,
               lambda idx: np.asarray(f.am_estimation(Acc[idx].copy(), Mag[idx].copy())), lambda i: np.asarray(f.am_estimation(Acc[i].copy(), Mag[i].copy())), 'helper:am_estimation', wrap=True)
    _cmp_batch(ctx, 'Complementary.am_estimation(N samples) row = am_estimation(one sample) [acc only]', labels,
               lambda idx: np.asarray(f.am_estimation(Acc[idx].copy())), lambda i: np.asarray(f.am_estimation(Acc[i].copy())), 'helper:am_estimation', wrap=True)
    ctx.sample({'helper': 'Complementary.am_estimation', 'rows': len(atts)})


def run(ctx):
    k = A.seed_k(ctx.seed)
    ks = [k, (k + 5) % 8] if ctx.thorough else [k]
    jobs = [('job_rpy', ()), ('job_options', ()), ('job_dtypes', ())]
    jobs += [('job_dtypes_estimator', (e.name,)) for e in rf.registry() if e.batch is not None]
    for kk in ks:
        jobs.append(('job_twins', (kk,)))
        jobs += [('job_from_dcm', (kk, mi)) for mi in range(len(METHODS))]
        jobs.append(('job_metrics', (kk,)))
        jobs.append(('job_helpers', (kk,)))
        jobs.append(('job_protocol', (kk,)))
        for e in rf.registry():
            if e.batch is not None:
                jobs.append(('job_estimator', (e.name, kk)))
    core.run_jobs(ctx, __name__, jobs)
