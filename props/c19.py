"""C19 - public functions never modify the caller's arrays and are repeatable.

Model: for every public callable (inventory computed by introspection, mc/ref/inventory.py) x argument profile x
container kind the depth-3 history  call, call, call  on the SAME argument objects.  After every call the byte
snapshot (shape, dtype, bytes; lists/tuples/dicts recursively; ndarray subclasses with their attribute arrays) of
every caller-owned argument must equal the snapshot taken before the first call, and the frozen result of call 2
and call 3 must equal the frozen result of call 1 bit for bit.
"""
import math, datetime, collections
import numpy as np
from mc import core, alphabet as A
from mc.ref import quat as rq
from mc.ref import inventory

PID = 'C19'
LEVEL = 'model_checking'
RULE = ('states = distinct histories (callable, argument profile, container kind, menu entry k); each history is the 3 transitions '
        'call, call, call on the same argument objects, executed on the real code; the callable inventory is computed by introspection of the '
        'public namespace and joined with a table of argument builders (callables without a builder are listed in uncovered_callables, never '
        'silently skipped); a history is non-trivial when at least one caller-owned array / list / ndarray-subclass argument was snapshotted '
        'and the first call returned (was not refused with an exception)')
ASSUMPTIONS = [
    'oracle is exact: byte identity (shape, dtype, tobytes) of every caller-owned argument after each of the 3 calls, bit identity of the 3 frozen '
    'results (arrays by bytes, floats by repr, objects by their attribute dict); no tolerance is involved, so no tolerance derivation is needed; '
    'worst observed deviation on a conforming callable is 0 by construction',
    'after every call of a history the process-wide settings that decide what later calls return or raise (warnings.filters, numpy.geterr(), numpy print options, recursion limit, '
    'working directory) are compared with their values before the history: a callable that returns leaving them changed has changed the result of later identical calls of other callables '
    '(no callable of the unchanged tree touches any of them)',
    'explicitly requested in-place operations are exempt for the object they are requested on (self of Quaternion.normalize(), QuaternionArray.remove_jumps(), '
    'slerp_nan() / slerp_nan(inplace=True), rotate_by(inplace=True), from_DCM(inplace=True, the default), Sensors.generate()); their other arguments are still judged; '
    'slerp_nan(inplace=False), rotate_by(inplace=False), from_DCM(inplace=False) are NOT exempt',
    'self is judged as a caller-owned array only when it is an ndarray subclass (Quaternion, QuaternionArray, DCM: buffer and attribute arrays); filter / WMM / ellipsoid '
    'objects are not arrays, their documented state updates are not judged',
    'recursive filters whose update() legitimately advances internal state (Mahony bias, EKF/UKF/FKF covariance, AQUA adaptive gain) get a FRESH instance for each of the three '
    'update calls (built outside the judged arguments); stateless estimators are called three times on the same instance',
    'estimators drawing from the global NumPy RNG (OLEQ.estimate / OLEQ() / ROLEQ() with q0=None, q_random, rot_seq(angles=None)) get np.random.seed(s) before each call; Sensors / random_angpos '
    'get ahrs.utils.sensors.GENERATOR rebound to default_rng(s) before each call; every history starts from a fixed seed so that an undeclared RNG use shows up as non-repeatability, deterministically',
    'random_attitudes, Quaternion(random=True), Quaternion.random(), QuaternionArray(<int>) use an unseeded default_rng() by documentation: only their arguments are judged, not their results',
    'containers: the same values as C-contiguous float64 ndarray, nested Python list, non-contiguous view of a wider buffer (quick) plus Fortran order, negative stride and float32 (thorough); '
    'thorough also repeats everything with the non-normalised magnitudes scaled by 1e-3 and 1e3 and for all 8 menu entries',
    'an exception is a refusal, not a violation; but the three calls must agree (same exception type and message, or same result), and the arguments must be unchanged after a refusal too',
    'profiles "scalar-as-ndarray" hand 0-d / 1-element float64 arrays to parameters documented as float (frames, gravity formulas, WMM, geodetic2spherical); the library accepts them and computes '
    'vectorised results, so the statement (no array passed by the caller is changed) applies; these sites are separate so they can be triaged apart',
    'WMM default dates are evaluated at import; determinism within one process is all that is needed here (explicit dates are passed anyway)',
]
REQUIRED_CLASSES = ['constructed-selves', 'derived-selves', 'group:orientation', 'group:Quaternion', 'group:QuaternionArray', 'group:DCM', 'group:quaternion', 'group:dcm', 'group:frames',
                    'group:mathfuncs', 'group:metrics', 'group:core', 'group:filters', 'group:sensors', 'group:wmm', 'group:ellipsoid',
                    'kind:constructor', 'kind:method', 'kind:function', 'kind:property',
                    'container:nd', 'container:list', 'container:view', 'value:unit', 'value:nonunit', 'value:deg', 'value:rad', 'value:single', 'value:batch',
                    'value:optional-array', 'inplace-requested(exempt)', 'rng:reseeded', 'history:completed', 'history:refused']

MAXD = 5


# --------------------------------------------------------------------------------------------------------------------
# freezing: canonical, hashable, bit-exact rendering of arguments and results
# --------------------------------------------------------------------------------------------------------------------
def freeze(x, depth=0):
    if x is None or isinstance(x, (str, bool, int)):
        return x
    if isinstance(x, float):
        return ('f', repr(x))
    if isinstance(x, complex):
        return ('c', repr(x))
    if isinstance(x, np.generic):
        return ('g', x.dtype.str, x.tobytes())
    if isinstance(x, np.ndarray):
        body = ('nd', x.shape, x.dtype.str, x.tobytes() if x.dtype != object else repr(x.tolist()))
        if type(x) is not np.ndarray and depth < MAXD:
            return (type(x).__name__, body, freeze(dict(getattr(x, '__dict__', {})), depth + 1))
        return body
    if isinstance(x, (list, tuple)):
        return (type(x).__name__,) + tuple(freeze(v, depth + 1) for v in x) if depth < MAXD else repr(type(x))
    if isinstance(x, dict):
        return ('dict',) + tuple((str(k), freeze(v, depth + 1)) for k, v in sorted(x.items(), key=lambda kv: str(kv[0]))) if depth < MAXD else 'dict'
    if isinstance(x, (datetime.date, datetime.datetime)):
        return ('date', repr(x))
    if callable(x) and not hasattr(x, '__dict__'):
        return ('callable', getattr(x, '__name__', '?'))
    d = getattr(x, '__dict__', None)
    if d is not None and depth < MAXD:
        return ('obj', type(x).__name__, freeze(dict(d), depth + 1))
    return ('opaque', type(x).__name__)


def _has_array(x, depth=0):
    if isinstance(x, np.ndarray):
        return True
    if isinstance(x, (list, tuple)) and depth < MAXD:
        return len(x) > 0
    if isinstance(x, dict) and depth < MAXD:
        return any(_has_array(v, depth + 1) for v in x.values())
    return False


def render(x):
    """Small human-readable rendering for violation records."""
    if isinstance(x, np.ndarray):
        return {'type': type(x).__name__, 'shape': list(x.shape), 'dtype': str(x.dtype), 'values': np.asarray(x).ravel()[:12].tolist()}
    if isinstance(x, (list, tuple)):
        return [render(v) for v in x[:6]]
    if isinstance(x, dict):
        return {str(k): render(v) for k, v in list(x.items())[:8]}
    if isinstance(x, (float, int, str, bool)) or x is None:
        return x
    if isinstance(x, np.generic):
        return x.item()
    d = getattr(x, '__dict__', None)
    if d is not None:
        return {'type': type(x).__name__, 'attrs': {k: render(v) for k, v in list(d.items())[:10] if isinstance(v, (np.ndarray, float, int))}}
    return repr(x)[:200]


# --------------------------------------------------------------------------------------------------------------------
# container kinds
# --------------------------------------------------------------------------------------------------------------------
CONTAINERS_QUICK = ('nd', 'list', 'view', 'tuple', 'readonly', 'qobj')
CONTAINERS_THOROUGH = ('nd', 'list', 'view', 'tuple', 'readonly', 'forder', 'negstride', 'f32', 'qobj', 'qobj.copy')
SCALES_THOROUGH = (1.0, 1e-3, 1e3)      # magnitude of the non-normalised inputs (non-unit quaternions, axes, acc / mag samples, reference vectors)


def contain(x, kind):
    """Give the plain ndarray x (ndim >= 1) to the callee as another kind of caller-owned container with the same values."""
    if kind == 'nd':
        return np.array(x, copy=True)
    if kind == 'list':
        return x.tolist()
    if kind == 'view':            # every second element of a wider buffer: not contiguous, not owning its data
        base = np.full(x.shape[:-1] + (2 * x.shape[-1],), -7.25, dtype=x.dtype)
        base[..., ::2] = x
        return base[..., ::2]
    if kind == 'tuple':
        return tuple(x.tolist()) if x.ndim == 1 else tuple(tuple(r) if isinstance(r, list) else r for r in x.tolist())
    if kind == 'readonly':          # a caller that protects its data: writing into it raises
        y = np.array(x, copy=True)
        y.setflags(write=False)
        return y
    if kind == 'forder':
        return np.asfortranarray(x) if x.ndim > 1 else np.array(x, copy=True)
    if kind == 'negstride':
        return np.array(x[..., ::-1], copy=True)[..., ::-1]
    if kind == 'f32':
        return x.astype(np.float32) if x.dtype == np.float64 else np.array(x, copy=True)
    if kind in ('qobj', 'qobj.copy'):
        # the library's own array classes as the caller-owned container: a 4-vector as an ahrs.Quaternion object (as built, or as numpy
        # hands it back from .copy()), a proper 3x3 rotation as an ahrs.DCM object; anything else as a plain copy
        from ahrs import Quaternion, DCM
        if x.dtype == np.float64 and x.shape == (4,) and np.all(np.isfinite(x)) and np.linalg.norm(x) > 0:
            o = Quaternion(np.array(x, copy=True), versor=False)
            return o.copy() if kind == 'qobj.copy' else o
        if x.dtype == np.float64 and x.shape == (3, 3) and np.all(np.isfinite(x)) and np.allclose(x @ x.T, np.eye(3), atol=1e-12) and abs(np.linalg.det(x) - 1) < 1e-12:
            o = DCM(np.array(x, copy=True))
            return o.copy() if kind == 'qobj.copy' else o
        return np.array(x, copy=True)
    raise ValueError(kind)


# --------------------------------------------------------------------------------------------------------------------
# values (deterministic, derived from menu entry k); every attribute access returns a fresh copy
# --------------------------------------------------------------------------------------------------------------------
class Values:
    def __init__(self, k, scale=1.0):
        M = A.MENU
        n = len(M)
        q, p, r, s = (np.array(M[(k + j) % n]) for j in (0, 3, 5, 6))
        d = {}
        d['q'], d['p'], d['r'] = q, p, r
        d['qn'], d['pn'] = 2.5 * scale * q, 0.4 * scale * p
        d['pneg'] = -p if float(q @ p) >= 0 else p          # obtuse partner of q (dot < 0)
        d['pacu'] = p if float(q @ p) >= 0 else -p           # acute partner
        d['Q'] = np.array([q, p, r, s])
        d['Qn'] = scale * np.array([2.5 * q, 0.4 * p, 3.0 * r, 1.5 * s])
        Qj = np.array([q, rq.qunit(q + 0.05 * p), -rq.qunit(q + 0.1 * p), -rq.qunit(q + 0.15 * p), rq.qunit(q + 0.2 * p)])
        d['Qjump'] = Qj                                      # smooth history with a sign-flipped run (rows 2-3)
        Qnan = np.array([q, rq.qunit(q + 0.05 * p), rq.qunit(q + 0.1 * p), rq.qunit(q + 0.15 * p), rq.qunit(q + 0.2 * p)])
        d['Qsmooth'] = Qnan.copy()
        Qnan[2] = np.nan
        d['Qnan'] = Qnan
        Qnj = Qj.copy(); Qnj[1] = np.nan
        d['Qnanjump'] = Qnj                                  # NaN gap AND a sign flip after it
        Rq = rq.R(q)
        g = scale * np.array([0.0, 0.0, 9.81]); b = scale * np.array([19.1, 1.7, 43.2])
        d['acc'], d['mag'] = Rq.T @ g, Rq.T @ b
        d['gyr'] = np.array([0.11, -0.23, 0.31]) + 0.1 * q[1:]
        Rs = np.array([rq.R(x) for x in d['Q']])
        d['R'], d['RR'] = Rq, Rs
        d['R2'], d['RR2'] = rq.R(p), np.array([rq.R(x) for x in (p, r, s, q)])
        d['ACC'] = np.array([Ri.T @ g for Ri in Rs])
        d['MAG'] = np.array([Ri.T @ b for Ri in Rs])
        d['GYR'] = np.array([d['gyr'] * (1 + 0.25 * i) for i in range(4)])
        ang = 1.2 * q[1:]                                   # radians, every |angle| < 0.9
        d['ang'], d['angd'] = ang, ang * 180.0 / math.pi
        d['ANG'] = np.array([1.2 * x[1:] for x in d['Q']])
        d['ANGD'] = d['ANG'] * 180.0 / math.pi
        d['axis'] = rq.qunit(q[1:]) if hasattr(rq, 'qunit') else q[1:] / np.linalg.norm(q[1:])
        d['axisn'] = 3.0 * scale * q[1:]
        d['v'] = np.array([0.3, -1.2, 2.5]) + q[1:]
        d['V3N'] = (np.array([[0.3, -1.2, 2.5], [1.0, 0.5, -0.25], [2.0, -3.0, 0.125], [0.7, 0.1, 0.9]]) + q[1:]).T   # 3 x N
        d['XYZ'] = np.array([[0.3, -1.2, 2.5], [1.0, 0.5, -0.25], [2.0, -3.0, 0.125], [0.7, 0.1, 0.9]]) + q[1:]       # N x 3
        d['t'] = np.array([0.0, 0.25, 0.5, 1.0])
        d['w2'] = np.array([1.0, 3.0])
        d['w4'] = np.array([1.0, 3.0, 0.5, 2.0])
        d['mref'] = scale * np.array([19.1, 1.7, 43.2])
        d['mref4'] = scale * np.array([0.0, 19.1, 1.7, 43.2])
        d['gref'] = scale * np.array([0.0, 0.0, 2.0])
        d['P4'] = np.diag([2.0, 1.5, 1.0, 0.5])
        d['b0'] = np.array([0.01, -0.02, 0.03])
        d['w0'] = np.array([0.1, -0.2, 0.3])
        d['nan1'] = np.array([1.0, np.nan, np.nan, 2.0, np.nan, 3.0])
        self._d = d
        self.k = k
        self.scale = scale

    def __getattr__(self, name):
        try:
            v = self.__dict__['_d'][name]
        except KeyError:
            raise AttributeError(name)
        return np.array(v, copy=True)


def C(profile, make, call, **opts):
    """One argument profile: make() -> dict name -> caller-owned object; call(A) performs the public call."""
    return dict(profile=profile, make=make, call=call, **opts)


BUILDERS = collections.OrderedDict()       # callable id -> function(V, L) -> [case, ...]


def builder(*ids):
    def deco(fn):
        for i in ids:
            assert i not in BUILDERS, i
            BUILDERS[i] = (fn, i)
        return fn
    return deco


class Lib:
    """Handles to the library under test (imported lazily in the worker)."""
    def __init__(self):
        import ahrs
        from ahrs.common import orientation, quaternion, dcm, frames, mathfuncs, geometry
        from ahrs.utils import metrics, core as ucore, sensors, wmm, wgs84, geodesy
        import ahrs.filters as F
        self.ahrs, self.O, self.QM, self.DM, self.FR, self.MF, self.GE = ahrs, orientation, quaternion, dcm, frames, mathfuncs, geometry
        self.ME, self.UC, self.SE, self.WM, self.WG, self.GD, self.F = metrics, ucore, sensors, wmm, wgs84, geodesy, F
        self.Quaternion, self.QuaternionArray, self.DCM = quaternion.Quaternion, quaternion.QuaternionArray, dcm.DCM


# BUILDERS-BEGIN
def _fn(L, cid):
    """Resolve 'orientation.q2R' style ids of module-level functions to the function object."""
    short, name = cid.split('.')
    mod = {'orientation': L.O, 'quaternion': L.QM, 'dcm': L.DM, 'frames': L.FR, 'mathfuncs': L.MF, 'geometry': L.GE, 'metrics': L.ME,
           'core': L.UC, 'sensors': L.SE, 'wmm': L.WM, 'wgs84': L.WG, 'geodesy': L.GD}.get(short)
    if mod is None:
        mod = __import__('ahrs.filters.' + short, fromlist=['x'])
    return getattr(mod, name)


# ---- ahrs.common.orientation ---------------------------------------------------------------------------------------
@builder('orientation.q_conj', 'orientation.q_norm')
def _b(V, L, cid):
    f = _fn(L, cid)
    return [C('unit', lambda: {'q': V.q}, lambda a: f(a['q']), tags=('unit', 'single')),
            C('nonunit', lambda: {'q': V.qn}, lambda a: f(a['q']), tags=('nonunit',)),
            C('batch-nonunit', lambda: {'q': V.Qn}, lambda a: f(a['q']), tags=('nonunit', 'batch'))]


@builder('orientation.q_mult_L', 'orientation.q_mult_R', 'orientation.quat2axang', 'orientation.q2euler')
def _b(V, L, cid):
    f = _fn(L, cid)
    return [C('unit', lambda: {'q': V.q}, lambda a: f(a['q']), tags=('unit', 'single')),
            C('nonunit', lambda: {'q': V.qn}, lambda a: f(a['q']), tags=('nonunit', 'single'))]


@builder('orientation.q_prod')
def _b(V, L, cid):
    f = _fn(L, cid)
    return [C('unit', lambda: {'p': V.p, 'q': V.q}, lambda a: f(a['p'], a['q']), tags=('unit',)),
            C('nonunit', lambda: {'p': V.pn, 'q': V.qn}, lambda a: f(a['p'], a['q']), tags=('nonunit',))]


@builder('orientation.q_rot')
def _b(V, L, cid):
    f = _fn(L, cid)
    return [C('unit', lambda: {'q': V.q, 'v': V.v}, lambda a: f(a['q'], a['v']), tags=('unit',)),
            C('nonunit', lambda: {'q': V.qn, 'v': V.v}, lambda a: f(a['q'], a['v']), tags=('nonunit',))]


@builder('orientation.q_random')
def _b(V, L, cid):
    f = _fn(L, cid)
    return [C('size=1', lambda: {}, lambda a: f(1), rng='np'), C('size=3', lambda: {}, lambda a: f(3), rng='np')]


@builder('orientation.axang2quat')
def _b(V, L, cid):
    f = _fn(L, cid)
    return [C('unit-axis rad', lambda: {'axis': V.axis}, lambda a: f(a['axis'], 0.7), tags=('unit', 'rad')),
            C('nonunit-axis rad', lambda: {'axis': V.axisn}, lambda a: f(a['axis'], 0.7), tags=('nonunit', 'rad')),
            C('nonunit-axis deg', lambda: {'axis': V.axisn}, lambda a: f(a['axis'], 40.0, rad=False), tags=('nonunit', 'deg'))]


@builder('orientation.q_correct')
def _b(V, L, cid):
    f = _fn(L, cid)
    return [C('batch-with-sign-jump', lambda: {'q': V.Qjump}, lambda a: f(a['q']), tags=('unit', 'batch')),
            C('batch-smooth', lambda: {'q': V.Q}, lambda a: f(a['q']), tags=('unit', 'batch'))]


@builder('orientation.q2R')
def _b(V, L, cid):
    f = _fn(L, cid)
    out = []
    for ver in (1, 2):
        out += [C(f'unit v{ver}', lambda: {'q': V.q}, lambda a, ver=ver: f(a['q'], ver), tags=('unit', 'single')),
                C(f'nonunit v{ver}', lambda: {'q': V.qn}, lambda a, ver=ver: f(a['q'], ver), tags=('nonunit', 'single')),
                C(f'batch-unit v{ver}', lambda: {'q': V.Q}, lambda a, ver=ver: f(a['q'], ver), tags=('unit', 'batch')),
                C(f'batch-nonunit v{ver}', lambda: {'q': V.Qn}, lambda a, ver=ver: f(a['q'], ver), tags=('nonunit', 'batch'))]
    return out


@builder('orientation.dcm2quat', 'orientation.shepperd')
def _b(V, L, cid):
    f = _fn(L, cid)
    return [C('3x3', lambda: {'R': V.R}, lambda a: f(a['R']), tags=('single',))]


@builder('orientation.chiaverini', 'orientation.hughes')
def _b(V, L, cid):
    f = _fn(L, cid)
    return [C('3x3', lambda: {'R': V.R}, lambda a: f(a['R']), tags=('single',)),
            C('Nx3x3', lambda: {'R': V.RR}, lambda a: f(a['R']), tags=('batch',))]


@builder('orientation.sarabandi')
def _b(V, L, cid):
    f = _fn(L, cid)
    return [C('3x3 eta=0', lambda: {'R': V.R}, lambda a: f(a['R']), tags=('single',)),
            C('3x3 eta=0.5', lambda: {'R': V.R}, lambda a: f(a['R'], eta=0.5), tags=('single',))]


@builder('orientation.itzhack')
def _b(V, L, cid):
    f = _fn(L, cid)
    return [C(f'3x3 version={v}', lambda: {'R': V.R}, lambda a, v=v: f(a['R'], version=v), tags=('single',)) for v in (1, 2, 3)]


@builder('orientation.rpy2q', 'orientation.cardan2q')
def _b(V, L, cid):
    f = _fn(L, cid)
    return [C('single rad', lambda: {'angles': V.ang}, lambda a: f(a['angles']), tags=('rad', 'single')),
            C('single deg', lambda: {'angles': V.angd}, lambda a: f(a['angles'], in_deg=True), tags=('deg', 'single')),
            C('batch rad', lambda: {'angles': V.ANG}, lambda a: f(a['angles']), tags=('rad', 'batch')),
            C('batch deg', lambda: {'angles': V.ANGD}, lambda a: f(a['angles'], in_deg=True), tags=('deg', 'batch'))]


@builder('orientation.q2rpy', 'orientation.q2cardan')
def _b(V, L, cid):
    f = _fn(L, cid)
    return [C('unit rad', lambda: {'q': V.q}, lambda a: f(a['q']), tags=('unit', 'rad')),
            C('unit deg', lambda: {'q': V.q}, lambda a: f(a['q'], in_deg=True), tags=('unit', 'deg')),
            C('nonunit deg', lambda: {'q': V.qn}, lambda a: f(a['q'], in_deg=True), tags=('nonunit', 'deg'))]


@builder('orientation.ecompass')
def _b(V, L, cid):
    f = _fn(L, cid)
    return [C(f'{fr} {rep}', lambda: {'a': V.acc, 'm': V.mag}, lambda a, fr=fr, rep=rep: f(a['a'], a['m'], frame=fr, representation=rep), tags=('nonunit', 'single'))
            for fr in ('ENU', 'NED') for rep in ('rotmat', 'quaternion', 'rpy', 'axisangle')]


@builder('orientation.am2DCM', 'orientation.am2q')
def _b(V, L, cid):
    f = _fn(L, cid)
    return [C(fr, lambda: {'a': V.acc, 'm': V.mag}, lambda a, fr=fr: f(a['a'], a['m'], frame=fr), tags=('nonunit', 'single')) for fr in ('ENU', 'NED')]


@builder('orientation.acc2q')
def _b(V, L, cid):
    f = _fn(L, cid)
    return [C('quaternion', lambda: {'a': V.acc}, lambda a: f(a['a']), tags=('nonunit', 'single')),
            C('euler', lambda: {'a': V.acc}, lambda a: f(a['a'], return_euler=True), tags=('nonunit', 'deg'))]


@builder('orientation.am2angles')
def _b(V, L, cid):
    f = _fn(L, cid)
    return [C('single rad', lambda: {'a': V.acc, 'm': V.mag}, lambda a: f(a['a'], a['m']), tags=('nonunit', 'single', 'rad')),
            C('single deg', lambda: {'a': V.acc, 'm': V.mag}, lambda a: f(a['a'], a['m'], in_deg=True), tags=('nonunit', 'single', 'deg')),
            C('batch rad', lambda: {'a': V.ACC, 'm': V.MAG}, lambda a: f(a['a'], a['m']), tags=('nonunit', 'batch', 'rad'))]


@builder('orientation.slerp', 'quaternion.slerp')
def _b(V, L, cid):
    f = _fn(L, cid)
    return [C('acute', lambda: {'q0': V.q, 'q1': V.pacu, 't': V.t}, lambda a: f(a['q0'], a['q1'], a['t']), tags=('unit',)),
            C('obtuse(sign flip)', lambda: {'q0': V.q, 'q1': V.pneg, 't': V.t}, lambda a: f(a['q0'], a['q1'], a['t']), tags=('unit',)),
            C('near(lerp branch)', lambda: {'q0': V.q, 'q1': rq.qunit(V.q + 0.01 * V.p), 't': V.t}, lambda a: f(a['q0'], a['q1'], a['t']), tags=('unit',))]


# ---- ahrs.common.quaternion ----------------------------------------------------------------------------------------
def _q_selves(V, L):
    return [('self=unit', lambda: L.Quaternion(V.q), ('unit',)),
            ('self=nonunit(versor=False)', lambda: L.Quaternion(V.qn, versor=False), ('nonunit',)),
            ('self=unit order=S', lambda: L.Quaternion(V.q, order='S'), ('unit',))]


def _qa_selves(V, L):
    return [('self=unit', lambda: L.QuaternionArray(V.Q), ('unit', 'batch')),
            ('self=nonunit(versors=False)', lambda: L.QuaternionArray(V.Qn, versors=False), ('nonunit', 'batch')),
            ('self=sign-jumps', lambda: L.QuaternionArray(V.Qjump), ('unit', 'batch')),
            ('self=unit order=S', lambda: L.QuaternionArray(V.Q, order='S'), ('unit', 'batch'))]


def _dcm_selves(V, L):
    return [('self=DCM', lambda: L.DCM(V.R), ('single',))]


def _plain_selves(maker, label='self'):
    return lambda V, L: [(label, lambda: maker(V, L), ())]


AUTO_SELF = {'Quaternion': _q_selves, 'QuaternionArray': _qa_selves, 'DCM': _dcm_selves,
             'WGS': _plain_selves(lambda V, L: L.WG.WGS()),
             'ReferenceEllipsoid': lambda V, L: [('self=WGS-values', lambda: L.GD.ReferenceEllipsoid(6378137.0, 1 / 298.257223563, 3.986004418e14, 7.292115e-5), ()),
                                                 ('self=WGS()', lambda: L.WG.WGS(), ())],
             'WMM': _plain_selves(lambda V, L: L.WM.WMM(2022.5, 48.0, 11.5, 0.5)),
             'UKF': _plain_selves(lambda V, L: L.F.UKF()),
             'Complementary': _plain_selves(lambda V, L: L.F.Complementary(V.GYR, V.ACC, V.MAG))}
SELF_EXEMPT = {'Quaternion.normalize', 'QuaternionArray.remove_jumps'}
RANDOM_BY_DESIGN = {'Quaternion.random'}


def _auto_noarg(V, L, cid):
    """Methods / properties that take nothing but self: the three calls are made on the same object."""
    cname, name = cid.split('.')
    out = []
    for label, mk, tags in AUTO_SELF[cname](V, L):
        def call(a, name=name):
            m = getattr(a['self'], name)
            return m() if callable(m) and not isinstance(m, np.ndarray) else m
        opts = {}
        if cid in SELF_EXEMPT:
            opts['exempt'] = ('self',)
        if cid in RANDOM_BY_DESIGN:
            opts['random'] = True
        out.append(C(label, lambda mk=mk: {'self': mk()}, call, tags=tags, **opts))
    return out


def _register_auto():
    inv = inventory.discover()
    for cid in inventory.no_argument_members(inv, set(AUTO_SELF)):
        if cid not in BUILDERS:
            BUILDERS[cid] = (_auto_noarg, cid)


def _is_prop(obj, name):
    return isinstance(getattr(type(obj), name, None), property)


@builder('Quaternion()')
def _b(V, L, cid):
    Qn = L.Quaternion
    return [C('no arguments (the default, identity)', lambda: {}, lambda a: Qn(), tags=('unit',)),
            C('q=unit', lambda: {'q': V.q}, lambda a: Qn(a['q']), tags=('unit', 'single')),
            C('q=nonunit', lambda: {'q': V.qn}, lambda a: Qn(a['q']), tags=('nonunit', 'single')),
            C('q=nonunit versor=False', lambda: {'q': V.qn}, lambda a: Qn(a['q'], versor=False), tags=('nonunit',)),
            C('q=3-vector', lambda: {'q': V.v}, lambda a: Qn(a['q']), tags=('nonunit',)),
            C('dcm= shepperd', lambda: {'dcm': V.R}, lambda a: Qn(dcm=a['dcm']), tags=('optional-array',)),
            C('dcm= hughes', lambda: {'dcm': V.R}, lambda a: Qn(dcm=a['dcm'], method='hughes'), tags=('optional-array',)),
            C('dcm= itzhack v1', lambda: {'dcm': V.R}, lambda a: Qn(dcm=a['dcm'], method='itzhack', version=1), tags=('optional-array',)),
            C('rpy=', lambda: {'rpy': V.ang}, lambda a: Qn(rpy=a['rpy']), tags=('optional-array', 'rad')),
            C('angles=', lambda: {'angles': V.ang}, lambda a: Qn(angles=a['angles']), tags=('optional-array', 'rad')),
            C('random=True', lambda: {}, lambda a: Qn(random=True), random=True)]


def _with_selves(selves, argmaker, call, label='', tags=(), **opts):
    out = []
    for slabel, mk, stags in selves:
        out.append(C(f'{slabel} {label}'.strip(), lambda mk=mk: dict(argmaker(), self=mk()), call, tags=tuple(stags) + tuple(tags), **opts))
    return out


@builder('Quaternion.__add__', 'Quaternion.__sub__', 'Quaternion.__mul__', 'Quaternion.__matmul__', 'Quaternion.product')
def _b(V, L, cid):
    name = cid.split('.')[1]
    call = lambda a: getattr(a['self'], name)(a['q'])
    return (_with_selves(_q_selves(V, L), lambda: {'q': V.p}, call, 'other=unit ndarray', ('unit',))
            + _with_selves(_q_selves(V, L)[:1], lambda: {'q': V.pn}, call, 'other=nonunit ndarray', ('nonunit',))
            + _with_selves(_q_selves(V, L)[:1], lambda: {'q': L.Quaternion(V.p)}, call, 'other=Quaternion', ('unit',)))


@builder('Quaternion.__pow__')
def _b(V, L, cid):
    return _with_selves(_q_selves(V, L), lambda: {}, lambda a: a['self'] ** 0.5, 'a=0.5') + _with_selves(_q_selves(V, L)[:1], lambda: {}, lambda a: a['self'] ** -2, 'a=-2')


@builder('Quaternion.rotate')
def _b(V, L, cid):
    call = lambda a: a['self'].rotate(a['a'])
    return _with_selves(_q_selves(V, L)[:2], lambda: {'a': V.v}, call, 'a=(3,)', ('single',)) + _with_selves(_q_selves(V, L)[:1], lambda: {'a': V.V3N}, call, 'a=(3,N)', ('batch',))


@builder('Quaternion.from_DCM')
def _b(V, L, cid):
    return [c for m in ('shepperd', 'hughes', 'chiaverini', 'itzhack', 'sarabandi')
            for c in _with_selves(_q_selves(V, L)[:1], lambda: {'dcm': V.R}, lambda a, m=m: a['self'].from_DCM(a['dcm'], method=m), f'method={m}', ('single',))]


@builder('Quaternion.from_rpy', 'Quaternion.from_angles')
def _b(V, L, cid):
    name = cid.split('.')[1]
    return _with_selves(_q_selves(V, L)[:1], lambda: {'angles': V.ang}, lambda a: getattr(a['self'], name)(a['angles']), 'angles rad', ('rad',))


@builder('Quaternion.ode')
def _b(V, L, cid):
    return _with_selves(_q_selves(V, L)[:2], lambda: {'w': V.gyr}, lambda a: a['self'].ode(a['w']), 'w=(3,)')


@builder('quaternion.random_attitudes')
def _b(V, L, cid):
    f = _fn(L, cid)
    return [C('n=1', lambda: {}, lambda a: f(1), random=True), C('n=3 rotmat', lambda: {}, lambda a: f(3, 'rotmat'), random=True)]


@builder('QuaternionArray()')
def _b(V, L, cid):
    QA = L.QuaternionArray
    return [C('no arguments (the default, one identity row)', lambda: {}, lambda a: QA(), tags=('unit',)),
            C('q=unit', lambda: {'q': V.Q}, lambda a: QA(a['q']), tags=('unit', 'batch')),
            C('q=nonunit', lambda: {'q': V.Qn}, lambda a: QA(a['q']), tags=('nonunit', 'batch')),
            C('q=nonunit versors=False', lambda: {'q': V.Qn}, lambda a: QA(a['q'], versors=False), tags=('nonunit', 'batch')),
            C('q=(N,3)', lambda: {'q': V.XYZ}, lambda a: QA(a['q']), tags=('nonunit', 'batch')),
            C('rpy=', lambda: {'rpy': V.ANG}, lambda a: QA(rpy=a['rpy']), tags=('optional-array', 'rad', 'batch')),
            C('DCM=', lambda: {'DCM': V.RR}, lambda a: QA(DCM=a['DCM']), tags=('optional-array', 'batch')),
            C('DCM= method=hughes', lambda: {'DCM': V.RR}, lambda a: QA(DCM=a['DCM'], method='hughes'), tags=('optional-array', 'batch')),
            C('q=<int> (random)', lambda: {}, lambda a: QA(3), random=True)]


@builder('QuaternionArray.angular_velocities')
def _b(V, L, cid):
    return _with_selves(_qa_selves(V, L), lambda: {}, lambda a: a['self'].angular_velocities(0.01), 'dt=0.01')


@builder('QuaternionArray.average')
def _b(V, L, cid):
    s = _qa_selves(V, L)
    return (_with_selves(s[:1], lambda: {}, lambda a: a['self'].average(), 'no weights')
            + _with_selves(s[:1] + s[3:], lambda: {'weights': V.w4}, lambda a: a['self'].average(weights=a['weights']), 'weights=', ('optional-array',))
            + _with_selves(s[:1], lambda: {'weights': V.w2}, lambda a: a['self'].average(span=(1, 3), weights=a['weights']), 'span=(1,3) weights=', ('optional-array',)))


@builder('QuaternionArray.from_DCM')
def _b(V, L, cid):
    s = _qa_selves(V, L)[:1]
    out = []
    for m in ('shepperd', 'hughes', 'chiaverini', 'itzhack', 'sarabandi'):
        out += _with_selves(s, lambda: {'DCM': V.RR}, lambda a, m=m: a['self'].from_DCM(a['DCM'], method=m, inplace=False), f'method={m} inplace=False', ('batch',))
    out += _with_selves(s, lambda: {'DCM': V.RR}, lambda a: a['self'].from_DCM(a['DCM']), 'inplace=True(default)', ('batch',), exempt=('self',))
    return out


@builder('QuaternionArray.from_rpy')
def _b(V, L, cid):
    return _with_selves(_qa_selves(V, L)[:1], lambda: {'Angles': V.ANG}, lambda a: a['self'].from_rpy(a['Angles']), 'Angles rad', ('rad', 'batch'))


@builder('QuaternionArray.rotate_by')
def _b(V, L, cid):
    s = _qa_selves(V, L)
    return (_with_selves(s, lambda: {'q': V.p}, lambda a: a['self'].rotate_by(a['q']), 'q=unit inplace=False', ('unit',))
            + _with_selves(s[:1], lambda: {'q': V.pn}, lambda a: a['self'].rotate_by(a['q']), 'q=nonunit inplace=False', ('nonunit',))
            + _with_selves(s[:1], lambda: {'q': V.pn}, lambda a: a['self'].rotate_by(a['q'], inplace=True), 'q=nonunit inplace=True', ('nonunit',), exempt=('self',)))


@builder('QuaternionArray.slerp_nan')
def _b(V, L, cid):
    QA = L.QuaternionArray
    def mk(name):
        def make():
            X = getattr(V, name)
            nanrows = np.isnan(X).any(axis=1)
            X[nanrows] = X[0]
            Q = QA(X)
            Q[nanrows] = np.nan            # the documented way to mark drop-outs (docstring of slerp_nan); the buffer is shared with Q.array
            assert np.isnan(Q.array[nanrows]).all()
            return {'self': Q}
        return make
    return [C('self=nan-gap inplace=False', mk('Qnan'), lambda a: a['self'].slerp_nan(inplace=False), tags=('batch',)),
            C('self=no-nan,smooth inplace=False', mk('Qsmooth'), lambda a: a['self'].slerp_nan(inplace=False), tags=('batch',)),
            C('self=nan-gap+sign-jump inplace=False', mk('Qnanjump'), lambda a: a['self'].slerp_nan(inplace=False), tags=('batch',)),
            C('self=sign-jump,no-nan inplace=False', mk('Qjump'), lambda a: a['self'].slerp_nan(inplace=False), tags=('batch',)),
            C('self=nan-gap inplace=True(default)', mk('Qnan'), lambda a: a['self'].slerp_nan(), tags=('batch',), exempt=('self',)),
            C('self=nan-gap+sign-jump inplace=True', mk('Qnanjump'), lambda a: a['self'].slerp_nan(inplace=True), tags=('batch',), exempt=('self',))]


# ---- ahrs.common.dcm -----------------------------------------------------------------------------------------------
@builder('dcm.rotation')
def _b(V, L, cid):
    f = _fn(L, cid)
    return ([C(f'{ax} {"deg" if d else "rad"}', lambda: {}, lambda a, ax=ax, d=d: f(ax, 40.0 if d else 0.7, degrees=d)) for ax in ('x', 'y', 2) for d in (False, True)]
            + [C('x, angle exactly zero', lambda: {}, lambda a: f('x', 0.0)), C('y, whole turn in degrees', lambda: {}, lambda a: f('y', 360.0, degrees=True)),
               C('z, angle pi', lambda: {}, lambda a: f('z', math.pi)), C('axis omitted', lambda: {}, lambda a: f(ang=0.7))])


@builder('dcm.rot_seq')
def _b(V, L, cid):
    f = _fn(L, cid)
    return [C('zyx rad', lambda: {'angles': V.ang}, lambda a: f('zyx', a['angles']), tags=('rad',)),
            C('zyx deg', lambda: {'angles': V.angd}, lambda a: f('zyx', a['angles'], degrees=True), tags=('deg',)),
            C('axes=list deg', lambda: {'angles': V.angd, 'axes': ['x', 'y', 'x']}, lambda a: f(a['axes'], a['angles'], degrees=True), tags=('deg',)),
            C('zyx with a zero angle in the middle', lambda: {'angles': np.array([0.4, 0.0, 1.1])}, lambda a: f('zyx', a['angles']), tags=('rad',)),
            C('angles=None (global RNG)', lambda: {}, lambda a: f('zyx'), rng='np')]


@builder('DCM()')
def _b(V, L, cid):
    D = L.DCM
    return [C('no arguments (the default, identity)', lambda: {}, lambda a: D(), tags=('single',)),
            C('array=3x3', lambda: {'array': V.R}, lambda a: D(a['array']), tags=('single',)),
            C('q=unit', lambda: {'q': V.q}, lambda a: D(q=a['q']), tags=('optional-array', 'unit')),
            C('q=nonunit', lambda: {'q': V.qn}, lambda a: D(q=a['q']), tags=('optional-array', 'nonunit')),
            C('rpy=', lambda: {'rpy': V.angd}, lambda a: D(rpy=a['rpy']), tags=('optional-array',)),
            C('euler=(seq, angles)', lambda: {'angs': V.ang}, lambda a: D(euler=('zxz', a['angs'])), tags=('optional-array',)),
            C('axang=(nonunit axis, angle)', lambda: {'ax': V.axisn}, lambda a: D(axang=(a['ax'], 0.7)), tags=('optional-array', 'nonunit')),
            C('x=,y=,z=', lambda: {}, lambda a: D(x=0.1, y=-0.2, z=0.3)),
            C('x=0, y=, z=0 (exact zeros)', lambda: {}, lambda a: D(x=0.0, y=0.35, z=0.0))]


@builder('DCM.from_axang', 'DCM.from_axisangle')
def _b(V, L, cid):
    name = cid.split('.')[1]
    return (_with_selves(_dcm_selves(V, L), lambda: {'axis': V.axis}, lambda a: getattr(a['self'], name)(a['axis'], 0.7), 'axis=unit', ('unit',))
            + _with_selves(_dcm_selves(V, L), lambda: {'axis': V.axisn}, lambda a: getattr(a['self'], name)(a['axis'], 0.7), 'axis=nonunit', ('nonunit',)))


@builder('DCM.from_q', 'DCM.from_quaternion')
def _b(V, L, cid):
    name = cid.split('.')[1]
    out = []
    for label, attr, tags in (('q=unit', 'q', ('unit', 'single')), ('q=nonunit', 'qn', ('nonunit', 'single')), ('q=batch-nonunit', 'Qn', ('nonunit', 'batch'))):
        out += _with_selves(_dcm_selves(V, L), lambda attr=attr: {'q': getattr(V, attr)}, lambda a: getattr(a['self'], name)(a['q']), label, tags)
    if name == 'from_quaternion':
        out.append(C('classmethod q=nonunit', lambda: {'q': V.qn}, lambda a: L.DCM.from_quaternion(a['q']), tags=('nonunit',)))
    return out


@builder('DCM.to_q', 'DCM.to_quaternion')
def _b(V, L, cid):
    name = cid.split('.')[1]
    out = []
    for m, kw in (('shepperd', {}), ('hughes', {}), ('chiaverini', {}), ('itzhack', {'version': 2}), ('sarabandi', {'threshold': 0.5})):
        out += _with_selves(_dcm_selves(V, L), lambda: {}, lambda a, m=m, kw=kw: getattr(a['self'], name)(m, **kw), f'method={m}')
    return out


@builder('DCM.ode')
def _b(V, L, cid):
    return _with_selves(_dcm_selves(V, L), lambda: {'w': V.gyr}, lambda a: a['self'].ode(a['w']), 'w=(3,)')


# ---- scalar-documented parameters: floats, and the same numbers as 0-d / 1-element / N-element float64 arrays -----------
def _scalar_profiles(names_values, call, flagsets=((), ), extra_tags=()):
    """names_values: [(name, float)]; call(a, **flags).  Profiles: python floats | 0-d arrays | 1-element arrays | 2-element arrays."""
    out = []
    for flags in flagsets:
        fl = dict(flags)
        suffix = (' ' + ' '.join(f'{k}={v}' for k, v in fl.items())) if fl else ''
        out.append(C('floats' + suffix, lambda: {n: float(v) for n, v in names_values}, lambda a, fl=fl: call(a, **fl), tags=extra_tags))
        out.append(C('scalar-as-ndarray 0-d' + suffix, lambda: {n: np.array(float(v)) for n, v in names_values}, lambda a, fl=fl: call(a, **fl), tags=extra_tags))
        out.append(C('scalar-as-ndarray shape(1,)' + suffix, lambda: {n: np.array([float(v)]) for n, v in names_values}, lambda a, fl=fl: call(a, **fl), tags=extra_tags))
        out.append(C('scalar-as-ndarray shape(2,)' + suffix, lambda: {n: np.array([float(v), float(v) * 0.5]) for n, v in names_values},
                     lambda a, fl=fl: call(a, **fl), tags=extra_tags + ('batch',)))
    return out


ECEF = (4170000.0, 850000.0, 4730000.0)      # a point near 48N 11.5E


@builder('frames.geodetic2ecef')
def _b(V, L, cid):
    f = _fn(L, cid)
    return _scalar_profiles([('lat', 48.0), ('lon', 11.5), ('h', 520.0)], lambda a: f(a['lat'], a['lon'], a['h']), extra_tags=('deg',))


@builder('frames.ecef2geodetic', 'frames.ecef2lla')
def _b(V, L, cid):
    f = _fn(L, cid)
    return _scalar_profiles(list(zip('xyz', ECEF)), lambda a: f(a['x'], a['y'], a['z']))


@builder('frames.ecef2enu')
def _b(V, L, cid):
    f = _fn(L, cid)
    return _scalar_profiles(list(zip('xyz', ECEF)) + [('lat', 48.0), ('lon', 11.5), ('h', 520.0)], lambda a: f(a['x'], a['y'], a['z'], a['lat'], a['lon'], a['h']), extra_tags=('deg',))


@builder('frames.ecef2enuv')
def _b(V, L, cid):
    f = _fn(L, cid)
    nv = list(zip('xyz', ECEF)) + [('x0', ECEF[0] - 100.0), ('y0', ECEF[1] + 50.0), ('z0', ECEF[2] - 25.0), ('lat', 48.0), ('lon', 11.5)]
    return _scalar_profiles(nv, lambda a: f(a['x'], a['y'], a['z'], a['x0'], a['y0'], a['z0'], a['lat'], a['lon']), extra_tags=('deg',))


@builder('frames.ecef2llf', 'frames.llf2ecef')
def _b(V, L, cid):
    f = _fn(L, cid)
    return _scalar_profiles([('lat', 0.8), ('lon', 0.2)], lambda a: f(a['lat'], a['lon']), extra_tags=('rad',))


@builder('frames.eci2ecef')
def _b(V, L, cid):
    f = _fn(L, cid)
    return _scalar_profiles([('w', 7.292115e-5), ('t', 3600.0)], lambda a: f(a['w'], a['t']))


@builder('frames.enu2aer')
def _b(V, L, cid):
    f = _fn(L, cid)
    return _scalar_profiles([('east', 100.0), ('north', -250.0), ('up', 30.0)], lambda a, **fl: f(a['east'], a['north'], a['up'], **fl),
                            flagsets=((('deg', True),), (('deg', False),)))


@builder('frames.aer2enu')
def _b(V, L, cid):
    f = _fn(L, cid)
    return (_scalar_profiles([('az', 30.0), ('elev', 10.0), ('slant_range', 1000.0)], lambda a, **fl: f(a['az'], a['elev'], a['slant_range'], **fl), flagsets=((('deg', True),),), extra_tags=('deg',))
            + _scalar_profiles([('az', 0.5), ('elev', 0.2), ('slant_range', 1000.0)], lambda a, **fl: f(a['az'], a['elev'], a['slant_range'], **fl), flagsets=((('deg', False),),), extra_tags=('rad',)))


@builder('frames.enu2dca', 'frames.dca2enu')
def _b(V, L, cid):
    f = _fn(L, cid)
    n = ['east', 'north', 'up'] if cid.endswith('enu2dca') else ['down', 'cross', 'above']
    return (_scalar_profiles(list(zip(n, (100.0, -250.0, 30.0))) + [('angle', 35.0)], lambda a, **fl: f(a[n[0]], a[n[1]], a[n[2]], a['angle'], **fl), flagsets=((('deg', True),),), extra_tags=('deg',))
            + _scalar_profiles(list(zip(n, (100.0, -250.0, 30.0))) + [('angle', 0.6)], lambda a, **fl: f(a[n[0]], a[n[1]], a[n[2]], a['angle'], **fl), flagsets=((('deg', False),),), extra_tags=('rad',)))


@builder('frames.enu2uvw')
def _b(V, L, cid):
    f = _fn(L, cid)
    nv = [('east', 100.0), ('north', -250.0), ('up', 30.0), ('lat', 48.0), ('lon', 11.5)]
    nr = [('east', 100.0), ('north', -250.0), ('up', 30.0), ('lat', 0.8), ('lon', 0.2)]
    call = lambda a, **fl: f(a['east'], a['north'], a['up'], a['lat'], a['lon'], **fl)
    return _scalar_profiles(nv, call, flagsets=((('angle_unit', 'deg'),),), extra_tags=('deg',)) + _scalar_profiles(nr, call, flagsets=((('angle_unit', 'rad'),),), extra_tags=('rad',))


@builder('frames.enu2ecef')
def _b(V, L, cid):
    f = _fn(L, cid)
    nv = [('east', 100.0), ('north', -250.0), ('up', 30.0), ('lat', 48.0), ('lon', 11.5), ('h', 520.0)]
    return _scalar_profiles(nv, lambda a: f(a['east'], a['north'], a['up'], a['lat'], a['lon'], a['h']), extra_tags=('deg',))


@builder('frames.geodetic2enu')
def _b(V, L, cid):
    f = _fn(L, cid)
    nv = [('lat', 48.01), ('lon', 11.52), ('h', 600.0), ('lat0', 48.0), ('lon0', 11.5), ('h0', 520.0)]
    return _scalar_profiles(nv, lambda a: f(a['lat'], a['lon'], a['h'], a['lat0'], a['lon0'], a['h0']), extra_tags=('deg',))


@builder('frames.ned2enu', 'frames.enu2ned')
def _b(V, L, cid):
    f = _fn(L, cid)
    return [C('(3,)', lambda: {'x': V.v}, lambda a: f(a['x']), tags=('single',)), C('(N,3)', lambda: {'x': V.XYZ}, lambda a: f(a['x']), tags=('batch',))]


@builder('wmm.geodetic2spherical')
def _b(V, L, cid):
    f = _fn(L, cid)
    return _scalar_profiles([('lat', 0.8), ('lon', 0.2), ('h', 0.5)], lambda a: f(a['lat'], a['lon'], a['h']), extra_tags=('rad',))


@builder('wgs84.international_gravity')
def _b(V, L, cid):
    f = _fn(L, cid)
    return [c for ep in ('1980', '1930', '1967') for c in _scalar_profiles([('lat', 48.0)], lambda a, **fl: f(a['lat'], **fl), flagsets=((('epoch', ep),),), extra_tags=('deg',))]


@builder('wgs84.welmec_gravity')
def _b(V, L, cid):
    f = _fn(L, cid)
    return _scalar_profiles([('lat', 48.0), ('h', 520.0)], lambda a: f(a['lat'], a['h']), extra_tags=('deg',))


def _scalar_on_selves(selves, names_values, call, label='', extra_tags=()):
    out = []
    for slabel, mk, _ in selves:
        for c in _scalar_profiles(names_values, call, extra_tags=extra_tags):
            out.append(dict(c, profile=f'{slabel} {label} {c["profile"]}'.replace('  ', ' '), make=(lambda mk=mk, m0=c['make']: dict(m0(), self=mk()))))
    return out


@builder('ReferenceEllipsoid.normal_gravity')
def _b(V, L, cid):
    s = AUTO_SELF['ReferenceEllipsoid'](V, L)
    return (_scalar_on_selves(s, [('lat', 48.0)], lambda a: a['self'].normal_gravity(a['lat']), 'lat', ('deg',))
            + _scalar_on_selves(s, [('lat', 48.0), ('h', 520.0)], lambda a: a['self'].normal_gravity(a['lat'], a['h']), 'lat,h', ('deg',)))


@builder('ReferenceEllipsoid.vertical_curvature_radius', 'ReferenceEllipsoid.meridian_curvature_radius')
def _b(V, L, cid):
    name = cid.split('.')[1]
    return _scalar_on_selves(AUTO_SELF['ReferenceEllipsoid'](V, L), [('lat', 0.8)], lambda a: getattr(a['self'], name)(a['lat']), 'lat', ('rad',))


@builder('ReferenceEllipsoid()', 'WGS()')
def _b(V, L, cid):
    cls = L.GD.ReferenceEllipsoid if cid.startswith('Ref') else L.WG.WGS
    return [C('defaults', lambda: {}, lambda a: cls()),
            C('earth values', lambda: {}, lambda a: cls(6378137.0, 1 / 298.257223563, 3.986004418e14, 7.292115e-5)),
            C('scalar-as-ndarray 0-d', lambda: {'a': np.array(6378137.0), 'f': np.array(1 / 298.257223563)}, lambda a: cls(a['a'], a['f'], 3.986004418e14, 7.292115e-5))]


# ---- mathfuncs, geometry, metrics, core --------------------------------------------------------------------------------
@builder('mathfuncs.cosd', 'mathfuncs.sind')
def _b(V, L, cid):
    f = _fn(L, cid)
    return [C('float', lambda: {}, lambda a: f(40.0), tags=('deg',)),
            C('(3,) deg', lambda: {'x': V.angd}, lambda a: f(a['x']), tags=('deg', 'single')),
            C('(N,3) deg', lambda: {'x': V.ANGD}, lambda a: f(a['x']), tags=('deg', 'batch'))]


@builder('mathfuncs.skew')
def _b(V, L, cid):
    f = _fn(L, cid)
    return [C('(3,)', lambda: {'x': V.v}, lambda a: f(a['x']), tags=('single',))]


@builder('geometry.circle')
def _b(V, L, cid):
    f = _fn(L, cid)
    return [C('center=(2,)', lambda: {'center': V.v[:2]}, lambda a: f(a['center'], 2.0, 8))]


@builder('geometry.ellipse')
def _b(V, L, cid):
    f = _fn(L, cid)
    return [C('center, axes', lambda: {'center': V.v[:2], 'axes': np.array([2.0, 1.0])}, lambda a: f(a['center'], 0.3, a['axes'], 8))]


@builder('metrics.angular_distance', 'metrics.identity_deviation', 'metrics.chordal')
def _b(V, L, cid):
    f = _fn(L, cid)
    out = [C('3x3', lambda: {'R1': V.R, 'R2': V.R2}, lambda a: f(a['R1'], a['R2']), tags=('single',))]
    if cid.endswith('chordal'):
        out.append(C('Nx3x3', lambda: {'R1': V.RR, 'R2': V.RR2}, lambda a: f(a['R1'], a['R2']), tags=('batch',)))
    return out


@builder('metrics.euclidean', 'metrics.rmse')
def _b(V, L, cid):
    f = _fn(L, cid)
    out = [C('(3,)', lambda: {'x': V.v, 'y': V.gyr}, lambda a: f(a['x'], a['y']), tags=('single',)),
           C('(N,3)', lambda: {'x': V.XYZ, 'y': V.GYR}, lambda a: f(a['x'], a['y']), tags=('batch',))]
    if cid.endswith('euclidean'):
        out.append(C('(N,3) axis=0', lambda: {'x': V.XYZ, 'y': V.GYR}, lambda a: f(a['x'], a['y'], axis=0), tags=('batch',)))
    return out


@builder('metrics.rmse_matrices')
def _b(V, L, cid):
    f = _fn(L, cid)
    return [C('Nx3x3', lambda: {'A': V.RR, 'B': V.RR2}, lambda a: f(a['A'], a['B']), tags=('batch',)),
            C('Nx3x3 element_wise', lambda: {'A': V.RR, 'B': V.RR2}, lambda a: f(a['A'], a['B'], element_wise=True), tags=('batch',))]


@builder('metrics.qad', 'metrics.qcip', 'metrics.qdist', 'metrics.qeip')
def _b(V, L, cid):
    f = _fn(L, cid)
    return [C('unit', lambda: {'q1': V.q, 'q2': V.p}, lambda a: f(a['q1'], a['q2']), tags=('unit', 'single')),
            C('nonunit', lambda: {'q1': V.qn, 'q2': V.pn}, lambda a: f(a['q1'], a['q2']), tags=('nonunit', 'single')),
            C('batch-nonunit', lambda: {'q1': V.Qn, 'q2': V.Qn[::-1].copy()}, lambda a: f(a['q1'], a['q2']), tags=('nonunit', 'batch'))]


@builder('core.get_nan_intervals')
def _b(V, L, cid):
    f = _fn(L, cid)
    return [C('1-D with NaN', lambda: {'data': V.nan1}, lambda a: f(a['data']), tags=('single',)),
            C('(N,4) with NaN row', lambda: {'data': V.Qnan}, lambda a: f(a['data']), tags=('batch',)),
            C('(N,4) without NaN', lambda: {'data': V.Q}, lambda a: f(a['data']), tags=('batch',))]


# ---- ahrs.filters: single-frame estimators -------------------------------------------------------------------------------
def _am_ctor_cases(V, cls, extra=(), single=True, rng=None):
    """Constructor profiles shared by the acc/mag estimators: single sample, batch, plus class-specific optional arrays."""
    out = []
    if single:
        out.append(C('single sample', lambda: {'acc': V.acc, 'mag': V.mag}, lambda a: cls(a['acc'], a['mag']), tags=('nonunit', 'single'), rng=rng))
    out.append(C('batch N=4', lambda: {'acc': V.ACC, 'mag': V.MAG}, lambda a: cls(a['acc'], a['mag']), tags=('nonunit', 'batch'), rng=rng))
    out.append(C('batch N=1', lambda: {'acc': V.ACC[:1].copy(), 'mag': V.MAG[:1].copy()}, lambda a: cls(a['acc'], a['mag']), tags=('nonunit', 'batch'), rng=rng))
    for label, names, call in extra:
        out.append(C(label, lambda names=names: dict({'acc': V.ACC, 'mag': V.MAG}, **{n: getattr(V, src) for n, src in names}), call, tags=('batch', 'optional-array'), rng=rng))
    return out


def _retained(V, cls, kwname, src, rng=None, **ctor_kw):
    """estimate() on a filter built with a caller-owned optional array: the array stays caller-owned and is judged after every call."""
    def make():
        w = getattr(V, src)
        return {'self': cls(**dict(ctor_kw, **{kwname: w})), kwname: w, 'acc': V.acc, 'mag': V.mag}
    return C(f'single sample, filter built with caller-owned {kwname}=', make, lambda a: a['self'].estimate(a['acc'], a['mag']), tags=('single', 'optional-array'), keep=(kwname,), rng=rng)


def _est_cases(V, mk_self, extra_call=None, rng=None, names=('acc', 'mag')):
    call = extra_call or (lambda a: a['self'].estimate(a[names[0]], a[names[1]]))
    return [C('single sample', lambda: {'self': mk_self(), names[0]: V.acc, names[1]: V.mag}, call, tags=('nonunit', 'single'), rng=rng)]


@builder('Davenport()')
def _b(V, L, cid):
    D = L.F.Davenport
    return _am_ctor_cases(V, D, extra=[('batch weights=', [('weights', 'w2')], lambda a: D(a['acc'], a['mag'], weights=a['weights'])),
                                    ('batch weights= magnetic_dip=', [('weights', 'w2')], lambda a: D(a['acc'], a['mag'], weights=a['weights'], magnetic_dip=64.0))])


@builder('Davenport.estimate')
def _b(V, L, cid):
    return _est_cases(V, lambda: L.F.Davenport()) + [_retained(V, L.F.Davenport, 'weights', 'w2')]


@builder('FAMC()', 'SAAM()')
def _b(V, L, cid):
    cls = getattr(L.F, cid[:-2])
    out = _am_ctor_cases(V, cls)
    if cid == 'SAAM()':
        out.append(C('batch representation=rotmat', lambda: {'acc': V.ACC, 'mag': V.MAG}, lambda a: cls(a['acc'], a['mag'], representation='rotmat'), tags=('batch',)))
    return out


@builder('FAMC.estimate', 'SAAM.estimate', 'QUEST.estimate')
def _b(V, L, cid):
    cls = getattr(L.F, cid.split('.')[0])
    return _est_cases(V, lambda: cls()) + ([_retained(V, cls, 'weights', 'w2')] if cid.startswith('QUEST') else [])


@builder('FLAE()')
def _b(V, L, cid):
    F_ = L.F.FLAE
    out = _am_ctor_cases(V, F_, extra=[('batch weights=', [('weights', 'w2')], lambda a: F_(a['acc'], a['mag'], weights=a['weights'])),
                                    ('batch weights= magnetic_dip= method=newton', [('weights', 'w2')], lambda a: F_(a['acc'], a['mag'], method='newton', weights=a['weights'], magnetic_dip=64.0))])
    out.append(C('no data, weights=', lambda: {'weights': V.w2}, lambda a: F_(weights=a['weights']), tags=('optional-array',)))
    out.append(C('batch method=eig', lambda: {'acc': V.ACC, 'mag': V.MAG}, lambda a: F_(a['acc'], a['mag'], method='eig'), tags=('batch',)))
    return out


@builder('FLAE.estimate')
def _b(V, L, cid):
    return [C(f'single sample method={m}', lambda: {'self': L.F.FLAE(magnetic_dip=64.0), 'acc': V.acc, 'mag': V.mag}, lambda a, m=m: a['self'].estimate(a['acc'], a['mag'], method=m), tags=('nonunit', 'single'))
            for m in ('symbolic', 'eig', 'newton')] + [_retained(V, L.F.FLAE, 'weights', 'w2', magnetic_dip=64.0)]


@builder('FQA()')
def _b(V, L, cid):
    Fq = L.F.FQA
    out = _am_ctor_cases(V, Fq, extra=[('batch mag_ref=', [('mag_ref', 'mref')], lambda a: Fq(a['acc'], a['mag'], mag_ref=a['mag_ref']))])
    out.append(C('batch acc only', lambda: {'acc': V.ACC}, lambda a: Fq(a['acc']), tags=('batch',)))
    out.append(C('no data, mag_ref=', lambda: {'mag_ref': V.mref}, lambda a: Fq(mag_ref=a['mag_ref']), tags=('optional-array',)))
    return out


@builder('FQA.estimate')
def _b(V, L, cid):
    return _est_cases(V, lambda: L.F.FQA(mag_ref=np.array([19.1, 1.7, 43.2]))) + [_retained(V, L.F.FQA, 'mag_ref', 'mref')] + [C('acc only', lambda: {'self': L.F.FQA(), 'acc': V.acc}, lambda a: a['self'].estimate(a['acc']), tags=('single',))]


@builder('OLEQ()')
def _b(V, L, cid):
    Oq = L.F.OLEQ
    out = _am_ctor_cases(V, Oq, rng='np', extra=[('batch weights= magnetic_ref=', [('weights', 'w2'), ('magnetic_ref', 'mref')], lambda a: Oq(a['acc'], a['mag'], weights=a['weights'], magnetic_ref=a['magnetic_ref'])),
                                              ('batch magnetic_ref= frame=ENU', [('magnetic_ref', 'mref')], lambda a: Oq(a['acc'], a['mag'], magnetic_ref=a['magnetic_ref'], frame='ENU'))])
    out.append(C('no data, weights= magnetic_ref=', lambda: {'weights': V.w2, 'magnetic_ref': V.mref}, lambda a: Oq(weights=a['weights'], magnetic_ref=a['magnetic_ref']), tags=('optional-array',)))
    return out


@builder('OLEQ.estimate')
def _b(V, L, cid):
    return _est_cases(V, lambda: L.F.OLEQ(magnetic_ref=np.array([19.1, 1.7, 43.2])), rng='np') + [_retained(V, L.F.OLEQ, 'weights', 'w2', rng='np', magnetic_ref=60.0),
                                                                                                 _retained(V, L.F.OLEQ, 'magnetic_ref', 'mref', rng='np')]


@builder('OLEQ.WW', 'ROLEQ.WW')
def _b(V, L, cid):
    cls = getattr(L.F, cid.split('.')[0])
    return [C('Db, Dr', lambda: {'self': cls(magnetic_ref=60.0), 'Db': V.acc, 'Dr': V.mref}, lambda a: a['self'].WW(a['Db'], a['Dr']), tags=('nonunit',))]


@builder('QUEST()')
def _b(V, L, cid):
    Qs = L.F.QUEST
    return _am_ctor_cases(V, Qs, extra=[('batch weights= magnetic_dip=(3,)', [('weights', 'w2'), ('magnetic_dip', 'mref')], lambda a: Qs(a['acc'], a['mag'], weights=a['weights'], magnetic_dip=a['magnetic_dip']))])


@builder('Tilt()')
def _b(V, L, cid):
    T = L.F.Tilt
    out = _am_ctor_cases(V, T)
    out += [C('batch acc only', lambda: {'acc': V.ACC}, lambda a: T(a['acc']), tags=('batch',)),
            C('batch representation=angles', lambda: {'acc': V.ACC, 'mag': V.MAG}, lambda a: T(a['acc'], a['mag'], representation='angles'), tags=('batch',)),
            C('batch representation=rotmat', lambda: {'acc': V.ACC, 'mag': V.MAG}, lambda a: T(a['acc'], a['mag'], representation='rotmat'), tags=('batch',))]
    return out


@builder('Tilt.estimate')
def _b(V, L, cid):
    return [C(f'single sample representation={r}', lambda: {'self': L.F.Tilt(), 'acc': V.acc, 'mag': V.mag}, lambda a, r=r: a['self'].estimate(a['acc'], a['mag'], representation=r), tags=('single',))
            for r in ('quaternion', 'angles', 'rotmat')] + [C('acc only', lambda: {'self': L.F.Tilt(), 'acc': V.acc}, lambda a: a['self'].estimate(a['acc']), tags=('single',))]


@builder('TRIAD()')
def _b(V, L, cid):
    T = L.F.TRIAD
    return [C('single sample', lambda: {'w1': V.acc, 'w2': V.mag}, lambda a: T(a['w1'], a['w2']), tags=('single',)),
            C('batch N=4', lambda: {'w1': V.ACC, 'w2': V.MAG}, lambda a: T(a['w1'], a['w2']), tags=('batch',)),
            C('batch v1= v2= quaternion', lambda: {'w1': V.ACC, 'w2': V.MAG, 'v1': V.gref, 'v2': V.mref}, lambda a: T(a['w1'], a['w2'], a['v1'], a['v2'], representation='quaternion'), tags=('batch', 'optional-array')),
            C('single v1= v2= ENU', lambda: {'w1': V.acc, 'w2': V.mag, 'v1': V.gref, 'v2': V.mref}, lambda a: T(a['w1'], a['w2'], a['v1'], a['v2'], frame='ENU'), tags=('single', 'optional-array')),
            C('no data v1= v2=', lambda: {'v1': V.gref, 'v2': V.mref}, lambda a: T(v1=a['v1'], v2=a['v2']), tags=('optional-array',))]


@builder('TRIAD.estimate')
def _b(V, L, cid):
    mk = lambda: L.F.TRIAD(v1=np.array([0.0, 0.0, 2.0]), v2=np.array([19.1, 1.7, 43.2]))
    return [C(f'single sample representation={r}', lambda: {'self': mk(), 'w1': V.acc, 'w2': V.mag}, lambda a, r=r: a['self'].estimate(a['w1'], a['w2'], representation=r), tags=('single',)) for r in ('rotmat', 'quaternion')]


# ---- ahrs.filters: recursive filters --------------------------------------------------------------------------------------
def _gam(V):
    return {'gyr': V.GYR, 'acc': V.ACC, 'mag': V.MAG}


def _upd(V, imu=False):
    d = {'q': V.q, 'gyr': V.gyr, 'acc': V.acc}
    if not imu:
        d['mag'] = V.mag
    return d


@builder('AngularRate()')
def _b(V, L, cid):
    AR = L.F.AngularRate
    return [C('batch gyr', lambda: {'gyr': V.GYR}, lambda a: AR(a['gyr']), tags=('batch',)),
            C('batch gyr q0=nonunit', lambda: {'gyr': V.GYR, 'q0': V.qn}, lambda a: AR(a['gyr'], q0=a['q0']), tags=('batch', 'optional-array', 'nonunit')),
            C('batch gyr method=series order=3', lambda: {'gyr': V.GYR, 'q0': V.q}, lambda a: AR(a['gyr'], q0=a['q0'], method='series', order=3), tags=('batch', 'optional-array')),
            C('batch gyr method=integration angles', lambda: {'gyr': V.GYR}, lambda a: AR(a['gyr'], method='integration', representation='angles'), tags=('batch',)),
            C('batch gyr representation=rotmat', lambda: {'gyr': V.GYR}, lambda a: AR(a['gyr'], representation='rotmat'), tags=('batch',))]


@builder('AngularRate.update')
def _b(V, L, cid):
    mk = lambda: L.F.AngularRate()
    return [C('closed', lambda: {'self': mk(), 'q': V.q, 'gyr': V.gyr}, lambda a: a['self'].update(a['q'], a['gyr']), tags=('unit', 'single')),
            C('closed q=nonunit', lambda: {'self': mk(), 'q': V.qn, 'gyr': V.gyr}, lambda a: a['self'].update(a['q'], a['gyr']), tags=('nonunit', 'single')),
            C('series order=2', lambda: {'self': mk(), 'q': V.q, 'gyr': V.gyr}, lambda a: a['self'].update(a['q'], a['gyr'], method='series', order=2), tags=('unit', 'single'))]


@builder('AngularRate.integrate_angular_positions')
def _b(V, L, cid):
    return [C(f'representation={r}', lambda: {'self': L.F.AngularRate(), 'gyr': V.GYR}, lambda a, r=r: a['self'].integrate_angular_positions(a['gyr'], 0.01, representation=r), tags=('batch',))
            for r in ('angles', 'quaternion', 'rotmat')]


@builder('AQUA()')
def _b(V, L, cid):
    Aq = L.F.AQUA
    return [C('single acc,mag', lambda: {'acc': V.acc, 'mag': V.mag}, lambda a: Aq(a['acc'], a['mag']), tags=('single',)),
            C('batch acc only', lambda: {'acc': V.ACC}, lambda a: Aq(a['acc']), tags=('batch',)),
            C('batch acc,mag', lambda: {'acc': V.ACC, 'mag': V.MAG}, lambda a: Aq(a['acc'], a['mag']), tags=('batch',)),
            C('batch acc,gyr', lambda: {'acc': V.ACC, 'gyr': V.GYR}, lambda a: Aq(a['acc'], gyr=a['gyr']), tags=('batch',)),
            C('batch acc,mag,gyr', lambda: _gam(V), lambda a: Aq(a['acc'], a['mag'], a['gyr']), tags=('batch',)),
            C('batch acc,mag,gyr q0= adaptive', lambda: dict(_gam(V), q0=V.q), lambda a: Aq(a['acc'], a['mag'], a['gyr'], q0=a['q0'], adaptive=True), tags=('batch', 'optional-array')),
            # the other local frame (an option the class validates): same ownership and repeatability
            C('batch acc,mag,gyr frame=ENU', lambda: _gam(V), lambda a: Aq(a['acc'], a['mag'], a['gyr'], frame='ENU'), tags=('batch',)),
            C('batch acc,gyr frame=ENU', lambda: {'acc': V.ACC, 'gyr': V.GYR}, lambda a: Aq(a['acc'], gyr=a['gyr'], frame='ENU'), tags=('batch',)),
            C('single acc,mag frame=ENU', lambda: {'acc': V.acc, 'mag': V.mag}, lambda a: Aq(a['acc'], a['mag'], frame='ENU'), tags=('single',))]


@builder('AQUA.estimate', 'AQUA.init_q')
def _b(V, L, cid):
    name = cid.split('.')[1]
    return [C('acc,mag', lambda: {'self': L.F.AQUA(), 'acc': V.acc, 'mag': V.mag}, lambda a: getattr(a['self'], name)(a['acc'], a['mag']), tags=('single',)),
            C('acc only', lambda: {'self': L.F.AQUA(), 'acc': V.acc}, lambda a: getattr(a['self'], name)(a['acc']), tags=('single',))]


@builder('AQUA.Omega', 'EKF.Omega', 'UKF.Omega', 'FKF.Omega4')
def _b(V, L, cid):
    cname, name = cid.split('.')
    return [C('x=(3,)', lambda: {'self': getattr(L.F, cname)(), 'x': V.gyr}, lambda a: getattr(a['self'], name)(a['x']), tags=('single',))]


@builder('AQUA.updateIMU', 'AQUA.updateMARG')
def _b(V, L, cid):
    name = cid.split('.')[1]
    imu = name == 'updateIMU'
    args = (lambda a: (a['q'], a['gyr'], a['acc'])) if imu else (lambda a: (a['q'], a['gyr'], a['acc'], a['mag']))
    return [C('fresh filter per call', lambda: _upd(V, imu), lambda a: getattr(L.F.AQUA(), name)(*args(a)), tags=('unit', 'single')),
            C('fresh adaptive filter per call', lambda: _upd(V, imu), lambda a: getattr(L.F.AQUA(adaptive=True), name)(*args(a)), tags=('unit', 'single')),
            C('same filter', lambda: dict(_upd(V, imu), self=L.F.AQUA()), lambda a: getattr(a['self'], name)(*args(a)), tags=('unit', 'single')),
            # the adaptive gain is a function of the CURRENT sample only: the same adaptive filter answers the same call alike, also for a sample
            # whose magnitude is far from gravity (1.5 g) and for one in the transition band (1.15 g)
            C('same adaptive filter, 1.5 g sample', lambda: dict(_upd(V, imu), self=L.F.AQUA(adaptive=True), scale=1.5 * 9.81),
              lambda a: getattr(a['self'], name)(*((a['q'], a['gyr'], a['acc'] / np.linalg.norm(a['acc']) * a['scale']) + ((a['mag'],) if not imu else ()))), tags=('unit', 'single')),
            C('same adaptive filter, 1.0 g sample', lambda: dict(_upd(V, imu), self=L.F.AQUA(adaptive=True, alpha=0.3), scale=9.81),
              lambda a: getattr(a['self'], name)(*((a['q'], a['gyr'], a['acc'] / np.linalg.norm(a['acc']) * a['scale']) + ((a['mag'],) if not imu else ()))), tags=('unit', 'single')),
            C('same adaptive filter, 0.93 g sample', lambda: dict(_upd(V, imu), self=L.F.AQUA(adaptive=True, alpha=0.3), scale=9.12),
              lambda a: getattr(a['self'], name)(*((a['q'], a['gyr'], a['acc'] / np.linalg.norm(a['acc']) * a['scale']) + ((a['mag'],) if not imu else ()))), tags=('unit', 'single'))]


@builder('aqua.slerp_I')
def _b(V, L, cid):
    f = _fn(L, cid)
    return [C('lerp branch', lambda: {'q': rq.qunit(np.array([0.99, 0.05, -0.08, 0.02]))}, lambda a: f(a['q'], 0.3, 0.9), tags=('unit',)),
            C('slerp branch', lambda: {'q': V.q}, lambda a: f(a['q'], 0.3, 0.9), tags=('unit',))]


@builder('aqua.adaptive_gain')
def _b(V, L, cid):
    f = _fn(L, cid)
    return [C('a_local=(3,)', lambda: {'a_local': V.acc}, lambda a: f(a['a_local']), tags=('single',))]


@builder('Complementary()')
def _b(V, L, cid):
    Co = L.F.Complementary
    return [C('batch gyr,acc', lambda: {'gyr': V.GYR, 'acc': V.ACC}, lambda a: Co(a['gyr'], a['acc']), tags=('batch',)),
            C('batch gyr,acc,mag', lambda: _gam(V), lambda a: Co(a['gyr'], a['acc'], a['mag']), tags=('batch',)),
            C('batch gyr,acc,mag q0= w0=', lambda: dict(_gam(V), q0=V.q, w0=V.w0), lambda a: Co(a['gyr'], a['acc'], a['mag'], q0=a['q0'], w0=a['w0']), tags=('batch', 'optional-array'))]


@builder('Complementary.am_estimation')
def _b(V, L, cid):
    mk = lambda: L.F.Complementary()
    return [C('single acc,mag', lambda: {'self': mk(), 'acc': V.acc, 'mag': V.mag}, lambda a: a['self'].am_estimation(a['acc'], a['mag']), tags=('single',)),
            C('batch acc,mag', lambda: {'self': mk(), 'acc': V.ACC, 'mag': V.MAG}, lambda a: a['self'].am_estimation(a['acc'], a['mag']), tags=('batch',)),
            C('batch acc only', lambda: {'self': mk(), 'acc': V.ACC}, lambda a: a['self'].am_estimation(a['acc']), tags=('batch',))]


@builder('EKF()')
def _b(V, L, cid):
    E = L.F.EKF
    return [C('batch gyr,acc', lambda: {'gyr': V.GYR, 'acc': V.ACC}, lambda a: E(a['gyr'], a['acc']), tags=('batch',)),
            C('batch gyr,acc,mag', lambda: _gam(V), lambda a: E(a['gyr'], a['acc'], a['mag']), tags=('batch',)),
            C('batch gyr,acc,mag ENU (default reference)', lambda: _gam(V), lambda a: E(a['gyr'], a['acc'], a['mag'], frame='ENU'), tags=('batch',)),
            C('batch gyr,acc,mag q0= P= magnetic_ref= noises=', lambda: dict(_gam(V), q0=V.q, P=V.P4, magnetic_ref=V.mref, noises=np.array([0.1, 0.2, 0.3])),
              lambda a: E(a['gyr'], a['acc'], a['mag'], q0=a['q0'], P=a['P'], magnetic_ref=a['magnetic_ref'], noises=a['noises']), tags=('batch', 'optional-array')),
            C('batch ENU magnetic_ref=', lambda: dict(_gam(V), magnetic_ref=V.mref), lambda a: E(a['gyr'], a['acc'], a['mag'], frame='ENU', magnetic_ref=a['magnetic_ref']), tags=('batch', 'optional-array')),
            C('no data P= magnetic_ref=', lambda: {'P': V.P4, 'magnetic_ref': V.mref}, lambda a: E(P=a['P'], magnetic_ref=a['magnetic_ref']), tags=('optional-array',)),
            # the per-sensor variance options, alone (over the default variances) and over a caller's noises sequence (array and list)
            C('batch gyr,acc var_gyr= var_acc=', lambda: {'gyr': V.GYR, 'acc': V.ACC}, lambda a: E(a['gyr'], a['acc'], var_gyr=0.01, var_acc=4.0), tags=('batch',)),
            C('batch gyr,acc (default variances again)', lambda: {'gyr': V.GYR, 'acc': V.ACC}, lambda a: E(a['gyr'], a['acc']), tags=('batch',)),
            C('batch gyr,acc,mag noises= var_mag=', lambda: dict(_gam(V), noises=np.array([0.01, 0.04, 0.09])), lambda a: E(a['gyr'], a['acc'], a['mag'], noises=a['noises'], var_mag=0.5), tags=('batch', 'optional-array')),
            C('no data noises=list var_acc=', lambda: {'noises': [0.01, 0.04, 0.09], 'P': V.P4}, lambda a: E(noises=a['noises'], var_acc=2.0, P=a['P']), keep=('noises',), tags=('optional-array',)),
            C('no data (default variances)', lambda: {'P': V.P4}, lambda a: E(P=a['P']), tags=('optional-array',))]


@builder('EKF.update')
def _b(V, L, cid):
    mk = lambda: L.F.EKF(magnetic_ref=60.0)
    return [C('fresh filter per call, IMU', lambda: _upd(V, True), lambda a: mk().update(a['q'], a['gyr'], a['acc']), tags=('unit', 'single')),
            C('fresh filter per call, MARG', lambda: _upd(V), lambda a: mk().update(a['q'], a['gyr'], a['acc'], a['mag']), tags=('unit', 'single'))]


@builder('EKF.f')
def _b(V, L, cid):
    return [C('q,omega', lambda: {'self': L.F.EKF(magnetic_ref=60.0), 'q': V.q, 'omega': V.gyr}, lambda a: a['self'].f(a['q'], a['omega'], 0.01), tags=('unit',))]


@builder('EKF.dfdq')
def _b(V, L, cid):
    return [C('omega', lambda: {'self': L.F.EKF(magnetic_ref=60.0), 'omega': V.gyr}, lambda a: a['self'].dfdq(a['omega'], 0.01), tags=('single',))]


@builder('EKF.h', 'EKF.dhdq')
def _b(V, L, cid):
    name = cid.split('.')[1]
    out = [C('q=unit', lambda: {'self': L.F.EKF(magnetic_ref=60.0), 'q': V.q}, lambda a: getattr(a['self'], name)(a['q']), tags=('unit',)),
           C('q=nonunit', lambda: {'self': L.F.EKF(magnetic_ref=60.0), 'q': V.qn}, lambda a: getattr(a['self'], name)(a['q']), tags=('nonunit',))]
    if name == 'dhdq':
        out.append(C('q=unit mode=refactored', lambda: {'self': L.F.EKF(magnetic_ref=60.0), 'q': V.q}, lambda a: a['self'].dhdq(a['q'], mode='refactored'), tags=('unit',)))
    return out


@builder('FKF()')
def _b(V, L, cid):
    return [C('batch gyr,acc,mag', lambda: _gam(V), lambda a: L.F.FKF(a['gyr'], a['acc'], a['mag']), tags=('batch',))]


@builder('FKF.measurement_quaternion_acc_mag')
def _b(V, L, cid):
    return [C('q,acc,mag', lambda: {'self': L.F.FKF(), 'q': V.q, 'acc': V.acc, 'mag': V.mag}, lambda a: a['self'].measurement_quaternion_acc_mag(a['q'], a['acc'], a['mag']), tags=('unit', 'single'))]


@builder('FKF.kalman_update')
def _b(V, L, cid):
    def mk():
        return {'self': L.F.FKF(), 'q_1': V.q, 'q_am': V.p, 'Pk_1': V.P4 * 0.01, 'Phi': np.identity(4) + 0.005 * rq.R(V.q).sum() * np.eye(4, k=1),
                'Sigma_eps': np.identity(4) * 1e-4, 'Sigma_v': np.identity(4) * 1e-2}
    return [C('all arrays', mk, lambda a: a['self'].kalman_update(a['q_1'], a['q_am'], a['Pk_1'], a['Phi'], a['Sigma_eps'], a['Sigma_v']), tags=('unit', 'optional-array'))]


@builder('Fourati()')
def _b(V, L, cid):
    Fo = L.F.Fourati
    return [C('batch gyr,acc,mag', lambda: _gam(V), lambda a: Fo(a['gyr'], a['acc'], a['mag']), tags=('batch',)),
            C('batch q0=nonunit magnetic_dip=(4,)', lambda: dict(_gam(V), q0=V.qn, magnetic_dip=V.mref4), lambda a: Fo(a['gyr'], a['acc'], a['mag'], q0=a['q0'], magnetic_dip=a['magnetic_dip']),
              tags=('batch', 'optional-array', 'nonunit'))]


@builder('Fourati.update', 'ROLEQ.update', 'Madgwick.updateMARG')
def _b(V, L, cid):
    cname, name = cid.split('.')
    mk = {'Fourati': lambda: L.F.Fourati(magnetic_dip=60.0), 'ROLEQ': lambda: L.F.ROLEQ(magnetic_ref=60.0), 'Madgwick': lambda: L.F.Madgwick()}[cname]
    call = lambda a: getattr(a['self'], name)(a['q'], a['gyr'], a['acc'], a['mag'])
    return [C('same filter q=unit', lambda: dict(_upd(V), self=mk()), call, tags=('unit', 'single')),
            C('same filter q=nonunit', lambda: dict(_upd(V), self=mk(), q=V.qn), call, tags=('nonunit', 'single')),
            C('same filter gyr=0', lambda: dict(_upd(V), self=mk(), gyr=np.zeros(3)), call, tags=('unit', 'single'))]


@builder('Madgwick.updateIMU')
def _b(V, L, cid):
    call = lambda a: a['self'].updateIMU(a['q'], a['gyr'], a['acc'])
    return [C('same filter q=unit', lambda: dict(_upd(V, True), self=L.F.Madgwick()), call, tags=('unit', 'single')),
            C('same filter q=nonunit', lambda: dict(_upd(V, True), self=L.F.Madgwick(), q=V.qn), call, tags=('nonunit', 'single'))]


@builder('Madgwick()', 'Mahony()')
def _b(V, L, cid):
    cls = getattr(L.F, cid[:-2])
    out = [C('batch gyr,acc', lambda: {'gyr': V.GYR, 'acc': V.ACC}, lambda a: cls(a['gyr'], a['acc']), tags=('batch',)),
           C('batch gyr,acc,mag', lambda: _gam(V), lambda a: cls(a['gyr'], a['acc'], a['mag']), tags=('batch',)),
           C('batch gyr,acc q0=', lambda: {'gyr': V.GYR, 'acc': V.ACC, 'q0': V.q}, lambda a: cls(a['gyr'], a['acc'], q0=a['q0']), tags=('batch', 'optional-array'))]
    if cid == 'Mahony()':
        out += [C('batch gyr,acc,mag q0= b0=', lambda: dict(_gam(V), q0=V.q, b0=V.b0), lambda a: cls(a['gyr'], a['acc'], a['mag'], q0=a['q0'], b0=a['b0']), tags=('batch', 'optional-array')),
                C('batch gyr,acc b0=', lambda: {'gyr': V.GYR, 'acc': V.ACC, 'b0': V.b0}, lambda a: cls(a['gyr'], a['acc'], b0=a['b0']), tags=('batch', 'optional-array'))]
    return out


@builder('Mahony.updateIMU', 'Mahony.updateMARG')
def _b(V, L, cid):
    name = cid.split('.')[1]
    imu = name == 'updateIMU'
    args = (lambda a: (a['q'], a['gyr'], a['acc'])) if imu else (lambda a: (a['q'], a['gyr'], a['acc'], a['mag']))
    return [C('fresh filter per call q=unit', lambda: _upd(V, imu), lambda a: getattr(L.F.Mahony(), name)(*args(a)), tags=('unit', 'single')),
            C('fresh filter per call q=nonunit', lambda: dict(_upd(V, imu), q=V.qn), lambda a: getattr(L.F.Mahony(), name)(*args(a)), tags=('nonunit', 'single')),
            C('fresh filter(b0=) per call', lambda: dict(_upd(V, imu), b0=V.b0), lambda a: getattr(L.F.Mahony(b0=a['b0']), name)(*args(a)), tags=('unit', 'optional-array'))]


@builder('ROLEQ()')
def _b(V, L, cid):
    Ro = L.F.ROLEQ
    return [C('batch gyr,acc,mag', lambda: _gam(V), lambda a: Ro(a['gyr'], a['acc'], a['mag']), tags=('batch',), rng='np'),
            C('batch weights= magnetic_ref= q0=', lambda: dict(_gam(V), weights=V.w2, magnetic_ref=V.mref, q0=V.q),
              lambda a: Ro(a['gyr'], a['acc'], a['mag'], weights=a['weights'], magnetic_ref=a['magnetic_ref'], q0=a['q0']), tags=('batch', 'optional-array'), rng='np'),
            C('no data weights= magnetic_ref=', lambda: {'weights': V.w2, 'magnetic_ref': V.mref}, lambda a: Ro(weights=a['weights'], magnetic_ref=a['magnetic_ref']), tags=('optional-array',)),
            C('batch gyr,acc,mag frame=ENU q0=', lambda: dict(_gam(V), q0=V.q), lambda a: Ro(a['gyr'], a['acc'], a['mag'], frame='ENU', q0=a['q0']), tags=('batch', 'optional-array'))]


@builder('ROLEQ.attitude_propagation')
def _b(V, L, cid):
    return [C('q,omega', lambda: {'self': L.F.ROLEQ(magnetic_ref=60.0), 'q': V.q, 'omega': V.gyr}, lambda a: a['self'].attitude_propagation(a['q'], a['omega'], 0.01), tags=('unit',))]


@builder('ROLEQ.oleq')
def _b(V, L, cid):
    return [C('acc,mag,q_omega', lambda: {'self': L.F.ROLEQ(magnetic_ref=60.0), 'acc': V.acc, 'mag': V.mag, 'q_omega': V.q}, lambda a: a['self'].oleq(a['acc'], a['mag'], a['q_omega']), tags=('unit', 'single'))]


@builder('UKF()')
def _b(V, L, cid):
    U = L.F.UKF
    return [C('batch gyr,acc', lambda: {'gyr': V.GYR, 'acc': V.ACC}, lambda a: U(a['gyr'], a['acc']), tags=('batch',)),
            C('batch q0= P= noise covariances', lambda: {'gyr': V.GYR, 'acc': V.ACC, 'q0': V.q, 'P': V.P4 * 0.01, 'Qt': np.eye(4) * 2e-4, 'Rm': np.eye(3) * 2e-2},
              lambda a: U(a['gyr'], a['acc'], q0=a['q0'], P=a['P'], process_noise_covariance=a['Qt'], measurement_noise_covariance=a['Rm']), tags=('batch', 'optional-array'))]


@builder('UKF.update')
def _b(V, L, cid):
    return [C('fresh filter per call', lambda: _upd(V, True), lambda a: L.F.UKF().update(a['q'], a['gyr'], a['acc']), tags=('unit', 'single')),
            C('fresh filter(P=) per call', lambda: dict(_upd(V, True), P=V.P4 * 0.01), lambda a: L.F.UKF(P=a['P']).update(a['q'], a['gyr'], a['acc']), tags=('unit', 'optional-array')),
            C('fresh filter(P=zeros) per call', lambda: dict(_upd(V, True), P=np.zeros((4, 4))), lambda a: L.F.UKF(P=a['P']).update(a['q'], a['gyr'], a['acc']), tags=('unit', 'optional-array'))]


@builder('UKF.compute_sigma_points')
def _b(V, L, cid):
    return [C('state, covariance', lambda: {'self': L.F.UKF(), 'state': V.q, 'cov': V.P4 * 0.01}, lambda a: a['self'].compute_sigma_points(a['state'], a['cov']), tags=('unit', 'optional-array')),
            # covariances that are not positive definite take the regularisation fallback of the factorisation
            C('state, singular covariance', lambda: {'self': L.F.UKF(), 'state': V.q, 'cov': np.diag([0.0, 0.01, 0.01, 0.01])}, lambda a: a['self'].compute_sigma_points(a['state'], a['cov']), tags=('unit', 'optional-array')),
            C('state, zero covariance', lambda: {'self': L.F.UKF(), 'state': V.q, 'cov': np.zeros((4, 4))}, lambda a: a['self'].compute_sigma_points(a['state'], a['cov']), tags=('unit', 'optional-array')),
            C('state, slightly indefinite covariance', lambda: {'self': L.F.UKF(), 'state': V.q, 'cov': np.diag([-1.5e-8, 0.01, 0.01, 0.01])}, lambda a: a['self'].compute_sigma_points(a['state'], a['cov']), tags=('unit', 'optional-array'))]


# ---- Sensors, WMM ---------------------------------------------------------------------------------------------------------------
@builder('Sensors()')
def _b(V, L, cid):
    S = L.SE.Sensors
    return [C('quaternions=(N,4) ndarray', lambda: {'quaternions': V.Q}, lambda a: S(a['quaternions']), tags=('unit', 'batch'), rng='sensors'),
            C('quaternions=QuaternionArray', lambda: {'quaternions': L.QuaternionArray(V.Q)}, lambda a: S(a['quaternions']), tags=('unit', 'batch'), rng='sensors'),
            C('num_samples=20', lambda: {}, lambda a: S(num_samples=20), rng='sensors'),
            C('num_samples=20 reference vectors, gyr_noise=(3,), yaw=(N,)', lambda: {'g': np.array([0.0, 0.0, 9.8]), 'm': V.mref, 'gn': np.array([0.01, 0.02, 0.03]), 'yaw': np.linspace(0.0, 30.0, 20)},
              lambda a: S(num_samples=20, reference_gravitational_vector=a['g'], reference_magnetic_vector=a['m'], gyr_noise=a['gn'], yaw=a['yaw'], in_degrees=True, normalized_mag=True),
              tags=('optional-array', 'deg'), rng='sensors')]


@builder('Sensors.angular_velocities')
def _b(V, L, cid):
    mk = lambda: L.SE.Sensors(num_samples=10)
    return [C('angular_positions=(N,3)', lambda: {'self': mk(), 'ap': V.ANG}, lambda a: a['self'].angular_velocities(a['ap'], 100.0), tags=('rad', 'batch'), rng='sensors'),
            C('angular_positions=QuaternionArray', lambda: {'self': mk(), 'ap': L.QuaternionArray(V.Q)}, lambda a: a['self'].angular_velocities(a['ap'], 100.0), tags=('batch',), rng='sensors')]


@builder('Sensors.generate')
def _b(V, L, cid):
    def call(a):
        a['self'].generate(a['rotations'])
        s = a['self']
        return (s.gyroscopes, s.accelerometers, s.magnetometers)
    return [C('rotations=(N,3,3)', lambda: {'self': L.SE.Sensors(V.Q), 'rotations': V.RR}, call, tags=('batch',), rng='sensors')]


@builder('sensors.random_angpos')
def _b(V, L, cid):
    f = _fn(L, cid)
    return [C('defaults n=30', lambda: {}, lambda a: f(30), rng='sensors'),
            C('span=list', lambda: {'span': [-1.0, 1.0]}, lambda a: f(30, span=a['span']), rng='sensors')]


@builder('WMM()')
def _b(V, L, cid):
    W = L.WM.WMM
    return [C('date, lat, lon, height', lambda: {}, lambda a: W(2022.5, 48.0, 11.5, 0.5)),
            C('datetime.date, ENU', lambda: {}, lambda a: W(datetime.date(2026, 3, 1), -33.0, 151.0, 0.1, frame='ENU')),
            C('scalar-as-ndarray 0-d', lambda: {'lat': np.array(48.0), 'lon': np.array(11.5), 'h': np.array(0.5)}, lambda a: W(2022.5, a['lat'], a['lon'], a['h']))]


@builder('WMM.magnetic_field')
def _b(V, L, cid):
    mk = lambda: L.WM.WMM(2022.5, 48.0, 11.5, 0.5)
    def call(a):
        a['self'].magnetic_field(a['lat'], a['lon'], a['h'], date=2023.25)
        return a['self'].magnetic_elements
    return [C('floats', lambda: {'self': mk(), 'lat': 10.0, 'lon': -70.0, 'h': 1.0}, call, tags=('deg',)),
            C('scalar-as-ndarray 0-d', lambda: {'self': mk(), 'lat': np.array(10.0), 'lon': np.array(-70.0), 'h': np.array(1.0)}, call, tags=('deg',)),
            C('scalar-as-ndarray shape(1,)', lambda: {'self': mk(), 'lat': np.array([10.0]), 'lon': np.array([-70.0]), 'h': np.array([1.0])}, call, tags=('deg',))]


@builder('WMM.reset_coefficients', 'WMM.reset_date')
def _b(V, L, cid):
    name = cid.split('.')[1]
    def call(a, d):
        getattr(a['self'], name)(d)
        return (a['self'].date_dec, a['self'].wmm_filename)
    return [C('decimal year', lambda: {'self': L.WM.WMM(2022.5, 48.0, 11.5, 0.5)}, lambda a: call(a, 2017.5)),
            C('datetime.date', lambda: {'self': L.WM.WMM(2022.5, 48.0, 11.5, 0.5)}, lambda a: call(a, datetime.date(2025, 6, 1)))]


@builder('WMM.load_coefficients', 'WMM.get_properties')
def _b(V, L, cid):
    name = cid.split('.')[1]
    def call(a):
        r = getattr(a['self'], name)('WMM2020/WMM.COF')
        return (r, a['self'].c.copy())
    return [C('WMM2020', lambda: {'self': L.WM.WMM(2022.5, 48.0, 11.5, 0.5)}, call)]


@builder('WMM.denormalize_coefficients')
def _b(V, L, cid):
    # a documented internal step that rescales self.c / self.cd each time it runs: a fresh model per call
    def call(a):
        w = L.WM.WMM(2022.5, 48.0, 11.5, 0.5)
        w.load_coefficients(w.wmm_filename)
        w.denormalize_coefficients(a['lat'])
        return (w.P.copy(), w.c.copy())
    return [C('float, fresh model per call', lambda: {'lat': 0.8}, call, tags=('rad',)),
            C('scalar-as-ndarray 0-d, fresh model per call', lambda: {'lat': np.array(0.8)}, call, tags=('rad',))]


_register_auto()
# BUILDERS-END


# --------------------------------------------------------------------------------------------------------------------
# the explorer
# --------------------------------------------------------------------------------------------------------------------
def _seed_history(L, k):
    np.random.seed(1000 + k)
    L.SE.GENERATOR = np.random.default_rng(2000 + k)


def _seed_call(L, rng, k):
    if rng == 'np':
        np.random.seed(3000 + k)
    elif rng == 'sensors':
        L.SE.GENERATOR = np.random.default_rng(4000 + k)
        np.random.seed(3000 + k)


def _invoke(call, Aobj):
    try:
        return ('ok', call(Aobj))
    except Exception as ex:                                  # a refusal; judged only for agreement between the calls
        return ('exc', type(ex).__name__, str(ex)[:160])


def _gstate():
    """Process-wide settings that decide what LATER calls (of anything) return or raise: the warning filters, NumPy's floating-point error
    handling and print options, the recursion limit, the working directory.  A call that returns leaving one of them changed has changed
    the result of the next identical call of some other function (0/0 -> NaN + warning becomes an exception, ...)."""
    import warnings as _w, sys as _s, os as _o
    po = np.get_printoptions()
    return (tuple((f[0], getattr(f[1], 'pattern', f[1]), getattr(f[2], '__name__', f[2]), getattr(f[3], 'pattern', f[3]), f[4]) for f in _w.filters),
            tuple(sorted(np.geterr().items())), tuple(sorted((k_, repr(v_)) for k_, v_ in po.items())), _s.getrecursionlimit(), _o.getcwd())


def history(ctx, L, cid, entry, case, cont, k, scale=1.0):
    """call, call, call on the same argument objects; returns True when the first call completed."""
    Aobj = case['make']()                                    # a builder that cannot build is a harness error (job crash), never a verdict
    keep = set(case.get('keep', ()))
    for name in list(Aobj):
        v = Aobj[name]
        if type(v) is np.ndarray and v.ndim >= 1 and name not in keep:
            Aobj[name] = contain(v, cont)
    exempt = set(case.get('exempt', ()))
    judged = [n for n in Aobj if _has_array(Aobj[n]) and n not in exempt]
    before = {n: freeze(Aobj[n]) for n in judged}
    before_r = {n: render(Aobj[n]) for n in judged}
    key0 = f'profile={case["profile"]} container={cont} k={k}' + ('' if scale == 1.0 else f' scale={scale:g}')
    rng = case.get('rng')
    _seed_history(L, k)
    first = None
    flagged = set()
    repeat_flagged = False
    result_flagged = False
    live1 = None
    g0 = _gstate()
    for n_call in (1, 2, 3):
        _seed_call(L, rng, k)
        out = _invoke(case['call'], Aobj)
        ctx.transitions += 1
        g1 = _gstate()
        ctx.evals += 1
        if g1 != g0:
            changed = [nm_ for nm_, a_, b_ in zip(('warning filters', 'numpy.seterr', 'numpy print options', 'recursion limit', 'working directory'), g0, g1) if a_ != b_]
            ctx.fail(f'{cid} leaves the process-wide settings that later calls depend on (warning filters, floating-point error handling, print options) as it found them',
                     f'{key0} call={n_call}', changed, 'unchanged', 0)
            import warnings as _w
            _w.resetwarnings()
            _w.simplefilter('ignore')
            np.seterr(**dict(g0[1]))
            g0 = _gstate()
        fr = (out[0], freeze(out[1])) if out[0] == 'ok' else out
        for n in judged:
            same = freeze(Aobj[n]) == before[n]
            ctx.evals += 1
            if not same and n not in flagged:
                flagged.add(n)
                ctx.fail(f'{cid} modifies its argument {n}', f'{key0} call={n_call}', render(Aobj[n]), before_r[n], 0)
        if n_call == 1:
            first = (fr, out)
            live1 = out[1] if out[0] == 'ok' else None          # the first result, kept alive by the caller while it goes on calling
            if out[0] == 'ok' and cont == 'nd' and not exempt and not case.get('random'):
                # exception safety: between the first and the second call the SAME objects serve calls with one argument spoiled
                # (wrong shape, NaN, zeros, out-of-range or non-numeric scalar); whether such a call is refused or answered,
                # the following valid calls must answer like the first one (the existing repetition check below)
                for nm_ in list(Aobj):
                    if nm_ == 'self':
                        continue
                    v_ = Aobj[nm_]
                    if isinstance(v_, np.ndarray) and v_.ndim >= 1 and v_.dtype.kind == 'f':
                        one_nan = v_.copy(); one_nan.flat[0] = np.nan
                        one_inf = v_.copy(); one_inf.flat[-1] = np.inf
                        zero_row = v_.copy(); zero_row[-1 if v_.ndim > 1 else slice(None)] = 0.0
                        spoils = [v_[..., :-1].copy() if v_.shape[-1] > 1 else None, np.full_like(v_, np.nan), np.zeros_like(v_), v_[None].copy(), 'abc', one_nan, one_inf, zero_row]
                    elif isinstance(v_, float):
                        spoils = [float('nan'), 1e9, -1e9, 'abc', None, np.float32(v_)]
                    else:
                        continue
                    for sp_ in spoils:
                        if sp_ is None and not isinstance(v_, float):
                            continue
                        B_ = dict(Aobj); B_[nm_] = sp_
                        sp0 = freeze(sp_) if isinstance(sp_, np.ndarray) else None
                        r_ = _invoke(case['call'], B_)
                        ctx.outcome(('spoiled-call', r_[0]))
                        ctx.transitions += 1
                        # the degenerate argument (NaN / inf / zero elements, wrong shape) is the caller's array too: answered or refused, it is left as it was
                        if sp0 is not None and nm_ not in exempt and freeze(sp_) != sp0 and ('spoiled', nm_) not in flagged:
                            flagged.add(('spoiled', nm_))
                            ctx.fail(f'{cid} modifies its argument {nm_}', f'{key0} argument with NaN / inf / zero elements or another shape', render(sp_), 'left as it was', 0)
                for n in judged:                                 # (a spoiled call must not have modified the caller's other arguments either)
                    if freeze(Aobj[n]) != before[n] and n not in flagged:
                        flagged.add(n)
                        ctx.fail(f'{cid} modifies its argument {n}', f'{key0} during a refused / spoiled call', render(Aobj[n]), before_r[n], 0)
        elif live1 is not None and not exempt and not result_flagged:
            # a result handed to the caller is the caller's: later calls neither change it nor return memory shared with it
            ctx.evals += 1
            now = ('ok', freeze(live1))
            shares = (out[0] == 'ok' and isinstance(out[1], np.ndarray) and isinstance(live1, np.ndarray)
                      and out[1].size > 0 and (out[1] is live1 or np.shares_memory(out[1], live1)))
            if shares:      # accessors that return a view of one of their arguments (q.v, R.I ...) legitimately share that argument's memory
                for v_ in Aobj.values():
                    arrs_ = [v_] if isinstance(v_, np.ndarray) else [x_ for x_ in getattr(v_, '__dict__', {}).values() if isinstance(x_, np.ndarray)]
                    if any(a_.size and np.shares_memory(a_, live1) for a_ in arrs_):
                        shares = False
                        break
            if now != first[0] or shares:
                result_flagged = True
                ctx.fail(f'{cid}: a returned result is unchanged by later calls and shares no memory with later results', f'{key0} call={n_call}',
                         render(live1), render(first[1][1]), 0)
        if n_call == 2 and live1 is not None and cont == 'nd' and not exempt and not case.get('random') and not result_flagged and isinstance(live1, np.ndarray) \
                and live1.dtype.kind == 'f' and live1.size and live1.flags.writeable:
            # the caller now EDITS the first result in place (its own array): the third call must still answer like the first
            own = True
            for v_ in Aobj.values():
                arrs_ = [v_] if isinstance(v_, np.ndarray) else [x_ for x_ in getattr(v_, '__dict__', {}).values() if isinstance(x_, np.ndarray)]
                if any(a_.size and np.shares_memory(a_, live1) for a_ in arrs_):
                    own = False
            if own:
                try:
                    np.asarray(live1)[...] = -7.25
                    live1 = None                                  # (no longer comparable with its frozen value)
                except Exception:
                    pass
        if n_call == 1:
            pass
        elif not case.get('random') and not exempt:
            ctx.evals += 1
            if fr != first[0] and not repeat_flagged:
                repeat_flagged = True
                ctx.fail(f'{cid} returns the same result when called again with the same arguments', f'{key0} call={n_call}',
                         render(out[1]) if out[0] == 'ok' else list(out), render(first[1][1]) if first[1][0] == 'ok' else list(first[1]), 0)
    ctx.states += 1
    ctx.traces += 1
    ctx.max_depth = 3
    ok = first[1][0] == 'ok'
    ctx.outcome((cid, case['profile'], cont, first[0] if not case.get('random') else 'random'))
    ctx.cls('history:completed' if ok else 'history:refused')
    if ok and judged:
        ctx.seen((cid, case['profile'], cont, k, scale))
    if ok:
        ctx.cls(f'group:{entry["group"]}')
        ctx.cls(f'kind:{"method" if entry["kind"] == "classmethod" else entry["kind"]}')
        ctx.cls(f'container:{cont}')
        for t in case.get('tags', ()):
            ctx.cls(f'value:{t}')
        if exempt:
            ctx.cls('inplace-requested(exempt)')
        if rng:
            ctx.cls('rng:reseeded')
    return ok, (first[1] if not ok else None), first[0]


def _cases_for(cid, inv, V, L):
    if cid in BUILDERS:
        fn, i = BUILDERS[cid]
        return fn(V, L, i) or []
    return None


def _pristine_eval(cid, ci, k, scale):
    """Evaluate one case once, in a process that has done nothing else with the library (executed in a forked child)."""
    L = Lib()
    inv = inventory.discover()
    V = Values(k, scale)
    case = _cases_for(cid, inv, V, L)[ci]
    _seed_history(L, k)
    _seed_call(L, case.get('rng'), k)
    out = _invoke(case['call'], case['make']())
    return (out[0], freeze(out[1])) if out[0] == 'ok' else out


def job_derived_selves(ctx, k):
    """In-place methods called on an object DERIVED from the caller's array object (copy, deep copy, slice, view, arithmetic result): whether the
    call works or refuses, the caller's ORIGINAL object keeps its elements (bytes of the buffer and of the .array / .A attribute)."""
    import copy as _copy
    from ahrs import QuaternionArray, Quaternion, DCM
    V = Values(k)
    q_, p_ = np.array(V.q, float), np.array(V.p, float)
    Qj = np.array([q_, rq.qunit(q_ + 0.05 * p_), -rq.qunit(q_ + 0.1 * p_), -rq.qunit(q_ + 0.15 * p_), rq.qunit(q_ + 0.2 * p_), rq.qunit(q_ + 0.25 * p_)])
    q_rot = p_.copy()
    derive = [('Q.copy()', lambda Q: Q.copy()), ('copy.copy(Q)', lambda Q: _copy.copy(Q)), ('copy.deepcopy(Q)', lambda Q: _copy.deepcopy(Q)), ('Q[1:4]', lambda Q: Q[1:4]),
              ('Q[:]', lambda Q: Q[:]), ('Q.view()', lambda Q: Q.view()), ('+Q', lambda Q: +Q), ('Q*1.0', lambda Q: Q * 1.0), ('np.array(Q, subok=True)', lambda Q: np.array(Q, subok=True))]
    ops = [('remove_jumps()', lambda D: D.remove_jumps()), ('rotate_by(q, inplace=True)', lambda D: D.rotate_by(q_rot.copy(), inplace=True)), ('slerp_nan()', lambda D: D.slerp_nan()),
           ('from_DCM(R, inplace=True)', lambda D: D.from_DCM(np.array([rq.R(rq.qunit(r_)) for r_ in Qj[:len(D)]]))), ("__setitem__ D[0] = q", lambda D: D.__setitem__(0, q_rot.copy())),
           ('D *= -1', lambda D: D.__imul__(-1.0))]
    for dn, mk in derive:
        for on, op in ops:
            Q = QuaternionArray(Qj.copy())
            b0 = np.asarray(Q, float).tobytes(); a0 = np.asarray(Q.array, float).tobytes()
            key = f'derived={dn} op={on} k{k}'
            ctx.evals += 1
            try:
                D = mk(Q)
            except Exception:
                ctx.outcome(('derive-refused', dn)); continue
            shares = isinstance(D, np.ndarray) and np.shares_memory(D, Q)
            try:
                op(D)
                ctx.outcome(('derived-op-completed', dn, on))
            except Exception:
                ctx.outcome(('derived-op-refused', dn, on))
            if shares and on.startswith(('__setitem__', 'D *=')):
                continue            # writing through a VIEW of the caller's array reaches the caller by NumPy's own rules
            same = np.asarray(Q, float).tobytes() == b0 and np.asarray(Q.array, float).tobytes() == a0
            if shares:
                continue            # views (slices, .view()) share the caller's memory by NumPy's rules: an in-place method on them may legitimately reach it
            ctx.expect(same, "an in-place method on an independent copy of the caller's QuaternionArray leaves the caller's object as it was", key, np.asarray(Q.array, float)[:2], Qj[:2])
            ctx.seen(('derived-self', dn, on))
        ctx.cls('derived-selves')
    # the scalar class and DCM: in-place edits of a copy never reach the original
    for cname, mk0 in (('Quaternion', lambda: Quaternion(np.array(V.q, float).copy())), ('DCM', lambda: DCM(rq.R(rq.qunit(np.array(V.q, float)))))):
        for dn, mk in (('copy()', lambda O_: O_.copy()), ('copy.deepcopy', lambda O_: _copy.deepcopy(O_)), ('+obj', lambda O_: +O_), ('np.array(obj, subok=True)', lambda O_: np.array(O_, subok=True))):
            O0 = mk0(); b0 = np.asarray(O0, float).tobytes(); a0 = np.asarray(O0.A, float).tobytes()
            ctx.evals += 1
            try:
                D = mk(O0)
                D[...] = 0.25
                if cname == 'Quaternion':
                    try:
                        D.normalize()
                    except Exception:
                        pass
            except Exception:
                ctx.outcome(('derived-op-refused', cname, dn))
            same = np.asarray(O0, float).tobytes() == b0 and np.asarray(O0.A, float).tobytes() == a0
            ctx.expect(same, f"in-place edits of an independent copy of the caller's {cname} leave the caller's object as it was", f'derived={dn} k{k}', np.asarray(O0.A, float), 'unchanged')
        ctx.cls('derived-selves')
    # objects BUILT from a caller's array (every constructor option that keeps the numbers as they are: versors / versor False, either storage
    # order, rows that are already unit): the object owns its memory - its in-place methods and in-place edits never reach the caller's array
    rows_unit = np.array([rq.qunit(r_) for r_ in Qj])
    rows_raw = rows_unit * np.array([2.0, 0.5, 3.0, 1.0, 0.25, 7.0])[:, None]
    sources = [('QuaternionArray(X)', rows_unit, lambda X: QuaternionArray(X)), ('QuaternionArray(X, versors=False)', rows_raw, lambda X: QuaternionArray(X, versors=False)),
               ('QuaternionArray(unit X, versors=False)', rows_unit, lambda X: QuaternionArray(X, versors=False)), ("QuaternionArray(X, order='S')", rows_unit, lambda X: QuaternionArray(X, order='S')),
               ("QuaternionArray(X, versors=False, order='S')", rows_raw, lambda X: QuaternionArray(X, versors=False, order='S')),
               ('QuaternionArray(QuaternionArray(X))', rows_unit, lambda X: QuaternionArray(QuaternionArray(X))), ('QuaternionArray(X[:, :]) (a view)', rows_unit, lambda X: QuaternionArray(X[:, :]))]
    for sn, X0, mk in sources:
        for on, op in ops + [('D[...] = 0.5', lambda D: D.__setitem__(Ellipsis, 0.5)), ('D.array[...] = 0.5', lambda D: D.array.__setitem__(Ellipsis, 0.5))]:
            X = np.array(X0, float, order='C')
            b0 = X.tobytes()
            key = f'source={sn} op={on} k{k}'
            ctx.evals += 1
            try:
                D = mk(X)
            except Exception:
                ctx.outcome(('construct-refused', sn)); continue
            try:
                op(D)
            except Exception:
                ctx.outcome(('constructed-op-refused', sn, on))
            ctx.expect(X.tobytes() == b0, "an object built from the caller's array owns its memory: its in-place methods / edits leave the caller's array as it was", key, X[:2], np.asarray(X0)[:2])
            ctx.seen(('constructed-self', sn, on))
    for sn, x0, mk in (('Quaternion(x)', np.array(V.q, float), lambda x: Quaternion(x)), ('Quaternion(3x, versor=False)', 3.0 * np.array(V.q, float), lambda x: Quaternion(x, versor=False)),
                       ('Quaternion(unit x, versor=False)', rq.qunit(np.array(V.q, float)), lambda x: Quaternion(x, versor=False)), ("Quaternion(x, order='S')", np.array(V.q, float), lambda x: Quaternion(x, order='S')),
                       ('Quaternion(Quaternion(x))', np.array(V.q, float), lambda x: Quaternion(Quaternion(x))), ('DCM(R)', rq.R(rq.qunit(np.array(V.q, float))), lambda x: DCM(x)),
                       ('DCM(DCM(R))', rq.R(rq.qunit(np.array(V.q, float))), lambda x: DCM(DCM(x)))):
        for on, op in (('obj[...] = 0.25', lambda D: D.__setitem__(Ellipsis, 0.25)), ('obj.A[...] = 0.25', lambda D: D.A.__setitem__(Ellipsis, 0.25)), ('obj *= 2 (element-wise)', lambda D: np.multiply(D, 2.0, out=np.asarray(D))),
                       ('normalize()', lambda D: D.normalize())):
            x = np.array(x0, float, order='C'); b0 = x.tobytes()
            ctx.evals += 1
            try:
                D = mk(x)
            except Exception:
                ctx.outcome(('construct-refused', sn)); continue
            try:
                op(D)
            except Exception:
                ctx.outcome(('constructed-op-refused', sn, on))
            ctx.expect(x.tobytes() == b0, "an object built from the caller's array owns its memory: its in-place methods / edits leave the caller's array as it was", f'source={sn} op={on} k{k}', x, x0)
    ctx.cls('constructed-selves')
    ctx.sample({'derived': [d[0] for d in derive], 'in_place_ops': [o[0] for o in ops]})


def job_callables(ctx, ids, k, scale=1.0):
    # baselines first, while this process is still pristine: every case evaluated alone in its own forked child
    baseline = {}
    if scale == 1.0:
        inv0 = inventory.discover()
        L0 = Lib()
        V0 = Values(k, scale)
        for cid in ids:
            for ci, case in enumerate(_cases_for(cid, inv0, V0, L0) or []):
                if not case.get('random') and not case.get('exempt'):
                    try:
                        baseline[(cid, ci)] = core.in_fresh_child(_pristine_eval, cid, ci, k, scale)
                    except Exception:
                        pass        # results that cannot cross a process boundary are not compared
    L = Lib()
    inv = inventory.discover()
    V = Values(k, scale)
    conts = CONTAINERS_THOROUGH if ctx.thorough else CONTAINERS_QUICK
    saved_gen = L.SE.GENERATOR
    status, refused_all, refused_some = {}, {}, {}
    try:
        for cid in ids:
            entry = inv[cid]
            cases = _cases_for(cid, inv, V, L)
            n_ok = n_all = 0
            refusals = []
            for case in cases:
                has_arr = any(type(v) is np.ndarray and v.ndim >= 1 for n, v in case['make']().items() if n not in case.get('keep', ()))
                for cont in (conts if has_arr else ('nd',)):
                    ok, why, fr = history(ctx, L, cid, entry, case, cont, k, scale)
                    n_all += 1
                    n_ok += bool(ok)
                    if not ok and cont == 'nd':
                        refusals.append(f'{case["profile"]}: {why[1]}: {why[2][:80]}')
            # interleaved history: call(profile i), call(profile j != i), call(profile i) with freshly built, equal arguments; the first and
            # the third answers must be identical (a result may not depend on which other arguments the same callable served in between)
            usable = [c for c in cases if not c.get('random') and not c.get('exempt')]
            for ci, case in enumerate(usable):
                if len(usable) < 2:
                    break
                other = usable[(ci + 1) % len(usable)]
                rng = case.get('rng')
                _seed_history(L, k)
                _seed_call(L, rng, k)
                r1 = _invoke(case['call'], case['make']())
                _seed_call(L, other.get('rng'), k)
                _invoke(other['call'], other['make']())
                # ... then calls with the OTHER profile's arguments, one of them spoiled at a time (refused or not), then the other profile valid:
                # it must answer what it answers in a pristine process (a refused call may not leave anything behind for the retry)
                oi = cases.index(other)
                if (cid, oi) in baseline:
                    Bo = other['make']()
                    for nm_ in list(Bo):
                        v_ = Bo[nm_]
                        if nm_ == 'self':
                            continue
                        if type(v_) is np.ndarray and v_.ndim >= 1 and v_.dtype.kind == 'f':
                            spoils = [np.full_like(v_, np.nan), v_[None].copy(), 'abc'] + ([v_[..., :-1].copy()] if v_.shape[-1] > 1 else [])
                        elif isinstance(v_, float):
                            spoils = [float('nan'), 'abc', np.float32(v_), 1e9]
                        else:
                            continue
                        for sp_ in spoils:
                            B_ = dict(Bo); B_[nm_] = sp_
                            _seed_call(L, other.get('rng'), k)
                            _invoke(other['call'], B_)
                            ctx.transitions += 1
                    _seed_history(L, k)
                    _seed_call(L, other.get('rng'), k)
                    ro = _invoke(other['call'], other['make']())
                    fo = (ro[0], freeze(ro[1])) if ro[0] == 'ok' else ro
                    ctx.evals += 1
                    if fo != baseline[(cid, oi)]:
                        ctx.fail(f'{cid} answers a valid call as in a pristine process after refused / spoiled calls with the same arguments', f'profile={other["profile"]} k={k}',
                                 render(ro[1]) if ro[0] == 'ok' else list(ro), 'the answer given in a fresh process', 0)
                _seed_history(L, k)
                _seed_call(L, rng, k)
                r3 = _invoke(case['call'], case['make']())
                ctx.transitions += 3
                ctx.traces += 1
                ctx.evals += 1
                f1 = (r1[0], freeze(r1[1])) if r1[0] == 'ok' else r1
                f3 = (r3[0], freeze(r3[1])) if r3[0] == 'ok' else r3
                if f1 != f3:
                    ctx.fail(f'{cid} returns the same result after serving other arguments in between', f'profile={case["profile"]} other={other["profile"]} k={k}',
                             render(r3[1]) if r3[0] == 'ok' else list(r3), render(r1[1]) if r1[0] == 'ok' else list(r1), 0)
                ctx.cls('history:interleaved')
            # the same case again, now that this process has served many other calls: equal to the pristine-process answer
            for ci, case in enumerate(cases):
                if (cid, ci) not in baseline:
                    continue
                _seed_history(L, k)
                _seed_call(L, case.get('rng'), k)
                out = _invoke(case['call'], case['make']())
                fnow = (out[0], freeze(out[1])) if out[0] == 'ok' else out
                ctx.evals += 1
                ctx.traces += 2
                if fnow != baseline[(cid, ci)]:
                    ctx.fail(f'{cid} returns the same result in a used process as in a pristine one', f'profile={case["profile"]} k={k}',
                             render(out[1]) if out[0] == 'ok' else list(out), 'the answer given in a fresh process', 0)
                ctx.cls('history:vs-pristine-process')
            status[cid] = [n_ok, n_all]
            if n_ok == 0:
                refused_all[cid] = refusals[:3]
            elif refusals:
                refused_some[cid] = refusals[:4]
        if ids:
            cid = ids[0]
            cases = _cases_for(cid, inv, V, L)
            if cases:
                ctx.sample({'callable': cid, 'profile': cases[0]['profile'], 'k': k,
                            'arguments': {n: render(v) for n, v in cases[0]['make']().items()}, 'history': 'call, call, call'})
    finally:
        L.SE.GENERATOR = saved_gen
    # Ctx.merge keeps only the first value of a note key, so every job writes under its own key; run() folds them together
    ctx.notes[f'_job:{k}:{scale}:{ids[0] if ids else ""}'] = {'status': status, 'refused_all': refused_all, 'refused_some': refused_some}


def run(ctx):
    core.bind_repo()
    inv = inventory.discover()
    ids = list(inv)
    covered = [i for i in ids if i in BUILDERS]
    uncovered = [i for i in ids if i not in BUILDERS]
    stale = [i for i in BUILDERS if i not in inv]
    ks = list(range(len(A.MENU))) if ctx.thorough else [A.seed_k(ctx.seed)]
    jobs = []
    nchunks = 16 if ctx.thorough else 48
    scales = SCALES_THOROUGH if ctx.thorough else (1.0,)
    for k in ks:
        for scale in scales:
            for lo, hi in core.chunks(len(covered), nchunks):
                jobs.append(('job_callables', (covered[lo:hi], k, scale)))
    for k in ks:
        jobs.append(('job_derived_selves', (k,)))
    core.run_jobs(ctx, __name__, jobs)
    hist, ref_all, ref_some = {}, {}, {}
    for key in [x for x in ctx.notes if x.startswith('_job:')]:
        d = ctx.notes.pop(key)
        for c, (a, b) in d['status'].items():
            h = hist.setdefault(c, [0, 0]); h[0] += a; h[1] += b
        for c, v in d['refused_all'].items():
            ref_all.setdefault(c, v)
        for c, v in d['refused_some'].items():
            ref_some.setdefault(c, v)
    never_ok = sorted(c for c, (a, b) in hist.items() if a == 0)
    ctx.notes['histories_completed_of_total_per_callable'] = hist
    ctx.notes['callables_whose_every_profile_was_refused'] = {c: ref_all.get(c, []) for c in never_ok}
    ctx.notes['refused_ndarray_profiles'] = ref_some
    ctx.notes['menu_entries'] = ks
    ctx.notes['magnitude_scales'] = list(scales)
    ctx.notes['containers'] = list(CONTAINERS_THOROUGH if ctx.thorough else CONTAINERS_QUICK)
    ctx.notes['inventory_size'] = len(ids)
    ctx.notes['covered_callables'] = len(covered)
    ctx.notes['uncovered_callables'] = uncovered
    if stale:
        ctx.notes['builders_without_callable'] = stale
        ctx.fail('harness: builder table names a callable that introspection does not find', ','.join(stale), stale, [])
        ctx.notes['harness_error'] = True
