"""C09 — quaternion arithmetic obeys the Hamilton algebra laws.

Complete triple table of a finite group (associativity, anti-involution of the conjugate) through the library's own
product; complete pair tables over group elements and non-unit integer lattice quaternions for norm multiplicativity,
product matrices, operator agreement; inverse on every non-zero element (unit and not); scalar-last storage.
"""
import itertools, math
import numpy as np
from mc import core, alphabet as A
from mc.ref import quat as rq

PID = 'C09'
LEVEL = 'model_checking'
RULE = ('states = quaternions of the alphabet (group elements, lattice non-unit quaternions); transitions = library product '
        'applications; a case = (law, operand ids); non-trivial when no operand is +-identity')
ASSUMPTIONS = ['integer lattice (entries in [-2,2]) non-unit quaternions make the non-unit laws exact in floating point',
               'tolerance 1e-12 absolute on unit operands, 1e-12 relative to the product of norms on non-unit operands',
               'scalar-last vs scalar-first objects are built from the same four numbers in the two orders; normalisation sums in a different order, hence 1e-15 on components and 1e-14 on derived matrices and products rather than bit equality (observed 1.1e-15 on menu entry 2)', 'scalar-last objects are multiplied with Hamilton-ordered right operands, as Quaternion.product documents']
REQUIRED_CLASSES = ['triples', 'pairs:nonunit', 'inverse:unit', 'inverse:nonunit', 'order:S', 'order:same-raw-numbers', 'object-history', 'ownership', 'derived-objects', 'small-batches', 'magnitudes', 'order-pairings']
TOL = 1e-12


def _lib():
    from ahrs import Quaternion
    from ahrs.common import orientation as O
    return Quaternion, O


def _triple_set(name, k):
    if name == 'G48':
        return A.G48()
    if name == 'G24':
        return A.G24()
    if name == 'Gc30':
        return A.Gc(A.G120(), k)[::4]          # 30-element sub-alphabet of the conjugated icosahedral group
    if name == 'Gl24':
        return A.Gl(A.G24(), k)
    raise KeyError(name)


def job_triples(ctx, name, k, lo, hi):
    Quaternion, O = _lib()
    S = _triple_set(name, k)
    n = len(S)
    Qs = [Quaternion(s.copy()) for s in S]
    conj = [np.asarray(q.conjugate) for q in Qs]
    # table of library products p*q
    for i in range(lo, hi):
        P = Qs[i]
        row = [np.asarray(P.product(S[j].copy())) for j in range(n)]
        for j in range(n):
            pq = row[j]
            PQ = Quaternion(pq.copy(), versor=False)
            # (pq)* = q* p*
            lhs = np.asarray(PQ.conjugate)
            rhs = np.asarray(Quaternion(conj[j].copy(), versor=False).product(conj[i].copy()))
            ctx.close(lhs, rhs, TOL, '(pq)* = q* p*', f'{name}#k{k} p={i} q={j}', track='conj_reverse')
            for l in range(n):
                a = np.asarray(PQ.product(S[l].copy()))                       # (pq) r
                qr = np.asarray(Qs[j].product(S[l].copy()))
                b = np.asarray(P.product(qr))                                  # p (qr)
                ctx.evals += 1
                e = float(np.abs(a - b).max())
                if not (e <= TOL):
                    ctx.fail('associativity (pq)r = p(qr)', f'{name}#k{k} p={i} q={j} r={l}', a, b, TOL)
                ctx.transitions += 4
            ctx.cls('triples', n)
        ctx.track('assoc', 0.0)
    for i in range(lo, hi):
        for j in range(n):
            ctx.seen(('tri', name, k, i, j))
    ctx.states += (hi - lo)
    ctx.traces += (hi - lo) * n * n
    ctx.sample({'triples': name, 'k': k, 'p': S[lo].tolist(), 'q': S[1].tolist(), 'r': S[-1].tolist()})


def _pair_alphabet(k):
    """unit group elements + non-unit integer lattice quaternions (versor=False)."""
    items = [('G48', i, q, True) for i, q in enumerate(A.G48())]
    items += [('Gl24', i, q, True) for i, q in enumerate(A.Gl(A.G24(), k))]
    lat = A.LAT4(2, normalise=False)
    items += [('LAT4(2)', i, q, False) for i, q in enumerate(lat[::3])]     # 208 exactly representable non-unit quaternions
    return items


def job_pairs(ctx, k, lo, hi):
    Quaternion, O = _lib()
    items = _pair_alphabet(k)
    for a in range(lo, hi):
        na, ia, p, pu = items[a]
        P = Quaternion(p.copy(), versor=False)
        ML = np.asarray(P.mult_L())
        for b in range(len(items)):
            nb, ib, q, qu = items[b]
            key = f'p={na}[{ia}] q={nb}[{ib}] k{k} versor=' + ('True' if (pu and qu) else 'False')
            Qq = Quaternion(q.copy(), versor=False)
            ref = rq.qmul(p, q)
            scale = max(rq.qnorm(p) * rq.qnorm(q), 1.0)
            r_prod = np.asarray(P.product(q.copy()))
            ctx.close(r_prod / scale, ref / scale, TOL, 'Quaternion.product = Hamilton product', key)
            ctx.close(np.asarray(P * Qq) / scale, ref / scale, TOL, 'operator * = product', key)
            ctx.close(np.asarray(P @ Qq) / scale, ref / scale, TOL, 'operator @ = product', key)
            ctx.close(np.asarray(O.q_prod(p.copy(), q.copy())) / scale, ref / scale, TOL, 'q_prod = product', key)
            ctx.close((ML @ q) / scale, ref / scale, TOL, 'mult_L(p) q = pq', key)
            MR = np.asarray(Qq.mult_R())
            ctx.close((MR @ p) / scale, ref / scale, TOL, 'mult_R(q) p = pq', key)
            # norm multiplicativity
            ctx.close([rq.qnorm(r_prod) / scale], [rq.qnorm(p) * rq.qnorm(q) / scale], TOL, '|pq| = |p||q|', key)
            ctx.transitions += 6
            if not (pu and qu):
                ctx.cls('pairs:nonunit')
            else:
                ctx.cls('pairs:unit')
            ctx.seen(('pair', k, a, b))
        # integer-typed copies of integer-valued operands (a user writing np.array([0, 1, 0, 0]))
        if np.all(p == np.round(p)):
            pi_ = np.round(p).astype(int)
            for b in range(0, len(items), 17):
                nb, ib, q, qu = items[b]
                ref = rq.qmul(p, q)
                key = f'p={na}[{ia}](int dtype) q={nb}[{ib}] k{k} versor=' + ('True' if (pu and qu) else 'False')
                ctx.close(np.asarray(O.q_prod(pi_.copy(), q.copy()), float), ref, TOL * max(1.0, rq.qnorm(p) * rq.qnorm(q)), 'q_prod = product (integer-typed left operand)', key)
                ctx.close(np.asarray(Quaternion(pi_.copy(), versor=False).product(q.copy()), float), ref, TOL * max(1.0, rq.qnorm(p) * rq.qnorm(q)), 'Quaternion.product = Hamilton product (integer-typed left operand)', key)
                ctx.close(np.asarray(O.q_prod(q.copy(), pi_.copy()), float), rq.qmul(q, p), TOL * max(1.0, rq.qnorm(p) * rq.qnorm(q)), 'q_prod = product (integer-typed right operand)', key)
        # free-function product matrices (unit operands only: they normalise their argument)
        if pu:
            key = f'p={na}[{ia}] k{k}'
            L = np.asarray(O.q_mult_L(p.copy())); Rm = np.asarray(O.q_mult_R(p.copy()))
            qg = A.MENU[(k + 1) % 8]
            ctx.close(L @ qg, rq.qmul(p, qg), TOL, 'q_mult_L(p) q = pq', key)
            ctx.close(Rm @ qg, rq.qmul(qg, p), TOL, 'q_mult_R(p) q = qp', key)
            ctx.close(np.asarray(O.q_conj(p.copy())), rq.qconj(p), 0.0, 'q_conj = conjugate', key)
    ctx.states += (hi - lo)
    ctx.traces += (hi - lo) * len(items)
    ctx.sample({'pairs': [items[lo][0], items[lo][1]], 'p': items[lo][2].tolist(), 'q': items[-1][2].tolist()})


def job_inverse(ctx, k):
    Quaternion, O = _lib()
    one = np.array([1.0, 0, 0, 0])
    items = _pair_alphabet(k)
    lat = A.LAT4(2, normalise=False)
    items += [('LAT4(2)full', i, q, False) for i, q in enumerate(lat)]
    items += [('scaled', i, q * s, False) for i, q in enumerate(A.Gl(A.G24(), k)) for s in (1e-3, 0.5, 3.0, 1e3)]
    # default construction (versor=True) from input whose norm is close to, but not exactly, one: the object must be EXACTLY normalised
    for i, q in enumerate(A.Gl(A.G24(), k)[:12]):
        for s_ in (1 + 8e-6, 1 - 8e-6, 1 + 1e-7, 1 - 3e-9, np.float64(np.float32(1.0000001))):
            key = f'q=near-unit[{i}]*{float(s_)!r} k{k} versor=True(default)'
            Qn = Quaternion((q * s_).copy())
            ctx.expect(abs(rq.qnorm(np.asarray(Qn)) - 1.0) <= 1e-15, 'Quaternion(q) with |q| close to 1 is normalised exactly', key, rq.qnorm(np.asarray(Qn)), 1.0, 1e-15)
            r1 = np.asarray(Qn.product(np.asarray(Qn.inverse).copy()))
            ctx.close(r1, one, 1e-12, 'Quaternion.inverse: q*inv(q)=1', key)
    for name, i, q, unit in items:
        n2 = rq.qnorm(q)
        unit = abs(n2 - 1.0) < 1e-12
        key = f'q={name}[{i}] k{k} versor={"True" if unit else "False"} norm={n2:.6g}'
        Qq = Quaternion(q.copy(), versor=False)
        for nm, inv in (('inverse', np.asarray(Qq.inverse)), ('inv', np.asarray(Qq.inv))):
            r1 = np.asarray(Qq.product(inv.copy()))
            r2 = np.asarray(Quaternion(inv.copy(), versor=False).product(q.copy()))
            ctx.close(r1, one, 1e-12, f'Quaternion.{nm}: q*inv(q)=1', key)
            ctx.close(r2, one, 1e-12, f'Quaternion.{nm}: inv(q)*q=1', key)
        ctx.cls('inverse:unit' if unit else 'inverse:nonunit')
        ctx.seen(('inv', name, i))
        ctx.transitions += 4
    ctx.states += len(items)
    ctx.traces += len(items)
    ctx.sample({'inverse_of': items[-1][2].tolist()})


def job_order(ctx, k):
    """scalar-last storage exposes the same quaternion."""
    Quaternion, O = _lib()
    S = np.vstack([A.G48(), A.Gl(A.G120(), k), A.LAT4(1), A.EDGE4()])
    others = [A.MENU[(k + 2) % 8], A.G48()[20], A.Gl(A.G24(), k)[7]]
    for i, q in enumerate(S):
        key = f'q=S[{i}] k{k}'
        H = Quaternion(q.copy())
        Sl = Quaternion(np.roll(q, -1).copy(), order='S')
        for comp in 'wxyz':
            ctx.expect(abs(float(getattr(H, comp)) - float(getattr(Sl, comp))) <= 1e-15, f"order='S': {comp} equal", key,
                       float(getattr(Sl, comp)), float(getattr(H, comp)))
        ctx.close(np.asarray(Sl.v), np.asarray(H.v), 1e-15, "order='S': v equal", key)
        # conjugate as a quaternion: stored in the object's own order
        cS = np.asarray(Sl.conjugate); cH = np.asarray(H.conjugate)
        ctx.close(np.roll(cS, 1), cH, 1e-15, "order='S': conjugate equal (as a quaternion)", key)
        ctx.close(np.asarray(Sl.to_DCM()), np.asarray(H.to_DCM()), 1e-14, "order='S': to_DCM equal", key)
        # every other accessor that returns a quaternion in the object's own order: conj, inverse, inv (unit objects: inverse = conjugate)
        for acc_ in ('conj', 'inverse', 'inv'):
            try:
                aS = np.asarray(getattr(Sl, acc_), float); aH = np.asarray(getattr(H, acc_), float)
            except Exception as ex:
                ctx.fail(f"order='S': {acc_} raises", key, repr(ex)[:120], 'a quaternion'); continue
            ctx.close(np.roll(aS, 1), aH, 1e-15, f"order='S': {acc_} equal (as a quaternion, in the object's own order)", key)
            ctx.close(np.roll(aS, 1), rq.qconj(rq.qunit(q)), 1e-14, f"order='S': {acc_} of a unit quaternion is its conjugate", key)
        for j, r in enumerate(others):
            ctx.close(np.asarray(Sl.product(r.copy())), np.asarray(H.product(r.copy())), 1e-14,
                      "order='S': product with Hamilton-ordered operand equal", f'{key} r={j}')
            ctx.transitions += 2
        ctx.cls('order:S')
        ctx.seen(('order', i))
    # the SAME raw numbers read in the two storage orders (two different quaternions with bit-identical stored elements), in both creation
    # orders and interleaved: each object answers for ITS reading (nothing keyed by the stored bytes alone may be shared between them)
    for i, raw in enumerate(S[3::11]):
        raw = rq.qunit(raw)
        qH, qS = raw, np.roll(raw, 1)              # what (w, x, y, z) the two readings stand for
        for first in ('H', 'S'):
            objs = {}
            for o_ in ((first, 'S' if first == 'H' else 'H')):
                objs[o_] = Quaternion(raw.copy(), order=o_)
                for o2 in objs:                     # every object built so far is asked again after each construction
                    Qo, qq = objs[o2], (qH if o2 == 'H' else qS)
                    key = f'raw=S[{3 + 11 * i}] built first={first} asked={o2} k{k}'
                    r = others[0]
                    ctx.close(np.asarray(Qo.to_DCM()), rq.R(qq), 1e-14, 'same raw numbers, two storage orders: to_DCM answers for the object\'s own reading', key)
                    ctx.close(np.asarray(Qo.mult_L()) @ r, rq.qmul(qq, r), 1e-14, 'same raw numbers, two storage orders: mult_L(q) r = q r', key)
                    ctx.close(np.asarray(Qo.mult_R()) @ r, rq.qmul(r, qq), 1e-14, 'same raw numbers, two storage orders: mult_R(q) r = r q', key)
                    ctx.close(np.asarray(Qo.product(r.copy())), rq.qmul(qq, r), 1e-14, 'same raw numbers, two storage orders: product', key)
                    ctx.close([float(Qo.w), float(Qo.x), float(Qo.y), float(Qo.z)], qq, 1e-15, 'same raw numbers, two storage orders: w, x, y, z', key)
                    ctx.close(np.asarray(Qo.rotate(np.array([1.0, 2.0, -3.0]))), rq.R(qq) @ np.array([1.0, 2.0, -3.0]), 1e-13, 'same raw numbers, two storage orders: rotate', key)
                    ctx.transitions += 1
    # both product matrices of ONE object kept by the caller (asked alternately): each is still its own matrix afterwards
    for i, q in enumerate(S[5::13]):
        Qo = Quaternion(q.copy()); r = others[1]
        try:
            L1 = Qo.mult_L(); R1 = Qo.mult_R(); L2 = Qo.mult_L(); R2 = Qo.mult_R()
        except Exception as ex:
            ctx.fail('mult_L / mult_R raise', f'q=S[{5 + 13 * i}] k{k}', repr(ex)[:120], 'matrices'); continue
        qq = rq.qunit(q)
        for nm, Mx, exp in (('first mult_L', L1, rq.qmul(qq, r)), ('first mult_R', R1, rq.qmul(r, qq)), ('second mult_L', L2, rq.qmul(qq, r)), ('second mult_R', R2, rq.qmul(r, qq))):
            ctx.close(np.asarray(Mx, float) @ r, exp, 1e-14, 'mult_L and mult_R of one object asked alternately and KEPT: each matrix is still its own product matrix', f'q=S[{5 + 13 * i}] {nm} k{k}')
        ctx.expect(not np.shares_memory(np.asarray(L1), np.asarray(R1)) and not np.shares_memory(np.asarray(L1), np.asarray(L2)), 'mult_L / mult_R results share no memory with each other', f'q=S[{5 + 13 * i}] k{k}', 'shared', 'separate')
    # objects that NumPy derives as REVERSED / strided views (q[::-1], np.flip(q)): their w, x, y, z, conjugate and products are those of their OWN elements
    for i, q in enumerate(S[7::17]):
        Qo = Quaternion(q.copy()); r = others[2]
        for dn, mk in (('q[::-1]', lambda Q_: Q_[::-1]), ('np.flip(q)', lambda Q_: np.flip(Q_)), ('q[::-1].copy()', lambda Q_: Q_[::-1].copy()), ('np.roll(q, 1)', lambda Q_: np.roll(Q_, 1))):
            try:
                Dq = mk(Qo)
            except Exception:
                ctx.outcome(('derive-refused', dn)); continue
            if not isinstance(Dq, Quaternion) or Dq.shape != (4,):
                ctx.outcome(('derived-plain', dn)); continue
            el = np.array(Dq, float)              # the derived object's own elements
            key = f'q=S[{7 + 17 * i}] derived={dn} k{k}'
            try:
                ctx.close([float(Dq.w), float(Dq.x), float(Dq.y), float(Dq.z)], el, 1e-15, 'a reversed / rolled view of a Quaternion: w, x, y, z are its own elements', key)
                ctx.close(np.asarray(Dq.product(r.copy()), float), rq.qmul(el, r), 1e-14, 'a reversed / rolled view of a Quaternion: product = Hamilton product of its own elements', key)
                ctx.close(np.asarray(Dq.conjugate, float), rq.qconj(el), 1e-15, 'a reversed / rolled view of a Quaternion: conjugate of its own elements', key)
                ctx.close(np.asarray(Dq.mult_L(), float) @ r, rq.qmul(el, r), 1e-14, 'a reversed / rolled view of a Quaternion: mult_L of its own elements', key)
            except Exception as ex:
                ctx.fail('operation on a reversed / rolled view of a Quaternion raises', key, repr(ex)[:120], 'completes')
    ctx.cls('order:same-raw-numbers')
    # objects derived from a scalar-last quaternion without going through the constructor keep their storage order
    import copy as _copy
    for i, q in enumerate(S[::9]):
        Sl = Quaternion(np.roll(q, -1).copy(), order='S')
        H = Quaternion(q.copy())
        for how, obj in (('copy()', Sl.copy()), ('view()', Sl.view()), ('copy.copy', _copy.copy(Sl)), ('deepcopy', _copy.deepcopy(Sl)), ('[:]', Sl[:]), ('+0.0', Sl + 0.0) ):
            key = f'q=S[{9 * i}] k{k} derived={how}'
            if how == '+0.0':
                # __add__ re-wraps through the constructor with Hamilton order: judged only on being a valid unit quaternion
                ctx.expect(abs(rq.qnorm(np.asarray(obj)) - 1) <= 1e-12, "order='S': q + 0 is a unit quaternion", key, np.asarray(obj), 'unit')
                continue
            ok = all(abs(float(getattr(obj, c)) - float(getattr(H, c))) <= 1e-15 for c in 'wxyz')
            ctx.expect(ok, "order='S': w, x, y, z of a copy / view / slice equal those of the original", key, [float(getattr(obj, c)) for c in 'wxyz'], q, 1e-15)
            ctx.close(np.asarray(obj.to_DCM()), np.asarray(H.to_DCM()), 1e-14, "order='S': to_DCM of a copy / view / slice equals the original's", key)
            ctx.close(np.asarray(obj.product(others[0].copy())), np.asarray(H.product(others[0].copy())), 1e-14, "order='S': product of a copy / view / slice equals the original's", key)
    ctx.states += len(S)
    ctx.traces += len(S)
    ctx.sample({'scalar_last': np.roll(S[60], -1).tolist(), 'scalar_first': S[60].tolist()})


OPS = ['conj', 'inv', 'log', 'exp', 'norm', 'prod', 'mulL', 'mulR', 'axang', 'pred']


def _apply(Q, op, r):
    if op == 'conj':
        return np.asarray(Q.conjugate)
    if op == 'inv':
        return np.asarray(Q.inverse)
    if op == 'log':
        return np.asarray(Q.logarithm)
    if op == 'exp':
        return np.asarray(Q.exponential)
    if op == 'norm':
        Q.normalize()                       # the one public in-place operation
        return None
    if op == 'prod':
        return np.asarray(Q.product(r.copy()))
    if op == 'mulL':
        return np.asarray(Q.mult_L())
    if op == 'mulR':
        return np.asarray(Q.mult_R())
    if op == 'axang':
        ax, an = Q.to_axang()
        return np.r_[np.asarray(ax, float), float(an)]
    if op == 'pred':
        return np.array([float(Q.is_pure()), float(Q.is_real()), float(Q.is_versor()), float(Q.is_identity())])


def _observe(Q, r):
    out = {c: float(getattr(Q, c)) for c in 'wxyz'}
    out['v'] = np.asarray(Q.v).tolist()
    for op in OPS:
        if op != 'norm':
            out[op] = _apply(Q, op, r).tolist()
    if Q.is_versor():
        out['dcm'] = np.asarray(Q.to_DCM()).tolist()
    # the object consumed as a plain array / as the right-hand operand (these read the array buffer, not the accessors)
    Quaternion, O = _lib()
    out['array'] = np.asarray(Q, float).tolist()
    out['right-operand'] = np.asarray(Quaternion(r.copy(), versor=False).product(Q)).tolist()
    out['q_prod-right'] = np.asarray(O.q_prod(r.copy(), Q)).tolist()
    out['q_prod-left'] = np.asarray(O.q_prod(Q, r.copy())).tolist()
    return out


def job_object_histories(ctx, k, depth):
    """Explicit exploration of operation sequences on ONE quaternion object: after every sequence, everything the object shows must equal
    what a fresh object built from its current components shows (no stale cached state)."""
    Quaternion, O = _lib()
    r = A.MENU[(k + 4) % 8]
    starts = [('lattice[1,2,-2,4]', np.array([1.0, 2.0, -2.0, 4.0])), ('pure[0,3,0,4]', np.array([0.0, 3.0, 0.0, 4.0])), ('unit', A.MENU[k].copy()), ('scaled', A.MENU[(k + 1) % 8] * 2.5)]
    import itertools, json
    seen_states = set()
    for sname, q0 in starts:
        for order in ('H', 'S'):
            for d in range(1, depth + 1):
                for word in itertools.product(OPS, repeat=d):
                    if 'norm' not in word and d > 1:
                        continue            # read-only words longer than 1 cannot differ from their last read on a correct object
                    Q = Quaternion((q0 if order == 'H' else np.roll(q0, -1)).copy(), versor=False, order=order)
                    try:
                        for op in word:
                            _apply(Q, op, r)
                            ctx.transitions += 1
                        fresh = Quaternion(np.asarray(Q.A).copy(), versor=False, order=order)
                        a, b = _observe(Q, r), _observe(fresh, r)
                    except Exception as ex:
                        ctx.evals += 1
                        ctx.fail('object history raises', f'start={sname} order={order} ops={">".join(word)}', repr(ex)[:200], 'completes')
                        continue
                    ctx.expect(json.dumps(a, sort_keys=True) == json.dumps(b, sort_keys=True), 'after any operation sequence the object equals a fresh object built from its components',
                               f'start={sname} order={order} ops={">".join(word)}', {k2: a[k2] for k2 in a if a[k2] != b[k2]}, 'identical observations')
                    seen_states.add((sname, order, np.asarray(Q.A).tobytes()))
                    ctx.seen(('hist', sname, order, word))
                    ctx.cls('object-history')
                    ctx.traces += 1
    ctx.states += len(seen_states)
    ctx.max_depth = max(ctx.max_depth, depth)
    ctx.sample({'object_history': 'conj>norm>inv', 'start': [1.0, 2.0, -2.0, 4.0], 'ops': OPS})


def job_derived(ctx, k):
    """Quaternion objects that NumPy derives from another one (-q, 2*q, q/3, np.negative(q), q.copy(), q[:], q.view()) are quaternions in their
    own right: accessors, conjugate, norm, matrix and products (as left AND right operand, through product, * and @) follow THEIR elements.
    Also: the free functions on (N,4) batches of every small N agree with the single-quaternion calls."""
    Quaternion, O = _lib()
    vals = [np.array([1.0, 2.0, -2.0, 4.0]), np.array([0.0, 3.0, 0.0, 4.0]), A.MENU[k] * 1.5, A.MENU[(k + 3) % 8].copy()]
    others = [np.array([0.5, -1.0, 2.0, 0.25]), A.MENU[(k + 5) % 8].copy()]
    derive = [('-q', lambda Q: -Q, lambda v: -v), ('2*q', lambda Q: 2.0 * Q, lambda v: 2.0 * v), ('q/3', lambda Q: Q / 3.0, lambda v: v / 3.0),
              ('np.negative(q)', lambda Q: np.negative(Q), lambda v: -v), ('q.copy()', lambda Q: Q.copy(), lambda v: v.copy()), ('q[:]', lambda Q: Q[:], lambda v: v.copy()),
              ('q.view()', lambda Q: Q.view(), lambda v: v.copy()), ('(q*1.5)/0.5', lambda Q: (1.5 * Q) / 0.5, lambda v: 3.0 * v), ('q+0', lambda Q: np.add(Q, 0.0), lambda v: v.copy())]
    for vi, v in enumerate(vals):
        for order in ('H', 'S'):
            Q = Quaternion((v if order == 'H' else np.roll(v, -1)).copy(), versor=False, order=order)
            for dn, mk, ref_fn in derive:
                key = f'q#{vi} order={order} derived={dn}'
                try:
                    R = mk(Q)
                except Exception as ex:
                    ctx.outcome(('derive-refused', dn)); continue
                if not isinstance(R, Quaternion):
                    ctx.outcome(('derive-plain', dn)); continue
                rv = ref_fn(v)                                    # Hamilton-ordered reference elements of the derived quaternion
                ctx.evals += 1
                try:
                    ctx.close([R.w, R.x, R.y, R.z], rv, TOL, 'derived object: w, x, y, z are its own elements', key)
                    cj = np.asarray(R.conjugate, float)
                    ctx.close(cj if order == 'H' else np.roll(cj, 1), rq.qconj(rv), TOL, 'derived object: conjugate of its own elements', key)
                    for oi, o in enumerate(others):
                        exp_l = rq.qmul(rv, o); exp_r = rq.qmul(o, rv)
                        P = Quaternion(o.copy(), versor=False)
                        for rn, fn in (('product', lambda: R.product(o.copy())), ('*', lambda: R * P), ('@', lambda: R @ P)):
                            ctx.close(np.asarray(fn(), float), exp_l, TOL * 10, f'derived object as LEFT operand ({rn}) = product of its own elements', f'{key} other#{oi}')
                        if order == 'H':
                            for rn, fn in (('product', lambda: P.product(R)), ('*', lambda: P * R), ('@', lambda: P @ R), ('q_prod', lambda: O.q_prod(o.copy(), R))):
                                ctx.close(np.asarray(fn(), float), exp_r, TOL * 10, f'derived object as RIGHT operand ({rn}) = product of its own elements', f'{key} other#{oi}')
                    if abs(rq.qnorm(rv) - 1) < 1e-12:
                        ctx.close(np.asarray(R.to_DCM(), float), rq.R(rv), TOL, 'derived object: to_DCM of its own elements', key)
                except Exception as ex:
                    ctx.fail('derived object: operation raises', key, repr(ex)[:160], 'completes')
                ctx.cls('derived-objects'); ctx.seen(('derived', vi, order, dn))
    # free functions on (N,4) batches of every small N
    rows = np.array([A.MENU[(k + j) % 8] * (1.0 + 0.5 * j) for j in range(6)])
    for nb in (1, 2, 3, 4, 5, 6):
        for off in (0, 1):
            if off + nb > len(rows):
                continue
            B = rows[off:off + nb]
            key = f'N={nb} offset={off}'
            try:
                cb = np.asarray(O.q_conj(B.copy()), float)
                ctx.expect(cb.shape == (nb, 4) and np.allclose(cb, B * np.array([1.0, -1, -1, -1]), rtol=0, atol=1e-15), 'q_conj(N rows) = rows conjugated one by one', key, cb, B * np.array([1.0, -1, -1, -1]))
            except Exception as ex:
                ctx.fail('q_conj(N rows) raises', key, repr(ex)[:160], 'N rows')
            ctx.cls('small-batches')
    ctx.sample({'derived': [d[0] for d in derive]})


def job_magnitudes(ctx, k):
    """(1) Operands of very small / very large magnitude (versor=False): every product route returns the Hamilton product to full RELATIVE
    precision (no component is rounded away).  (2) Every pairing of scalar-first / scalar-last objects: *, @ and product() agree."""
    Quaternion, O = _lib()
    base = [np.array([1.0, 2.0, -2.0, 4.0]), A.MENU[k].copy(), np.array([0.0, 3.0, 0.0, 4.0]), A.MENU[(k + 3) % 8].copy(), np.array([0.5, -1.5, 2.5, 1.0])]
    scales = [(1e-5, 1e-4), (1e-9, 1.0), (1.0, 1e-9), (1e-100, 1e-100), (1e100, 1e-100), (1e-160, 1e5), (1e150, 1e150), (3e-7, 2e-2)]
    for ip, p0 in enumerate(base):
        for iq, q0 in enumerate(base):
            if ip == iq:
                continue
            for sp, sq in scales:
                p, q = p0 * sp, q0 * sq
                ref = rq.qmul(p0, q0) * (sp * sq) if np.isfinite(sp * sq) and sp * sq != 0 else None
                if ref is None:
                    continue
                sc = float(np.linalg.norm(p0) * np.linalg.norm(q0)) * sp * sq
                key = f'p#{ip}*{sp:g} q#{iq}*{sq:g} k{k}'
                P, Qo = Quaternion(p.copy(), versor=False), Quaternion(q.copy(), versor=False)
                routes = (('product(array)', lambda: P.product(q.copy())), ('product(object)', lambda: P.product(Qo)), ('*', lambda: P * Qo), ('@', lambda: P @ Qo),
                          ('q_prod', lambda: O.q_prod(p.copy(), q.copy())), ('mult_L @ q', lambda: P.mult_L() @ q), ('mult_R(q) @ p', lambda: Qo.mult_R() @ p))
                for rn, fn in routes:
                    ctx.evals += 1
                    try:
                        with np.errstate(all='ignore'):
                            out = np.asarray(fn(), float)
                    except Exception as ex:
                        ctx.fail(f'{rn} raises for operands of extreme magnitude', key, repr(ex)[:120], ref); continue
                    if not (out.shape == (4,) and float(np.abs(out - ref).max()) <= 1e-12 * sc):
                        ctx.fail(f'{rn} = Hamilton product to full relative precision, whatever the magnitudes of the operands', key, out, ref, 1e-12 * sc)
            ctx.seen(('magnitudes', ip, iq))
    ctx.cls('magnitudes')
    for ip, p0 in enumerate(base[:4]):
        for iq, q0 in enumerate(base[:4]):
            for ol in ('H', 'S'):
                for orr in ('H', 'S'):
                    for vers in (True, False):
                        P = Quaternion((p0 if ol == 'H' else np.roll(p0, -1)).copy(), order=ol, versor=vers)
                        Qo = Quaternion((q0 if orr == 'H' else np.roll(q0, -1)).copy(), order=orr, versor=vers)
                        key = f'p#{ip} order={ol} q#{iq} order={orr} versor={vers} k{k}'
                        ctx.evals += 1
                        try:
                            a_, b_, c_ = np.asarray(P * Qo, float), np.asarray(P @ Qo, float), np.asarray(P.product(Qo), float)
                        except Exception as ex:
                            ctx.fail('operators raise for a storage-order pairing', key, repr(ex)[:120], 'a product'); continue
                        if not (np.allclose(a_, b_, rtol=0, atol=1e-14 * max(1.0, np.abs(c_).max())) and np.allclose(a_, c_, rtol=0, atol=1e-14 * max(1.0, np.abs(c_).max()))):
                            ctx.fail('*, @ and product() agree for every pairing of scalar-first / scalar-last operands', key, {'*': a_, '@': b_, 'product': c_}, 'identical')
    ctx.cls('order-pairings')
    ctx.sample({'scales': scales})


def job_ownership(ctx, k):
    """Objects own their components: building an object never changes the caller's array, later changes of that array never reach the object,
    and a second object built from the same array (whatever its options) leaves the first one as it was."""
    Quaternion, O = _lib()
    r = A.MENU[(k + 4) % 8]
    vals = [np.array(v, float) for v in ([1, 2, -2, 4], [0, 3, 0, 4], [2, 0, 0, 0], [0.5, -1.5, 2.5, 1.0])] + [A.MENU[k] * 3.0, A.MENU[(k + 2) % 8].copy()]
    for vi, v in enumerate(vals):
        for cn in ('float64', 'matrix-row', 'strided', 'float32', 'int64', 'list'):
            if cn == 'float64':
                arr = v.copy()
            elif cn == 'matrix-row':
                M = np.tile(v, (3, 1)); arr = M[1]
            elif cn == 'strided':
                buf = np.zeros(8); buf[::2] = v; arr = buf[::2]
            elif cn == 'float32':
                arr = v.astype(np.float32)
            elif cn == 'int64':
                if not np.all(v == np.rint(v)):
                    continue
                arr = v.astype(np.int64)
            else:
                arr = [float(x) for x in v]
            before = np.array(arr, float).copy()
            for first_kw, second_kw in (({'versor': False}, {}), ({}, {'versor': False}), ({'versor': False}, {'versor': False}), ({}, {})):
                key = f'q#{vi} container={cn} first={first_kw} second={second_kw}'
                ctx.evals += 1
                try:
                    p = Quaternion(arr, **first_kw)
                    snap = (np.asarray(p.A, float).copy(), np.asarray(p, float).copy(), np.asarray(p.product(r.copy())).copy())
                    q = Quaternion(arr, **second_kw)
                    after = (np.asarray(p.A, float).copy(), np.asarray(p, float).copy(), np.asarray(p.product(r.copy())).copy())
                except Exception as ex:
                    ctx.fail('building two objects from one array raises', key, repr(ex)[:160], 'two objects')
                    continue
                ctx.expect(np.array_equal(np.array(arr, float), before), "the caller's array is unchanged by the constructors", key, np.array(arr, float), before)
                ctx.expect(all(np.array_equal(a_, b_) for a_, b_ in zip(snap, after)), 'a second object built from the same array leaves the first unchanged', key, after[0], snap[0])
                exp_norm = 1.0 if first_kw == {} else float(np.linalg.norm(before))
                ctx.close(np.linalg.norm(after[2]), exp_norm * 1.0, 1e-6 if cn == 'float32' else 1e-12, '|p r| = |p||r| for the first object after the second was built', key)
                if cn != 'list':
                    saved = np.array(arr).copy()
                    arr[...] = 0
                    arr[0] = 7
                    ctx.expect(np.array_equal(np.asarray(p.A, float), snap[0]) and np.array_equal(np.asarray(p, float), snap[1]),
                               "changing the caller's array afterwards does not reach the object", key, np.asarray(p, float), snap[1])
                    arr[...] = saved
                ctx.cls('ownership')
                ctx.seen(('own', vi, cn, str(first_kw), str(second_kw)))
    ctx.sample({'ownership': 'Quaternion(arr, versor=False) then Quaternion(arr)', 'arr': vals[0].tolist()})


def run(ctx):
    ks = list(range(8)) if ctx.thorough else [A.seed_k(ctx.seed)]
    jobs = []
    for k in ks:
        sets = [('Gc30', 6), ('Gl24', 6)]
        if k == ks[0]:
            sets.append(('G48', 16) if True else None)
        for name, n in sets:
            L = len(_triple_set(name, k))
            for lo, hi in core.chunks(L, n):
                jobs.append(('job_triples', (name, k, lo, hi)))
        for lo, hi in core.chunks(len(_pair_alphabet(k)), 12):
            jobs.append(('job_pairs', (k, lo, hi)))
        jobs.append(('job_inverse', (k,)))
        jobs.append(('job_order', (k,)))
        jobs.append(('job_ownership', (k,)))
        jobs.append(('job_derived', (k,)))
        jobs.append(('job_magnitudes', (k,)))
        jobs.append(('job_object_histories', (k, 4 if ctx.thorough else 3)))
    core.run_jobs(ctx, __name__, jobs)
    ctx.notes['menu_entries'] = ks
