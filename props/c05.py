"""C05 — recursive filters converge to the sensed attitude from any initial orientation.

Closed loop = (filter instance, stationary exact measurements, zero-mean periodic gyro-noise pattern); the run is the orbit from the
initial state; reachability of the target set {error <= tol} within the per-configuration horizon, and invariance afterwards.
"""
import math, itertools
import numpy as np
from mc import core, alphabet as A
from mc.ref import quat as rq, recursive as rr

PID = 'C05'
LEVEL = 'model_checking'
RULE = ('states = filter states visited along the orbits (one per sample consumed); transitions = update steps executed on the real filter; an orbit is '
        'distinct by (filter entry, configuration, true attitude, initial-error axis and angle, noise pattern) and non-trivial when the initial error is not zero')
ASSUMPTIONS = ['stationary sensor: acc and mag are exact images of the filter\'s own reference directions (mc/ref/recursive.py), gyro = zero-mean periodic pattern of amplitude <= 1e-3 rad/s '
               '(exactly-zero gyro is excluded: several filters document it as "return q unchanged")',
               'Madgwick takes a normalised gradient step of fixed length gain*dt, so its estimate chatters with that amplitude (0.29 deg at gain 0.5, 100 Hz): tolerance 1 deg for that configuration', 'Madgwick at its default gains escapes the neighbourhood of the antipode slowly (from 175 deg about x at the level pose: 20500 samples IMU, 26500 MARG), hence horizons 45000 / 60000 there', 'per-configuration horizon H and tolerance are listed in CONFIGS; H is about twice the slowest settling time measured on the unchanged tree over the whole thorough grid',
               'oracle: every row finite and unit; error(H) <= tol; error <= tol over the last 10 % of the run; final error <= max(initial error, tol)',
               'accelerometer-only variants are judged on tilt only; AQUA\'s state is the conjugate attitude; filters without a q0 are started far away by making the first sample consistent with the initial attitude',
               'initial errors up to 175 degrees; exactly opposite is excluded as in the statement']
REQUIRED_CLASSES = ['parameter-carriers', 'streaming', 'dropped-samples', 'err0=0', 'err0<=30', 'err0>=150', 'full-attitude', 'tilt-only']

DIP = 60.0
TRUTHS = [np.array([1.0, 0, 0, 0]), np.array([0.0, 1.0, 0, 0]), rq.axang2q([0, 1, 0], math.pi / 2), None, None, rq.qunit([0.35, 0.6, -0.6, 0.4])]
ERR_AXES = [np.array(v, float) for v in [(1, 0, 0), (0, 1, 0), (0, 0, 1), (1, 1, 0), (1, 1, 1), (1, 2, -1.5)]] + [None]
# the last entry (index 6) stands for "an axis perpendicular to the measured gravity direction": the whole initial error is a TILT error
# (with a fixed body axis and a generic truth part of the error is heading and the predicted gravity is never nearly opposite to the measured one)
ERR_ANG = [0.0, 1.0, 30.0, 90.0, 150.0, 175.0]


def noise_patterns():
    pats = []
    for eps in (1e-3, 1e-4):
        for v in ((1, 0, 0), (0, 1, 0), (0, 0, 1), (1 / math.sqrt(3), -1 / math.sqrt(3), 1 / math.sqrt(3))):
            v = eps * np.array(v)
            pats.append(np.array([v, -v]))
        v = eps * np.array([1.0, 0.5, -0.3]); w = eps * np.array([-0.2, 0.7, 0.6])
        pats.append(np.array([v, w, -v - w]))
    # amplitudes many decades below the nominal ones (a sensor at rest on a good gyro): next to the exact-zero shortcuts of the update steps
    for eps in (1e-6, 1e-9, 1e-12):
        v = eps * np.array([1.0, 0.5, -0.3]); w = eps * np.array([-0.2, 0.7, 0.6])
        pats.append(np.array([v, w, -v - w]))
    return pats


# key -> list of (cfg index or dict, dt, horizon, tol_deg, reduced?)  horizon in samples
CONFIGS = {
    'Madgwick-IMU': [(dict(gain=0.5, frequency=100.0), 3000, 1.0), (dict(gain=0.033, frequency=100.0), 45000, 0.5)],
    'Madgwick-MARG': [(dict(gain=0.5, frequency=100.0), 3000, 1.0), (dict(gain=0.041, frequency=100.0), 60000, 0.5)],
    'Mahony-IMU': [(dict(k_P=2.0, k_I=0.1, frequency=10.0), 1000, 0.5), (dict(frequency=100.0), 3000, 0.5)],
    'Mahony-MARG': [(dict(k_P=2.0, k_I=0.1, frequency=10.0), 2000, 0.5), (dict(frequency=100.0), 22000, 0.5)],
    'EKF-IMU': [(dict(frame='NED', frequency=10.0), 300, 0.5), (dict(frame='NED', frequency=100.0, noises=[0.1**2, 0.3**2, 0.5**2]), 300, 0.5)],
    'EKF-IMU-ENU': [(dict(frame='ENU', frequency=10.0), 300, 0.5)],
    'EKF-MARG': [(dict(frame='NED', magnetic_ref=DIP, frequency=10.0), 1200, 0.5), (dict(frame='NED', magnetic_ref=DIP, frequency=100.0), 9000, 0.5),
                 (dict(frame='NED', magnetic_ref=np.array([21.0, 1.2, 43.1]), frequency=10.0), 1200, 0.5),     # a reference given as a field vector in uT (with declination)
                 (dict(frame='NED', frequency=10.0), 1200, 0.5)],                                                # magnetic reference omitted (the default)
    'EKF-MARG-ENU': [(dict(frame='ENU', magnetic_ref=DIP, frequency=10.0), 1200, 0.5),
                     (dict(frame='ENU', magnetic_ref=np.array([1.2, 21.0, -43.1]), frequency=10.0), 1200, 0.5)],
    'UKF-IMU': [(dict(frequency=10.0), 2000, 1.0), (dict(frequency=100.0), 2000, 1.0)],
    'AQUA-IMU': [(dict(frequency=10.0, alpha=0.05), 400, 0.5), (dict(frequency=100.0), 1500, 0.5), (dict(frequency=10.0, alpha=0.05, adaptive=True), 400, 0.5)],
    'AQUA-MARG': [(dict(frequency=10.0, alpha=0.05, beta=0.05), 500, 0.5), (dict(frequency=100.0), 2000, 0.5), (dict(frequency=10.0, alpha=0.05, beta=0.05, adaptive=True), 500, 0.5)],
    'ROLEQ-MARG': [(dict(frame='NED', magnetic_ref=DIP, frequency=10.0), 200, 0.5), (dict(frame='NED', magnetic_ref=DIP, frequency=100.0), 200, 0.5),
                   (dict(frame='NED', frequency=10.0), 300, 0.5)],                   # magnetic reference omitted (the default)
    'ROLEQ-MARG-ENU': [(dict(frame='ENU', magnetic_ref=DIP, frequency=10.0), 300, 0.5), (dict(frame='ENU', frequency=10.0), 300, 0.5)],
    'FKF-MARG': [(dict(frequency=10.0), 3000, 0.5)],
    'Complementary-IMU': [(dict(frequency=10.0, gain=0.0), 2, 0.5), (dict(frequency=10.0, gain=0.0), 3, 0.5), (dict(frequency=10.0, gain=0.0), 4, 0.5), (dict(frequency=10.0, gain=0.0), 5, 0.5),
                          (dict(frequency=10.0, gain=0.9), 200, 0.5), (dict(frequency=100.0, gain=0.2), 1000, 0.5), (dict(frequency=100.0), 8000, 0.5)],
    'Complementary-MARG': [(dict(frequency=10.0, gain=0.0), 2, 0.5), (dict(frequency=10.0, gain=0.0), 3, 0.5), (dict(frequency=10.0, gain=0.0), 4, 0.5), (dict(frequency=10.0, gain=0.0), 5, 0.5),
                           (dict(frequency=10.0, gain=0.9), 200, 0.5),   # (gain 0: the estimate IS the accelerometer/magnetometer fix of each sample; records of 2 ... 5 samples) (dict(frequency=100.0, gain=0.5), 100, 0.5), (dict(frequency=100.0, gain=0.5), 1500, 0.5),
                           (dict(frequency=100.0), 8000, 0.5)],     # long records: "then stays there" far beyond the settling time
}
LONG = 5000      # configurations with a longer horizon run on a reduced initial-error grid


def truths(k):
    t = list(TRUTHS)
    G = A.Gc(A.G120(), k)
    t[3] = G[37]; t[4] = G[88]
    return t


def expected_state(r, qt):
    return rq.qconj(qt) if r.conj else qt


def _err_deg(r, q, qt, tilt_only, g):
    q = rq.qunit(q)
    if r.conj:
        q = rq.qconj(q)
    if tilt_only:
        u = rq.R(q).T @ g; v = rq.R(qt).T @ g
        return math.degrees(math.atan2(np.linalg.norm(np.cross(u, v)), float(u @ v)))
    return math.degrees(rq.qangle(q, qt))


def run_orbit(r, cfg, H, qt, axis, ang_deg, pattern, fault=None):
    """-> (Q rows, initial state quaternion in the filter's convention)"""
    g, m = r.refs(DIP)
    if isinstance(cfg.get('magnetic_ref'), np.ndarray):        # reference given as a vector: the data are images of that direction
        m = cfg['magnetic_ref'] / np.linalg.norm(cfg['magnetic_ref'])
    elif r.cls_name in ('EKF', 'ROLEQ') and r.has_mag and 'magnetic_ref' not in cfg:
        # reference OMITTED: the data are images of the default reference the filter itself reports (derived from the WMM at import)
        probe = r.fresh(cfg)
        m = np.asarray(probe.m_ref, float) / np.linalg.norm(np.asarray(probe.m_ref, float))
        g = np.asarray(probe.a_ref, float) / np.linalg.norm(np.asarray(probe.a_ref, float))
    Rt = rq.R(qt)
    acc1 = Rt.T @ g * 9.81; mag1 = Rt.T @ m * 45.0
    if axis is None:
        gb = Rt.T @ g
        axis = np.cross(gb, [0.3, -0.5, 0.8] if abs(gb[2]) > 0.9 else [0.0, 0.0, 1.0])
        axis = axis / np.linalg.norm(axis)
    q_init_att = rq.qmul(qt, rq.axang2q(axis, math.radians(ang_deg)))       # attitude (non-conjugate convention)
    gyr = np.tile(pattern, (H // len(pattern) + 1, 1))[:H]
    acc = np.tile(acc1, (H, 1)); mag = np.tile(mag1, (H, 1))
    q0 = None
    if r.q0_key == 'q0':
        q0 = expected_state(r, q_init_att)
    elif r.q0_key == 'w0':
        Ri = rq.R(q_init_att)
        a0 = Ri.T @ g; m0 = Ri.T @ m
        roll = math.atan2(a0[1], a0[2]); pitch = math.atan2(-a0[0], math.hypot(a0[1], a0[2]))
        by = m0[1] * math.cos(roll) - m0[2] * math.sin(roll)
        bx = m0[0] * math.cos(pitch) + math.sin(pitch) * (m0[1] * math.sin(roll) + m0[2] * math.cos(roll))
        q0 = np.array([roll, pitch, math.atan2(-by, bx) if r.has_mag else 0.0])
    else:
        Ri = rq.R(q_init_att)
        acc[0] = Ri.T @ g * 9.81; mag[0] = Ri.T @ m * 45.0
    if fault == 'mag':          # a few dropped (all-zero) samples early in the record: the filter still has to converge afterwards
        mag[5] = 0.0; mag[40:42] = 0.0
    elif fault == 'gyr':
        gyr[7:9] = 0.0; gyr[30] = 0.0
    elif fault == 'acc':
        acc[9] = 0.0
    np.random.seed(4)
    inst = r.batch(gyr, acc, mag, cfg, q0=q0)
    return r.output(inst), q_init_att


def job_orbits(ctx, key, ci, ti, k):
    r = rr.by_key(key)
    cfg, H, tol = CONFIGS[key][ci]
    qt = truths(k)[ti]
    g, m = r.refs(DIP)
    tilt_only = not r.has_mag
    pats = noise_patterns()
    if ctx.thorough:
        grid = [(ax, an, p) for ax in range(len(ERR_AXES)) for an in range(len(ERR_ANG)) for p in range(len(pats)) if ax != 6 or p in (0, 4, 11)]
        if H > LONG:             # long default-gain runs: reduced initial-error set, documented
            grid = [(ax, an, p) for ax in (0, 2, 5) for an in (0, 2, 4, 5) for p in (0, 4, 11)]
    else:
        grid = [(ax, an, p) for ax in (0, 2, 5) for an in (0, 2, 4, 5) for p in (ti % 4, 4)]
        grid += [(5, 4, 10 + ti % 3), (2, 2, 10 + (ti + 1) % 3), (6, 5, 4), (6, 4, ti % 4), (6, 5, 0)]
        if H > LONG:
            grid = [(2, 5, 4), (5, 2, 4), (5, 4, 10 + ti % 3), (6, 4, 4)]
    grid = [g_ + (None,) for g_ in grid]
    if 60 <= H <= 3000 or (ctx.thorough and H >= 60):
        grid += [(5, 4, 4, 'mag'), (5, 4, 4, 'gyr'), (5, 4, 4, 'acc'), (2, 2, 0, 'gyr')] if r.has_mag else [(5, 4, 4, 'gyr'), (5, 4, 4, 'acc')]
    for ax, an, p, fault in grid:
        kk = f'filter={key} cfg#{ci} truth#{ti}k{k} axis#{ax} err0={ERR_ANG[an]:g} noise#{p}' + ('' if fault is None else f' dropped-samples={fault}')
        ctx.evals += 1
        try:
            Q, q_init = run_orbit(r, cfg, H, qt, ERR_AXES[ax], ERR_ANG[an], pats[p], fault=fault)
        except ValueError as ex:
            if fault is not None:
                ctx.outcome(('record-with-dropped-samples-refused', key, fault))      # a refusal of such a record is C13's business
                continue
            ctx.fail(f'{key}: orbit raises', kk, f'{type(ex).__name__}: {ex}'[:160], 'an orbit')
            continue
        except Exception as ex:
            ctx.fail(f'{key}: orbit raises', kk, f'{type(ex).__name__}: {ex}'[:160], 'an orbit')
            continue
        if fault is not None:
            ctx.cls('dropped-samples')
        ctx.transitions += H
        ctx.states += H
        ctx.traces += 1
        Qa = np.asarray(Q)
        if Qa.shape != (H, 4) or not np.all(np.isfinite(Qa)) or np.abs(np.linalg.norm(Qa, axis=1) - 1).max() > 1e-9:
            ctx.fail(f'{key}: every row finite and unit', kk, 'bad row', 'finite unit rows')
            continue
        e0 = _err_deg(r, expected_state(r, q_init), qt, tilt_only, g)
        tail = range(int(0.9 * H), H)
        errs_tail = [_err_deg(r, Qa[t], qt, tilt_only, g) for t in tail]
        eH = errs_tail[-1]
        # settling time (information): last index at which the error exceeds tol, sampled every 1 % of the run
        step = max(1, H // 200)
        settle = 0
        for t in range(H - 1, -1, -step):
            if _err_deg(r, Qa[t], qt, tilt_only, g) > tol:
                settle = t
                break
        ctx.track(f'settle:{key}#{ci}', settle)
        peak = max(_err_deg(r, Qa[t], qt, tilt_only, g) for t in list(range(0, min(H, 400))) + list(range(400, H, step)))
        ctx.track(f'peak_minus_initial_deg:{key}#{ci}', max(0.0, peak - max(e0, tol)))
        ctx.track(f'final_err_deg:{key}#{ci}', eH)
        ctx.expect(eH <= tol, f'{key}: error at the horizon below tolerance', kk, {'err_deg': eH, 'err0_deg': e0}, tol, tol)
        ctx.expect(max(errs_tail) <= tol, f'{key}: stays within tolerance over the last 10 % of the run', kk, max(errs_tail), tol, tol)
        ctx.expect(eH <= max(e0, tol) + 1e-9, f'{key}: final error never exceeds the initial error', kk, {'err_deg': eH, 'err0_deg': e0}, max(e0, tol))
        ctx.cls('err0=0' if ERR_ANG[an] == 0 else ('err0<=30' if ERR_ANG[an] <= 30 else ('err0>=150' if ERR_ANG[an] >= 150 else 'err0 mid')))
        ctx.cls('tilt-only' if tilt_only else 'full-attitude')
        if ERR_ANG[an] > 0:
            ctx.seen((key, ci, ti, k, ax, an, p))
        ctx.outcome((key, ci, round(eH, 3)))
    ctx.max_depth = max(ctx.max_depth, H)
    ctx.sample({'filter': key, 'cfg': cfg, 'horizon': H, 'tol_deg': tol, 'truth': qt.tolist(), 'err0': [ERR_AXES[2].tolist(), 150.0], 'noise': pats[4].tolist()})


CARRIERS = ['ndarray', 'list', 'Quaternion', 'Quaternion.copy()', 'Quaternion/norm', 'Quaternion view']


def _carry(kind, q):
    """The attitude handed back to the filter at the next step, in the forms a user loop `q = f.update(q, ...)` produces."""
    from ahrs import Quaternion
    if kind == 'ndarray':
        return np.array(q, float)
    if kind == 'list':
        return [float(x) for x in np.asarray(q)]
    Q = q if isinstance(q, Quaternion) else Quaternion(np.array(q, float))
    if kind == 'Quaternion':
        return Q
    if kind == 'Quaternion.copy()':
        return Q.copy()
    if kind == 'Quaternion/norm':
        return Q / np.linalg.norm(Q)
    return Q[:]


def job_stream(ctx, key, ci, k):
    """The same closed loop driven sample by sample through the update method, the a-priori attitude carried in each of the forms above."""
    r = rr.by_key(key)
    cfg, H, tol = CONFIGS[key][ci]
    qt = truths(k)[5]
    g, m = r.refs(DIP)
    if isinstance(cfg.get('magnetic_ref'), np.ndarray):
        m = cfg['magnetic_ref'] / np.linalg.norm(cfg['magnetic_ref'])
    elif r.cls_name in ('EKF', 'ROLEQ') and r.has_mag and 'magnetic_ref' not in cfg:
        probe = r.fresh(cfg)
        m = np.asarray(probe.m_ref, float) / np.linalg.norm(np.asarray(probe.m_ref, float))
        g = np.asarray(probe.a_ref, float) / np.linalg.norm(np.asarray(probe.a_ref, float))
    tilt_only = not r.has_mag
    pat = noise_patterns()[4]
    Rt = rq.R(qt)
    acc1 = Rt.T @ g * 9.81; mag1 = Rt.T @ m * 45.0
    for ax, ang in ((5, 150.0), (2, 30.0)):
        q_init = rq.qmul(qt, rq.axang2q(ERR_AXES[ax], math.radians(ang)))
        e0 = _err_deg(r, expected_state(r, q_init), qt, tilt_only, g)
        for cn in CARRIERS:
            kk = f'filter={key} cfg#{ci} stream carrier={cn} axis#{ax} err0={ang:g}'
            ctx.evals += 1
            try:
                np.random.seed(4)
                inst = r.fresh(cfg)
                q = expected_state(r, q_init)
                errs = []
                for t in range(H):
                    q = r.step_fn(inst, _carry(cn, q), pat[t % len(pat)].copy(), acc1.copy(), mag1.copy() if r.has_mag else None)
                    if t >= int(0.9 * H):
                        errs.append(_err_deg(r, np.array(q, float), qt, tilt_only, g))
                ctx.transitions += H; ctx.states += H; ctx.traces += 1
            except TypeError as ex:
                if cn == 'ndarray':
                    ctx.fail(f'{key}: streaming orbit raises', kk, f'{type(ex).__name__}: {ex}'[:160], 'an orbit')
                else:
                    ctx.outcome(('carrier-refused', key, cn))       # a TypeError for a non-ndarray a-priori is a refusal, not a wrong answer
                continue
            except Exception as ex:
                ctx.fail(f'{key}: streaming orbit raises', kk, f'{type(ex).__name__}: {ex}'[:160], 'an orbit')
                continue
            qf = np.array(q, float)
            if not np.all(np.isfinite(qf)) or abs(np.linalg.norm(qf) - 1) > 1e-9:
                ctx.fail(f'{key}: streaming orbit ends on a finite unit quaternion', kk, qf, 'finite unit')
                continue
            ctx.expect(errs[-1] <= tol, f'{key}: streaming error at the horizon below tolerance', kk, {'err_deg': errs[-1], 'err0_deg': e0}, tol, tol)
            ctx.expect(max(errs) <= tol, f'{key}: streaming stays within tolerance over the last 10 % of the run', kk, max(errs), tol, tol)
            ctx.cls('streaming')
            ctx.seen((key, ci, 'stream', cn, ax))
    ctx.sample({'filter': key, 'cfg': cfg, 'horizon': H, 'carriers': CARRIERS})


def job_param_carriers(ctx, k):
    """Array-valued constructor parameters (initial covariance, noise variances, reference vector, initial bias, weights, a-priori) written as
    INTEGER arrays / nested lists of ints / tuples instead of float64 arrays: the run converges exactly as the run given the same numbers as
    floats - the two estimate histories are equal (a parameter array that is later updated in place must not keep the caller's dtype)."""
    from ahrs import filters as F
    qt = A.MENU[k]
    Rt = rq.R(qt)
    H = 600
    pat = noise_patterns()[4]                       # zero-mean three-sample pattern of amplitude 1e-3 rad/s
    gyr = np.tile(pat, (H // len(pat) + 1, 1))[:H]
    q_init = rq.qmul(qt, rq.axang2q([0.3, -0.5, 0.8], math.radians(80.0)))

    def data(g, m):
        return np.tile(Rt.T @ np.asarray(g, float) * 9.81, (H, 1)), np.tile(Rt.T @ (np.asarray(m, float) / np.linalg.norm(m)) * 45.0, (H, 1))
    as_int = lambda x: np.asarray(x).astype(np.int64)
    as_list = lambda x: np.asarray(x).astype(int).tolist()
    as_tuple = lambda x: tuple(int(v) for v in np.ravel(x)) if np.ndim(x) == 1 else tuple(tuple(int(v) for v in r_) for r_ in np.asarray(x))
    carriers = [('int64 array', as_int), ('nested list of ints', as_list), ('tuple of ints', as_tuple), ('float32 array', lambda x: np.asarray(x, np.float32))]
    mref = np.array([3.0, 0.0, 4.0])            # dip 53.13 deg, integer components
    cases = []
    for frame in ('NED', 'ENU'):
        mr = mref if frame == 'NED' else np.array([0.0, 3.0, -4.0])
        gref = np.array([0.0, 0.0, 1.0]) if frame == 'NED' else np.array([0.0, 0.0, -1.0])
        acc, mag = data(gref, mr)
        st = q_init
        cases += [(f'EKF[{frame}] P=', 'P', np.diag([1.0, 1.0, 1.0, 1.0]), lambda v, acc=acc, mag=mag, mr=mr, frame=frame: F.EKF(gyr=gyr.copy(), acc=acc.copy(), mag=mag.copy(), frame=frame, magnetic_ref=mr.copy(), q0=st.copy(), P=v).Q),
                  (f'EKF[{frame}] P= (diag 10)', 'P', np.diag([10.0, 10.0, 10.0, 10.0]), lambda v, acc=acc, mag=mag, mr=mr, frame=frame: F.EKF(gyr=gyr.copy(), acc=acc.copy(), mag=mag.copy(), frame=frame, magnetic_ref=mr.copy(), q0=st.copy(), P=v).Q),
                  (f'EKF[{frame}] IMU P=', 'P', np.diag([1.0, 1.0, 1.0, 1.0]), lambda v, acc=acc, frame=frame: F.EKF(gyr=gyr.copy(), acc=acc.copy(), frame=frame, q0=st.copy(), P=v).Q),
                  (f'EKF[{frame}] noises=', 'noises', np.array([1.0, 2.0, 3.0]), lambda v, acc=acc, mag=mag, mr=mr, frame=frame: F.EKF(gyr=gyr.copy(), acc=acc.copy(), mag=mag.copy(), frame=frame, magnetic_ref=mr.copy(), q0=st.copy(), noises=v).Q),
                  (f'EKF[{frame}] magnetic_ref=', 'magnetic_ref', mr, lambda v, acc=acc, mag=mag, frame=frame: F.EKF(gyr=gyr.copy(), acc=acc.copy(), mag=mag.copy(), frame=frame, magnetic_ref=v, q0=st.copy()).Q),
                  (f'ROLEQ[{frame}] magnetic_ref=', 'magnetic_ref', mr, lambda v, acc=data(-gref, mr)[0], mag=mag, frame=frame: F.ROLEQ(gyr=gyr.copy(), acc=acc.copy(), mag=mag.copy(), frame=frame, magnetic_ref=v, q0=st.copy()).Q),
                  (f'ROLEQ[{frame}] weights=', 'weights', np.array([1.0, 2.0]), lambda v, acc=data(-gref, mr)[0], mag=mag, mr=mr, frame=frame: F.ROLEQ(gyr=gyr.copy(), acc=acc.copy(), mag=mag.copy(), frame=frame, magnetic_ref=mr.copy(), q0=st.copy(), weights=v).Q)]
    accN, magN = data([0.0, 0.0, 1.0], [0.0, 3.0, -4.0])
    cases += [('Mahony b0=', 'b0', np.array([0.0, 0.0, 0.0]), lambda v: F.Mahony(gyr=gyr.copy(), acc=accN.copy(), mag=magN.copy(), q0=q_init.copy(), b0=v).Q),
              ('Mahony IMU b0=', 'b0', np.array([1.0, 0.0, -1.0]), lambda v: F.Mahony(gyr=gyr.copy(), acc=accN.copy(), q0=q_init.copy(), b0=v).Q),
              ('UKF P=', 'P', np.diag([1.0, 1.0, 1.0, 1.0]), lambda v: F.UKF(gyr=gyr[:40].copy(), acc=accN[:40].copy(), q0=qt.copy(), P=v).Q),
              ('Madgwick q0= (axis-aligned)', 'q0', np.array([0.0, 1.0, 0.0, 0.0]), lambda v: F.Madgwick(gyr=gyr.copy(), acc=accN.copy(), mag=magN.copy(), q0=v).Q),
              ('Complementary w0=', 'w0', np.array([1.0, 0.0, -2.0]), lambda v: F.Complementary(gyr=gyr.copy(), acc=accN.copy(), mag=magN.copy(), w0=v).Q)]
    for name, pn, val, run_ in cases:
        try:
            np.random.seed(4)
            ref = np.asarray(run_(np.array(val, float)), float)
        except Exception as ex:
            ctx.outcome(('param-carrier-reference-run-raises', name, type(ex).__name__)); continue
        for cn, conv in carriers:
            key = f'{name} as {cn} k{k}'
            ctx.evals += 1
            try:
                np.random.seed(4)
                out = np.asarray(run_(conv(val)), float)
            except (TypeError, AttributeError):
                ctx.outcome(('param-carrier-refused', name, cn)); continue
            except Exception as ex:
                ctx.fail(f'{name.split(" ")[0]}: raises when the parameter {pn} is carried by another numeric type / container', key, f'{type(ex).__name__}: {ex}'[:160], 'the estimates of the float64 run'); continue
            tol = 1e-4 if 'float32' in cn else 1e-12
            ok = out.shape == ref.shape and bool(np.all(np.isfinite(out))) and min(float(np.abs(out - ref).max()), float(np.abs(out + ref).max())) <= tol
            ctx.expect(ok, f'{name.split(" ")[0]}: the same estimates (hence the same convergence) whatever numeric type / container carries the parameter {pn}', key,
                       {'max difference': float(np.abs(out - ref).max()) if out.shape == ref.shape else None, 'last row': out[-1].tolist() if out.ndim == 2 else None}, {'last row': ref[-1].tolist()}, tol)
            ctx.seen(('param-carrier', name, cn))
    ctx.cls('parameter-carriers')


def run(ctx):
    k = A.seed_k(ctx.seed)
    jobs = []
    for key, cfgs in CONFIGS.items():
        for ci in range(len(cfgs)):
            tis = range(6) if ctx.thorough else ((3, 5) if cfgs[ci][1] <= 1500 else (5,))
            for ti in tis:
                jobs.append(('job_orbits', (key, ci, ti, k)))
    for key, cfgs in CONFIGS.items():
        r = rr.by_key(key)
        if r.step_fn is None or r.q0_key != 'q0' or key.startswith('UKF'):      # (UKF: recorded finding, it does not converge at all)
            continue
        for ci in range(len(cfgs)):
            if cfgs[ci][1] <= 3000 or ctx.thorough:
                jobs.append(('job_stream', (key, ci, k)))
    # longest jobs first
    jobs.sort(key=lambda j: -CONFIGS[j[1][0]][j[1][1]][1])
    jobs.append(('job_param_carriers', (k,)))
    core.run_jobs(ctx, __name__, jobs)
    ctx.notes['configs'] = {k: [(c[0], c[1], c[2]) for c in v] for k, v in CONFIGS.items()}
