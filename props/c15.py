"""C15 — WMM answers depend only on (date, place, height, frame), not on call path or history.

Explicit-state breadth-first search over the query histories of ONE real ``ahrs.utils.wmm.WMM`` object
(mc/explore.py).  A state is the event history that reaches it: for every transition a fresh real object is built
and the whole history is replayed on the real code; states are deduplicated on a hash of the complete ``__dict__``
(coefficient tables, Legendre tables, elements, dates ... arrays by bytes).  Initial states are constructor
configurations, operations are ``magnetic_field`` (explicit decimal date, ``datetime.date``, ``date=None``, date
omitted), ``reset_coefficients`` and reading the two properties.  The oracle is evaluated on every transition:

* the elements equal those of a FRESH object asked the same (date, place, height, frame) through
  ``magnetic_field`` with an explicit decimal date (that path is pinned by C14); which (date, ...) an event has to
  answer is said by the boring reference model mc/ref/wmm_hist.py (the only memory of the object is the date last given);
* constructor answer = method answer;
* H, F, I, D recomputed from X, Y, Z;   GV from D and the longitude (documented grivation rule);
* frame 'ENU': vector = fresh NED vector with north/east swapped and down negated;
* every element a finite number, also at +-90 deg, on the equator and on the prime meridian (not None);
* longitude +180 and -180 give the same elements;
* reading a property returns the stored elements and changes nothing.
"""
import os
import math
import types
import hashlib
import datetime
import numpy as np
from mc import core, explore
from mc.ref import wmm_hist as M
from mc.ref import wmm as rw

PID = 'C15'
LEVEL = 'model_checking'
TOL = 1e-8           # nT for X, Y, Z, H, F; degrees for I, D, GV
ELEMENTS = ('X', 'Y', 'Z', 'H', 'F', 'I', 'D', 'GV')

RULE = ('state = complete __dict__ of one real WMM object (hashed, arrays by bytes) + length of the trailing run of '
        'date=None queries; identified by the first (shortest) event history reaching it; transition = one operation of the '
        'menu applied to a state by replaying history + operation on a fresh real object; the oracle is evaluated on every '
        'transition and on every initial state. Level-synchronous BFS with global deduplication, run to the FIXPOINT: '
        'every history of any length over the menu is covered whose runs of consecutive date=None queries are not longer '
        'than the deviation bound K (see ASSUMPTIONS). A case (= key) is the representative history plus the operation; it is non-trivial '
        'when the operation is a query (constructor or magnetic_field), which all keys counted in distinct_nontrivial are')
ASSUMPTIONS = [
    'tolerance 1e-8 (nT for X, Y, Z, H, F; degrees for I, D, GV). A reused and a fresh object execute the same floating '
    'point operations on the same inputs, so the history/constructor comparisons are bit-exact on a correct tree (worst '
    'observed 0.0) and ENU vs NED is an exact swap (0.0); H, F, I, D are recomputed with math.hypot/atan2 instead of '
    'numpy.linalg.norm/arctan2: worst observed 2.9e-11; longitude +180 vs -180 differs through sin(+-pi) = +-1.2e-16: '
    'worst observed 1.5e-11 nT. The tolerance is >= 340 x every observed worst; the smallest history effect there is '
    '(a stale coefficient table of the neighbouring epoch, a tenth of a year of secular variation) is > 0.4 nT, a '
    'double Schmidt scaling 1e4 nT, sign/index slips in the derived elements >= 1e2 nT or degrees',
    'clock: the name `datetime` inside ahrs.utils.wmm is replaced by a namespace whose `date` is a subclass of '
    'datetime.date with today() fixed to 2026-03-01 (metaclass __instancecheck__ accepts real datetime.date objects), and '
    'the import-time default of the date argument of WMM.magnetic_field is set to the same day; this is the only '
    'intervention, it makes "today" a constant of the check (epoch WMM2025, grid date 2026.2)',
    'which date an event has to answer comes from mc/ref/wmm_hist.py: the date given with the event, else (date=None) '
    'the date last given to constructor / magnetic_field / reset_coefficients, else today; calendar days become decimal '
    'years as year + (day_of_year - 1)/days_in_year (1 January = year.0; the convention of mc/ref/wmm.py, not the '
    'package\'s year + day_of_year/365). The calendar days used are 2021-07-01, where every convention gives the grid '
    'date 2021.5, and 2019-12-31, the last day before the epoch seam, where the only thing demanded is that a day of 2019 '
    'is answered from the model valid before 2020.0 (its own class tag date=day(2019-12-31))',
    'the numbers come from a fresh real object per (decimal date, lat, lon, h, frame) (memoised; constructed with an '
    'explicit date and the default place, then asked once with an explicit decimal date) - correctness of that path is '
    'C14; the deviation of the fresh NED answers from the independent evaluator mc/ref/wmm.py is tracked (information)',
    'deviation bound K: histories with more than K consecutive date=None queries are not explored (K = 1 quick, 3 '
    'thorough; reads between them do not break a run; any explicit date, omitted date or reset_coefficients ends it). '
    'On the unchanged tree every date=None query on already used coefficients reaches a NEW state (the Schmidt scaling '
    'is applied again), so without K the state space is infinite; on a tree where date=None reloads the tables K is '
    'immaterial (the repaired scratch tree closes at 410 states in the quick tier). Violating states ARE expanded '
    '(nothing is pruned). Hard caps (reported in caps_hit, never hit on the unchanged tree): 50 000 states, '
    '60 000 / 600 000 transitions (quick / thorough; the unchanged tree needs 32 458 ... 33 290 / 400 080) - they only bound the '
    'run time on a mutant whose state space explodes',
    'the ENU/NED relation and the +180/-180 relation are judged against fresh answers and therefore only on transitions '
    'whose elements already equal the fresh object\'s (otherwise the same corrupted vector would be reported three times)',
    'H, F, I, D are recomputed from the X, Y, Z the object reports in its own frame (H = |(X,Y)|, F = |(H,Z)|, '
    'I = atan2(Z,H), D = atan2(Y,X)), which is all the statement says. REMARK (not judged): with frame=ENU the package '
    'applies these formulas to the rotated vector, so it reports I = -inclination and D = 90 deg - declination',
    'GV is judged against the documented rule GV = D - lon (lat > 55), D + lon (lat < -55), D otherwise, using the '
    'object\'s own D',
    'a constructor that leaves the elements None is reported once, at the constructor; reading those None values '
    'afterwards is not reported again',
    'quick tier: 96 constructors (8 dates x 6 places x 2 frames); menu of 52 operations = 7 places (6 fixed boundary '
    'places + 1 selected by VERIF_SEED from a menu of 5) x 7 date forms (2019.999, 2022.5, 2025.0, two calendar days, '
    'None, omitted) + 1 reset + 2 reads; K = 1. thorough: 108 constructors (9 dates), 105 operations = 10 places x 10 '
    'date forms + 3 resets + 2 reads; K = 3; identical for every seed. Both tiers run to the fixpoint (no depth bound)',
    'debugging aid: with C15_DEBUG=1 in the environment every failing (site, class tag) pair is additionally counted as '
    'a coverage class "dbg ..."; it changes no verdict',
]
REQUIRED_CLASSES = ['number-types', 'op:refused-date', 'op:other-object', 'ctor:NED', 'ctor:ENU', 'ctor:lat=0', 'ctor:lon=0', 'ctor:place=default', 'ctor:date=None',
                    'ctor:date=day', 'ctor:date=decimal', 'ctor:seam-1e-3',
                    'op:field(date=decimal)', 'op:field(date=day)', 'op:field(date=omitted)',
                    'op:field(date=None) first evaluation after a load', 'op:field(date=None) on used coefficients',
                    'op:reset', 'op:read', 'op:epoch-change', 'op:same-query-repeated',
                    'place:north-pole', 'place:south-pole', 'place:equator', 'place:prime-meridian',
                    'place:lon=+180', 'place:lon=-180', 'place:|lat|>55&lon!=0', 'frame:ENU query', 'frame:NED query',
                    'explore:transition into a known state']

# ---- alphabets -------------------------------------------------------------------------------------------------
CTOR_DATES = [None, 2015.0, 2019.999, 2020.0, 2022.5, 2024.999, 2025.0, 'day:2021-07-01']
CTOR_DATES_T = CTOR_DATES + [2022.449]
CTOR_PLACES = [None, (0.0, 20.0, 0.0), (10.0, 0.0, 0.0), (0.0, 0.0, 0.0), (10.0, 20.0, 0.0), (90.0, 0.0, 0.0), (10.0, 20.0, -0.5)]      # (heights down to -1 km are places of the model)
PLACES = [(0.0, 20.0, 0.0), (10.0, 0.0, 0.0), (10.0, 0.0, 400.0), (90.0, 0.0, 0.0), (-90.0, 50.0, 0.0), (45.0, 180.0, 0.0), (45.0, -180.0, 0.0)]   # (10, 0) at two heights
PLACES_MENU = [(10.0, 20.0, 0.0), (70.0, -100.0, 0.0), (0.0, 0.0, 0.0), (-33.5, 151.25, 100.0), (-60.0, -70.0, 0.5)]
DATES = [2019.999, 2022.5, 2025.0, 'day:2021-07-01', 'day:2019-12-31', 'day:2020-01-01', None, 'omit']     # 2019.999 falls on the calendar day 2020-01-01 (other model file)
DATES_T = [2015.0, 2019.999, 2020.0, 2022.5, 2022.4505, 2024.999, 2025.0, 'day:2021-07-01', 'day:2019-12-31', 'day:2020-01-01', 'day:2022-06-14', None, 'omit']   # 2022.4505 falls on 2022-06-14 (other tenth)
RESETS = [2019.999]
RESETS_T = [2019.999, 2022.5, None]
READS = ['magnetic_elements', 'geodetic_vector']


def _places(ctx):
    if ctx.thorough:
        return PLACES + PLACES_MENU[:4]
    return PLACES + [PLACES_MENU[ctx.seed % len(PLACES_MENU)]]


def _K(ctx):
    return 3 if ctx.thorough else 1


def initial_events(ctx):
    out = []
    for d in (CTOR_DATES_T if ctx.thorough else CTOR_DATES):
        for p in CTOR_PLACES:
            for f in ('NED', 'ENU'):
                out.append(['ctor', d] + (list(p) if p else [None, None, None]) + [f])
    # other accepted spellings of the frame name (the constructor validates case-insensitively): same answers as upper case
    d0 = (CTOR_DATES_T if ctx.thorough else CTOR_DATES)[3]
    for p, f in zip(CTOR_PLACES[:3], ('enu', 'ned', 'Enu') if ctx.thorough else ('enu',)):
        out.append(['ctor', d0] + (list(p) if p else [None, None, None]) + [f])
    # constructor exactly on the longitude limits and on both poles
    for p in ((45.0, 180.0, 0.0), (45.0, -180.0, 0.0), (-90.0, 50.0, 0.0)):
        out.append(['ctor', d0] + list(p) + ['NED'])
    return out


# ---- the real system ---------------------------------------------------------------------------------------------
_REAL_DATE = datetime.date
_lib_cache = {}


def _lib():
    """ahrs.utils.wmm with the clock fixed (idempotent, per process)."""
    if 'W' in _lib_cache:
        return _lib_cache['W']
    core.bind_repo()
    import ahrs.utils.wmm as W

    class _Meta(type):
        def __instancecheck__(cls, inst):
            return isinstance(inst, _REAL_DATE)

    class _FixedDate(_REAL_DATE, metaclass=_Meta):
        @classmethod
        def today(cls):
            return cls(*M.TODAY)

    W.datetime = types.SimpleNamespace(date=_FixedDate, datetime=datetime.datetime, timedelta=datetime.timedelta)
    f = W.WMM.magnetic_field
    # the default of `date` is evaluated when the function is defined (the real clock at import): re-point it at the fixed clock.
    # Any other kind of default (e.g. None resolved inside the method) is left alone: it then goes through the shimmed today().
    if f.__defaults__ is not None and len(f.__defaults__) >= 1 and isinstance(f.__defaults__[-1], _REAL_DATE):
        f.__defaults__ = tuple(f.__defaults__[:-1]) + (_REAL_DATE(*M.TODAY),)
    _lib_cache['W'] = W
    return W


def _arg(tok):
    return M.day(tok) if M.is_day(tok) else tok


def _apply(o, ev):
    if ev[0] == 'field':
        if ev[4] == 'omit':
            o.magnetic_field(ev[1], ev[2], ev[3])
        else:
            o.magnetic_field(ev[1], ev[2], ev[3], date=_arg(ev[4]))
    elif ev[0] == 'reset':
        o.reset_coefficients(_arg(ev[1]))
    elif ev[0] == 'read':
        getattr(o, ev[1])
    elif ev[0] == 'other':
        W_ = _lib()
        other = W_.WMM(date=ev[1], latitude=-40.0, longitude=100.0, height=30.0, frame='ENU' if str(getattr(o, 'frame', 'NED')).upper() == 'NED' else 'NED')
        other.magnetic_field(65.0, -150.0, 2.0, date=ev[1] + 0.2)
        o.magnetic_field(ev[2], ev[3], ev[4], date=None)
    elif ev[0] == 'refuse':
        bad = float('nan') if ev[4] == 'nan' else (_REAL_DATE(2010, 6, 1) if ev[4] == 'day:2010-06-01' else ev[4])
        try:
            o.magnetic_field(ev[1], ev[2], ev[3], date=bad)
            o.__dict__['_verif_refused'] = False
        except (ValueError, TypeError):
            o.__dict__['_verif_refused'] = True
    else:
        raise ValueError(ev)


def mc_build(hist):
    W = _lib()
    c = hist[0]
    kw = dict(date=_arg(c[1]), frame=c[5])
    if c[2] is not None:
        kw.update(latitude=c[2], longitude=c[3], height=c[4])
    o = W.WMM(**kw)
    for ev in hist[1:]:
        _apply(o, ev)
    return o


def _canon_obj(o):
    h = hashlib.blake2b(digest_size=12)
    d = o.__dict__
    for k in sorted(d):
        if k.startswith('_verif') or k in ('latitude', 'longitude', 'height'):
            continue                # harness marker; the place of the last CALL (also stored by a refused call) is not what later answers depend on
        v = d[k]
        h.update(k.encode() + b'=')
        if isinstance(v, np.ndarray):
            h.update(f'{v.dtype}{v.shape}'.encode() + np.ascontiguousarray(v).tobytes())
        elif isinstance(v, _REAL_DATE):
            h.update(b'date:' + v.isoformat().encode())
        elif isinstance(v, (float, np.floating)):
            h.update(b'f:' + np.float64(v).tobytes())
        else:
            h.update(repr(v).encode())
        h.update(b';')
    return h.hexdigest()


def mc_canon(hist, o):
    return f'{_canon_obj(o)}/{M.none_run(hist)}'


def mc_ops(ctx, hist):
    """Operation menu in a fixed order; date=None queries are disabled once the trailing run has length K."""
    run = M.none_run(hist)
    ops = []
    for p in _places(ctx):
        for d in (DATES_T if ctx.thorough else DATES):
            if d is None and run >= _K(ctx):
                continue
            ops.append(['field', p[0], p[1], p[2], d])
    ops += [['reset', d] for d in (RESETS_T if ctx.thorough else RESETS)]
    ops += [['read', r] for r in READS]
    if run < _K(ctx):
        ops += [['other', d, 10.0, 20.0, 0.0] for d in ((2016.3, 2021.3, 2027.1) if ctx.thorough else (2016.3, 2027.1))]
    ops += [['refuse', 10.0, 20.0, 0.0, bad] for bad in ((2012.5, 'nan', 'abc', 'day:2010-06-01') if ctx.thorough else (2012.5, 'nan'))]
    return ops


# ---- expected answers ----------------------------------------------------------------------------------------------
_memo = {}


def fresh(ctx, dd, lat, lon, h, frame):
    """Elements of a fresh object asked through magnetic_field with an explicit decimal date (memoised)."""
    k = (dd, lat, lon, h, frame)
    if k not in _memo:
        W = _lib()
        w = W.WMM(date=2020.0, frame=frame)
        w.magnetic_field(lat, lon, h, date=float(dd))
        e = {n: float(v) for n, v in w.magnetic_elements.items()}
        if frame == 'NED':
            r = rw.field(lat, lon, h, float(dd))
            e['_ref_dev'] = float(max(abs(e[n] - r[i]) for i, n in enumerate('XYZ')))
        _memo[k] = e
    e = _memo[k]
    if '_ref_dev' in e:
        ctx.track('info.fresh_NED_vs_mc/ref/wmm.py_nT', e['_ref_dev'])
    return e


def _vec(e):
    return [e[n] for n in ELEMENTS]


def _numbers(el):
    try:
        return all(v is not None and not isinstance(v, (bool, str)) and math.isfinite(float(v)) for v in el.values())
    except Exception:
        return False


def _place_classes(ctx, lat, lon):
    if lat == 90.0:
        ctx.cls('place:north-pole')
    if lat == -90.0:
        ctx.cls('place:south-pole')
    if lat == 0.0:
        ctx.cls('place:equator')
    if lon == 0.0:
        ctx.cls('place:prime-meridian')
    if lon == 180.0:
        ctx.cls('place:lon=+180')
    if lon == -180.0:
        ctx.cls('place:lon=-180')
    if abs(lat) > 55.0 and lon != 0.0:
        ctx.cls('place:|lat|>55&lon!=0')


def _judge_answer(ctx, P, key, o, q):
    """All clauses for one answered query q = (decimal date, lat, lon, h, frame); returns True when numbers came out."""
    dd, lat, lon, h, frame = q
    ctx.cls(f'frame:{frame} query')
    _place_classes(ctx, lat, lon)
    try:
        el = dict(o.magnetic_elements)
        gv = o.geodetic_vector
    except Exception as ex:
        ctx.tick()
        ctx.fail(f'{P}: the elements can be read', key, f'{type(ex).__name__}: {ex}', 'dict of 8 elements')
        return False
    ok = _numbers(el) and sorted(el) == sorted(ELEMENTS)
    ctx.expect(ok, f'{P}: every element is a finite number (poles, equator, prime meridian included; never None)',
               key, el, 'finite numbers')
    if not ok:
        return False
    el = {n: float(v) for n, v in el.items()}
    ctx.outcome(tuple(round(el[n], 6) for n in 'XYZ'))
    try:
        exp = fresh(ctx, dd, lat, lon, h, frame)
    except Exception as ex:
        ctx.tick()
        ctx.fail('harness: fresh object raised', key, f'{type(ex).__name__}: {ex}', None)
        return True
    same = ctx.close(_vec(el), _vec(exp), TOL,
                     f'{P}: elements = those of a fresh object asked (date, place, height, frame) with an explicit decimal date',
                     key)
    # interleaving with ANOTHER object (other date, place, frame) must not change what this object reports
    try:
        W_ = _lib()
        decoy = W_.WMM(date=2016.3, latitude=-40.0, longitude=100.0, height=30.0, frame='ENU' if frame == 'NED' else 'NED')
        decoy.magnetic_field(65.0, -150.0, 2.0, date=2027.1)
        el2 = {n: float(v) for n, v in dict(o.magnetic_elements).items()}
        gv2 = np.asarray(o.geodetic_vector, float)
        ctx.expect(el2 == el and np.array_equal(gv2, np.asarray(gv, float)), f'{P}: what the object reports is not changed by evaluating another WMM object', key, el2, el)
    except Exception as ex:
        ctx.tick()
        ctx.fail(f'{P}: what the object reports is not changed by evaluating another WMM object', key, f'{type(ex).__name__}: {ex}'[:120], el)
    dev = float(np.max(np.abs(np.array(_vec(el)) - np.array(_vec(exp)))))
    ctx.track('dev.vs_fresh(cases within tolerance)' if same else 'info.dev.vs_fresh(violating cases)', dev)
    # mutual consistency of what the object reports
    X, Y, Z = el['X'], el['Y'], el['Z']
    H = math.hypot(X, Y)
    der = [H, math.hypot(H, Z), math.degrees(math.atan2(Z, H)), math.degrees(math.atan2(Y, X))]
    scale = max(1.0, abs(el['F']) / 1e5)          # 1e-8 nT on a geomagnetic field (< 1e5 nT) = 1e-13 relative
    ctx.close([el['H'] / scale, el['F'] / scale, el['I'], el['D']], [der[0] / scale, der[1] / scale, der[2], der[3]], TOL,
              f'{P}: H, F, I, D follow from X, Y, Z', key, track='dev.derived')
    g = el['D'] - lon if lat > 55.0 else (el['D'] + lon if lat < -55.0 else el['D'])
    ctx.close(el['GV'], g, TOL, f'{P}: GV = D -/+ longitude poleward of 55 deg, D elsewhere', key, track='dev.GV')
    ctx.close(np.asarray(gv, float), [X, Y, Z], 0.0, f'{P}: geodetic_vector = (X, Y, Z)', key)
    if same:
        if frame == 'ENU':
            try:
                n = fresh(ctx, dd, lat, lon, h, 'NED')
                ctx.close([X, Y, Z], [n['Y'], n['X'], -n['Z']], TOL,
                          f'{P}: ENU vector = NED vector with north/east swapped and down negated', key, track='dev.ENU')
            except Exception as ex:
                ctx.tick()
                ctx.fail('harness: fresh object raised', key, f'{type(ex).__name__}: {ex}', None)
        if abs(lon) == 180.0:
            try:
                m = fresh(ctx, dd, lat, -lon, h, frame)
                ctx.close(_vec(el), _vec(m), TOL, f'{P}: longitude +180 and -180 give the same elements', key,
                          track='dev.lon180')
            except Exception as ex:
                ctx.tick()
                ctx.fail('harness: fresh object raised', key, f'{type(ex).__name__}: {ex}', None)
    return True


def mc_judge(ctx, hist, o, exc, src_id, dst_id):
    ev = hist[-1]
    key = M.key(hist)
    if os.environ.get('C15_DEBUG') and not hasattr(ctx, '_dbg'):      # per (site, class tag) failure counts as classes
        ctx._dbg = ctx.fail
        ctx.fail = lambda site, k, *a, **kw: (ctx.cls('dbg ' + site[:60] + ' || ' + str(k).split(' | ')[-1]), ctx._dbg(site, k, *a, **kw))[1]
    s = M.replay(hist)
    P = {'ctor': 'WMM(...)', 'field': 'magnetic_field on a used object', 'reset': 'reset_coefficients',
         'read': 'reading a property', 'refuse': 'magnetic_field with a refused date', 'other': 'magnetic_field(date=None) after another WMM object was built and evaluated'}[ev[0]]
    if ev[0] in ('ctor', 'field'):
        ctx.seen(key)
    if src_id is not None and ev[0] != 'read' and dst_id is not None and dst_id == src_id:
        ctx.cls('op:same-query-repeated')          # a state-changing operation that leads back to its own source state
    # coverage classes of the event
    if ev[0] == 'ctor':
        la, lo, _ = M.ctor_place(ev)
        ctx.cls(f'ctor:{ev[5]}')
        if la == 0.0:
            ctx.cls('ctor:lat=0')
        if lo == 0.0:
            ctx.cls('ctor:lon=0')
        if ev[2] is None:
            ctx.cls('ctor:place=default')
        ctx.cls('ctor:date=None' if ev[1] is None else ('ctor:date=day' if M.is_day(ev[1]) else 'ctor:date=decimal'))
        if isinstance(ev[1], float) and 0 < round(ev[1]) - ev[1] <= 1.5e-3:
            ctx.cls('ctor:seam-1e-3')
    elif ev[0] == 'field':
        if ev[4] is None:
            ctx.cls('op:field(date=None) on used coefficients' if s.after in ('ctor', 'field')
                    else 'op:field(date=None) first evaluation after a load')
        elif ev[4] == 'omit':
            ctx.cls('op:field(date=omitted)')
        else:
            ctx.cls('op:field(date=day)' if M.is_day(ev[4]) else 'op:field(date=decimal)')
        if s.prev_cur is not None and M.epoch_file(s.prev_cur) != M.epoch_file(s.cur):
            ctx.cls('op:epoch-change')
    else:
        ctx.cls('op:' + ev[0])
    if len(ctx.samples) < 2 and len(hist) >= 3 and ev[0] == 'field':
        ctx.sample({'key': key, 'must_answer (decimal date, lat, lon, h, frame)': list(s.query), 'state_id': dst_id})
    # no operation of the menu may raise
    if not ctx.expect(exc is None, f'{P}: does not raise', key, exc, 'no exception'):
        return
    if ev[0] in ('ctor', 'field', 'other'):
        if ev[0] == 'other':
            ctx.cls('op:other-object')
        _judge_answer(ctx, P, key, o, s.query)
    elif ev[0] == 'refuse':
        ctx.cls('op:refused-date')
        ctx.expect(o.__dict__.get('_verif_refused') is True, f'{P}: raises ValueError/TypeError', key, 'answered', 'refused')
    elif ev[0] == 'read':
        try:
            el = o.magnetic_elements
            stored = {n: o.__dict__.get(n) for n in ELEMENTS}
            got = {n: el.get(n) for n in ELEMENTS}
            gv = o.geodetic_vector
            okv = all((a is None and b is None) or (a is not None and b is not None and float(a) == float(b))
                      for a, b in zip(gv.tolist() if hasattr(gv, 'tolist') else list(gv), [stored[n] for n in 'XYZ']))
            same = all((got[n] is None and stored[n] is None) or
                       (got[n] is not None and stored[n] is not None and float(got[n]) == float(stored[n])) for n in ELEMENTS)
            ctx.expect(same and okv, f'{P}: returns the stored elements', key, {'elements': got, 'vector': gv}, stored)
        except Exception as ex:
            ctx.tick()
            ctx.fail(f'{P}: returns the stored elements', key, f'{type(ex).__name__}: {ex}', 'the stored elements')
        ctx.expect(dst_id == src_id, f'{P}: does not change the state of the object', key, dst_id, src_id)



def job_number_types(ctx):
    """(date, place, height) carried by other numeric types (whole degrees / kilometres as Python ints or numpy integers): same answers as
    a fresh object asked the same values as floats, through the constructor and through magnetic_field on a used object."""
    W = _lib()
    IP = [(10, -20, 1), (80, 0, 100), (48, 11, 0), (0, 0, 0), (-90, 50, 0), (45, 180, 0), (-33, 151, 5)]
    carriers = [('int', int), ('numpy.int64', np.int64), ('numpy.int32', np.int32), ('numpy.float64', np.float64)]
    for frame in ('NED', 'ENU'):
        for dd in (2021.0, 2019.9, 2025.0):
            for (lat, lon, h) in IP:
                for cn, cv in carriers:
                    for how in ('constructor', 'magnetic_field', 'magnetic_field (height omitted)'):
                        if how.endswith('omitted)') and h != 0:
                            continue
                        key = f'{how} date={dd} lat={lat} lon={lon} h={h} frame={frame} numbers as {cn}'
                        ctx.evals += 1
                        try:
                            if how == 'constructor':
                                o = W.WMM(date=dd, latitude=cv(lat), longitude=cv(lon), height=cv(h), frame=frame)
                            else:
                                o = W.WMM(date=2022.5, latitude=10.0, longitude=20.0, height=0.0, frame=frame)
                                if how.endswith('omitted)'):
                                    o.magnetic_field(cv(lat), cv(lon), date=dd)
                                else:
                                    o.magnetic_field(cv(lat), cv(lon), cv(h), date=dd)
                        except TypeError:
                            ctx.outcome(('number-type-refused', cn, how))
                            continue
                        except Exception as ex:
                            ctx.fail('WMM with the place in another numeric type: does not raise', key, f'{type(ex).__name__}: {ex}'[:160], 'an answer')
                            continue
                        _judge_answer(ctx, 'place given in another numeric type', key, o, (dd, float(lat), float(lon), float(h), frame))
                        ctx.cls('number-types')
                        ctx.seen(('numtype', frame, dd, lat, lon, h, cn, how))
    ctx.sample({'number_types': [c[0] for c in carriers], 'places': IP})


# ---- driver --------------------------------------------------------------------------------------------------------
def run(ctx):
    inits = initial_events(ctx)
    summary = explore.explore(ctx, __name__, inits, max_depth=None, max_states=50000,
                              max_transitions=600000 if ctx.thorough else 60000, chunk=2, init_chunk=6)
    core.run_jobs(ctx, __name__, [('job_number_types', ())])
    ctx.cls('explore:transition into a known state', summary['transitions_into_known_states'])
    if summary['fixpoint_reached']:
        ctx.cls('explore:fixpoint')
    ctx.notes['exploration'] = summary
    ctx.notes['menu'] = {'initial_states': len(inits), 'operations_per_state': len(mc_ops(ctx, [inits[0]])),
                         'places': [list(p) for p in _places(ctx)],
                         'date_forms': [M.fdate(d) for d in (DATES_T if ctx.thorough else DATES)],
                         'deviation_bound_K(date=None run)': _K(ctx), 'today(shim)': list(M.TODAY)}
