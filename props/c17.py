"""C17 — coordinate-frame transformations are mutually inverse rigid maps (ahrs/common/frames.py).

Exhaustive finite grids (nothing random):

(a) geodetic -> ECEF -> geodetic on lat x lon x h  (poles, 90-10^-k, a decade ladder through the equator, the
    +-180 seam, h in [-10 km, 1000 km]); geodetic2ecef against the reference closed form; ecef2lla == ecef2geodetic;
    the polar axis itself (x = y = 0), which is where the exact geodetic -> ECEF image of a pole lies.
(b) every origin x offset lattice {-1e6,-1e3,-1,0,1,1e3,1e6}^3: ECEF -> ENU -> ECEF and ENU -> ECEF -> ENU through
    ecef2enu/enu2ecef and through ecef2enuv/enu2uvw (deg and rad); origin -> 0; ecef2enu against the reference
    (east, north, up) basis; all pairs of a fixed point set: |enu(p) - enu(q)| = |p - q|.
(c) ENU -> AER -> ENU (deg, rad) on the offset lattice, AER in its documented range, aer2enu on an angle grid.
(d) ENU -> DCA -> ENU (deg, rad) on lattice x angle grid, DCA preserves the norm, equals the documented matrix.
(e) NED -> ENU -> NED and ENU -> NED -> ENU for vectors and (N,3) arrays (N = 1, 2, 3, many).
(f) llf2ecef(a, b) = ecef2llf(a, b)^T, both orthogonal with det +1, on a complete angle grid.
"""
import math
import itertools
import numpy as np
from mc import core
from mc.ref import frames as rf

PID = 'C17'
LEVEL = 'exploration'
RULE = ('complete Cartesian grids: (lat, lon, h) for the geodetic round trip; (origin, offset) for ECEF<->ENU; all pairs '
        'of a fixed point set per origin for the isometry; (offset[, angle], unit) for AER/DCA; (vector|array) for '
        'NED<->ENU; (angle, angle) for the LLF matrices. A case is distinct by its grid indices and non-trivial when '
        'the input is not the zero vector / the pair is not (p, p)')
TOL_LAT = 1e-8        # degrees
TOL_H = 1e-3          # metres
TOL_ECEF = 1e-6       # metres, coordinates up to 1.5e7 m
TOL_REL = 1e-11       # AER / DCA, relative to max(|v|, 1)
TOL_MAT = 1e-12
ASSUMPTIONS = [
    'WGS84 default ellipsoid only (a, b arguments are not in the quantifier); scalar Python-float arguments '
    '(geodetic2ecef rejects arrays by construction); every call gets fresh floats / array copies',
    'latitude tolerance 1e-8 deg (1.1 mm on the ground; DESIGN said 1e-9 deg, which the documented algorithm cannot '
    'meet): ecef2geodetic stops when two iterates differ by < 1e-8 rad and the contraction factor of the iteration is '
    'e^2 cos^2(lat) <= 6.7e-3, so the truncation error is bounded by 6.74e-11 rad = 3.86e-9 deg (observed worst '
    '3.80e-9 deg over 1.44e6 thorough cases; this is a deterministic truncation bound, not rounding noise, which is '
    '~1e-14 deg). A stopping threshold moved to 1e-7 / 1e-6 rad gives up to 3.9e-8 / 3.9e-7 deg',
    'height tolerance 1e-3 m (DESIGN): the height error is second order in the latitude error (the first-order terms '
    'of p/cos(lat) and N(lat_old) cancel); observed worst 3.5e-7 m, any formula error is metres',
    'longitude compared modulo 360 deg and scaled by cos(lat) (ground distance), tolerance 1e-9 deg; not compared at '
    'lat = +-90 exactly (longitude is undefined there)',
    'ECEF/ENU coordinates compared to 1e-6 m absolute (coordinates <= 1.5e7 m, eps*1.5e7 = 3e-9 m; observed <= 1e-8 m); '
    'isometry |d_enu - d_ecef| <= 1e-6 * max(d, 1 m)',
    'AER/DCA round trips 1e-11 relative to max(|v|, 1) (observed <= 5e-16 relative); NED<->ENU exact (permutation)',
    'reference model mc/ref/frames.py uses the documented conventions (azimuth clockwise from North, compared modulo a full turn, '
    'elevation from the EN plane, DCA matrix of the docstring, up = ellipsoid normal); sites named "... = reference" '
    'compare against it, the other sites are pure identities of the library with itself',
    'the polar axis x = y = 0 is the exact image of lat = +-90 (the library\'s own geodetic2ecef returns x ~ 4e-10 m '
    'there because cos(pi/2) != 0 in floating point); it is checked as its own site so that it can be triaged apart',
    'argument names of llf2ecef/ecef2llf are swapped w.r.t. ecef2enuv (first argument acts as longitude); the statement '
    'only demands transposes/orthogonality, so this is recorded as a note, not judged',
]
REQUIRED_CLASSES = ['array-arguments', 'ints-and-results', 'geo:pole', 'geo:near-pole', 'geo:equator', 'geo:near-equator', 'geo:mid', 'geo:seam180', 'geo:axis',
                    'enu:origin-pole', 'enu:origin-equator', 'enu:origin-mid', 'enu:zero-offset', 'enu:offset', 'iso:pair',
                    'aer:zero', 'aer:zenith', 'aer:horizontal', 'aer:generic', 'aer:angles', 'dca:deg', 'dca:rad',
                    'ned:vector', 'ned:array', 'llf:grid']

# eight generic (lat, lon, h) triples; VERIF_SEED selects one in a quick run, thorough uses all
MENU = [(37.123456789, -122.987654321, 123.456), (-33.865143, 151.2099, 58.0), (48.85616162, 2.35079383, 67.37),
        (-77.8419, 166.6863, 10.5), (64.1466, -21.9426, 2500.0), (1.3521, 103.8198, 15.0),
        (-54.8019, -68.3030, 7777.7), (21.3069, -157.8583, 400000.0)]
EQ_LADDER = [1e-12, 1e-9, 1e-7, 5.7e-7, 5.8e-7, 1e-6, 1e-3]     # 1e-8 rad = 5.73e-7 deg lies between the 4th and 5th
H_DESIGN = [-1e4, 0.0, 1e3, 1e6]
LON_DESIGN = [-180.0, -90.0, 0.0, 1e-9, 45.0, 90.0, 180.0]
LAT_DESIGN = [-90.0, -89.9999, -60.0, -1e-9, 0.0, 1e-9, 30.0, 45.0, 60.0, 89.9999, 90.0]


def _F():
    from ahrs.common import frames
    return frames


def _menu(ctx):
    return list(range(len(MENU))) if ctx.thorough else [int(ctx.seed) % len(MENU)]


def _uniq(seq):
    out, seen = [], set()
    for x in seq:
        x = float(x)
        if x == 0.0:
            x = 0.0
        if x not in seen:
            seen.add(x); out.append(x)
    return out


# ------------------------------------------------------------------------------------------------ grids
def geo_lats(ctx):
    step = 0.1 if ctx.thorough else 0.5
    n = int(round(180.0 / step))
    lats = list(LAT_DESIGN)
    lats += [s * v for v in EQ_LADDER for s in (1, -1)]
    ks = range(1, 15) if ctx.thorough else (2, 4, 6, 8, 10, 12, 14)
    lats += [s * (90.0 - 10.0 ** -k) for k in ks for s in (1, -1)]
    lats += [round(-90.0 + i * step, 6) for i in range(n + 1)]
    lats += [MENU[k][0] for k in _menu(ctx)]
    return sorted(_uniq(lats))


def geo_lons(ctx):
    lons = list(LON_DESIGN) + [MENU[k][1] for k in _menu(ctx)]
    if ctx.thorough:
        lons += [-180.0 + 15.0 * i for i in range(25)] + [-1e-9, 179.999999, -179.999999, 1e-3, 135.0 + 1e-7]
    return sorted(_uniq(lons))


def geo_hs(ctx):
    hs = list(H_DESIGN) + [MENU[k][2] for k in _menu(ctx)]
    if ctx.thorough:
        hs += [-1e3, -1.0, 1.0, 1e4, 1e5, 5e5, 999999.0, -9999.0]
    return sorted(_uniq(hs))


def enu_origins(ctx):
    lats = list(LAT_DESIGN) + [MENU[k][0] for k in _menu(ctx)]
    lons = list(LON_DESIGN) + [MENU[k][1] for k in _menu(ctx)]
    hs = list(H_DESIGN)
    if ctx.thorough:
        lats += [-80.0 + 10.0 * i for i in range(17)] + [s * (90.0 - 10.0 ** -k) for k in (2, 6, 10, 14) for s in (1, -1)]
        lats += [5.7e-7, -5.8e-7]
        lons += [-180.0 + 30.0 * i for i in range(13)] + [-1e-9, 179.999999]
    return [(a, b, c) for a in sorted(_uniq(lats)) for b in sorted(_uniq(lons)) for c in hs]


def offsets(ctx, big=False):
    vals = [-1e6, -1.0, 0.0, 1.0, 1e6]
    if big:
        vals = [-1e6, -1e3, -1.0, 0.0, 1.0, 1e3, 1e6]
    return [tuple(v) for v in itertools.product(vals, repeat=3)]


def aer_vectors(ctx):
    vals = [-1e6, -1.0, 0.0, 1.0, 1e6]
    if ctx.thorough:
        vals = [-1e6, -1e3, -1.0, -1e-3, 0.0, 1e-3, 1.0, 1e3, 1e6]
    vs = [tuple(v) for v in itertools.product(vals, repeat=3)]
    vs += [(3.0, -4.0, 12.0), (-0.3, 1.2, -2.5), (123456.789, -98765.4321, 5555.5), (1e6, 1e-3, 1.0)]
    for k in _menu(ctx):
        la, lo, h = MENU[k]
        vs.append((la * 10.0, lo, h / 7.0))
    return vs


def angles_deg(ctx):
    a = [0.0, 30.0, 45.0, 90.0, 180.0, -120.0, 270.5]
    if ctx.thorough:
        a += [-360.0 + 15.0 * i for i in range(49)] + [1e-9, -1e-9, 89.999999, 359.999999, 720.0, 1234.5]
    a += [MENU[k][1] for k in _menu(ctx)]
    return _uniq(a)


def _gkey(lat, lon, h):
    return f'lat={lat!r} lon={lon!r} h={h!r}'


def _vkey(v):
    return 'v=(' + ','.join(repr(float(x)) for x in v) + ')'


def _call(ctx, fn, site, key):
    """Run a library call; any exception is a violation of `site` (none of the inputs used here is out of domain)."""
    try:
        return np.asarray(fn(), dtype=float)
    except Exception as ex:
        ctx.evals += 1
        ctx.fail(site, key, f'{type(ex).__name__}: {ex}', 'a finite result (input is inside the stated domain)')
        return None


def _lat_class(lat):
    a = abs(lat)
    if a == 90.0:
        return 'pole'
    if a >= 89.99:
        return 'near-pole'
    if a == 0.0:
        return 'equator'
    if a <= 1e-3:
        return 'near-equator'
    return 'mid'


# ------------------------------------------------------------------------------------------------ (a) geodetic
S_G2E = 'geodetic2ecef = reference closed form'
S_G2E_EXC = 'geodetic2ecef returns'
S_RT_EXC = 'geodetic->ECEF->geodetic: ecef2geodetic returns'
S_RT_LAT = 'geodetic->ECEF->geodetic: latitude'
S_RT_LON = 'geodetic->ECEF->geodetic: longitude (mod 360, scaled by cos lat)'
S_RT_H = 'geodetic->ECEF->geodetic: height'
S_LLA = 'ecef2lla = ecef2geodetic'
S_AXIS_EXC = 'ecef2geodetic on the polar axis (x=y=0) returns'
S_AXIS_LAT = 'ecef2geodetic on the polar axis (x=y=0): latitude = +-90'
S_AXIS_H = 'ecef2geodetic on the polar axis (x=y=0): height = |z| - b'
CHECK_POLAR_AXIS = True


def job_geodetic(ctx, lo, hi):
    F = _F()
    lats, lons, hs = geo_lats(ctx), geo_lons(ctx), geo_hs(ctx)
    for lat in lats[lo:hi]:
        lc = _lat_class(lat)
        for lon in lons:
            for h in hs:
                key = _gkey(lat, lon, h)
                ctx.cls('geo:' + lc)
                if abs(lon) == 180.0:
                    ctx.cls('geo:seam180')
                ctx.seen(('geo', lat, lon, h))
                X = _call(ctx, lambda: F.geodetic2ecef(float(lat), float(lon), float(h)), S_G2E_EXC, key)
                if X is None:
                    continue
                Xr = rf.geodetic2ecef(lat, lon, h)
                ctx.close(X, Xr, TOL_ECEF, S_G2E, key, track='geo.ecef_vs_ref_m')
                g = _call(ctx, lambda: F.ecef2geodetic(float(X[0]), float(X[1]), float(X[2])), S_RT_EXC, key)
                if g is None:
                    ctx.outcome(('geo', 'exception'))
                    continue
                ctx.tick()
                if g.shape != (3,) or not np.all(np.isfinite(g)):
                    ctx.fail(S_RT_EXC, key, g, [lat, lon, h])
                    continue
                dlat = abs(g[0] - lat)
                ctx.track('geo.dlat_deg', dlat)
                ctx.expect(dlat <= TOL_LAT, S_RT_LAT, key, float(g[0]), lat, TOL_LAT)
                if abs(lat) < 90.0:
                    dlon = abs(math.remainder(g[1] - lon, 360.0)) * rf.cosd(lat)
                    ctx.track('geo.dlon_coslat_deg', dlon)
                    ctx.expect(dlon <= 1e-9, S_RT_LON, key, float(g[1]), lon, 1e-9)
                dh = abs(g[2] - h)
                ctx.track('geo.dh_m', dh)
                ctx.expect(dh <= TOL_H, S_RT_H, key, float(g[2]), h, TOL_H)
                g2 = _call(ctx, lambda: F.ecef2lla(float(X[0]), float(X[1]), float(X[2])), S_LLA, key)
                if g2 is not None:
                    ctx.close(g2, g, 0.0, S_LLA, key)
                ctx.outcome(('geo', lc, round(float(g[0]), 3), round(float(g[2]), 0)))
    la = lats[lo]
    ctx.sample({'geodetic_round_trip': {'lat': la, 'lon': lons[-2], 'h': hs[1]}, 'lat_rows': [lo, hi],
                'grid': [len(lats), len(lons), len(hs)]})


def job_axis(ctx):
    """Exact image of the poles: (0, 0, +-(b + h)).  Longitude is arbitrary there and is not judged."""
    F = _F()
    for sgn in (1.0, -1.0):
        for h in geo_hs(ctx):
            z = sgn * (rf.B + h)
            key = f'x=0.0 y=0.0 z={z!r}'
            ctx.cls('geo:axis')
            ctx.seen(('axis', z))
            g = _call(ctx, lambda: F.ecef2geodetic(0.0, 0.0, float(z)), S_AXIS_EXC, key)
            if g is None:
                continue
            ref = rf.ecef2geodetic(0.0, 0.0, z)
            ctx.expect(abs(g[0] - sgn * 90.0) <= TOL_LAT, S_AXIS_LAT, key, float(g[0]), sgn * 90.0, TOL_LAT)
            ctx.track('axis.dh_m', abs(g[2] - h))
            ctx.expect(abs(g[2] - h) <= TOL_H, S_AXIS_H, key, float(g[2]), ref[2], TOL_H)
    ctx.sample({'polar_axis': [0.0, 0.0, rf.B]})


# ------------------------------------------------------------------------------------------------ (b) ECEF <-> ENU
S_E2E = 'ECEF->ENU->ECEF (ecef2enu, enu2ecef)'
S_N2N = 'ENU->ECEF->ENU (enu2ecef, ecef2enu)'
S_VUVW = 'ECEF->ENU->ECEF (ecef2enuv, enu2uvw deg)'
S_VUVW_R = 'ECEF->ENU->ECEF (ecef2enuv, enu2uvw rad)'
S_ENU_REF = 'ecef2enu = reference (east, north, up) basis'
S_ECEF_REF = 'enu2ecef = reference (east, north, up) basis'
S_ORIGIN = 'ecef2enu maps the origin to zero'
S_G2ENU0 = 'geodetic2enu maps the origin to zero'
S_ISO = 'ecef2enu preserves distances |enu(p)-enu(q)| = |p-q|'
S_ISO_G = 'geodetic2enu preserves distances'
S_ENU_EXC = 'ECEF<->ENU call returns'


def _iso_points(ctx, X0):
    o = np.asarray(X0, float)
    P = [o, o + [1.0, 0, 0], o + [0, -1.0, 0], o + [0, 0, 1e3], o + [1e6, -1e6, 1e6], o + [-1e6, 1.0, -1.0],
         np.zeros(3), np.array([0.0, 0.0, rf.B]), np.array([rf.A, 0.0, 0.0]), np.array([0.0, -rf.A, 0.0]), -o,
         np.array([1234567.0, -2345678.0, 3456789.0])]
    if ctx.thorough:
        P += [o + [0.0, 0.0, -1.0], o + [1e-3, 0, 0], o + [3.0, 4.0, 12.0], o * 1.1, o + [-1e6, -1e6, -1e6],
              np.array([0.0, 0.0, -rf.B]), np.array([-rf.A, 0.0, 0.0]), np.array([-4e6, 3e6, -3.5e6]),
              o + [0, 1e6, 0], o + [1e3, 1e3, 1e3], np.array([7e6, 0.0, 1.0]), o + [-1.0, -1.0, -1.0]]
    return P


def job_enu(ctx, lo, hi):
    F = _F()
    origins = enu_origins(ctx)
    offs = offsets(ctx, big=True)
    geo_pts = [(lat, lon, h) for lat in (-90.0, -45.0, 0.0, 1e-9, 60.0, 90.0) for lon in (-180.0, 45.0) for h in (0.0, 1e6)][:12]
    for (lat, lon, h) in origins[lo:hi]:
        okey = _gkey(lat, lon, h)
        oc = {'pole': 'pole', 'equator': 'equator'}.get(_lat_class(lat), 'mid')
        ctx.cls('enu:origin-' + oc)
        X0 = _call(ctx, lambda: F.geodetic2ecef(float(lat), float(lon), float(h)), S_ENU_EXC, okey)
        if X0 is None:
            continue
        X0r = rf.geodetic2ecef(lat, lon, h)
        lat_r, lon_r = math.radians(lat), math.radians(lon)
        # origin -> 0
        z = _call(ctx, lambda: F.ecef2enu(float(X0[0]), float(X0[1]), float(X0[2]), float(lat), float(lon), float(h)), S_ENU_EXC, okey)
        if z is not None:
            ctx.close(z, np.zeros(3), TOL_ECEF, S_ORIGIN, okey, track='enu.origin_m')
        z = _call(ctx, lambda: F.geodetic2enu(float(lat), float(lon), float(h), float(lat), float(lon), float(h)), S_ENU_EXC, okey)
        if z is not None:
            ctx.close(z, np.zeros(3), TOL_ECEF, S_G2ENU0, okey)
        for d in offs:
            key = f'{okey} off=({d[0]!r},{d[1]!r},{d[2]!r})'
            nz = any(d)
            ctx.cls('enu:offset' if nz else 'enu:zero-offset')
            if nz:
                ctx.seen(('enu', lat, lon, h, d))
            X = X0 + np.array(d)
            # ECEF -> ENU -> ECEF
            enu = _call(ctx, lambda: F.ecef2enu(float(X[0]), float(X[1]), float(X[2]), float(lat), float(lon), float(h)), S_ENU_EXC, key)
            if enu is None:
                continue
            ctx.close(enu, rf.ecef2enu(tuple(X), X0r, lat, lon), TOL_ECEF, S_ENU_REF, key, track='enu.vs_ref_m')
            back = _call(ctx, lambda: F.enu2ecef(float(enu[0]), float(enu[1]), float(enu[2]), float(lat), float(lon), float(h)), S_ENU_EXC, key)
            if back is not None:
                ctx.close(back, X, TOL_ECEF, S_E2E, key, track='enu.roundtrip_m')
            # the two kernels directly (deg and rad)
            ev = _call(ctx, lambda: F.ecef2enuv(float(X[0]), float(X[1]), float(X[2]), float(X0[0]), float(X0[1]), float(X0[2]),
                                               float(lat), float(lon)), S_ENU_EXC, key)
            if ev is not None:
                uvw = _call(ctx, lambda: F.enu2uvw(float(ev[0]), float(ev[1]), float(ev[2]), float(lat), float(lon)), S_ENU_EXC, key)
                if uvw is not None:
                    ctx.close(uvw + X0, X, TOL_ECEF, S_VUVW, key, track='enu.roundtrip_m')
                uvw = _call(ctx, lambda: F.enu2uvw(float(ev[0]), float(ev[1]), float(ev[2]), float(lat_r), float(lon_r), 'rad'), S_ENU_EXC, key)
                if uvw is not None:
                    ctx.close(uvw + X0, X, TOL_ECEF, S_VUVW_R, key, track='enu.roundtrip_m')
            # ENU -> ECEF -> ENU with the lattice point read as an ENU vector
            Y = _call(ctx, lambda: F.enu2ecef(float(d[0]), float(d[1]), float(d[2]), float(lat), float(lon), float(h)), S_ENU_EXC, key)
            if Y is not None:
                ctx.close(Y, rf.enu2ecef(d, X0r, lat, lon), TOL_ECEF, S_ECEF_REF, key, track='enu.vs_ref_m')
                e2 = _call(ctx, lambda: F.ecef2enu(float(Y[0]), float(Y[1]), float(Y[2]), float(lat), float(lon), float(h)), S_ENU_EXC, key)
                if e2 is not None:
                    ctx.close(e2, np.array(d), TOL_ECEF, S_N2N, key, track='enu.roundtrip_m')
            ctx.outcome(('enu', tuple(np.round(enu, 3))))
        # isometry on all pairs of a fixed point set
        P = _iso_points(ctx, X0)
        E = []
        for i, p in enumerate(P):
            e = _call(ctx, lambda: F.ecef2enu(float(p[0]), float(p[1]), float(p[2]), float(lat), float(lon), float(h)), S_ENU_EXC, f'{okey} p={i}')
            E.append(e if e is not None else np.full(3, np.nan))
        P, E = np.array(P), np.array(E)
        for i in range(len(P)):
            for j in range(i + 1, len(P)):
                dp = float(np.linalg.norm(P[i] - P[j]))
                de = float(np.linalg.norm(E[i] - E[j]))
                err = abs(de - dp) / max(dp, 1.0)
                ctx.track('iso.rel', err)
                ctx.cls('iso:pair')
                ctx.seen(('iso', lat, lon, h, i, j))
                ctx.expect(err <= 1e-6, S_ISO, f'{okey} p={i} q={j}', de, dp, 1e-6)
        # the geodetic entry point of the same map
        G = []
        for i, (a, b, c) in enumerate(geo_pts):
            e = _call(ctx, lambda: F.geodetic2enu(float(a), float(b), float(c), float(lat), float(lon), float(h)), S_ENU_EXC, f'{okey} g={i}')
            G.append(e if e is not None else np.full(3, np.nan))
        GX = np.array([rf.geodetic2ecef(*g) for g in geo_pts]); G = np.array(G)
        for i in range(len(GX)):
            for j in range(i + 1, len(GX)):
                dp = float(np.linalg.norm(GX[i] - GX[j])); de = float(np.linalg.norm(G[i] - G[j]))
                err = abs(de - dp) / max(dp, 1.0)
                ctx.track('iso.rel', err)
                ctx.expect(err <= 1e-6, S_ISO_G, f'{okey} g={i} g\'={j}', de, dp, 1e-6)
    ctx.sample({'enu_origin': list(origins[lo]), 'offset': list(offs[7]), 'origins': [lo, hi], 'n_offsets': len(offs)})


# ------------------------------------------------------------------------------------------------ (c) AER
S_AER = 'ENU->AER->ENU'
S_AER_RANGE = 'enu2aer: |elevation| <= quarter turn, range = |enu|'
S_AER_REF = 'enu2aer = reference (azimuth clockwise from North)'
S_AER2_REF = 'aer2enu = reference'
S_AER_EXC = 'AER call returns'


def job_ellipsoids(ctx):
    """The optional ellipsoid radii a, b through every entry point that accepts them (geodetic2ecef, ecef2geodetic, its synonym ecef2lla,
    ecef2enu / enu2ecef / geodetic2enu): same round trips on other ellipsoids."""
    import math
    from ahrs.common import frames as FR
    ELL = [('Clarke1866', 6378206.4, 6356583.8), ('Bessel1841', 6377397.155, 6356078.963), ('Mars', 3396190.0, 3376200.0), ('sphere', 6371000.0, 6371000.0),
           # only ONE of the two radii differs from the defaults (WGS84 a = 6378137.0, b = 6356752.3142): both must still be honoured
           ('WGS84 a, sphere b', 6378137.0, 6378137.0), ('WGS84 a, other b', 6378137.0, 6356000.0), ('other a, WGS84 b', 6378388.0, 6356752.3142), ('WGS84 (explicit)', 6378137.0, 6356752.3142)]
    # strongly flattened bodies whose radii the package ships (f = 0.065 and 0.098): the latitude iteration contracts by about e^2 per pass there.
    # Tolerances 1e-6 deg / 0.1 m for them (observed on the unchanged tree: 1.2e-7 deg on Saturn, the stopping test of the iteration)
    import ahrs.common.constants as K_
    GIANTS = [('Jupiter', float(K_.JUPITER_EQUATOR_RADIUS), float(K_.JUPITER_POLAR_RADIUS)), ('Saturn', float(K_.SATURN_EQUATOR_RADIUS), float(K_.SATURN_POLAR_RADIUS))]
    ELL = ELL + GIANTS
    for en, a, b in ELL:
        giant = en in ('Jupiter', 'Saturn')
        TL, TH = (1e-6, 0.1) if giant else (1e-7, 1e-3)
        e2 = (a * a - b * b) / (a * a)
        for lat in (-89.0, -45.0, -10.0, 0.0, 23.5, 60.0, 90.0) + ((35.0, -52.0, 75.0) if giant else ()):
            for lon in (-180.0, -75.0, 0.0, 110.0, 180.0):
                for h in (-1000.0, 0.0, 5.0e4) + ((-1.0e4, 1.0e6) if giant else ()):
                    key = f'ellipsoid={en} lat={lat} lon={lon} h={h}'
                    N = a / math.sqrt(1 - e2 * math.sin(math.radians(lat)) ** 2)
                    ref = np.array([(N + h) * math.cos(math.radians(lat)) * math.cos(math.radians(lon)), (N + h) * math.cos(math.radians(lat)) * math.sin(math.radians(lon)),
                                    (N * (1 - e2) + h) * math.sin(math.radians(lat))])
                    try:
                        X = np.asarray(FR.geodetic2ecef(lat, lon, h, a, b), float)
                        ctx.close(X, ref, 1e-6, 'geodetic2ecef(lat, lon, h, a, b) = closed form on that ellipsoid', key)
                        if a == 6378137.0:        # the same ellipsoid reached through the keyword b alone (a left at its default)
                            Xk = np.asarray(FR.geodetic2ecef(lat, lon, h, b=b), float)
                            ctx.close(Xk, ref, 1e-6, 'geodetic2ecef(lat, lon, h, b=b) = closed form on that ellipsoid', key)
                            bk = np.asarray(FR.ecef2geodetic(X[0], X[1], X[2], b=b), float)
                            ctx.expect(abs(bk[0] - lat) <= 1e-7 and abs(bk[2] - h) <= 1e-3, 'geodetic -> ECEF -> ecef2geodetic(b=b) returns the point', key, bk, [lat, lon, h], 1e-3)
                        for fn_name in ('ecef2geodetic', 'ecef2lla'):
                            back = np.asarray(getattr(FR, fn_name)(X[0], X[1], X[2], a, b), float)
                            dlon = ((back[1] - lon + 180.0) % 360.0 - 180.0) * math.cos(math.radians(lat)) if abs(lat) < 90 else 0.0
                            ctx.expect(abs(back[0] - lat) <= TL and abs(dlon) <= 1e-8 and abs(back[2] - h) <= TH, f'geodetic -> ECEF -> {fn_name} with explicit a, b returns the point',
                                       key, back, [lat, lon, h], TH)
                        enu = np.asarray(FR.ecef2enu(X[0], X[1], X[2], lat, lon, h, a, b), float)
                        ctx.close(enu, np.zeros(3), 1e-6, 'ecef2enu(..., a, b) maps the origin to zero on that ellipsoid', key)
                        back2 = np.asarray(FR.enu2ecef(10.0, -20.0, 30.0, lat, lon, h, a, b), float)
                        enu2 = np.asarray(FR.ecef2enu(back2[0], back2[1], back2[2], lat, lon, h, a, b), float)
                        ctx.close(enu2, np.array([10.0, -20.0, 30.0]), 1e-6, 'ENU -> ECEF -> ENU with explicit a, b', key)
                    except Exception as ex:
                        ctx.evals += 1
                        ctx.fail('frame conversion with explicit a, b raises', key, f'{type(ex).__name__}: {ex}'[:160], 'completes')
                    ctx.seen(('ell', en, lat, lon, h))
                    ctx.cls('ellipsoid:explicit a,b')
    ctx.sample({'ellipsoids': [e[0] for e in ELL]})


def job_aer(ctx, deg):
    F = _F()
    unit = 'deg' if deg else 'rad'
    full, quarter = (360.0, 90.0) if deg else (2 * math.pi, math.pi / 2)
    for v in aer_vectors(ctx):
        key = f'{_vkey(v)} unit={unit}'
        e, n, u = v
        scale = max(math.sqrt(e * e + n * n + u * u), 1.0)
        cname = 'zero' if not any(v) else ('zenith' if e == 0 and n == 0 else ('horizontal' if u == 0 else 'generic'))
        ctx.cls('aer:' + cname)
        if any(v):
            ctx.seen(('aer', v, unit))
        aer = _call(ctx, lambda: F.enu2aer(float(e), float(n), float(u), deg), S_AER_EXC, key)
        if aer is None:
            continue
        ok = abs(aer[1]) <= quarter * (1 + 1e-15) and abs(aer[2] - math.sqrt(e * e + n * n + u * u)) <= TOL_REL * scale
        ctx.expect(ok, S_AER_RANGE, key, aer, '|el| <= quarter turn, range = |v|')
        raz, rel_, rr = rf.enu2aer_rad(e, n, u)
        if deg:
            raz, rel_ = math.degrees(raz), math.degrees(rel_)
        # azimuth modulo a full turn (0 and 360-eps are the same direction), judged as ground error
        daz = abs(math.remainder(aer[0] - raz, full)) * (math.pi * 2 / full) * math.hypot(e, n) / scale
        ctx.track('aer.vs_ref', max(daz, abs(aer[1] - rel_) * (math.pi * 2 / full), abs(aer[2] - rr) / scale))
        ctx.expect(daz <= TOL_REL and abs(aer[1] - rel_) * (math.pi * 2 / full) <= TOL_REL and abs(aer[2] - rr) <= TOL_REL * scale,
                   S_AER_REF, key, aer, [raz, rel_, rr], TOL_REL)
        back = _call(ctx, lambda: F.aer2enu(float(aer[0]), float(aer[1]), float(aer[2]), deg), S_AER_EXC, key)
        if back is not None:
            ctx.close(back / scale, np.array(v) / scale, TOL_REL, S_AER, key, track='aer.roundtrip_rel')
        ctx.outcome(('aer', tuple(np.round(aer, 6))))
    # aer2enu on a complete angle grid (all angles, including beyond one turn)
    A = angles_deg(ctx)
    for az in A:
        for el in A:
            for rng in (0.0, 1.0, 1e6):
                key = f'az={az!r} el={el!r} range={rng!r} unit={unit}'
                a_, e_ = (az, el) if deg else (math.radians(az), math.radians(el))
                ctx.cls('aer:angles')
                ctx.seen(('aer2enu', az, el, rng, unit))
                out = _call(ctx, lambda: F.aer2enu(float(a_), float(e_), float(rng), deg), S_AER_EXC, key)
                if out is None:
                    continue
                ref = rf.aer2enu_rad(math.radians(az), math.radians(el), rng)
                ctx.close(out / max(rng, 1.0), np.array(ref) / max(rng, 1.0), TOL_REL, S_AER2_REF, key, track='aer.aer2enu_vs_ref_rel')
    ctx.sample({'aer_vector': list(aer_vectors(ctx)[7]), 'unit': unit, 'n_vectors': len(aer_vectors(ctx)), 'n_angles': len(A)})


# ------------------------------------------------------------------------------------------------ (d) DCA
S_DCA = 'ENU->DCA->ENU'
S_DCA_NORM = 'enu2dca preserves the norm'
S_DCA_REF = 'enu2dca = documented matrix'
S_DCA_EXC = 'DCA call returns'


def job_dca(ctx, deg, lo, hi):
    F = _F()
    unit = 'deg' if deg else 'rad'
    A = angles_deg(ctx)
    vs = aer_vectors(ctx)
    for ang in A[lo:hi]:
        t = ang if deg else math.radians(ang)
        for v in vs:
            key = f'{_vkey(v)} angle={ang!r} unit={unit}'
            scale = max(math.sqrt(sum(x * x for x in v)), 1.0)
            ctx.cls('dca:' + unit)
            if any(v):
                ctx.seen(('dca', v, ang, unit))
            dca = _call(ctx, lambda: F.enu2dca(float(v[0]), float(v[1]), float(v[2]), float(t), deg), S_DCA_EXC, key)
            if dca is None:
                continue
            ctx.close(dca / scale, np.array(rf.enu2dca_rad(v[0], v[1], v[2], math.radians(ang))) / scale, TOL_REL, S_DCA_REF, key,
                      track='dca.vs_ref_rel')
            ctx.close([float(np.linalg.norm(dca)) / scale], [math.sqrt(sum(x * x for x in v)) / scale], TOL_REL, S_DCA_NORM, key)
            back = _call(ctx, lambda: F.dca2enu(float(dca[0]), float(dca[1]), float(dca[2]), float(t), deg), S_DCA_EXC, key)
            if back is not None:
                ctx.close(back / scale, np.array(v) / scale, TOL_REL, S_DCA, key, track='dca.roundtrip_rel')
            ctx.outcome(('dca', tuple(np.round(dca, 6))))
    ctx.sample({'dca_vector': list(vs[7]), 'angle': A[lo], 'unit': unit, 'n_vectors': len(vs), 'n_angles': len(A)})


# ------------------------------------------------------------------------------------------------ (e) NED <-> ENU
S_NED = 'NED->ENU->NED'
S_ENU2 = 'ENU->NED->ENU'
S_NED_REF = 'ned2enu / enu2ned = (y, x, -z)'
S_NED_EXC = 'NED/ENU call returns'


def job_ned(ctx):
    F = _F()
    vs = aer_vectors(ctx)
    for v in vs:
        key = _vkey(v)
        x = np.array(v, float)
        ctx.cls('ned:vector')
        if any(v):
            ctx.seen(('ned', v))
        a = _call(ctx, lambda: F.ned2enu(x.copy()), S_NED_EXC, key)
        b = _call(ctx, lambda: F.enu2ned(x.copy()), S_NED_EXC, key)
        if a is None or b is None:
            continue
        ctx.close(a, np.array(rf.swap_ned_enu(v)), 0.0, S_NED_REF, key)
        ctx.close(b, np.array(rf.swap_ned_enu(v)), 0.0, S_NED_REF, key)
        r = _call(ctx, lambda: F.enu2ned(a.copy()), S_NED_EXC, key)
        if r is not None:
            ctx.close(r, x, 0.0, S_NED, key)
        r = _call(ctx, lambda: F.ned2enu(b.copy()), S_NED_EXC, key)
        if r is not None:
            ctx.close(r, x, 0.0, S_ENU2, key)
    V = np.array(vs, float)
    blocks = [('N=1', V[7:8]), ('N=2', V[7:9]), ('N=3', V[[7, 30, 100]]), ('N=3sym', np.array([[1.0, 2, 3], [2, 5, 6], [3, 6, 9]])),
              ('N=4', V[[1, 7, 30, 100]]), (f'N={len(V)}', V)]
    for i in range(0, len(V) - 3, 3):
        blocks.append((f'rows{i}-{i + 2}', V[i:i + 3]))
    for name, M in blocks:
        key = f'array {name}'
        ctx.cls('ned:array')
        ctx.seen(('ned-array', name))
        ref = np.stack([M[:, 1], M[:, 0], -M[:, 2]], axis=1)
        a = _call(ctx, lambda: F.ned2enu(M.copy()), S_NED_EXC, key)
        b = _call(ctx, lambda: F.enu2ned(M.copy()), S_NED_EXC, key)
        if a is None or b is None:
            continue
        ctx.close(a, ref, 0.0, S_NED_REF, key)
        ctx.close(b, ref, 0.0, S_NED_REF, key)
        r = _call(ctx, lambda: F.enu2ned(a.copy()), S_NED_EXC, key)
        if r is not None:
            ctx.close(r, M, 0.0, S_NED, key)
        r = _call(ctx, lambda: F.ned2enu(b.copy()), S_NED_EXC, key)
        if r is not None:
            ctx.close(r, M, 0.0, S_ENU2, key)
    ctx.sample({'ned_vector': list(vs[7]), 'array_shapes': [list(M.shape) for _, M in blocks[:6]]})


# ------------------------------------------------------------------------------------------------ (f) LLF matrices
S_LLF_T = 'llf2ecef(a, b) = ecef2llf(a, b)^T'
S_LLF_ORTH = 'LLF matrix is orthogonal with det +1'
S_LLF_INV = 'llf2ecef(a, b) @ ecef2llf(a, b) = I'
S_LLF_EXC = 'LLF call returns'


def llf_angles(ctx):
    n = 36 if ctx.thorough else 8
    a = [-math.pi + 2 * math.pi * i / n for i in range(n + 1)]
    a += [math.radians(MENU[k][0]) for k in _menu(ctx)] + [1e-9, -1e-9, math.pi / 2 - 1e-9, 1.0]
    return _uniq(a)


def job_llf(ctx):
    F = _F()
    A = llf_angles(ctx)
    swapped_matches_enuv = True
    for a in A:
        for b in A:
            key = f'a={a!r} b={b!r}'
            ctx.cls('llf:grid')
            ctx.seen(('llf', a, b))
            L = _call(ctx, lambda: F.llf2ecef(float(a), float(b)), S_LLF_EXC, key)
            E = _call(ctx, lambda: F.ecef2llf(float(a), float(b)), S_LLF_EXC, key)
            if L is None or E is None:
                continue
            if not ctx.close(L, E.T, TOL_MAT, S_LLF_T, key, track='llf.transpose'):
                continue
            ctx.close(L @ E, np.eye(3), TOL_MAT, S_LLF_INV, key, track='llf.inverse')
            for nm, M in (('llf2ecef', L), ('ecef2llf', E)):
                d = max(float(np.abs(M @ M.T - np.eye(3)).max()), abs(float(np.linalg.det(M)) - 1.0))
                ctx.track('llf.so3_defect', d)
                ctx.expect(d <= TOL_MAT, S_LLF_ORTH, f'{key} m={nm}', d, 0.0, TOL_MAT)
            # information only: which argument plays the latitude (see ASSUMPTIONS)
            e, n, u = rf.enu_basis(math.degrees(b), math.degrees(a))
            if float(np.abs(E - np.array([e, n, u])).max()) > 1e-9:
                swapped_matches_enuv = False
            ctx.outcome(('llf', tuple(np.round(E.ravel(), 6))))
    ctx.notes['llf_first_argument_acts_as_longitude'] = swapped_matches_enuv
    ctx.sample({'llf_angles': [A[1], A[3]], 'grid': [len(A), len(A)]})



# ------------------------------------------------------------------------------------------------ (g) array arguments
def job_array_args(ctx):
    """The conversions called with ARRAYS for their scalar parameters (one value per point, as the element-wise formulas allow): where a
    function answers, column j is what the scalar call gives for the j-th values, the caller's arrays are left as they were, and the same
    array objects handed to the inverse function give the round trip."""
    F = _F()
    n = 7
    E = np.array([3.0, -4.0, 5.0, 1e3, -2e5, 0.5, 0.0]); N = np.array([-1.0, 2.5, 7.0, -3e3, 1e5, 0.25, 10.0]); U = np.array([0.5, 9.0, -2.0, 50.0, 3e4, -0.125, 0.0])
    ANG = np.array([10.0, 45.0, 90.0, 135.0, 200.0, 300.0, -30.0])
    LAT = np.array([48.0, -33.5, 0.0, 89.0, -89.5, 10.0, 60.0]); LON = np.array([11.0, 151.25, -70.0, 180.0, -180.0, 0.0, -120.0]); H = np.array([0.0, 100.0, -50.0, 1e4, 5e5, 1.0, 8848.0])

    def run_case(name, fn, arrs, scalar_fn, inverse=None, inv_map=None, deg_kw=None):
        saved = [a.copy() for a in arrs]
        key = f'{name} with {len(arrs)} array arguments of {n} values'
        ctx.evals += 1
        try:
            out = np.asarray(fn(*arrs), float)
        except Exception:
            ctx.outcome(('array-args-refused', name))
            for a, s0 in zip(arrs, saved):
                a[...] = s0
            return
        unchanged = all(np.array_equal(a, s0) for a, s0 in zip(arrs, saved))
        ctx.expect(unchanged, f"{name}: the caller's argument arrays are left as they were", key, [a.tolist() for a in arrs][-1], saved[-1].tolist())
        for a, s0 in zip(arrs, saved):
            a[...] = s0
        if out.ndim == 2 and out.shape[1] == n:
            for j in range(n):
                ref = np.asarray(scalar_fn(*[float(s0[j]) for s0 in saved]), float)
                sc = max(1.0, float(np.abs(ref).max()))
                ctx.close(out[:, j] / sc, ref / sc, TOL_REL, f'{name}: column j of the array call = the scalar call on the j-th values', f'{key} j={j}')
        if inverse is not None and out.ndim == 2 and out.shape[1] == n:
            iname, ifn = inverse
            try:
                back = np.asarray(ifn(*inv_map(out, arrs)), float)
                unchanged = all(np.array_equal(a, s0) for a, s0 in zip(arrs, saved))
                ctx.expect(unchanged, f"{iname}: the caller's argument arrays are left as they were", key, [a.tolist() for a in arrs][-1], saved[-1].tolist())
                for a, s0 in zip(arrs, saved):
                    a[...] = s0
                if back.ndim == 2 and back.shape[1] == n:
                    exp = np.array([saved[0], saved[1], saved[2]])
                    sc = max(1.0, float(np.abs(exp).max()))
                    ctx.close(back / sc, exp / sc, 1e-9, f'{name} -> {iname} with the same array objects: round trip', key)
            except Exception:
                ctx.outcome(('array-args-refused', iname))
        ctx.cls('array-arguments')
        ctx.seen(('array-args', name))

    for deg in (True, False):
        ang = ANG.copy() if deg else np.radians(ANG)
        run_case(f'enu2dca(deg={deg})', lambda e, nn, u, a: F.enu2dca(e, nn, u, a, deg), [E.copy(), N.copy(), U.copy(), ang],
                 lambda e, nn, u, a: F.enu2dca(e, nn, u, a, deg), inverse=(f'dca2enu(deg={deg})', lambda d, c, a_, t: F.dca2enu(d, c, a_, t, deg)),
                 inv_map=lambda out, arrs: (out[0].copy(), out[1].copy(), out[2].copy(), arrs[3]))
        run_case(f'dca2enu(deg={deg})', lambda e, nn, u, a: F.dca2enu(e, nn, u, a, deg), [E.copy(), N.copy(), U.copy(), ang.copy()],
                 lambda e, nn, u, a: F.dca2enu(e, nn, u, a, deg), inverse=(f'enu2dca(deg={deg})', lambda d, c, a_, t: F.enu2dca(d, c, a_, t, deg)),
                 inv_map=lambda out, arrs: (out[0].copy(), out[1].copy(), out[2].copy(), arrs[3]))
        run_case(f'enu2aer(deg={deg})', lambda e, nn, u: F.enu2aer(e, nn, u, deg), [E[:6].copy().repeat(1), N[:6].copy(), U[:6].copy()][:3] if False else [E.copy(), N.copy(), U.copy()],
                 lambda e, nn, u: F.enu2aer(e, nn, u, deg), inverse=(f'aer2enu(deg={deg})', lambda az, el, r: F.aer2enu(az, el, r, deg)),
                 inv_map=lambda out, arrs: (out[0].copy(), out[1].copy(), out[2].copy()))
    run_case('geodetic2ecef', lambda la, lo, h: F.geodetic2ecef(la, lo, h), [LAT.copy(), LON.copy(), H.copy()], lambda la, lo, h: F.geodetic2ecef(la, lo, h))
    X = np.array([np.asarray(F.geodetic2ecef(float(a), float(b), float(c)), float) for a, b, c in zip(LAT, LON, H)]).T
    run_case('ecef2geodetic', lambda x, y, z: F.ecef2geodetic(x, y, z), [X[0].copy(), X[1].copy(), X[2].copy()], lambda x, y, z: F.ecef2geodetic(x, y, z))
    run_case('ecef2enu', lambda x, y, z: F.ecef2enu(x, y, z, 48.0, 11.0, 500.0), [X[0].copy(), X[1].copy(), X[2].copy()], lambda x, y, z: F.ecef2enu(x, y, z, 48.0, 11.0, 500.0))
    run_case('enu2ecef', lambda e, nn, u: F.enu2ecef(e, nn, u, 48.0, 11.0, 500.0), [E.copy(), N.copy(), U.copy()], lambda e, nn, u: F.enu2ecef(e, nn, u, 48.0, 11.0, 500.0))
    # ned2enu / enu2ned take the vector(s) as one array: N-by-3 rows and a single 3-vector, argument left as it was
    V = np.array([E, N, U]).T.copy()
    for name, fn in (('ned2enu', F.ned2enu), ('enu2ned', F.enu2ned)):
        V0 = V.copy()
        try:
            out = np.asarray(fn(V), float)
            ctx.expect(np.array_equal(V, V0), f"{name}: the caller's array is left as it was", 'N-by-3 rows', V[0].tolist(), V0[0].tolist())
            exp = np.c_[V0[:, 1], V0[:, 0], -V0[:, 2]]
            if out.shape == exp.shape:
                ctx.close(out, exp, 0.0, f'{name}(N-by-3 rows) = rows with the first two axes swapped and the third negated', 'N-by-3 rows')
            v1 = V0[3].copy()
            o1 = np.asarray(fn(v1), float)
            ctx.close(o1, [V0[3, 1], V0[3, 0], -V0[3, 2]], 0.0, f'{name}(3-vector) = first two axes swapped, third negated', '3-vector')
            ctx.expect(np.array_equal(v1, V0[3]), f"{name}: the caller's vector is left as it was", '3-vector', v1.tolist(), V0[3].tolist())
        except Exception as ex:
            ctx.fail(f'{name}: raises on an N-by-3 array', 'N-by-3 rows', f'{type(ex).__name__}: {ex}'[:120], 'rows')
        V[...] = V0
    ctx.sample({'array_arguments': {'east': E.tolist(), 'angle_deg': ANG.tolist()}})



# ------------------------------------------------------------------------------------------------ (h) integer carriers, results kept alive
def job_ints_and_results(ctx):
    """(1) Whole-number arguments written as Python ints / numpy integers / integer arrays give what the same numbers give as floats.
    (2) A result stays what it was while later calls are made (results of two calls never share memory), for every conversion."""
    F = _F()
    calls = [
        ('enu2dca', lambda c: F.enu2dca(c(3), c(4), c(5), c(30)), lambda c: F.enu2dca(c(-7), c(2), c(11), c(200))),
        ('enu2dca(rad)', lambda c: F.enu2dca(c(3), c(4), c(5), c(2), False), lambda c: F.enu2dca(c(-7), c(2), c(11), c(1), False)),
        ('dca2enu', lambda c: F.dca2enu(c(3), c(4), c(5), c(30)), lambda c: F.dca2enu(c(-7), c(2), c(11), c(200))),
        ('enu2aer', lambda c: F.enu2aer(c(3), c(4), c(5)), lambda c: F.enu2aer(c(-7), c(2), c(11))),
        ('aer2enu', lambda c: F.aer2enu(c(30), c(10), c(100)), lambda c: F.aer2enu(c(200), c(-5), c(7))),
        ('geodetic2ecef', lambda c: F.geodetic2ecef(c(48), c(11), c(500)), lambda c: F.geodetic2ecef(c(-33), c(151), c(20))),
        ('ecef2geodetic', lambda c: F.ecef2geodetic(c(4075580), c(931854), c(4801568)), lambda c: F.ecef2geodetic(c(-4646050), c(2553206), c(-3534374))),
        ('ecef2lla', lambda c: F.ecef2lla(c(4075580), c(931854), c(4801568)), lambda c: F.ecef2lla(c(-4646050), c(2553206), c(-3534374))),
        ('ecef2enu', lambda c: F.ecef2enu(c(4075580), c(931854), c(4801568), c(48), c(11), c(500)), lambda c: F.ecef2enu(c(4075000), c(932000), c(4802000), c(48), c(11), c(0))),
        ('enu2ecef', lambda c: F.enu2ecef(c(3), c(4), c(5), c(48), c(11), c(500)), lambda c: F.enu2ecef(c(-70), c(20), c(11), c(-33), c(151), c(0))),
        ('geodetic2enu', lambda c: F.geodetic2enu(c(49), c(12), c(700), c(48), c(11), c(500)), lambda c: F.geodetic2enu(c(-32), c(150), c(0), c(-33), c(151), c(20))),
        ('enu2uvw', lambda c: F.enu2uvw(c(3), c(4), c(5), c(48), c(11)), lambda c: F.enu2uvw(c(-7), c(2), c(11), c(-33), c(151))),
        ('ecef2enuv', lambda c: F.ecef2enuv(c(4075580), c(931854), c(4801568), c(4075000), c(932000), c(4802000), c(48), c(11)),
         lambda c: F.ecef2enuv(c(1), c(2), c(3), c(0), c(0), c(0), c(-33), c(151))),
        ('ned2enu', lambda c: F.ned2enu(np.array([c(3), c(4), c(5)])), lambda c: F.ned2enu(np.array([c(-7), c(2), c(11)]))),
        ('enu2ned', lambda c: F.enu2ned(np.array([c(3), c(4), c(5)])), lambda c: F.enu2ned(np.array([c(-7), c(2), c(11)]))),
        ('llf2ecef', lambda c: F.llf2ecef(c(1), c(2)), lambda c: F.llf2ecef(c(0), c(3))),
        ('ecef2llf', lambda c: F.ecef2llf(c(1), c(2)), lambda c: F.ecef2llf(c(0), c(3))),
    ]
    for name, call1, call2 in calls:
        try:
            ref1 = np.asarray(call1(float), float).copy(); ref2 = np.asarray(call2(float), float).copy()
        except Exception as ex:
            ctx.fail(f'{name}: float call raises', 'reference call', f'{type(ex).__name__}: {ex}'[:120], 'a result')
            continue
        sc = max(1.0, float(np.abs(ref1).max()))
        for cn, cv in (('int', int), ('numpy.int64', np.int64)):      # (32-bit integers overflow when metres are squared, single precision resolves 0.5 m at the Earth's radius: not judged)
            ctx.evals += 1
            try:
                out = np.asarray(call1(cv), float)
            except TypeError:
                ctx.outcome(('int-refused', name, cn)); continue
            except Exception as ex:
                ctx.fail(f'{name}: raises for whole numbers given as another numeric type', f'numbers as {cn}', f'{type(ex).__name__}: {ex}'[:120], ref1.tolist())
                continue
            tol = 1e-4 if cn == 'numpy.float32' else 1e-9
            ok = out.shape == ref1.shape and float(np.abs(out - ref1).max()) <= tol * sc
            ctx.expect(ok, f'{name}: whole numbers given as ints / numpy integers give the float answer', f'numbers as {cn}', out, ref1, tol * sc)
        # results kept alive
        ctx.evals += 1
        r1 = call1(float)
        k1 = np.array(r1, float, copy=True)
        r2 = call2(float)
        r1b = call1(float)
        same_after = np.array_equal(np.asarray(r1, float), k1)
        shares = isinstance(r1, np.ndarray) and isinstance(r2, np.ndarray) and np.shares_memory(r1, r2)
        ctx.expect(same_after and not shares, f'{name}: a returned result is unchanged by a later call (two results never share memory)', 'call A, keep, call B', np.asarray(r1, float), k1)
        ctx.expect(np.array_equal(np.asarray(r1b, float), k1), f'{name}: the same call gives the same result after another call', 'call A, call B, call A', np.asarray(r1b, float), k1)
        ctx.cls('ints-and-results')
        ctx.seen(('ints', name))
    ctx.sample({'functions': [c[0] for c in calls]})


# ------------------------------------------------------------------------------------------------ driver
def run(ctx):
    rf.selftest()
    jobs = []
    for lo, hi in core.chunks(len(geo_lats(ctx)), 32 if ctx.thorough else 16):
        jobs.append(('job_geodetic', (lo, hi)))
    if CHECK_POLAR_AXIS:
        jobs.append(('job_axis', ()))
    for lo, hi in core.chunks(len(enu_origins(ctx)), 64 if ctx.thorough else 32):
        jobs.append(('job_enu', (lo, hi)))
    nA = len(angles_deg(ctx))
    for deg in (True, False):
        jobs.append(('job_aer', (deg,)))
        for lo, hi in core.chunks(nA, 8 if ctx.thorough else 2):
            jobs.append(('job_dca', (deg, lo, hi)))
    jobs.append(('job_ned', ()))
    jobs.append(('job_ellipsoids', ()))
    jobs.append(('job_llf', ()))
    jobs.append(('job_array_args', ()))
    jobs.append(('job_ints_and_results', ()))
    # longest jobs first is irrelevant for determinism (results are merged in job order)
    core.run_jobs(ctx, __name__, jobs)
    ctx.notes['grid_sizes'] = {'geodetic': [len(geo_lats(ctx)), len(geo_lons(ctx)), len(geo_hs(ctx))],
                               'enu_origins': len(enu_origins(ctx)), 'enu_offsets': len(offsets(ctx, big=True)),
                               'iso_points': len(_iso_points(ctx, (1.0, 2.0, 3.0))), 'aer_vectors': len(aer_vectors(ctx)),
                               'angles': nA, 'llf_angles': len(llf_angles(ctx))}
    ctx.notes['menu_entries'] = _menu(ctx)
