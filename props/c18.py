"""C18 — rotation metrics are bi-invariant distances with their closed forms.

(a) complete pair tables of finite rotation groups (G48, conjugates / cosets of G48 and G120), as quaternions
    and as matrices: non-negativity, symmetry, zero set, d(-q1, q2) = d(q1, -q2) = d(q1, q2), closed form in the
    relative angle t, through the single-pair and the N-row entry points.
(b) complete triple tables (g, p, q): d(gp, gq) = d(pg, qg) = d(p, q) for all seven metrics.
(c) complete triple tables (a, b, c): triangle inequality of the six true metrics, evaluated on tables of
    values produced by the library.
(d) closed forms on pairs (p, p.delta(t)), (p, delta(t).p): 12 base rotations x 17 axes x a grid of relative
    angles 1e-4 .. pi, plus geodesic triangles (p, p.delta(t1), p.delta(t1+t2)) where the angular metrics are tight.
"""
import math
import numpy as np
from mc import core, alphabet as A
from mc.ref import quat as rq

PID = 'C18'
LEVEL = 'model_checking'
RULE = ('states = ordered pairs of group elements whose distance was evaluated; transitions = (g, p, q) invariance '
        'triples and (a, b, c) triangle triples walked; traces = executions of the real metric functions (one N-row '
        'call counts once). A case is distinct by (law family, set, operand ids / (base, axis, angle, side)) and '
        'non-trivial when the two rotations differ (and g is not the identity / the three rotations are distinct)')
ASSUMPTIONS = [
    'unit quaternions / proper rotation matrices only; matrices are produced by the reference model mc/ref/quat.py R(q)',
    'relative angles are 0 (same rotation, incl. q2 = -q1) or lie in [1e-4, pi]; nothing is demanded in (0, 1e-4)',
    'oracle: relative angle t from mc/ref/quat.py qangle (atan2 form, well conditioned everywhere); closed forms '
    'qad=t, qcip=t/2, qeip=1-cos(t/2), qdist=sqrt(2(1-cos(t/2))) [evaluated as 2 sin^2(t/4), 2 sin(t/4)], '
    'chordal=identity_deviation=2 sqrt2 sin(t/2), angular_distance=sqrt2 t',
    'tolerance 1e-9 absolute for symmetry, sign, invariance (library value against library value: observed <= 4.4e-15) and '
    'for the closed forms of qdist, qeip, chordal, identity_deviation, angular_distance (observed <= 4.1e-15 over the thorough '
    'alphabet on a tree with a well-conditioned DCM.log)',
    'closed forms of the arccos-based qad, qcip: 1e-8 (their documented formulas have conditioning eps/sin t: observed '
    '1.8e-11 / 9.0e-12 at t = 1e-4 and 4.4e-11 at pi - 1e-6); triangle slack 1e-8 (observed excess 2.0e-11); the smallest '
    'realistic mutation (factor 2 or sqrt2, dropped abs / square / transpose, shortcut threshold) moves a value by >= 1e-5',
    'angular_distance within 1e-3 of pi: tolerance 1e-6 as designed (an arccos-of-trace log loses eps/(pi-t)^2 = 4e-10 at '
    'pi - 1e-3; the atan2 form observed here is good to 2e-15)',
    'zero set: same rotation -> |d| <= 1e-9; different rotations (t >= 1e-4) -> d >= closed_form(t)/2 > 0; in the invariance '
    'tables a coincident pair (gp, gq = +-gp) is judged by the zero-set law, a distinct pair by the invariance law',
    'non-negativity is judged up to rounding (d >= -1e-12; observed -2.2e-16 from qeip[N-row] on identical rows)',
    'N-row entry points are demanded for the functions that document them (qdist, qeip, qcip, qad, chordal); '
    'identity_deviation / angular_distance are documented for one 3x3 pair and are exercised through that entry only '
    '(their behaviour on (N,3,3) input is recorded in the evidence notes, not judged)',
    'the triangle inequality is demanded for angular_distance, qad, qcip, chordal, qdist, identity_deviation (qeip = 1-cos(t/2) '
    'is not a metric and is excluded)',
    'the near-pi grid stops at pi - 1e-6 and pi itself (exactly symmetric and rounding-level asymmetric half-turns both occur)',
]
REQUIRED_CLASSES = ['stack-carriers', 'first-call:float16', 'first-call:float32', 'kept-results', 'shared-memory-arguments', 'stack-sizes', 'stack-sign-patterns', 'containers:matrix', 'containers:quaternion', 'containers:quaternion-rows', 'pairs:group', 'pairs:conjugate', 'zero:same', 'zero:antipodal', 'angle:pi', 'angle:<1e-2',
                    'angle:near-pi', 'inv:left', 'inv:right', 'triangle:tight', 'triangle:strict', 'triangle:geodesic',
                    'entry:single', 'entry:N-row', 'cf:right', 'cf:left']

TOL = 1e-9
TOL_NEARPI = 1e-6
TOL_ARCCOS = 1e-8      # closed forms of the arccos-based metrics (conditioning eps/sin t)
TOL_TRI = 1e-8         # slack of the triangle inequality (sums three such values)
SAME = 1e-12
NEG = 1e-12            # non-negativity up to rounding (worst observed: qeip[N-row] = -2.2e-16 on identical rows)
QM = ('qdist', 'qeip', 'qcip', 'qad')
RM = ('chordal', 'identity_deviation', 'angular_distance')
NROW = ('qdist', 'qeip', 'qcip', 'qad', 'chordal')
TRI = ('angular_distance', 'qad', 'qcip', 'chordal', 'qdist', 'identity_deviation')
S2 = math.sqrt(2.0)
CF = {
    'qad': lambda t: t,
    'qcip': lambda t: 0.5 * t,
    'qeip': lambda t: 2.0 * math.sin(0.25 * t) ** 2,            # = 1 - cos(t/2), without cancellation
    'qdist': lambda t: 2.0 * math.sin(0.25 * t),                # = sqrt(2 (1 - cos(t/2)))
    'chordal': lambda t: 2.0 * S2 * math.sin(0.5 * t),
    'identity_deviation': lambda t: 2.0 * S2 * math.sin(0.5 * t),
    'angular_distance': lambda t: S2 * t,
}


def _M():
    from ahrs.utils import metrics
    return metrics


def tstr(t):
    """Canonical rendering of a relative angle for case keys."""
    if abs(t - math.pi) <= 1e-9:
        return 'pi'
    if 0 < math.pi - t < 0.05:
        return f'pi-{math.pi - t:.3g}'
    if abs(t) <= SAME:
        return '0'
    return f'{t:.6g}'


def tol_cf(m, t):
    if m == 'angular_distance' and math.pi - t <= 1.0000001e-3:
        return TOL_NEARPI
    if m in ('qad', 'qcip'):
        return TOL_ARCCOS
    return TOL


def _set(sname, k):
    base, _, kind = sname.partition(':')
    G = {'G24': A.G24, 'G48': A.G48, 'G120': A.G120}[base]()
    if kind == 'c':
        return A.Gc(G, k)
    if kind == 'l':
        return A.Gl(G, k)
    return G


def _kind_class(sname):
    return {'c': 'pairs:conjugate', 'l': 'pairs:coset', '': 'pairs:group'}[sname.partition(':')[2]]


# ---- guarded calls into the library (an exception is a finding, never a harness crash) -------------------
def _call(ctx, m, a, b, keyf):
    ctx.traces += 1
    try:
        return getattr(_M(), m)(a.copy(), b.copy())
    except Exception as ex:
        ctx.evals += 1
        ctx.fail(f'{m}[single] raises', keyf(), f'{type(ex).__name__}: {ex}'[:200], 'a distance')
        return float('nan')


def _call_n(ctx, m, Aa, Bb, keyf):
    ctx.traces += 1
    n = len(Aa)
    try:
        V = np.asarray(getattr(_M(), m)(Aa.copy(), Bb.copy()))
    except Exception as ex:
        ctx.evals += 1
        ctx.fail(f'{m}[N-row] raises', keyf(), f'{type(ex).__name__}: {ex}'[:200], f'{n} distances')
        return np.full(n, np.nan)
    if V.shape != (n,) or np.iscomplexobj(V) or V.dtype.kind not in 'fiu':
        ctx.evals += 1
        ctx.fail(f'{m}[N-row] returns one real distance per row', keyf(), {'shape': list(V.shape), 'dtype': str(V.dtype)},
                 {'shape': [n]})
        return np.full(n, np.nan)
    return V.astype(float)


def _f(v):
    """Library scalar -> python float (NaN for anything that is not one real number)."""
    try:
        if np.iscomplexobj(v):
            return float('nan')
        return float(v)
    except Exception:
        return float('nan')


def _near(ctx, v, ref, tol, site, keyf, track=None):
    ctx.evals += 1
    e = abs(_f(v) - ref)
    if track and e == e:
        ctx.track(track, e)
    if not (e <= tol):
        ctx.fail(site, keyf(), v, ref, tol)
        return False
    return True


def _nearv(ctx, V, REF, tol, site, keyf_i, track=None):
    ctx.evals += len(V)
    d = np.abs(V - REF)
    if track and np.isfinite(d).any():
        ctx.track(track, np.nanmax(d))
    for i in np.nonzero(~(d <= tol))[0]:
        ctx.fail(site, keyf_i(int(i)), V[i], REF[i] if np.ndim(REF) else REF, tol)


def _judge(ctx, m, e, v, t, keyf):
    """Unary laws of one evaluated distance: finite & >= 0, closed form, zero set."""
    v = _f(v)
    ctx.evals += 1
    if not (v >= -NEG and v != float('inf')):
        ctx.fail(f'{m}[{e}] is finite and >= 0', keyf(), v, '>= 0', NEG)
    ref = CF[m](t)
    _near(ctx, v, ref, tol_cf(m, t), f'{m}[{e}] = closed form in the relative angle', keyf,
          track=f'cf.{m}' + ('.nearpi' if tol_cf(m, t) != TOL else ''))
    ctx.evals += 1
    if t <= SAME:
        if not (abs(v) <= TOL):
            ctx.fail(f'{m}[{e}] zero set (d = 0 <=> same rotation)', keyf(), v, 0.0, TOL)
    elif not (v >= 0.5 * ref):
        ctx.fail(f'{m}[{e}] zero set (d = 0 <=> same rotation)', keyf(), v, f'> 0 (closed form {ref:.6g})')


def _judge_v(ctx, m, V, T, keyf_i):
    e = 'N-row'
    ctx.evals += 3 * len(V)
    REF = np.array([CF[m](t) for t in T])
    TOLS = np.array([tol_cf(m, t) for t in T])
    for i in np.nonzero(~((V >= -NEG) & np.isfinite(V)))[0]:
        ctx.fail(f'{m}[{e}] is finite and >= 0', keyf_i(int(i)), V[i], '>= 0', NEG)
    d = np.abs(V - REF)
    if np.isfinite(d).any():
        ctx.track(f'cf.{m}[N-row]', np.nanmax(d))
    for i in np.nonzero(~(d <= TOLS))[0]:
        ctx.fail(f'{m}[{e}] = closed form in the relative angle', keyf_i(int(i)), V[i], REF[i], float(TOLS[i]))
    same = T <= SAME
    badz = np.where(same, ~(np.abs(V) <= TOL), ~(V >= 0.5 * REF))
    for i in np.nonzero(badz)[0]:
        ctx.fail(f'{m}[{e}] zero set (d = 0 <=> same rotation)', keyf_i(int(i)), V[i],
                 0.0 if same[i] else f'> 0 (closed form {REF[i]:.6g})', TOL)


def _angle_classes(ctx, t, antipodal=False):
    if t <= SAME:
        ctx.cls('zero:antipodal' if antipodal else 'zero:same')
    elif abs(t - math.pi) <= 1e-9:
        ctx.cls('angle:pi')
    elif math.pi - t <= 1.0000001e-3:
        ctx.cls('angle:near-pi')
    elif t < 1e-2:
        ctx.cls('angle:<1e-2')
    else:
        ctx.cls('angle:generic')


def _tangles(S, i):
    T = np.array([rq.qangle(S[i], S[j]) for j in range(len(S))])
    assert np.all((T <= SAME) | (T >= 1e-4)), 'alphabet leaves the stated angle range'
    return T


# ---- (a) pair tables ------------------------------------------------------------------------------------
def job_pairs(ctx, sname, k, lo, hi):
    S = _set(sname, k)
    n = len(S)
    Rm = np.array([rq.R(q) for q in S])
    kc = _kind_class(sname)
    for i in range(lo, hi):
        T = _tangles(S, i)
        kf = lambda j: f'{sname}#k{k} p={i} q={j} t={tstr(T[j])}'
        row = lambda: f'{sname}#k{k} row={i}'
        Ai = np.tile(S[i], (n, 1))
        # N-row entry points: row i against the whole set, both argument orders, both signs
        for m in QM:
            V = _call_n(ctx, m, Ai, S, row)
            W = _call_n(ctx, m, S, Ai, row)
            _judge_v(ctx, m, V, T, kf)
            _judge_v(ctx, m, W, T, kf)
            _nearv(ctx, W, V, TOL, f'{m}[N-row] symmetric d(a,b) = d(b,a)', kf, track=f'sym.{m}')
            _nearv(ctx, _call_n(ctx, m, -Ai, S, row), V, TOL, f'{m}[N-row] sign d(-q1,q2) = d(q1,-q2) = d(q1,q2)', kf, track=f'sign.{m}')
            _nearv(ctx, _call_n(ctx, m, Ai, -S, row), V, TOL, f'{m}[N-row] sign d(-q1,q2) = d(q1,-q2) = d(q1,q2)', kf, track=f'sign.{m}')
        Ri = np.tile(Rm[i], (n, 1, 1))
        V = _call_n(ctx, 'chordal', Ri, Rm, row)
        W = _call_n(ctx, 'chordal', Rm, Ri, row)
        _judge_v(ctx, 'chordal', V, T, kf)
        _judge_v(ctx, 'chordal', W, T, kf)
        _nearv(ctx, W, V, TOL, 'chordal[N-row] symmetric d(a,b) = d(b,a)', kf, track='sym.chordal')
        ctx.cls('entry:N-row', 5 * n)
        ctx.states += n
        # single-pair entry points: unordered pairs j >= i, both orders executed
        for j in range(i, n):
            t = float(T[j])
            key = lambda: kf(j)
            for m in QM:
                v = _call(ctx, m, S[i], S[j], key)
                w = _call(ctx, m, S[j], S[i], key)
                _judge(ctx, m, 'single', v, t, key)
                _judge(ctx, m, 'single', w, t, key)
                _near(ctx, w, _f(v), TOL, f'{m}[single] symmetric d(a,b) = d(b,a)', key, track=f'sym.{m}')
                _near(ctx, _call(ctx, m, -S[i], S[j], key), _f(v), TOL, f'{m}[single] sign d(-q1,q2) = d(q1,-q2) = d(q1,q2)', key, track=f'sign.{m}')
                _near(ctx, _call(ctx, m, S[i], -S[j], key), _f(v), TOL, f'{m}[single] sign d(-q1,q2) = d(q1,-q2) = d(q1,q2)', key, track=f'sign.{m}')
                ctx.outcome((m, round(_f(v), 9)))
            for m in RM:
                v = _call(ctx, m, Rm[i], Rm[j], key)
                w = _call(ctx, m, Rm[j], Rm[i], key)
                _judge(ctx, m, 'single', v, t, key)
                _judge(ctx, m, 'single', w, t, key)
                _near(ctx, w, _f(v), TOL, f'{m}[single] symmetric d(a,b) = d(b,a)', key, track=f'sym.{m}')
                ctx.outcome((m, round(_f(v), 9)))
            ctx.cls('entry:single', 7)
            ctx.cls(kc)
            _angle_classes(ctx, t, antipodal=bool(np.abs(S[i] + S[j]).max() <= 1e-9))
            if t > SAME:
                ctx.seen(('pair', sname, k, i, j))
    ctx.sample({'pair_table': sname, 'k': k, 'rows': [lo, hi], 'p': S[lo].tolist(), 'q': S[-1].tolist(),
                't': rq.qangle(S[lo], S[-1])})


# ---- (b) invariance triples -------------------------------------------------------------------------------
def job_inv(ctx, pname, gname, k, g_lo, g_hi):
    P = _set(pname, k)
    Gm = _set(gname, k)
    n = len(P)
    Rp = np.array([rq.R(q) for q in P])
    T = np.array([_tangles(P, i) for i in range(n)])
    tag = f'{pname}x{gname}#k{k}'
    bkey = lambda i, j: (lambda: f'{tag} p={i} q={j} t={tstr(T[i, j])}')
    # base tables d(p, q) through the library (single and N-row)
    D = {m: np.empty((n, n)) for m in QM + RM}
    DN = {m: np.empty((n, n)) for m in NROW}
    for i in range(n):
        for j in range(n):
            for m in QM:
                D[m][i, j] = _f(_call(ctx, m, P[i], P[j], bkey(i, j)))
            for m in RM:
                D[m][i, j] = _f(_call(ctx, m, Rp[i], Rp[j], bkey(i, j)))
        for m in QM:
            DN[m][i] = _call_n(ctx, m, np.tile(P[i], (n, 1)), P, bkey(i, 0))
        DN['chordal'][i] = _call_n(ctx, 'chordal', np.tile(Rp[i], (n, 1, 1)), Rp, bkey(i, 0))
    if g_lo == 0:
        ctx.states += n * n
    for g in range(g_lo, g_hi):
        qg = Gm[g]
        Rg = rq.R(qg)
        g_trivial = abs(abs(qg[0]) - 1.0) <= 1e-12
        for side in ('left', 'right'):
            if side == 'left':
                Q = np.array([rq.qmul(qg, p) for p in P]); Rr = np.array([Rg @ r for r in Rp])
                law = 'left-invariant d(gp,gq) = d(p,q)'
            else:
                Q = np.array([rq.qmul(p, qg) for p in P]); Rr = np.array([r @ Rg for r in Rp])
                law = 'right-invariant d(pg,qg) = d(p,q)'
            for i in range(n):
                kf = lambda j: f'{tag} g={g} p={i} q={j} t={tstr(T[i, j])}'
                diff = T[i] > SAME          # coincident pairs (gp, gq = +-gp) fall under the zero-set law instead
                for m in NROW:
                    if m in QM:
                        V = _call_n(ctx, m, np.tile(Q[i], (n, 1)), Q, lambda: kf(0))
                    else:
                        V = _call_n(ctx, m, np.tile(Rr[i], (n, 1, 1)), Rr, lambda: kf(0))
                    _nearv(ctx, np.where(diff, V, 0.0), np.where(diff, DN[m][i], 0.0), TOL, f'{m}[N-row] {law}', kf, track=f'inv.{m}')
                    _nearv(ctx, np.where(diff, 0.0, V), 0.0, TOL, f'{m}[N-row] zero set (d = 0 <=> same rotation)', kf)
                for j in range(n):
                    key = lambda: kf(j)
                    for m in QM + RM:
                        v = _call(ctx, m, Q[i], Q[j], key) if m in QM else _call(ctx, m, Rr[i], Rr[j], key)
                        if diff[j]:
                            _near(ctx, v, D[m][i, j], TOL, f'{m}[single] {law}', key, track=f'inv.{m}')
                        else:
                            _near(ctx, v, 0.0, TOL, f'{m}[single] zero set (d = 0 <=> same rotation)', key)
                    if not g_trivial and T[i, j] > SAME:
                        ctx.seen(('inv', tag, side, g, i, j))
            ctx.transitions += n * n
            ctx.cls('inv:' + side, n * n)
            ctx.cls('entry:N-row', 5 * n)
            ctx.cls('entry:single', 7 * n * n)
    ctx.max_depth = max(ctx.max_depth, 2)
    ctx.sample({'invariance': tag, 'g': Gm[g_lo].tolist(), 'p': P[1].tolist(), 'q': P[-1].tolist(),
                'gp': rq.qmul(Gm[g_lo], P[1]).tolist(), 'gq': rq.qmul(Gm[g_lo], P[-1]).tolist()})


# ---- (c) triangle inequality on complete triple tables ----------------------------------------------------
def _fail_many(ctx, site, idx, keyf, obsf, expf, tol):
    room = max(0, ctx.MAX_VIOL_PER_SITE - ctx.viol_count[site])
    for x in idx[:room]:
        ctx.fail(site, keyf(x), obsf(x), expf(x), tol)
    if len(idx) > room:
        ctx.viol_count[site] += len(idx) - room


def job_tri(ctx, sname, k, m):
    """All n^3 triples of one set for one metric: the n x n table is produced by the library, every triple is judged."""
    S = _set(sname, k)
    n = len(S)
    Rm = np.array([rq.R(q) for q in S])
    T = np.array([_tangles(S, i) for i in range(n)])
    first = (m == TRI[0])          # accounting of the walked triples is done once per set, not once per metric
    tables = {}
    D = np.empty((n, n))
    for i in range(n):
        for j in range(n):
            key = lambda: f'{sname}#k{k} p={i} q={j} t={tstr(T[i, j])}'
            D[i, j] = _f(_call(ctx, m, *((S[i], S[j]) if m in QM else (Rm[i], Rm[j])), key))
    tables['single'] = D
    if m in NROW:
        DN = np.empty((n, n))
        for i in range(n):
            row = lambda: f'{sname}#k{k} row={i}'
            if m in QM:
                DN[i] = _call_n(ctx, m, np.tile(S[i], (n, 1)), S, row)
            else:
                DN[i] = _call_n(ctx, m, np.tile(Rm[i], (n, 1, 1)), Rm, row)
        tables['N-row'] = DN
    if first:
        ctx.states += n * n
    for a in range(n):
        if first:
            tight = np.abs(T[a][:, None] + T - T[a][None, :]) <= 1e-9          # [b, c]
            distinct = (T[a][:, None] > SAME) & (T > SAME) & (T[a][None, :] > SAME)
            ctx.cls('triangle:tight', int((tight & distinct).sum()))
            ctx.cls('triangle:strict', int((~tight & distinct).sum()))
            for b, c in np.argwhere(distinct):
                ctx.seen(('tri', sname, k, a, int(b), int(c)))
            ctx.transitions += n * n
        for e, D in tables.items():
            lhs = D[a][None, :]                     # d(a, c)
            rhs = D[a][:, None] + D                 # d(a, b) + d(b, c)
            bad = np.argwhere(~(lhs <= rhs + TOL_TRI))
            ctx.evals += n * n
            slack = lhs - rhs
            if np.isfinite(slack).any():
                ctx.track(f'triangle.excess.{m}', max(0.0, float(np.nanmax(slack))))
            if len(bad):
                _fail_many(ctx, f'{m}[{e}] triangle inequality d(a,c) <= d(a,b) + d(b,c)', [tuple(x) for x in bad],
                           lambda x: f'{sname}#k{k} a={a} b={x[0]} c={x[1]} tab={tstr(T[a, x[0]])} tbc={tstr(T[x[0], x[1]])} tac={tstr(T[a, x[1]])}',
                           lambda x: {'d(a,c)': D[a, x[1]], 'd(a,b)': D[a, x[0]], 'd(b,c)': D[x[0], x[1]]},
                           lambda x: 'd(a,c) <= d(a,b) + d(b,c)', TOL_TRI)
    ctx.max_depth = max(ctx.max_depth, 2)
    if first:
        ctx.sample({'triangle_table': sname, 'k': k, 'metric': m, 'a': S[0].tolist(), 'b': S[1].tolist(), 'c': S[-1].tolist(),
                    'd(a,c)': D[0, -1], 'd(a,b)': D[0, 1], 'd(b,c)': D[1, -1]})


# ---- (d) closed forms on an explicit angle grid -------------------------------------------------------------
def P12():
    return [('I', np.array([1.0, 0, 0, 0])), ('x90', rq.axang2q([1, 0, 0], math.pi / 2)), ('y180', np.array([0.0, 0, 1, 0])),
            ('d120', np.array([0.5, 0.5, 0.5, 0.5]))] + [(f'M{i}', A.MENU[i]) for i in range(len(A.MENU))]


def tgrid(thorough):
    pi = math.pi
    g = [1e-4, 2e-4, 1e-3, 5e-3, 5.4e-3, 5.6e-3, 1e-2, 0.1, 1.0, 2.0, 3.0,
         pi - 1e-3, pi - 1e-4, pi - 1e-5, pi - 1e-6, pi]
    if thorough:
        g += [1e-4 * 10 ** (j / 8) for j in range(1, 36)]            # log grid 1.3e-4 .. 2.4
        g += [0.1 * j for j in range(2, 32)]                          # 0.2 .. 3.1
        g += [5.47e-3, 5.48e-3, pi / 2, 2 * pi / 3, pi - 1e-1, pi - 1e-2, pi - 3e-5, pi - 2e-5]
    out, seen = [], set()
    for t in sorted(g):
        if tstr(t) not in seen:
            seen.add(tstr(t)); out.append(t)
    return out


TT = [1e-4, 1e-3, 5e-3, 1e-2, 0.1, 1.0, math.pi / 2, 2.0, 3.0]


def job_cf(ctx, pidx):
    pname, p = P12()[pidx]
    Rp = rq.R(p)
    axes = A.AXES()
    grid = tgrid(ctx.thorough)
    cases = []      # (key, q, R(q), t)
    for ai, ax in enumerate(axes):
        for t in grid:
            d = rq.axang2q(ax, t)
            for side in ('right', 'left'):
                q = rq.qmul(p, d) if side == 'right' else rq.qmul(d, p)
                assert abs(rq.qangle(p, q) - t) <= 1e-12, 'reference angle self-check'
                cases.append((f'cf p={pname} axis={ai} side={side} t={tstr(t)}', q, rq.R(q), t, side))
    for key_, q, Rq, t, side in cases:
        key = lambda: key_
        for m in QM:
            v = _call(ctx, m, p, q, key)
            w = _call(ctx, m, q, p, key)
            _judge(ctx, m, 'single', v, t, key)
            _judge(ctx, m, 'single', w, t, key)
            _near(ctx, w, _f(v), TOL, f'{m}[single] symmetric d(a,b) = d(b,a)', key, track=f'sym.{m}')
            _near(ctx, _call(ctx, m, -p, q, key), _f(v), TOL, f'{m}[single] sign d(-q1,q2) = d(q1,-q2) = d(q1,q2)', key, track=f'sign.{m}')
            _near(ctx, _call(ctx, m, p, -q, key), _f(v), TOL, f'{m}[single] sign d(-q1,q2) = d(q1,-q2) = d(q1,q2)', key, track=f'sign.{m}')
            ctx.outcome((m, round(_f(v), 9)))
        for m in RM:
            v = _call(ctx, m, Rp, Rq, key)
            w = _call(ctx, m, Rq, Rp, key)
            _judge(ctx, m, 'single', v, t, key)
            _judge(ctx, m, 'single', w, t, key)
            _near(ctx, w, _f(v), TOL, f'{m}[single] symmetric d(a,b) = d(b,a)', key, track=f'sym.{m}')
            ctx.outcome((m, round(_f(v), 9)))
        ctx.cls('entry:single', 7)
        ctx.cls('cf:' + side)
        _angle_classes(ctx, t)
        ctx.seen(('cf', key_))
        ctx.states += 1
    # N-row entry points over the whole case list of this base rotation
    N = len(cases)
    Pa = np.tile(p, (N, 1)); Qa = np.array([c[1] for c in cases])
    RPa = np.tile(Rp, (N, 1, 1)); RQa = np.array([c[2] for c in cases])
    Tt = np.array([c[3] for c in cases])
    kf = lambda i: cases[i][0]
    k0 = lambda: f'cf p={pname} all rows'
    for m in QM:
        V = _call_n(ctx, m, Pa, Qa, k0)
        W = _call_n(ctx, m, Qa, Pa, k0)
        _judge_v(ctx, m, V, Tt, kf)
        _judge_v(ctx, m, W, Tt, kf)
        _nearv(ctx, W, V, TOL, f'{m}[N-row] symmetric d(a,b) = d(b,a)', kf, track=f'sym.{m}')
        _nearv(ctx, _call_n(ctx, m, -Pa, Qa, k0), V, TOL, f'{m}[N-row] sign d(-q1,q2) = d(q1,-q2) = d(q1,q2)', kf, track=f'sign.{m}')
        _nearv(ctx, _call_n(ctx, m, Pa, -Qa, k0), V, TOL, f'{m}[N-row] sign d(-q1,q2) = d(q1,-q2) = d(q1,q2)', kf, track=f'sign.{m}')
    V = _call_n(ctx, 'chordal', RPa, RQa, k0)
    W = _call_n(ctx, 'chordal', RQa, RPa, k0)
    _judge_v(ctx, 'chordal', V, Tt, kf)
    _judge_v(ctx, 'chordal', W, Tt, kf)
    _nearv(ctx, W, V, TOL, 'chordal[N-row] symmetric d(a,b) = d(b,a)', kf, track='sym.chordal')
    ctx.cls('entry:N-row', 5 * N)
    # geodesic triangles a = p, b = p.delta(t1), c = p.delta(t1 + t2): tight for the angular metrics
    for ai, ax in enumerate(axes):
        for t1 in TT:
            for t2 in TT:
                if t1 + t2 > math.pi + 1e-12:
                    continue
                tac = min(t1 + t2, math.pi)
                b = rq.qmul(p, rq.axang2q(ax, t1)); c = rq.qmul(p, rq.axang2q(ax, t1 + t2))
                Rb, Rc = rq.R(b), rq.R(c)
                key_ = f'geo p={pname} axis={ai} tab={tstr(t1)} tbc={tstr(t2)} tac={tstr(tac)}'
                key = lambda: key_
                for m in TRI:
                    if m in QM:
                        dab, dbc, dac = (_f(_call(ctx, m, x, y, key)) for x, y in ((p, b), (b, c), (p, c)))
                    else:
                        dab, dbc, dac = (_f(_call(ctx, m, x, y, key)) for x, y in ((Rp, Rb), (Rb, Rc), (Rp, Rc)))
                    ctx.evals += 1
                    if dac == dac and dab == dab and dbc == dbc:
                        ctx.track(f'triangle.excess.{m}', max(0.0, dac - dab - dbc))
                    if not (dac <= dab + dbc + TOL_TRI):
                        ctx.fail(f'{m}[single] triangle inequality d(a,c) <= d(a,b) + d(b,c)', key_,
                                 {'d(a,c)': dac, 'd(a,b)': dab, 'd(b,c)': dbc}, 'd(a,c) <= d(a,b) + d(b,c)', TOL_TRI)
                ctx.cls('triangle:geodesic')
                ctx.seen(('geo', key_))
                ctx.transitions += 1
    ctx.sample({'closed_form': cases[5][0], 'p': p.tolist(), 'q': cases[5][1].tolist(), 't': cases[5][3]})


def job_reuse(ctx, k):
    """Call sequences on the SAME argument objects (no defensive copies by the harness): d(A,B), d(B,A), d(A,B) again.  Symmetry must hold
    between the calls, the third answer must equal the first, and the arguments must be left as they were."""
    from mc import alphabet as A
    from mc.ref import quat as rq
    M = _M()
    Qa = A.Gl(A.G24(), k).copy(); Qb = A.Gc(A.G24(), (k + 3) % 8).copy()
    Ra = np.array([rq.R(q) for q in Qa]); Rb = np.array([rq.R(q) for q in Qb])
    for m in ('qdist', 'qeip', 'qcip', 'qad', 'chordal'):
        X, Y = (Ra.copy(), Rb.copy()) if m == 'chordal' else (Qa.copy() * 1.0, Qb.copy() * 1.0)
        X0, Y0 = X.copy(), Y.copy()
        fn = getattr(M, m)
        try:
            d1 = np.asarray(fn(X, Y), float); d2 = np.asarray(fn(Y, X), float); d3 = np.asarray(fn(X, Y), float)
            s1 = float(fn(X[3], Y[3])); s2 = float(fn(Y[3], X[3]))
        except Exception as ex:
            ctx.evals += 1
            ctx.fail(f'{m}: call sequence on the same arrays raises', f'k{k}', f'{type(ex).__name__}: {ex}'[:160], 'distances')
            continue
        ctx.close(d2, d1, TOL, f'{m}[N-row] symmetric d(a,b) = d(b,a) when the same arrays are reused', f'k{k}')
        ctx.close(d3, d1, 0.0, f'{m}[N-row] same answer when called again on the same arrays', f'k{k}')
        ctx.close([s2], [s1], TOL, f'{m}[single] symmetric when the same arrays are reused', f'k{k}')
        ctx.close([s1], [d1[3]], 1e-8, f'{m} single = N-row row on reused arrays', f'k{k}')
        ctx.expect(np.array_equal(X, X0) and np.array_equal(Y, Y0), f'{m} leaves its arguments as they were', f'k{k}', None, 'unchanged')
        ctx.cls('reuse'); ctx.seen(('reuse', m, k))
    for m in ('identity_deviation', 'angular_distance', 'chordal'):
        X, Y = Ra[5].copy(), Rb[7].copy(); X0, Y0 = X.copy(), Y.copy()
        fn = getattr(M, m)
        d1 = float(fn(X, Y)); d2 = float(fn(Y, X)); d3 = float(fn(X, Y))
        ctx.close([d2], [d1], 1e-8, f'{m}[single] symmetric d(a,b) = d(b,a) when the same arrays are reused', f'k{k}')
        ctx.close([d3], [d1], 0.0, f'{m}[single] same answer when called again on the same arrays', f'k{k}')
        ctx.expect(np.array_equal(X, X0) and np.array_equal(Y, Y0), f'{m} leaves its arguments as they were', f'k{k} single', None, 'unchanged')
    # (2) results KEPT by the caller while it goes on calling with other stacks of the same length: each kept result is still the distances of
    #     ITS OWN pairs afterwards and shares no memory with a later result (raw return values are kept, not copies)
    Sg = A.Gl(A.G48(), k)
    for n in (1, 3, 4, 7):
        stacksQ = [(np.array([Sg[(5 * j + t) % len(Sg)] for j in range(n)]), np.array([Sg[(7 * j + 3 * t + 1) % len(Sg)] for j in range(n)])) for t in range(3)]
        for m in QM + ('chordal',):
            fn = getattr(M, m)
            if m == 'chordal':
                stacks = [(np.array([rq.R(q) for q in X]), np.array([rq.R(q) for q in Y])) for X, Y in stacksQ]
            else:
                stacks = stacksQ
            kept = [fn(X.copy(), Y.copy()) for X, Y in stacks]
            for t, ((X, Y), r_) in enumerate(zip(stacks, kept)):
                exp = np.array([float(fn(X[j].copy(), Y[j].copy())) for j in range(n)])
                got = np.asarray(r_, float).reshape(-1)
                ctx.evals += 1
                ctx.expect(got.shape == exp.shape and bool(np.all(np.abs(got - exp) <= 1e-8)), f'{m}[N-row]: a result kept by the caller is still the distances of its own pairs after later calls with stacks of the same length',
                           f'N={n} call#{t} of 3 k{k}', got, exp, 1e-8)
            arrs = [r_ for r_ in kept if isinstance(r_, np.ndarray) and r_.size]
            ctx.expect(not any(np.shares_memory(arrs[a_], arrs[b_]) for a_ in range(len(arrs)) for b_ in range(a_ + 1, len(arrs))), f'{m}[N-row]: results of different calls share no memory', f'N={n} k{k}', 'shared', 'separate')
    ctx.cls('kept-results')
    # (2b) N-row stacks carried by integer / single-precision arrays in EITHER position (exact quarter / half turns have integer elements): the
    #      distances are real numbers - those of the float64 stacks (symmetry included)
    cubeq = [g for g in A.G48() if np.allclose(rq.R(g), np.rint(rq.R(g)))]
    Ri = np.array([np.rint(rq.R(g)) for g in cubeq[:6]]); Rg = np.array([rq.R(Sg[(3 * j + 1) % len(Sg)]) for j in range(6)])
    refAB = np.asarray(M.chordal(Ri.copy(), Rg.copy()), float)
    for cn, conv in (('int64', lambda X: X.astype(np.int64)), ('int8', lambda X: X.astype(np.int8)), ('float32', lambda X: X.astype(np.float32))):
        for which in ('first', 'second'):
            ctx.evals += 1
            try:
                v = np.asarray(M.chordal(conv(Ri), Rg.copy()) if which == 'first' else M.chordal(Rg.copy(), conv(Ri)), float)
            except Exception as ex:
                ctx.fail('chordal[N-row]: raises for an integer / single-precision stack', f'{cn} stack {which} k{k}', repr(ex)[:120], refAB); continue
            ctx.expect(v.shape == refAB.shape and bool(np.all(np.abs(v - refAB) <= 1e-6)), 'chordal[N-row]: same distances whatever numeric type carries either stack', f'{cn} stack {which} k{k}', v, refAB, 1e-6)
    ctx.cls('stack-carriers')
    # (3) two arguments that are views of ONE buffer (a matrix and its transpose, a DCM object and its inverse, a flipped view): different
    #     rotations - the distance is that of independent copies of the same numbers
    from ahrs import DCM
    for gi, qg in enumerate([A.MENU[k], A.MENU[(k + 3) % 8], Sg[11], Sg[30]]):
        R = rq.R(rq.qunit(qg))
        D = DCM(R.copy())
        pairs_v = [('R, R.T', R, R.T), ('R.T, R', R.T, R), ('DCM, DCM.I', D, D.I), ('DCM, DCM.T', D, D.T), ('R, R (the same object)', R, R)]
        for m in RM:
            fn = getattr(M, m)
            for pn, a_, b_ in pairs_v:
                key = f'rotation#{gi} arguments={pn} k{k}'
                ctx.evals += 1
                try:
                    ref = float(fn(np.array(a_, float).copy(), np.array(b_, float).copy()))
                    v = float(fn(a_, b_))
                except Exception as ex:
                    ctx.fail(f'{m}: raises for two arguments that are views of one buffer', key, repr(ex)[:120], 'a distance'); continue
                ctx.expect(abs(v - ref) <= 1e-12, f'{m}: two arguments that share memory (a matrix and its transpose ...) are judged by their VALUES, like independent copies', key, v, ref, 1e-12)
        qv = rq.qunit(qg)
        buf = np.concatenate([qv, qv[::-1]])
        for m in QM:
            fn = getattr(M, m)
            for pn, a_, b_ in (('q, q[::-1] (reversed view)', qv, qv[::-1]), ('two halves of one buffer', buf[:4], buf[4:]), ('q, q (the same object)', qv, qv)):
                ctx.evals += 1
                ref = float(fn(np.array(a_).copy(), np.array(b_).copy())); v = float(fn(a_, b_))
                ctx.expect(abs(v - ref) <= 1e-12, f'{m}: two arguments that share memory are judged by their VALUES, like independent copies', f'rotation#{gi} arguments={pn} k{k}', v, ref, 1e-12)
    ctx.cls('shared-memory-arguments')
    ctx.transitions += 30
    ctx.states += 8


def job_containers(ctx, k):
    """The same pairs handed over in other containers / numeric types / memory layouts (single precision and integer arrays of exactly
    representable rotations, Fortran-ordered arrays, transposed views, nested lists, ahrs.DCM and ahrs.Quaternion objects built from such
    arrays): every metric returns what it returns for the float64 C-ordered arrays."""
    from mc import alphabet as A
    from mc.ref import quat as rq
    from ahrs import DCM, Quaternion
    M = _M()
    G = A.G48()
    cube = [g for g in G if np.allclose(rq.R(g), np.rint(rq.R(g)))]          # 24 signed permutation matrices (exact in every numeric type)
    Rc = [np.rint(rq.R(g)) for g in cube]
    gen = [rq.R(q) for q in (A.MENU[k], A.MENU[(k + 3) % 8], A.Gl(A.G120(), k)[17])]
    Gd = rq.R(A.MENU[(k + 6) % 8])
    mat_carriers = [('float32', lambda R: R.astype(np.float32), True), ('int32', lambda R: R.astype(np.int32), True), ('int8', lambda R: R.astype(np.int8), True),
                    ('int64', lambda R: R.astype(np.int64), True), ('nested list', lambda R: [[float(x) for x in r] for r in R], False),
                    ('Fortran-ordered', lambda R: np.asfortranarray(R), False), ('transposed view', lambda R: R.T.copy().T, False),
                    ('DCM', lambda R: DCM(R.copy()), False), ('DCM(Fortran-ordered)', lambda R: DCM(np.asfortranarray(R)), False),
                    ('DCM(transposed view)', lambda R: DCM(R.T.copy().T), False), ('strided view', lambda R: np.repeat(np.repeat(R, 2, axis=0), 2, axis=1)[::2, ::2], False),
                    # DCM objects that NumPy derives from other DCM objects (their own elements are R)
                    ('DCM(R^T).T', lambda R: DCM(R.T.copy()).T, False), ('DCM(G) @ DCM(G^T R)', lambda R: DCM(Gd.copy()) @ DCM(Gd.T @ R), False),
                    ('DCM(R).copy()', lambda R: DCM(R.copy()).copy(), False), ('DCM(R)[:]', lambda R: DCM(R.copy())[:], False)]
    pairs = [(Rc[i], Rc[j], f'cube[{i}]~cube[{j}]', True) for i, j in ((0, 0), (1, 5), (7, 7), (3, 20), (11, 2), (23, 14))]
    pairs += [(gen[i], gen[j], f'generic#{i}~generic#{j}', False) for i, j in ((0, 1), (1, 2), (2, 2), (2, 0))]
    pairs += [(gen[0], Rc[9], 'generic#0~cube[9]', False), (Rc[4], gen[1], 'cube[4]~generic#1', False)]
    for m in RM:
        fn = getattr(M, m)
        for R1, R2, lab, exact in pairs:
            ref = float(fn(R1.copy(), R2.copy()))
            for cn1, c1, need_exact1 in mat_carriers:
                for cn2, c2, need_exact2 in [('float64', lambda R: R.copy(), False)] + mat_carriers:
                    e1 = bool(np.array_equal(R1, np.rint(R1))); e2 = bool(np.array_equal(R2, np.rint(R2)))
                    for swap in (False, True):
                        if not swap and ((need_exact1 and not e1) or (need_exact2 and not e2)):
                            continue
                        if swap and ((need_exact2 and not e1) or (need_exact1 and not e2)):
                            continue
                        a, b = (c1(R1), c2(R2)) if not swap else (c2(R1), c1(R2))
                        key = f'{lab} first as {cn1 if not swap else cn2}, second as {cn2 if not swap else cn1}'
                        ctx.evals += 1
                        try:
                            v = float(fn(a, b))
                        except Exception as ex:
                            if 'list' in cn1 + cn2 and isinstance(ex, (TypeError, AttributeError)):
                                ctx.outcome(('container-refused', m))
                                continue
                            ctx.fail(f'{m}: raises for arguments in another container / numeric type / layout', key, f'{type(ex).__name__}: {ex}'[:160], ref)
                            continue
                        tol = 1e-6 if 'float32' in cn1 + cn2 else 1e-12
                        ctx.expect(abs(v - ref) <= tol, f'{m}: same distance whatever container / numeric type / layout carries the matrices', key, v, ref, tol)
            ctx.seen(('containers', m, lab))
        ctx.cls('containers:matrix')
    Q8 = [np.array(v, float) for v in ([1, 0, 0, 0], [0, 1, 0, 0], [0, 0, -1, 0], [0, 0, 0, 1], [-1, 0, 0, 0])]
    qgen = [A.MENU[k], A.MENU[(k + 5) % 8]]
    q_carriers = [('float32', lambda q: q.astype(np.float32), False), ('int64', lambda q: q.astype(np.int64), True), ('int list', lambda q: [int(x) for x in q], True),
                  ('float list', lambda q: [float(x) for x in q], False), ('tuple', lambda q: tuple(float(x) for x in q), False),
                  ('Quaternion', lambda q: Quaternion(q.copy()), False), ('strided view', lambda q: np.repeat(q, 2)[::2], False),
                  # objects holding NON-unit numbers (built with versor=False, or derived by arithmetic from a unit object): the same numbers as
                  # a plain array give the same distance, so these must too
                  ('Quaternion(3q, versor=False)', lambda q: Quaternion(3.0 * q, versor=False), False), ('2.5 * Quaternion(q)', lambda q: 2.5 * Quaternion(q.copy()), False),
                  ('Quaternion(q) / 4', lambda q: Quaternion(q.copy()) / 4.0, False)]
    qpairs = [(Q8[i], Q8[j], f'Q8[{i}]~Q8[{j}]') for i, j in ((0, 0), (0, 4), (1, 2), (3, 0))] + [(Q8[1], qgen[0], 'Q8[1]~generic#0'), (qgen[0], qgen[1], 'generic#0~generic#1'),
                                                                                                 (qgen[1], Q8[2], 'generic#1~Q8[2]')]
    for m in QM:
        fn = getattr(M, m)
        for q1, q2, lab in qpairs:
            ref = float(fn(q1.copy(), q2.copy()))
            for cn1, c1, ne1 in q_carriers:
                for cn2, c2, ne2 in [('float64', lambda q: q.copy(), False)] + q_carriers:
                    if (ne1 and not np.array_equal(q1, np.rint(q1))) or (ne2 and not np.array_equal(q2, np.rint(q2))):
                        continue
                    key = f'{lab} first as {cn1}, second as {cn2}'
                    ctx.evals += 1
                    try:
                        v = float(fn(c1(q1), c2(q2)))
                    except (TypeError, AttributeError):
                        ctx.outcome(('container-refused', m))
                        continue
                    except Exception as ex:
                        ctx.fail(f'{m}: raises for arguments in another container / numeric type', key, f'{type(ex).__name__}: {ex}'[:160], ref)
                        continue
                    tol = 2e-3 if 'float32' in cn1 + cn2 else 1e-12           # arccos-type metrics near 0: sqrt(eps_single)
                    ctx.expect(abs(v - ref) <= tol, f'{m}: same distance whatever container / numeric type carries the quaternions', key, v, ref, tol)
            ctx.seen(('containers', m, lab))
        ctx.cls('containers:quaternion')
    # N-row calls with the rows carried by QuaternionArray objects (unit, and non-unit through versors=False or arithmetic) and nested lists
    from ahrs import QuaternionArray
    rowsA = np.array([A.MENU[(k + j) % 8] for j in range(5)]); rowsB = np.array([A.MENU[(k + 3 + 2 * j) % 8] for j in range(5)])
    n_carriers = [('QuaternionArray', lambda X: QuaternionArray(X.copy())), ('QuaternionArray(3X, versors=False)', lambda X: QuaternionArray(3.0 * X, versors=False)),
                  ('QuaternionArray(X) * 0.2 (element-wise)', lambda X: np.multiply(QuaternionArray(X.copy()), 0.2)), ('nested list', lambda X: [[float(x) for x in r] for r in X]),
                  ('float32', lambda X: X.astype(np.float32)), ('Fortran-ordered', lambda X: np.asfortranarray(X))]
    for m in QM:
        fn = getattr(M, m)
        for nrows in (1, 2, 4, 5):
            Xa, Xb = rowsA[:nrows], rowsB[:nrows]
            ref = np.asarray(fn(Xa.copy(), Xb.copy()), float)
            for cn1, c1 in n_carriers:
                for cn2, c2 in [('float64', lambda X: X.copy())] + n_carriers:
                    key = f'N={nrows} k{k} first as {cn1}, second as {cn2}'
                    ctx.evals += 1
                    try:
                        v = np.asarray(fn(c1(Xa), c2(Xb)), float)
                    except (TypeError, AttributeError):
                        ctx.outcome(('container-refused', m)); continue
                    except Exception as ex:
                        ctx.fail(f'{m}: raises for N rows in another container', key, f'{type(ex).__name__}: {ex}'[:160], ref); continue
                    tol = 2e-3 if 'float32' in cn1 + cn2 else 1e-12
                    ctx.expect(v.shape == ref.shape and bool(np.all(np.abs(v - ref) <= tol)), f'{m}: N rows give the same distances whatever container carries them', key, v, ref, tol)
        ctx.cls('containers:quaternion-rows')
    ctx.sample({'matrix_carriers': [c[0] for c in mat_carriers], 'quaternion_carriers': [c[0] for c in q_carriers], 'row_carriers': [c[0] for c in n_carriers]})
    ctx.transitions += len(pairs) * len(RM) + len(qpairs) * len(QM)
    ctx.states += len(pairs) + len(qpairs)


SIZES = [1, 2, 3, 4, 5, 7, 63, 64, 65, 127, 128, 129, 255, 256, 257, 258, 511, 512, 513, 1023, 1024, 1025]


def job_sizes(ctx, k):
    """N-row entry points for stacks of every small size and of sizes around the powers of two (where a blocked / chunked evaluation would
    have its last partial block), with unit and non-unit rows in either argument: row j = the single call on pair j, for every j."""
    from mc import alphabet as A
    from mc.ref import quat as rq
    M = _M()
    G = A.Gl(A.G120(), k)
    H = A.Gc(A.G120(), (k + 3) % 8)
    def rows(n, S, shift):
        return np.array([S[(shift + 7 * j) % len(S)] for j in range(n)])
    scalings = [('unit', None, None), ('first scaled', np.array([3.0, 0.5, 7.0, 1.0, 0.25]), None), ('second scaled', None, np.array([0.5, 2.0, 1.0, 0.75, 4.0])),
                ('both scaled', np.array([3.0, 0.5, 7.0, 1.0, 0.25]), np.array([0.5, 2.0, 1.0, 0.75, 4.0])),
                # magnitudes far from one (the metrics normalise their arguments): rows of 1e-9, 1e-10, 1e-100, 1e+100 next to ordinary ones
                ('second tiny/huge', None, np.array([1.0, 1e-9, 5.0, 1e-10, 1e-3])), ('first tiny/huge', np.array([1e-100, 1.0, 1e100, 1e-8, 2.0]), None),
                ('both tiny/huge', np.array([1e-9, 1e50, 1.0, 1e-12, 1e-100]), np.array([1e100, 1e-9, 1e-10, 1.0, 1e-50]))]
    for n in SIZES:
        Q1u, Q2u = rows(n, G, 0), rows(n, H, 3)
        for sn, s1, s2 in scalings:
            if sn != 'unit' and n > 129:
                continue
            Q1 = Q1u if s1 is None else Q1u * s1[np.arange(n) % 5][:, None]
            Q2 = Q2u if s2 is None else Q2u * s2[np.arange(n) % 5][:, None]
            for m in QM:
                V = _call_n(ctx, m, Q1, Q2, lambda: f'N={n} rows={sn} k{k}')
                fn = getattr(M, m)
                # single calls on a spread of rows (all rows for small N; first, last, and the rows next to the block boundaries for large N)
                idx = sorted(set(list(range(min(n, 6))) + [n - 1, n - 2, n // 2] + [j for j in (63, 64, 127, 128, 255, 256, 511, 512, 1023) if j < n]))
                for j in idx:
                    if j < 0:
                        continue
                    sgl = float(fn(Q1[j].copy(), Q2[j].copy()))
                    ref = CF[m](rq.qangle(rq.qunit(Q1u[j]), rq.qunit(Q2u[j]))) if m in CF else sgl
                    ctx.evals += 1
                    if not (abs(V[j] - sgl) <= 1e-8):
                        ctx.fail(f'{m}[N-row]: row j = the single call on pair j (all stack sizes, unit and non-unit rows)', f'N={n} rows={sn} j={j} k{k}', V[j], sgl, 1e-8)
                    if not (abs(sgl - ref) <= 1e-7):
                        ctx.fail(f'{m}: closed form of the relative angle whatever the magnitudes of the two quaternions (the metric normalises them)', f'N={n} rows={sn} j={j} k{k}', sgl, ref, 1e-7)
            ctx.seen(('sizes', n, sn))
        R1 = np.array([rq.R(q) for q in Q1u]); R2 = np.array([rq.R(q) for q in Q2u])
        V = _call_n(ctx, 'chordal', R1, R2, lambda: f'N={n} k{k}')
        for j in range(n):
            ref = float(np.sqrt(((R1[j] - R2[j]) ** 2).sum()))
            ctx.evals += 1
            if not (abs(V[j] - ref) <= 1e-12):
                ctx.fail('chordal[N-row]: row j = |R1_j - R2_j|_F (all stack sizes)', f'N={n} j={j} k{k}', V[j], ref, 1e-12)
        if 3 <= n <= 65:
            # stacks with missing samples (NaN rows / matrices) in either argument: where the N-row call answers, every OTHER row is the distance of its own pair
            gaps = sorted({1, n // 2, n - 2} & set(range(n - 1)))
            for which in ('first', 'second'):
                for m in QM + ('chordal',):
                    X1, X2 = (Q1u.copy(), Q2u.copy()) if m != 'chordal' else (R1.copy(), R2.copy())
                    (X1 if which == 'first' else X2)[gaps] = np.nan
                    try:
                        with np.errstate(all='ignore'):
                            Vn = np.asarray(getattr(M, m)(X1.copy(), X2.copy()), float)
                    except Exception:
                        ctx.outcome(('nan-rows-refused', m)); continue
                    if Vn.shape != (n,):
                        ctx.fail(f'{m}[N-row] with missing (NaN) samples returns one value per row', f'N={n} gaps={gaps} in {which} k{k}', list(Vn.shape), [n]); continue
                    for j in range(n):
                        if j in gaps:
                            # a missing sample has no distance: never a number (0.0 would say "the two rotations coincide")
                            ctx.evals += 1
                            if not np.isnan(Vn[j]):
                                ctx.fail(f'{m}[N-row]: the row of a missing (NaN) sample is NaN, not a distance', f'N={n} gaps={gaps} in {which} j={j} k{k}', Vn[j], 'nan')
                            continue
                        sgl = float(getattr(M, m)((Q1u if m != 'chordal' else R1)[j].copy(), (Q2u if m != 'chordal' else R2)[j].copy()))
                        ctx.evals += 1
                        if not (abs(Vn[j] - sgl) <= 1e-8):
                            ctx.fail(f'{m}[N-row]: rows next to a missing (NaN) sample keep the distance of their own pair', f'N={n} gaps={gaps} in {which} j={j} k{k}', Vn[j], sgl, 1e-8)
        if n <= 5:
            # every sign pattern of the rows (q and -q are the same rotation, row by row): 2^n patterns on either argument, incl. "only row 0 flipped"
            import itertools as _it
            for m in QM:
                base = np.asarray(getattr(M, m)(Q1u.copy(), Q2u.copy()), float)
                for pat in _it.product((1.0, -1.0), repeat=n):
                    sg = np.array(pat)[:, None]
                    for which in ('first', 'second', 'both'):
                        X1 = Q1u * sg if which in ('first', 'both') else Q1u.copy()
                        X2 = Q2u * (sg if which == 'second' else (sg[::-1] if which == 'both' else 1.0))
                        ctx.evals += 1
                        try:
                            Vs = np.asarray(getattr(M, m)(X1.copy(), X2.copy()), float)
                        except Exception as ex:
                            ctx.fail(f'{m}[N-row] raises for a sign pattern of the rows', f'N={n} signs={pat} on {which} k{k}', repr(ex)[:120], base); continue
                        if Vs.shape != base.shape or not np.all(np.abs(Vs - base) <= 1e-12):
                            ctx.fail(f'{m}[N-row]: unchanged when any subset of the rows is replaced by its negative', f'N={n} signs={pat} on {which} k{k}', Vs, base, 1e-12)
                # coincident rotations given with opposite signs in any subset of rows: exactly the zero set
                for pat in _it.product((1.0, -1.0), repeat=n):
                    Vz = np.asarray(getattr(M, m)(Q1u.copy(), Q1u * np.array(pat)[:, None]), float)
                    ctx.evals += 1
                    if Vz.shape != (n,) or not np.all(np.abs(Vz) <= 3e-8):
                        ctx.fail(f'{m}[N-row]: zero for coincident rotations whatever the signs of the rows', f'N={n} signs={pat} k{k}', Vz, 0.0, 3e-8)
            ctx.cls('stack-sign-patterns')
        V0 = _call_n(ctx, 'chordal', R1, R1, lambda: f'N={n} same k{k}')
        ctx.evals += 1
        if not np.all(V0 == 0.0):
            ctx.fail('chordal[N-row]: coincident rotations are at distance exactly 0 (all stack sizes)', f'N={n} k{k}', float(np.nanmax(np.abs(V0))), 0.0, 0.0)
        ctx.cls('stack-sizes')
    ctx.transitions += len(SIZES) * 5
    ctx.states += len(SIZES)
    ctx.sample({'stack_sizes': SIZES, 'scalings': [s[0] for s in scalings]})


def _first_call_probe(dt):
    """Executed in a process that has made NO metric call before: the first call is on reduced-precision arrays, then float64 pairs at small angles."""
    import numpy as _np
    from ahrs.utils import metrics as M_
    from mc.ref import quat as rq_
    p = rq_.qunit(_np.array([0.4, -0.3, 0.5, 0.7]))
    M_.qdist(p.astype(dt), rq_.qmul(p, rq_.axang2q([1, 2, 3], 0.5)).astype(dt))
    M_.chordal(rq_.R(p).astype(dt), _np.eye(3).astype(dt))
    out = []
    for t in (1e-4, 1e-3, 7.3e-3, 0.0123, 0.3):
        q = rq_.qmul(p, rq_.axang2q([1.0, -2.0, 0.5], t))
        out.append([t] + [float(getattr(M_, m)(p.copy(), q.copy())) for m in ('qdist', 'qeip', 'qcip', 'qad')] + [float(_np.asarray(M_.qad(_np.array([p, p]), _np.array([q, q])))[1])])
    return out


def job_first_call(ctx, dtname):
    """What the FIRST metric call of a process was given (half / single precision arrays) does not change what later float64 calls answer."""
    res = core.in_fresh_child(_first_call_probe, dtname)
    for row in res:
        t = row[0]
        for nm, v in zip(('qdist', 'qeip', 'qcip', 'qad', 'qad[N-row]'), row[1:]):
            ref = CF[nm.split('[')[0]](t)
            ctx.evals += 1
            ctx.expect(abs(v - ref) <= max(1e-7, 1e-6 * ref), f'{nm}: closed form in a process whose first metric call was on {dtname} arrays', f't={t:g}', v, ref, 1e-7)
    ctx.cls('first-call:' + dtname)


def job_nrow_matrix_note(ctx):
    """Not judged: what identity_deviation / angular_distance do with (N,3,3) input (documented for one 3x3 pair)."""
    S = A.Gl(A.G48(), 0)
    R = np.array([rq.R(q) for q in S])
    out = {}
    for m in ('identity_deviation', 'angular_distance'):
        for N in (1, 2, 3, 5):
            try:
                v = np.asarray(getattr(_M(), m)(R[:N].copy(), R[N:2 * N].copy()))
                out[f'{m} N={N}'] = f'returns shape {list(v.shape)}'
            except Exception as ex:
                out[f'{m} N={N}'] = f'raises {type(ex).__name__}: {str(ex)[:80]}'
    ctx.notes['matrix_metrics_on_N_row_input(not judged)'] = out


def run(ctx):
    A.selftest()
    ks = list(range(len(A.MENU))) if ctx.thorough else [A.seed_k(ctx.seed)]
    jobs = []

    def add_pairs(sname, k, n):
        for lo, hi in core.chunks(len(_set(sname, k)), n):
            jobs.append(('job_pairs', (sname, k, lo, hi)))

    def add_inv(pname, gname, k, n):
        for lo, hi in core.chunks(len(_set(gname, k)), n):
            jobs.append(('job_inv', (pname, gname, k, lo, hi)))

    def add_tri(sname, k):
        for m in TRI:
            jobs.append(('job_tri', (sname, k, m)))

    # heaviest first (pool.map hands jobs out in order)
    if ctx.thorough:
        add_inv('G48', 'G48', 0, 16)
        for k in ks[::2]:
            add_inv('G48:c', 'G48:l', k, 16)
        add_tri('G120', 0)
        add_tri('G120:c', ks[0])
        add_tri('G120:l', ks[1])
        add_pairs('G120', 0, 16)
        for k in ks:
            add_pairs('G120:c', k, 16)
            add_pairs('G120:l', k, 16)
            add_pairs('G48:c', k, 4)
            add_pairs('G48:l', k, 4)
            add_tri('G48:c', k)
            add_tri('G48:l', k)
    else:
        k = ks[0]
        add_inv('G24', 'G24', 0, 6)
        add_inv('G24:c', 'G24:l', k, 12)
        add_pairs('G120:c', k, 20)
        add_tri('G48:c', k)
    add_pairs('G48', 0, 6)
    add_tri('G48', 0)
    for pidx in range(len(P12())):
        jobs.append(('job_cf', (pidx,)))
    jobs.append(('job_nrow_matrix_note', ()))
    jobs += [('job_first_call', ('float16',)), ('job_first_call', ('float32',))]
    jobs.append(('job_reuse', (A.seed_k(ctx.seed) if not ctx.thorough else 0,)))
    for kk in (ks if ctx.thorough else ks[:1]):
        jobs.append(('job_containers', (kk,)))
        jobs.append(('job_sizes', (kk,)))
    core.run_jobs(ctx, __name__, jobs)
    ctx.notes['menu_entries'] = ks
    ctx.notes['angle_grid'] = [tstr(t) for t in tgrid(ctx.thorough)]
