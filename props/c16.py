"""C16 — the ellipsoid gravity model satisfies the closed-form level-ellipsoid identities.

Exhaustive parameter lattice  a x f x (GM/a^2) x m  (w derived from m), every lattice ellipsoid built through
`ReferenceEllipsoid` and `WGS`, every latitude x height of a finite grid pushed through `normal_gravity`, plus every
body of `ahrs.common.constants`, plus `international_gravity` / `welmec_gravity`.

Oracles (all independent of the code path judged):
  * defining identities evaluated from (a, f) in a well-conditioned form                       (mc/ref/geodesy.py)
  * Pizzetti's theorem  2 ge/a + gp/b = 3GM/(a^2 b) - 2 w^2
  * ge, gp, J2, U0 from the series-evaluated q0, q0' (finite and smooth at f = 0)            (mc/ref/geodesy.py)
  * Somigliana's formula in its first (symmetric) form; second-order height factor
  * continuity over neighbouring flattenings of the lattice, f = 0 against the smallest positive f included
  * rotating-sphere values for f <= 1e-4
"""
import math
import numpy as np
from mc import core
from mc.ref import geodesy as rg

PID = 'C16'
LEVEL = 'exploration'
RULE = ('complete lattice a x f x GM/a^2 x m (w derived) x class {ReferenceEllipsoid, WGS} x latitude grid x height grid '
        '(quick: the DESIGN lattice 5x10x4x5 x 13 lat x 4 h, moved off-grid by the jitter entry VERIF_SEED mod 8; thorough: '
        '9x19x6x8 x 37 lat x 7 h under all 8 jitter entries); all bodies of constants.py; international/welmec gravity on a '
        'latitude x height grid. evaluations = law instances checked; a case is distinct by (class, a, f, GM/a^2, m, latitude) '
        'and every case is non-trivial (heights are counted as evaluations of that case)')
EPS = 2.220446049250313e-16
K_COND = 1000.0     # conditioning constant of the package's q0, q0' (see ASSUMPTIONS)
TOL = 1e-12
ASSUMPTIONS = [
    'quantifier of the property: a in [1e5,1e8] m, f = 0 or f in [1e-6,0.2], m = w^2 a^2 b/GM <= 0.05, heights 0..0.5 % of a; '
    'the bodies of constants.py are taken as shipped (Jupiter m=0.083, Saturn m=0.14 lie outside the lattice range of m, but every '
    'law checked on them holds for any m)',
    'tolerance 1e-12 relative for every well-conditioned identity (b, e^2, aspect ratio, radii, m, Pizzetti, Somigliana, symmetry, '
    'equator/pole values, height factor, U0); worst observed over the thorough tier <= 1.2e-15',
    "second_eccentricity_squared / linear_eccentricity: the package forms a^2-b^2, which cancels for small f (relative error eps/f "
    "by construction; observed <= 1.03 eps/f); tolerance 1e-12 + 200 eps/f (4.4e-8 at f=1e-6; a swapped a<->b changes e'^2 by 2f relative)",
    "package ge, gp, g(lat,h), J2 against the reference: the package evaluates q0 = 1/2[(1+3/e'^2)atan e' - 3/e'] and q0' in closed "
    "form; both cancel as e' -> 0 (q0 ~ 2/15 e'^3 out of terms ~ 3/e'), so e' q0'/q0 carries a relative error ~ c eps/f^2 and enters "
    "ge, gp, g multiplied by m (J2: by m/3, absolute). Tolerance = 1e-12 + K m eps/f^2 relative, K = 1000; worst observed "
    "normalised error over the thorough tier = 5.2 (ge, gp, g) / 4.4 (J2), i.e. margin 190x; for f >= 3e-3 the observed error is "
    "<= 3.3e-12 (ge, gp) and 2.3e-11 (J2, relative to max(|J2|, m)). The bound is 2.2e-13 m/f^2: it stays below the O(m f) .. O(m) "
    "effect of any formula error for f >= 1e-5 and is 3 orders below it for f >= 1e-3",
    "f = 0 is judged against the limit of the general formula (e' q0'/q0 -> 3): ge -> GM/a^2 (1-3m/2), gp -> GM/a^2 (1+m), "
    "J2 -> -m/3, U0 -> GM/a + w^2 a^2/3 (the reference series are finite at e' = 0); tolerance 1e-12",
    "continuity: |(X(f)-X(f'))_package - (X(f)-X(f'))_reference| <= sum of the two agreement tolerances for neighbouring lattice "
    "flattenings (f = 0 against the smallest positive f included), X in {ge, gp, g(45 deg), J2, U0}",
    'rotating sphere (f <= 1e-4): |ge - GM/a^2 (1-m)| and |gp - GM/a^2| <= (2m + 3f) GM/a^2',
    'height: g(h)/g(0) against the second-order factor 1 - 2h/a (1+f+m-2f sin^2) + 3h^2/a^2 (1e-12) and strictly decreasing over the '
    'height grid; the accuracy of that truncated expansion itself is not part of the property',
    "international_gravity: symmetry, positivity, documented domain |lat| <= 90, and closeness to Somigliana's closed formula on the "
    "epoch's own ellipsoid (GRS67, GRS80, WGS84) within 1e-5 m/s^2 (published accuracy of the two-term series 1e-6 m/s^2; observed "
    "6.8e-7 / 6.4e-7 for 1967 / 1984, and 6.5e-7 for 1980 once its equatorial constant is 9.7803267715); epochs 1930/1948 predate "
    "GM-defined ellipsoids and are checked for symmetry/sign/domain only. welmec_gravity: symmetry, sign, decreasing in h, within "
    "5e-5 m/s^2 of WGS84 Somigliana at h = 0 (observed 7.8e-6)",
    'authalic_sphere_radius and mean_normal_gravity are truncated series (not identities) and out of scope, as are the WGS inertial moments',
    'seed: quick explores the DESIGN lattice itself (jitter entry 0) plus the off-grid copy VERIF_SEED mod 8; thorough explores all 8',
]
REQUIRED_CLASSES = ['lat:arrays-nan-range-2d', 'lat:number-types', 'param-carriers', 'param-carriers:f=0', 'latitude-grids', 'object-history', 'f=0', 'f:tiny(<=1e-5)', 'f:small(<=1e-3)', 'f:earthlike(<=0.01)', 'f:large(>0.01)', 'cls:ReferenceEllipsoid',
                    'cls:WGS', 'lat:equator', 'lat:pole', 'lat:mid', 'lat:near-pole/equator', 'h=0', 'h>0', 'continuity:f=0',
                    'continuity:f>0', 'body', 'body:f=0', 'igf', 'welmec']

# ------------------------------------------------------------------------------------------------ alphabets
A_Q = [1e5, 1e6, 6378137.0, 1e7, 1e8]
F_Q = [0.0, 1e-6, 1e-5, 1e-4, 1e-3, 1 / 298.257223563, 0.01, 0.05, 0.1, 0.2]
G_Q = [0.1, 1.6, 9.8, 25.0]
M_Q = [1e-8, 1e-4, 3.4e-3, 1e-2, 4.9e-2]
LAT_Q = [0.0, 1e-6, -1e-6, 30.0, -30.0, 45.0, -45.0, 60.0, -60.0, 89.999, -89.999, 90.0, -90.0]
H_Q = [0.0, 1e-4, 1e-3, 5e-3]                      # in units of a

A_T = [1e5, 3e5, 1e6, 1738100.0, 6378137.0, 1e7, 2.5e7, 7.1492e7, 1e8]
F_T = [0.0, 1e-6, 2e-6, 5e-6, 1e-5, 3e-5, 1e-4, 3e-4, 1e-3, 2e-3, 1 / 298.257223563, 5e-3, 0.01, 0.02, 0.05,
       0.0648743915403122, 0.1, 0.15, 0.2]
G_T = [0.1, 0.62, 1.6, 3.7, 9.8, 25.0]
M_T = [1e-8, 1e-6, 1e-4, 1e-3, 3.4e-3, 1e-2, 2e-2, 4.9e-2]
LAT_T = [0.0] + [s * v for v in (1e-9, 1e-6, 1e-3, 5.0, 15.0, 23.5, 30.0, 37.0, 45.0, 50.0, 54.735610317245346, 60.0,
                                   70.0, 80.0, 89.0, 89.999, 89.999999, 90.0) for s in (1, -1)]
H_T = [0.0, 1e-9, 1e-6, 1e-4, 1e-3, 2.5e-3, 5e-3]

# jitter menu: (ja, jf, jg, jm); entry 0 is the lattice itself.  f is clamped to [1e-6, 0.2], m*jm <= 0.05, a*ja in [1e5,1e8]
JIT = [(1.0, 1.0, 1.0, 1.0), (1.0 / 1.2345678, 1.137, 0.87654321, 0.9137), (1.0 / 1.7320508, 0.731, 1.1931, 1.0193),
       (1.0 / 1.0101, 1.9, 0.7071, 0.611), (1.0 / 2.7182818, 0.55, 1.4142, 0.777), (1.0 / 1.4959787, 1.4, 0.93, 0.31),
       (1.0 / 3.1415926, 0.9, 1.618, 0.5), (1.0 / 1.1, 1.25, 0.45, 1.02)]

BODIES = ['EARTH', 'MOON', 'MERCURY', 'VENUS', 'MARS', 'JUPITER', 'SATURN', 'URANUS', 'NEPTUNE', 'PLUTO']

# ellipsoids behind the closed-formula epochs of international_gravity: (a, 1/f, GM, w)
EPOCH_ELLIPSOID = {'1967': (6378160.0, 298.247167427, 3.98603e14, 7.2921151467e-5),
                   '1980': (6378137.0, 298.257222101, 3.986005e14, 7.292115e-5),
                   '1984': (6378137.0, 298.257223563, 3.986004418e14, 7.292115e-5)}
IGF_SOMIGLIANA_TOL = 1e-5   # m/s^2


def _alph(ctx):
    if ctx.thorough:
        return A_T, F_T, G_T, M_T, LAT_T, H_T
    return A_Q, F_Q, G_Q, M_Q, LAT_Q, H_Q


def _jit(k, a, f, g0, m):
    ja, jf, jg, jm = JIT[k]
    a2 = a * ja if a * ja >= 1e5 else a / ja          # stay inside [1e5, 1e8]
    if a2 > 1e8:
        a2 = a
    f2 = 0.0 if f == 0.0 else min(max(f * jf, 1e-6), 0.2)
    return a2, f2, g0 * jg, min(m * jm, 0.05)


def fkey(f):
    """'f=0' appears in a key if and only if the flattening is exactly zero (other values never start with the digit 0)."""
    return 'f=0' if f == 0.0 else 'f=%.6e' % f


def fclass(f):
    if f == 0.0:
        return 'f=0'
    if f <= 1e-5:
        return 'f:tiny(<=1e-5)'
    if f <= 1e-3:
        return 'f:small(<=1e-3)'
    if f <= 0.01:
        return 'f:earthlike(<=0.01)'
    return 'f:large(>0.01)'


def latclass(lat):
    x = abs(lat)
    if x == 0.0:
        return 'lat:equator'
    if x == 90.0:
        return 'lat:pole'
    if x < 0.01 or x > 89.99:
        return 'lat:near-pole/equator'
    return 'lat:mid'


def tol_cond(f, m):
    """Relative agreement tolerance of the package's ge, gp (and J2 in units of m) with the reference."""
    if f == 0.0:
        return TOL
    return TOL + K_COND * m * EPS / (f * f)


def tol_j2(R):
    """Absolute agreement tolerance of the package's J2: only the m-term (m/3)(1-f)^2 (2/15)/S carries the q0 cancellation."""
    t = TOL * max(abs(R.J2), R.m)
    return t if R.f == 0.0 else t + K_COND * (R.m / 3.0) * EPS / (R.f * R.f)


def tol_cancel(f):
    return TOL if f == 0.0 else TOL + 200.0 * EPS / f


def _cls(name):
    from ahrs.utils import ReferenceEllipsoid, WGS
    return {'ReferenceEllipsoid': ReferenceEllipsoid, 'WGS': WGS}[name]


def _rel(x, y, scale=None):
    s = abs(y) if scale is None else scale
    try:
        x = float(x)
    except Exception:
        return float('nan')
    if x != x:
        return float('nan')
    d = abs(x - y)
    return d / s if s > 0 else d


class _Bad:
    """Placeholder for a property that raised."""
    def __init__(self, ex):
        self.ex = f'{type(ex).__name__}: {ex}'


def _prop(ctx, E, name, key):
    try:
        v = getattr(E, name)
        if isinstance(v, complex) or (isinstance(v, np.generic) and np.iscomplexobj(v)):
            raise TypeError(f'complex value {v!r}')
        return float(v)
    except Exception as ex:
        ctx.evals += 1
        ctx.fail(f'{name}: evaluates to a real number', key, f'{type(ex).__name__}: {ex}', 'a float')
        return float('nan')


def _ok(e, tol):
    return e == e and e <= tol


# ------------------------------------------------------------------------------------------------ one ellipsoid
def check_constants(ctx, E, R, ekey, track=True):
    """Derived constants of one ellipsoid E (package) against R (reference). Returns dict of package values."""
    a, f, m = R.a, R.f, R.m
    P = {n: _prop(ctx, E, n, ekey) for n in
         ('first_eccentricity_squared', 'second_eccentricity_squared', 'linear_eccentricity', 'aspect_ratio',
          'curvature_polar_radius', 'arithmetic_mean_radius', 'equivolumetric_sphere_radius', 'normal_gravity_constant',
          'dynamical_form_factor', 'second_degree_zonal_harmonic', 'normal_gravity_potential',
          'equatorial_normal_gravity', 'polar_normal_gravity')}
    P['b'] = float(E.b)
    tr = ctx.track if track else (lambda *_: None)

    def law(site, val, ref, tol, scale=None, tname=None):
        e = _rel(val, ref, scale)
        if tname:
            tr(tname, e)
        ctx.expect(_ok(e, tol), site, ekey, val, ref, tol)
        return e

    # --- defining identities
    law('b = a(1-f)', P['b'], a - a * f, TOL, tname='ident.b')
    law('first_eccentricity_squared = (a^2-b^2)/a^2', P['first_eccentricity_squared'], R.e2, TOL, tname='ident.e2')
    tc = tol_cancel(f)
    e = law("second_eccentricity_squared = (a^2-b^2)/b^2", P['second_eccentricity_squared'], R.es2, tc)
    if f > 0:
        tr('ident.es2.units_of_eps/f', e / (EPS / f))
    e = law('linear_eccentricity = sqrt(a^2-b^2)', P['linear_eccentricity'], R.E, tc)
    if f > 0:
        tr('ident.E.units_of_eps/f', e / (EPS / f))
    # cross identities between package outputs
    e2p, es2p = P['first_eccentricity_squared'], P['second_eccentricity_squared']
    law("e'^2 = e^2/(1-e^2)", es2p, e2p / (1 - e2p) if e2p == e2p else float('nan'), tc)
    law('linear_eccentricity = a e', P['linear_eccentricity'], a * math.sqrt(e2p) if e2p == e2p and e2p >= 0 else float('nan'), tc)
    law('aspect_ratio = b/a', P['aspect_ratio'], 1.0 - f, TOL, tname='ident.other')
    law('curvature_polar_radius = a^2/b', P['curvature_polar_radius'], a * a / R.b, TOL, tname='ident.other')
    law('arithmetic_mean_radius = (2a+b)/3', P['arithmetic_mean_radius'], (2 * a + R.b) / 3.0, TOL, tname='ident.other')
    law('equivolumetric_sphere_radius = cbrt(a^2 b)', P['equivolumetric_sphere_radius'], (a * a * R.b) ** (1.0 / 3.0), TOL, tname='ident.other')
    law('normal_gravity_constant = w^2 a^2 b/GM', P['normal_gravity_constant'], m, TOL, tname='ident.m')

    # --- equatorial / polar gravity
    ge, gp = P['equatorial_normal_gravity'], P['polar_normal_gravity']
    piz = R.pizzetti_residual(ge, gp) if ge == ge and gp == gp else float('nan')
    if f > 0:
        tr('pizzetti.rel(f>0)', abs(piz))
    ctx.expect(_ok(abs(piz), TOL), 'Pizzetti: 2ge/a + gp/b = 3GM/(a^2 b) - 2w^2', ekey,
               {'ge': ge, 'gp': gp, 'residual_rel': piz}, {'ge': R.ge, 'gp': R.gp, 'residual_rel': 0.0}, TOL)
    ctx.expect(ge > 0 and gp > 0, 'ge > 0 and gp > 0', ekey, [ge, gp], '> 0')
    t = tol_cond(f, m)
    for nm, val, ref in (('equatorial_normal_gravity', ge, R.ge), ('polar_normal_gravity', gp, R.gp)):
        e = law(f'{nm} = level-ellipsoid reference', val, ref, t)
        if f >= 3e-3:
            tr('gegp.ref.rel(f>=3e-3)', e)
        if 0 < f <= 1e-3 and m >= 1e-4:
            tr('gegp.ref.cond_units', e / (m * EPS / (f * f)))
    if f <= 1e-4:
        bound = (2 * m + 3 * f)
        g0 = R.g_sphere
        ctx.expect(_ok(abs(ge - g0 * (1 - m)) / g0, bound), 'ge close to the rotating-sphere value GM/a^2 - w^2 a (small f)', ekey,
                   ge, g0 * (1 - m), bound)
        ctx.expect(_ok(abs(gp - g0) / g0, bound), 'gp close to the sphere value GM/a^2 (small f)', ekey, gp, g0, bound)
    # --- J2, C20, U0
    J2 = P['dynamical_form_factor']
    # J2 = e^2/3 - (m/3)(1-f)^2 (2/15)/S: only the m-term carries the q0 cancellation -> absolute bound in units of m/3
    tj = tol_j2(R)
    e = abs(J2 - R.J2) if J2 == J2 else float('nan')
    if f >= 3e-3:
        tr('J2.ref.abs/max(J2,m)(f>=3e-3)', e / max(abs(R.J2), m))
    if 0 < f <= 1e-3 and m >= 1e-4:
        tr('J2.ref.cond_units', e / ((m / 3.0) * EPS / (f * f)))
    ctx.expect(_ok(e, tj), 'dynamical_form_factor = level-ellipsoid reference', ekey, J2, R.J2, tj)
    law('second_degree_zonal_harmonic = -J2/sqrt(5)', P['second_degree_zonal_harmonic'], -J2 / math.sqrt(5.0) if J2 == J2 else float('nan'),
        TOL, scale=max(abs(J2), 1e-300) if J2 == J2 else 1.0)
    law('normal_gravity_potential = level-ellipsoid reference', P['normal_gravity_potential'], R.U0, TOL, tname=None if f == 0 else 'U0.ref.rel')
    return P


import numpy as _npm
_np_int64, _np_int32, _np_float32 = _npm.int64, _npm.int32, _npm.float32
_np_0d = lambda x: _npm.array(float(x))


def check_gravity(ctx, E, R, P, ekey, lats, hs, clsname):
    """normal_gravity over the latitude x height grid of one ellipsoid."""
    a, f, m = R.a, R.f, R.m
    ge, gp = P['equatorial_normal_gravity'], P['polar_normal_gravity']
    t = tol_cond(f, m)
    G = {}

    def call(lat, h):
        try:
            v = E.normal_gravity(lat, h) if h != 0.0 else E.normal_gravity(lat)
            return float(v)
        except Exception as ex:
            ctx.fail('normal_gravity: evaluates to a real number', f'{ekey} lat={lat!r} h={h:g}', f'{type(ex).__name__}: {ex}', 'a float')
            return float('nan')

    for lat in lats:
        lkey = f'{ekey} lat={lat!r}'
        ctx.seen((clsname, a, f, R.GM, R.w, lat))
        ctx.cls(latclass(lat))
        prev = None
        for hu in hs:
            h = hu * a
            g = call(lat, h)
            G[(lat, hu)] = g
            hkey = lkey if hu == 0.0 else f'{lkey} h={hu:g}a'
            ctx.cls('h=0' if hu == 0.0 else 'h>0')
            ctx.expect(g > 0, 'normal_gravity > 0', hkey, g, '> 0')
            ref = R.normal_gravity(lat, h)
            e = _rel(g, ref)
            if f >= 3e-3:
                ctx.track('g.ref.rel(f>=3e-3)', e)
            if 0 < f <= 1e-3 and m >= 1e-4:
                ctx.track('g.ref.cond_units', e / (m * EPS / (f * f)))
            ctx.expect(_ok(e, t), 'normal_gravity(lat, h) = level-ellipsoid reference', hkey, g, ref, t)
            if hu == 0.0:
                som = R.somigliana(lat, ge, gp) if ge == ge and gp == gp else float('nan')
                e = _rel(g, som)
                ctx.track('g.somigliana.rel', e)
                ctx.expect(_ok(e, TOL), 'normal_gravity(lat) = Somigliana(ge, gp) [first form]', hkey, g, som, TOL)
                g_surf = g
            else:
                hf = R.height_factor(lat, h)
                e = _rel(g, g_surf * hf)
                ctx.track('g.height_factor.rel', e)
                ctx.expect(_ok(e, TOL), 'normal_gravity(lat, h) = normal_gravity(lat, 0) x second-order height factor', hkey,
                           g, g_surf * hf, TOL)
                ctx.expect(g < prev, 'normal_gravity strictly decreases with height', hkey, g, f'< {prev!r}')
            prev = g
        ctx.outcome((round(G[(lat, 0.0)] / R.g_sphere, 9) if G[(lat, 0.0)] == G[(lat, 0.0)] else 'nan'))
    # whole-degree latitudes carried by other numeric types (Python int, numpy integers, single precision)
    for lat in lats:
        if float(lat) == int(lat) and (lat, 0.0) in G and G[(lat, 0.0)] == G[(lat, 0.0)]:
            for cn, cv in (('int', int), ('numpy.int64', _np_int64), ('numpy.int32', _np_int32), ('numpy.float32', _np_float32), ('0-d array', _np_0d)):
                try:
                    v = float(E.normal_gravity(cv(lat)))
                except TypeError:
                    ctx.outcome(('lat-type-refused', cn))
                    continue
                except Exception as ex:
                    ctx.fail('normal_gravity(latitude in another numeric type) raises', f'{ekey} lat={lat!r} as {cn}', f'{type(ex).__name__}: {ex}'[:120], G[(lat, 0.0)])
                    continue
                tl = 1e-6 if cn == 'numpy.float32' else TOL
                ctx.expect(_ok(_rel(v, G[(lat, 0.0)]), tl), 'normal_gravity(lat) does not depend on the numeric type carrying the latitude', f'{ekey} lat={lat!r} as {cn}', v, G[(lat, 0.0)], tl)
            ctx.cls('lat:number-types')
    # the whole latitude grid at once as ONE array, twice on the same array object: equal to the scalar answers, array untouched
    import numpy as _np
    larr = _np.array([float(x) for x in lats]); lcopy = larr.copy()
    for rep in (1, 2):
        for hu in hs[:2]:
            try:
                v = _np.asarray(E.normal_gravity(larr, hu * a) if hu != 0.0 else E.normal_gravity(larr), float)
                exp = _np.array([G[(lat, hu)] for lat in lats])
                ok = v.shape == exp.shape and bool(_np.all(_np.abs(v - exp) <= TOL * _np.abs(exp)))
                ctx.expect(ok, 'normal_gravity(latitude array, h) = the scalar answers, on every call', f'{ekey} call#{rep} h={hu:g}a', v[:3], exp[:3], TOL)
            except Exception as ex:
                ctx.evals += 1
                ctx.fail('normal_gravity(latitude array) raises', f'{ekey} call#{rep} h={hu:g}a', f'{type(ex).__name__}: {ex}'[:160], 'an array')
    ctx.expect(bool(_np.array_equal(larr, lcopy)), 'normal_gravity leaves the latitude array as it was', ekey, larr[:3], lcopy[:3])
    # arrays of every small number of latitudes (1 ... 5), as ndarray and as list, at two places of the grid, on the surface and above it
    for nb in (1, 2, 3, 4, 5):
        for off in (0, max(0, len(lats) - nb)):
            sub = [float(x) for x in lats[off:off + nb]]
            if len(sub) < nb:
                continue
            whole = all(float(x) == int(x) for x in sub)
            convs = [('ndarray', lambda x: _np.array(x)), ('list', lambda x: list(x))]
            if whole:       # whole degrees held in integer-typed containers (np.arange(-90, 91, 15) and the like)
                convs += [('int64 array', lambda x: _np.array(x).astype(_np.int64)), ('int32 array', lambda x: _np.array(x).astype(_np.int32)), ('int list', lambda x: [int(v) for v in x]),
                          ('float32 array', lambda x: _np.array(x, _np.float32))]
            for cn, conv in convs:
                for hu in hs[:2]:
                    try:
                        v = _np.asarray(E.normal_gravity(conv(sub), hu * a) if hu != 0.0 else E.normal_gravity(conv(sub)), float)
                    except TypeError:
                        ctx.outcome(('latitude-container-refused', cn)); continue
                    except Exception as ex:
                        ctx.evals += 1
                        ctx.fail('normal_gravity(short latitude array) raises', f'{ekey} N={nb} offset={off} as {cn} h={hu:g}a', f'{type(ex).__name__}: {ex}'[:160], 'N values'); continue
                    exp = _np.array([G[(lat, hu)] for lat in lats[off:off + nb]])
                    tl_ = 1e-6 if cn == 'float32 array' else TOL
                    ok = v.shape == exp.shape and bool(_np.all(_np.abs(v - exp) <= tl_ * _np.abs(exp)))
                    ctx.expect(ok, 'normal_gravity(array of N latitudes, h) = the N scalar answers, for every small N', f'{ekey} N={nb} offset={off} as {cn} h={hu:g}a', v, exp, TOL)
    # a whole-degree grid held in integer-typed containers: the values of the float scalar route, as floats
    grid_i = list(range(-90, 91, 15))
    try:
        exp_g = _np.array([float(E.normal_gravity(float(l))) for l in grid_i])
        for cn, conv in (('int64 array (np.arange)', lambda: _np.arange(-90, 91, 15)), ('int32 array', lambda: _np.arange(-90, 91, 15).astype(_np.int32)), ('int list', lambda: list(grid_i)),
                         ('float64 array', lambda: _np.arange(-90, 91, 15).astype(float))):
            for hu in hs[:2]:
                try:
                    v = _np.asarray(E.normal_gravity(conv(), hu * a) if hu != 0.0 else E.normal_gravity(conv()))
                except TypeError:
                    ctx.outcome(('latitude-container-refused', cn)); continue
                ex_h = exp_g if hu == 0.0 else _np.array([float(E.normal_gravity(float(l), hu * a)) for l in grid_i])
                ok = v.shape == ex_h.shape and v.dtype.kind == 'f' and bool(_np.all(_np.abs(v.astype(float) - ex_h) <= TOL * _np.abs(ex_h)))
                ctx.expect(ok, 'normal_gravity(whole-degree grid in an integer-typed container) = the float scalar answers (as floats)', f'{ekey} grid as {cn} h={hu:g}a', v[:4], ex_h[:4], TOL)
    except Exception as ex:
        ctx.evals += 1
        ctx.fail('normal_gravity(whole-degree grid) raises', ekey, f'{type(ex).__name__}: {ex}'[:160], 'values')
    # (a) latitude arrays with missing entries (NaN): every valid entry keeps its own value;  (b) latitudes outside [-90, 90] follow the
    # periodicity of sin^2 (100 -> 80, 180 -> 0, 270 -> 90, 720 -> 0, -450 -> 90, 190 -> 10, -181 -> 1);  (c) 2-D latitude arrays (grids)
    try:
        base_l = [0.0, 30.0, 90.0, -30.0, 60.0, -90.0, 45.0]
        ref_l = {l: float(E.normal_gravity(l)) for l in base_l}
        for gaps in ((2,), (1, 4), (0, 3, 5), (6,)):
            arr = _np.array(base_l); arr[list(gaps)] = _np.nan
            for hu in hs[:2]:
                try:
                    with _np.errstate(all='ignore'):
                        v = _np.asarray(E.normal_gravity(arr.copy(), hu * a) if hu != 0.0 else E.normal_gravity(arr.copy()), float)
                except Exception:
                    ctx.outcome('nan-latitudes-refused'); continue
                exp_h = _np.array([float(E.normal_gravity(l, hu * a)) if hu != 0.0 else ref_l[l] for l in base_l])
                ok = v.shape == (len(base_l),) and all(abs(v[i] - exp_h[i]) <= TOL * abs(exp_h[i]) for i in range(len(base_l)) if i not in gaps)
                ctx.expect(ok, 'normal_gravity(latitude array with missing entries): every valid entry keeps its own value', f'{ekey} gaps={gaps} h={hu:g}a', v, exp_h, TOL)
        for out_l, prin in ((100.0, 80.0), (180.0, 0.0), (270.0, 90.0), (720.0, 0.0), (-450.0, 90.0), (190.0, 10.0), (-181.0, 1.0), (90.000001, 89.999999), (-135.0, 45.0)):
            for hu in hs[:2]:
                g_o = float(E.normal_gravity(out_l, hu * a)) if hu != 0.0 else float(E.normal_gravity(out_l))
                g_p = float(E.normal_gravity(prin, hu * a)) if hu != 0.0 else float(E.normal_gravity(prin))
                ctx.expect(_ok(_rel(g_o, g_p), 1e-9), 'normal_gravity follows the periodicity of sin^2(latitude) outside [-90, 90]', f'{ekey} lat={out_l!r} ~ {prin!r} h={hu:g}a', g_o, g_p, 1e-9)
                ga = _np.asarray(E.normal_gravity(_np.array([out_l, prin]), hu * a) if hu != 0.0 else E.normal_gravity(_np.array([out_l, prin])), float)
                ctx.expect(ga.shape == (2,) and _ok(_rel(ga[0], g_p), 1e-9), 'normal_gravity(array) follows the periodicity of sin^2(latitude) outside [-90, 90]', f'{ekey} lat={out_l!r} ~ {prin!r} h={hu:g}a', ga, g_p, 1e-9)
        la_, lo_ = _np.array([0.0, 30.0, -45.0, 90.0]), _np.array([10.0, 20.0, 30.0])
        for gname, grid in (('meshgrid(lat, lon) xy', _np.meshgrid(la_, lo_)[0]), ('meshgrid(lat, lon) ij', _np.meshgrid(la_, lo_, indexing='ij')[0]), ('tracks x samples', _np.array([[0.0, 30.0, 60.0], [90.0, -30.0, 45.0]]))):
            for hu in hs[:2]:
                try:
                    v = _np.asarray(E.normal_gravity(grid.copy(), hu * a) if hu != 0.0 else E.normal_gravity(grid.copy()), float)
                except Exception:
                    ctx.outcome('2d-latitudes-refused'); continue
                exp2 = _np.vectorize(lambda l: float(E.normal_gravity(float(l), hu * a)) if hu != 0.0 else float(E.normal_gravity(float(l))))(grid)
                ok = v.shape == grid.shape and bool(_np.all(_np.abs(v - exp2) <= TOL * _np.abs(exp2)))
                ctx.expect(ok, 'normal_gravity(2-D latitude array): element (i, j) = the scalar answer for latitude (i, j)', f'{ekey} grid={gname} h={hu:g}a', v.ravel()[:4], exp2.ravel()[:4], TOL)
        ctx.cls('lat:arrays-nan-range-2d')
    except Exception as ex:
        ctx.evals += 1
        ctx.fail('normal_gravity (missing entries / out-of-range / 2-D latitudes) raises', ekey, f'{type(ex).__name__}: {ex}'[:160], 'values')
    # laws that relate grid points
    for lat in lats:
        for hu in hs:
            if lat > 0 and -lat in lats:
                hkey = f'{ekey} lat={lat!r}' + ('' if hu == 0.0 else f' h={hu:g}a')
                e = _rel(G[(-lat, hu)], G[(lat, hu)])
                ctx.track('g.symmetry.rel', e)
                ctx.expect(_ok(e, TOL), 'normal_gravity(-lat, h) = normal_gravity(lat, h)', hkey, G[(-lat, hu)], G[(lat, hu)], TOL)
    if 0.0 in lats:
        e = _rel(G[(0.0, 0.0)], ge)
        ctx.track('g.equator.rel', e)
        ctx.expect(_ok(e, TOL), 'normal_gravity(0) = equatorial_normal_gravity', ekey, G[(0.0, 0.0)], ge, TOL)
    for lat in (90.0, -90.0):
        if lat in lats:
            e = _rel(G[(lat, 0.0)], gp)
            ctx.track('g.pole.rel', e)
            ctx.expect(_ok(e, TOL), 'normal_gravity(+-90) = polar_normal_gravity', f'{ekey} lat={lat!r}', G[(lat, 0.0)], gp, TOL)
    return G


def ekey_of(clsname, a, f, g0, m):
    return f'{clsname} a={a:.6e} {fkey(f)} g0={g0:.6e} m={m:.6e}'


def job_lattice(ctx, clsname, k, ia, ig):
    """All flattenings x all m of one (class, jitter, a, GM/a^2) column, with the continuity chain over f."""
    rg.selftest()
    As, Fs, Gs, Ms, LATS, HS = _alph(ctx)
    C = _cls(clsname)
    ctx.cls('cls:' + clsname)
    for im, m0 in enumerate(Ms):
        chain = []
        for jf, f0 in enumerate(Fs):
            a, f, g0, m = _jit(k, As[ia], f0, Gs[ig], m0)
            GM = g0 * a * a
            b = a * (1.0 - f)
            w = math.sqrt(m * GM / (a * a * b))
            R = rg.Ellipsoid(a, f, GM, w)
            E = C(a, f, GM, w)
            ekey = ekey_of(clsname, a, f, g0, m)
            ctx.cls(fclass(f))
            P = check_constants(ctx, E, R, ekey)
            G = check_gravity(ctx, E, R, P, ekey, LATS, HS, clsname)
            chain.append((f, R, P, G, ekey))
            ctx.traces += 1
            if im == 2 and jf in (0, 5):
                ctx.sample({'class': clsname, 'a': a, 'f': f, 'GM': GM, 'w': w, 'm': R.m, 'ge': P['equatorial_normal_gravity'],
                            'gp': P['polar_normal_gravity'], 'ge_ref': R.ge, 'gp_ref': R.gp, 'g(45deg)': G.get((45.0, 0.0)),
                            'J2': P['dynamical_form_factor'], 'U0': P['normal_gravity_potential']})
        # continuity over neighbouring flattenings (same a, GM/a^2, m up to the jitter clamp)
        chain.sort(key=lambda c: c[0])
        for (f1, R1, P1, G1, k1), (f2, R2, P2, G2, k2) in zip(chain[:-1], chain[1:]):
            if f1 == f2:
                continue
            ckey = f'{clsname} a={R1.a:.6e} {fkey(f1)}~{f2:.6e} g0={R1.g_sphere:.6e} m={R2.m:.6e}'
            ctx.cls('continuity:f=0' if f1 == 0.0 else 'continuity:f>0')
            tt = tol_cond(f1, R1.m) + tol_cond(f2, R2.m)
            g0 = R1.g_sphere
            for nm, x1, x2, r1, r2, scale, tol in (
                    ('equatorial_normal_gravity', P1['equatorial_normal_gravity'], P2['equatorial_normal_gravity'], R1.ge, R2.ge, g0, tt),
                    ('polar_normal_gravity', P1['polar_normal_gravity'], P2['polar_normal_gravity'], R1.gp, R2.gp, g0, tt),
                    ('normal_gravity(45)', G1.get((45.0, 0.0)), G2.get((45.0, 0.0)), R1.normal_gravity(45.0), R2.normal_gravity(45.0), g0, tt),
                    ('dynamical_form_factor', P1['dynamical_form_factor'], P2['dynamical_form_factor'], R1.J2, R2.J2, 1.0,
                     tol_j2(R1) + tol_j2(R2)),
                    ('normal_gravity_potential', P1['normal_gravity_potential'], P2['normal_gravity_potential'], R1.U0, R2.U0,
                     abs(R2.U0), 2 * TOL)):
                d = (x1 - x2) - (r1 - r2)
                e = abs(d) / scale if d == d else float('nan')
                ctx.expect(_ok(e, tol), f'continuity in f: {nm}', ckey, {'f1': x1, 'f2': x2, 'step': x1 - x2},
                           {'f1': r1, 'f2': r2, 'step': r1 - r2}, tol)


def job_bodies(ctx, clsname):
    rg.selftest()
    import ahrs.common.constants as K
    C = _cls(clsname)
    As, Fs, Gs, Ms, LATS, HS = _alph(ctx)
    ctx.cls('cls:' + clsname)
    for body in BODIES:
        A = float(getattr(K, body + '_EQUATOR_RADIUS'))
        B = float(getattr(K, body + '_POLAR_RADIUS'))
        GM = float(getattr(K, body + '_GM'))
        W = float(getattr(K, body + '_ROTATION'))
        f = float(K.EARTH_FLATTENING) if body == 'EARTH' else (A - B) / A
        R = rg.Ellipsoid(A, f, GM, W)
        E = C(A, f, GM, W)
        ekey = f'{clsname} body={body} {fkey(f)}'
        ctx.cls('body')
        ctx.cls(fclass(f))
        if f == 0.0:
            ctx.cls('body:f=0')
        P = check_constants(ctx, E, R, ekey)
        G = check_gravity(ctx, E, R, P, ekey, LATS, HS, clsname + ':' + body)
        ctx.traces += 1
        ctx.sample({'class': clsname, 'body': body, 'a': A, 'f': f, 'GM': GM, 'w': W, 'm': R.m,
                    'ge': P['equatorial_normal_gravity'], 'gp': P['polar_normal_gravity'], 'ge_ref': R.ge, 'gp_ref': R.gp})
    # the default constructors
    if clsname == 'WGS':
        E = C()
        R = rg.Ellipsoid(6378137.0, 1 / 298.257223563, 3.986004418e14, 7.292115e-5)
        ekey = 'WGS() defaults'
        for nm, val, ref in (('a', E.a, R.a), ('f', E.f, R.f), ('gm', E.gm, R.GM), ('w', E.w, R.w)):
            ctx.expect(_ok(_rel(val, ref), TOL), 'WGS() defaults are the WGS84 defining constants', f'{ekey} {nm}', val, ref, TOL)
        P = check_constants(ctx, E, R, ekey)
        check_gravity(ctx, E, R, P, ekey, LATS, HS, 'WGS()')


def job_bodies_interleaved(ctx, clsname):
    """Two-phase history: ALL ellipsoid objects (every body of the constants table, plus WGS84 twins that differ in one parameter only)
    are constructed first and queried only afterwards, in reverse order: an object must not be influenced by objects built after it."""
    rg.selftest()
    import ahrs.common.constants as K
    C = _cls(clsname)
    As, Fs, Gs, Ms, LATS, HS = _alph(ctx)
    specs = []
    for body in BODIES:
        A = float(getattr(K, body + '_EQUATOR_RADIUS')); B = float(getattr(K, body + '_POLAR_RADIUS'))
        GM = float(getattr(K, body + '_GM')); W = float(getattr(K, body + '_ROTATION'))
        f = float(K.EARTH_FLATTENING) if body == 'EARTH' else (A - B) / A
        specs.append((f'body={body}', A, f, GM, W))
    a0, f0, gm0, w0 = 6378137.0, 1 / 298.257223563, 3.986004418e14, 7.292115e-5
    specs += [('twin:w*2', a0, f0, gm0, 2 * w0), ('twin:w=0', a0, f0, gm0, 0.0), ('twin:f*3', a0, 3 * f0, gm0, w0), ('twin:GM/2', a0, f0, gm0 / 2, w0), ('twin:a*1.5', 1.5 * a0, f0, gm0, w0),
              ('twin:base', a0, f0, gm0, w0)]
    objs = [(nm, C(A_, f_, GM_, W_), rg.Ellipsoid(A_, f_, GM_, W_), f_) for nm, A_, f_, GM_, W_ in specs]        # phase 1: construct everything
    for nm, E, R, f_ in reversed(objs):                                                                            # phase 2: query, last built first
        ekey = f'{clsname} interleaved {nm} {fkey(f_)}'
        P = check_constants(ctx, E, R, ekey, track=False)
        check_gravity(ctx, E, R, P, ekey, LATS[::3], HS[:2], clsname + ':interleaved')
        ctx.cls('interleaved-objects')
        ctx.traces += 1
    ctx.sample({'class': clsname, 'interleaved': [s_[0] for s_ in specs]})


def job_mutation(ctx, clsname):
    """History on ONE ellipsoid object: every quantity is evaluated, then the rotation rate or GM attribute is assigned a new value and every
    quantity is evaluated again: the object must answer like a fresh ellipsoid with the current (a, f, GM, w) (no value kept from before)."""
    rg.selftest()
    C = _cls(clsname)
    As, Fs, Gs, Ms, LATS, HS = _alph(ctx)
    a0, f0, gm0, w0 = 6378137.0, 1 / 298.257223563, 3.986004418e14, 7.292115e-5
    starts = [('earth', a0, f0, gm0, w0), ('sphere', 6051800.0, 0.0, 3.24859e14, 2.99e-7), ('mars', 3396190.0, 0.00589, 4.282837e13, 7.088218e-5), ('flat', 1e7, 0.1, 1e15, 2e-4)]
    for nm, a_, f_, gm_, w_ in starts:
        E = C(a_, f_, gm_, w_)
        cur = [a_, f_, gm_, w_]
        for step, (attr, val) in enumerate([(None, None), ('w', 0.0), ('w', 3.0 * w_), ('gm', 2.0 * gm_), ('w', 0.5 * w_), ('gm', gm_)]):
            if attr == 'w':
                E.w = val; cur[3] = val
            elif attr == 'gm':
                E.gm = val; cur[2] = val
            R = rg.Ellipsoid(*cur)
            if R.m >= 0.05:
                continue
            ekey = f'{clsname} one object {nm} step#{step} after {attr}={val!r} {fkey(f_)}'
            P = check_constants(ctx, E, R, ekey, track=False)
            check_gravity(ctx, E, R, P, ekey, LATS[::3], HS[:2], clsname + ':mutated')
            ctx.cls('object-history')
            ctx.traces += 1
    ctx.sample({'class': clsname, 'object_history': 'evaluate; w=0; evaluate; w*=3; evaluate; GM*=2; evaluate ...'})


def job_formulas(ctx):
    """international_gravity / welmec_gravity on the latitude (x height) grid."""
    rg.selftest()
    from ahrs.utils import international_gravity, welmec_gravity, WGS
    As, Fs, Gs, Ms, LATS, HS = _alph(ctx)
    lats = sorted(set(LATS) | {10.0, -10.0, 52.3, -52.3})
    GE = {'1930': 9.78049, '1948': 9.780373, '1967': 9.780318, '1980': None, '1984': 9.7803253359}
    for epoch in ('1930', '1948', '1967', '1980', '1984'):
        R = None
        if epoch in EPOCH_ELLIPSOID:
            a, finv, GM, w = EPOCH_ELLIPSOID[epoch]
            R = rg.Ellipsoid(a, 1.0 / finv, GM, w)
        vals = {}
        for lat in lats:
            key = f'epoch={epoch} lat={lat!r}'
            ctx.cls('igf')
            ctx.seen(('igf', epoch, lat))
            try:
                g = float(international_gravity(lat, epoch=epoch))
            except Exception as ex:
                ctx.evals += 1
                ctx.fail('international_gravity accepts every latitude in [-90, 90]', key, f'{type(ex).__name__}: {ex}', 'a float')
                continue
            vals[lat] = g
            ctx.outcome(('igf', round(g, 7)))
            ctx.expect(g > 0, 'international_gravity > 0', key, g, '> 0')
            if R is not None:
                ref = R.somigliana(lat)
                ctx.track(f'igf.{epoch}.vs_somigliana_m/s2', abs(g - ref))
                ctx.expect(_ok(abs(g - ref), IGF_SOMIGLIANA_TOL), "international_gravity(lat, epoch) ~ Somigliana on the epoch's ellipsoid",
                           key, g, ref, IGF_SOMIGLIANA_TOL)
        for lat in lats:
            if lat > 0 and -lat in vals and lat in vals:
                ctx.expect(_ok(_rel(vals[-lat], vals[lat]), TOL), 'international_gravity(-lat) = international_gravity(lat)',
                           f'epoch={epoch} lat={lat!r}', vals[-lat], vals[lat], TOL)
        for bad in (90.000001, -90.000001, 91.0, -180.0):
            try:
                v = international_gravity(bad, epoch=epoch)
                ctx.expect(False, 'international_gravity refuses |lat| > 90', f'epoch={epoch} lat={bad!r}', v, 'ValueError')
            except ValueError:
                ctx.tick()
            except Exception as ex:
                ctx.expect(False, 'international_gravity refuses |lat| > 90', f'epoch={epoch} lat={bad!r}', repr(ex), 'ValueError')
    # welmec
    wgs = rg.Ellipsoid(6378137.0, 1 / 298.257223563, 3.986004418e14, 7.292115e-5)
    heights = [0.0, 1.0, 80.0, 250.0, 1000.0, 5000.0] if not ctx.thorough else [0.0, 1e-3, 1.0, 80.0, 250.0, 1000.0, 2500.0, 5000.0, 8848.0]
    W = {}
    for lat in lats:
        prev = None
        for h in heights:
            key = f'welmec lat={lat!r} h={h:g}'
            ctx.cls('welmec')
            ctx.seen(('welmec', lat, h))
            try:
                g = float(welmec_gravity(lat, h)) if h != 0.0 else float(welmec_gravity(lat))
            except Exception as ex:
                ctx.evals += 1
                ctx.fail('welmec_gravity accepts every latitude in [-90, 90]', key, f'{type(ex).__name__}: {ex}', 'a float')
                continue
            W[(lat, h)] = g
            ctx.expect(g > 0, 'welmec_gravity > 0', key, g, '> 0')
            if prev is not None:
                ctx.expect(g < prev, 'welmec_gravity strictly decreases with height', key, g, f'< {prev!r}')
            prev = g
            if h == 0.0:
                ref = wgs.somigliana(lat)
                ctx.track('welmec.vs_wgs84_somigliana_m/s2', abs(g - ref))
                ctx.expect(_ok(abs(g - ref), 5e-5), 'welmec_gravity(lat, 0) ~ WGS84 Somigliana', key, g, ref, 5e-5)
    for (lat, h), g in W.items():
        if lat > 0 and (-lat, h) in W:
            ctx.expect(_ok(_rel(W[(-lat, h)], g), TOL), 'welmec_gravity(-lat, h) = welmec_gravity(lat, h)', f'welmec lat={lat!r} h={h:g}',
                       W[(-lat, h)], g, TOL)
    ctx.sample({'international_gravity(45, 1984)': float(international_gravity(45.0, epoch='1984')), 'somigliana_wgs84(45)': wgs.somigliana(45.0),
                'welmec_gravity(52.3, 80)': float(welmec_gravity(52.3, 80.0))})


def job_param_carriers(ctx, clsname):
    """(1) The defining parameters carried by NumPy scalars / 0-d arrays / Python ints (a row of a parameter table, (a-b)/a computed from
    NumPy values) instead of Python floats: every constant and every normal_gravity value is what the float-built ellipsoid gives,
    for flattened bodies and for spheres (f == 0).  (2) Latitudes given as n-D grids in any memory layout (C-ordered, transposed view,
    Fortran-ordered, cube with swapped axes): node by node the value of the scalar call."""
    import ahrs.common.constants as K
    C = _cls(clsname)
    names = ('equatorial_normal_gravity', 'polar_normal_gravity', 'dynamical_form_factor', 'normal_gravity_potential', 'mean_normal_gravity')
    carriers = [('numpy.float64', lambda x: np.float64(x)), ('0-d array', lambda x: np.array(float(x)))]
    which_sets = [('all four', (0, 1, 2, 3)), ('a only', (0,)), ('f only', (1,)), ('a and f', (0, 1)), ('GM and w', (2, 3))]
    lats = [0.0, 30.0, -45.0, 90.0]
    for body in BODIES:
        A_ = float(getattr(K, body + '_EQUATOR_RADIUS')); B_ = float(getattr(K, body + '_POLAR_RADIUS'))
        GM = float(getattr(K, body + '_GM')); W = float(getattr(K, body + '_ROTATION'))
        f = float(K.EARTH_FLATTENING) if body == 'EARTH' else (A_ - B_) / A_
        E0 = C(A_, f, GM, W)
        ref = {}
        with np.errstate(all='ignore'):
            for nm in names:
                try:
                    ref[nm] = float(_prop(ctx, E0, nm, f'{clsname} body={body}')) if hasattr(E0, nm) else None
                except Exception:
                    ref[nm] = None
            gref = {(la, h): float(E0.normal_gravity(la, h)) for la in lats for h in (0.0, 1500.0)}
        for cn, conv in carriers:
            for wn, idx in which_sets:
                vals = [A_, f, GM, W]
                args = [conv(v) if i in idx else v for i, v in enumerate(vals)]
                key = f'{clsname} body={body} {fkey(f)} parameters as {cn} ({wn})'
                ctx.evals += 1
                try:
                    with np.errstate(all='ignore'):
                        E = C(*args)
                        got = {nm: (float(_prop(ctx, E, nm, key)) if ref[nm] is not None else None) for nm in names}
                        gg = {kk: float(E.normal_gravity(kk[0], kk[1])) for kk in gref}
                except (TypeError, AttributeError):
                    ctx.outcome(('parameter-carrier-refused', cn)); continue
                except Exception as ex:
                    ctx.fail('ellipsoid built from NumPy-typed parameters raises', key, repr(ex)[:160], 'the float-built values'); continue
                for nm in names:
                    if ref[nm] is None:
                        continue
                    e = _rel(got[nm], ref[nm])
                    ctx.expect(_ok(e, 1e-12), f'{nm}: same value whatever numeric type carries a, f, GM, w', key, got[nm], ref[nm], 1e-12)
                for kk in gref:
                    e = _rel(gg[kk], gref[kk])
                    ctx.expect(_ok(e, 1e-12), 'normal_gravity: same value whatever numeric type carries a, f, GM, w', f'{key} lat={kk[0]} h={kk[1]}', gg[kk], gref[kk], 1e-12)
                ctx.seen(('param-carrier', clsname, body, cn, wn))
        if f == 0.0:
            ctx.cls('param-carriers:f=0')
        # (2) latitude grids
        base = np.array([[-90.0, -60.0, -10.0, 0.0], [15.0, 30.0, 45.0, 52.5], [60.0, 75.0, 89.0, 90.0]])
        cube = np.stack([base, base[::-1] * 0.5, base * 0.25])          # (3, 3, 4)
        grids = [('C-ordered 3x4', base.copy()), ('transposed view 4x3', base.copy().T), ('Fortran-ordered 3x4', np.asfortranarray(base)), ('strided view', np.repeat(base, 2, axis=1)[:, ::2]),
                 ('cube 3x3x4', cube.copy()), ('cube with swapped axes', np.swapaxes(cube.copy(), 0, 2)), ('cube transposed', cube.copy().T), ('1x1 grid', np.array([[37.0]])), ('4x1 column', base[:1].T.copy())]
        for gn, G_ in grids:
            for h in (0.0, 2500.0):
                key = f'{clsname} body={body} latitudes as {gn} h={h:g}'
                ctx.evals += 1
                try:
                    with np.errstate(all='ignore'):
                        out = np.asarray(E0.normal_gravity(G_, h), float)
                        exp = np.array([float(E0.normal_gravity(float(x), h)) for x in G_.ravel()]).reshape(G_.shape)
                except (TypeError, ValueError):
                    ctx.outcome(('latitude-grid-refused', gn)); continue
                except Exception as ex:
                    ctx.fail('normal_gravity raises for an n-D latitude grid', key, repr(ex)[:160], 'one value per node'); continue
                ok = out.shape == exp.shape and bool(np.all(np.abs(out - exp) <= 1e-12 * np.abs(exp)))
                ctx.expect(ok, 'normal_gravity on an n-D latitude grid: node by node the value of the scalar call, in any memory layout', key, out, exp, 1e-12)
        ctx.cls('latitude-grids')
    ctx.cls('param-carriers')


def run(ctx):
    rg.selftest()
    As, Fs, Gs, Ms, LATS, HS = _alph(ctx)
    ks = list(range(len(JIT))) if ctx.thorough else sorted({0, int(ctx.seed) % len(JIT)})
    jobs = []
    for k in ks:
        for clsname in ('ReferenceEllipsoid', 'WGS'):
            if clsname == 'WGS' and ctx.thorough and k not in (0, 1):
                continue
            for ia in range(len(As)):
                for ig in range(len(Gs)):
                    jobs.append(('job_lattice', (clsname, k, ia, ig)))
    jobs.append(('job_bodies', ('ReferenceEllipsoid',)))
    jobs.append(('job_bodies', ('WGS',)))
    jobs.append(('job_bodies_interleaved', ('ReferenceEllipsoid',)))
    jobs.append(('job_bodies_interleaved', ('WGS',)))
    jobs.append(('job_formulas', ()))
    jobs.append(('job_param_carriers', ('ReferenceEllipsoid',)))
    jobs.append(('job_param_carriers', ('WGS',)))
    jobs.append(('job_mutation', ('ReferenceEllipsoid',)))
    jobs.append(('job_mutation', ('WGS',)))
    core.run_jobs(ctx, __name__, jobs)
    ctx.notes['jitter_entries'] = ks
    ctx.notes['lattice'] = {'a': len(As), 'f': len(Fs), 'GM/a^2': len(Gs), 'm': len(Ms), 'lat': len(LATS), 'h': len(HS),
                            'ellipsoids_per_class_and_jitter': len(As) * len(Fs) * len(Gs) * len(Ms)}
